// spans drives the real trace write path (UnmarshalOTLPV2, UnmarshalZipkinJSONV2,
// UnmarshalZipkinNDJSONV2 -> TempoSamples/TempoTag rows) and the real trace read path
// (TempoService.OutputQuery over a scripted database/sql driver that replays the rows the
// writer produced) on generated span batches, and prints, per batch, the input in an abstract
// form (the one the Coq model Spans.v consumes) together with what the implementation did.
package main

import (
	"context"
	"database/sql"
	"database/sql/driver"
	"encoding/base64"
	"encoding/hex"
	"encoding/json"
	"fmt"
	"io"
	"math"
	"math/bits"
	"math/rand"
	"os"
	"sort"
	"strconv"
	"strings"
	"sync"
	"time"
	"reflect"
	"runtime"
	"unicode/utf16"
	"unicode/utf8"

	chproto "github.com/ClickHouse/ch-go/proto"
	rmodel "github.com/metrico/qryn/reader/model"
	rsvc "github.com/metrico/qryn/reader/service"
	wmodel "github.com/metrico/qryn/writer/model"
	wsvc "github.com/metrico/qryn/writer/service"
	"github.com/metrico/qryn/writer/service/impl"
	"github.com/metrico/qryn/writer/utils/unmarshal"
	"github.com/go-faster/jx"
	"github.com/valyala/fastjson"
	common "go.opentelemetry.io/proto/otlp/common/v1"
	resource "go.opentelemetry.io/proto/otlp/resource/v1"
	trace "go.opentelemetry.io/proto/otlp/trace/v1"
	"google.golang.org/protobuf/encoding/protowire"
	"google.golang.org/protobuf/proto"

	"verif/harness/hx"
)

// ---------------------------------------------------------------- abstract inputs

// AVal: an OTLP AnyValue. T: s string, i int, b bool, d double (M = value*10^6, exact),
// y bytes (S hex), e AnyValue without a oneof, n missing AnyValue (nil pointer), l list, m kvlist.
type AVal struct {
	T  string `json:"t"`
	S  string `json:"s,omitempty"`
	I  int64  `json:"i,omitempty"`
	B  bool   `json:"b,omitempty"`
	M  int64  `json:"m,omitempty"`
	L  []AVal `json:"l,omitempty"`
	KV []KV   `json:"kv,omitempty"`
}
type KV struct {
	K string `json:"k"`
	V AVal   `json:"v"`
}
// OEvent / OStatus: a span's events (time, name, attributes) and status (message, code): untouched by the write path, part of the payload
type OEvent struct {
	T       uint64 `json:"t"`
	N       string `json:"n"`
	Attrs   []KV   `json:"attrs"`
	Dropped uint32 `json:"dropped,omitempty"` // dropped_attributes_count
}
type OStatus struct {
	Msg  string `json:"msg"`
	Code int32  `json:"code"`
}
// OLink / OMore: the remaining fields of a trace.v1.Span (trace_state, dropped counts, flags, links): untouched by the write path, part of the payload
type OLink struct {
	Tid     string `json:"tid"` // hex
	Sid     string `json:"sid"`
	State   string `json:"state"`
	Attrs   []KV   `json:"attrs"`
	Dropped uint32 `json:"dropped"`
	Flags   uint32 `json:"flags"`
}
type OMore struct {
	State   string  `json:"state"`
	DAttrs  uint32  `json:"dattrs"`
	DEvents uint32  `json:"devents"`
	DLinks  uint32  `json:"dlinks"`
	Flags   uint32  `json:"flags"`
	Links   []OLink `json:"links"`
}
type OSpan struct {
	Events []OEvent `json:"events,omitempty"`
	Status *OStatus `json:"status,omitempty"`
	More   *OMore   `json:"more,omitempty"`
	Tid   string `json:"tid"` // hex
	Sid   string `json:"sid"`
	Pid   string `json:"pid"`
	Name  string `json:"name"`
	Start uint64 `json:"start"`
	End   uint64 `json:"end"`
	Kind  int32  `json:"kind"`
	Attrs []KV   `json:"attrs"`
}
type ORes struct {
	HasRes bool      `json:"has_res"`
	Attrs  []KV      `json:"attrs"`
	Scopes [][]OSpan `json:"scopes"`
	// ScopeMsg: rendering knob per scope group (does not reach the model: the decoder never looks at it): 0 = the optional `scope` message
	// (InstrumentationScope) is absent on the wire, 1 = present and empty, 2 = present with name, version and an attribute; Schema: schema_url set
	ScopeMsg []int `json:"scope_msg,omitempty"`
	Schema   bool  `json:"schema,omitempty"`
}

// JV: a JSON value with ordered (possibly repeated) object keys.
// T: s string, i integer (I decimal text, any size), f the float 1.5, n another number that is not an integer literal (S its
// text: exponent / fraction forms, "-0"), x a string given by its JSON text S (quotes included: escapes the renderer would not choose,
// e.g. a lone surrogate), b bool, z null, o object, a array
type JV struct {
	T string `json:"t"`
	S string `json:"s,omitempty"`
	I string `json:"i,omitempty"`
	B bool   `json:"b,omitempty"`
	O []JKV  `json:"o,omitempty"`
	A []JV   `json:"a,omitempty"`
}
type JKV struct {
	K string `json:"k"`
	V JV     `json:"v"`
}

// ---------------------------------------------------------------- observations

type Payload struct {
	Kind string `json:"kind"` // empty | self (= text of the element with the row's index) | ref (= text of element Ref) | otlp | other
	Ref  int    `json:"ref"`
	Span *OSpan `json:"span,omitempty"`
}
type TRow struct {
	Tid     string  `json:"tid"`
	Sid     string  `json:"sid"`
	Pid     string  `json:"pid"`
	Name    string  `json:"name"`
	Ts      int64   `json:"ts"`
	Dur     int64   `json:"dur"`
	Svc     string  `json:"svc"`
	PType   int     `json:"ptype"`
	Payload Payload `json:"payload"`
}
type ARow struct {
	K    string `json:"k"`
	V    string `json:"v"`
	Tid  string `json:"tid"`
	Sid  string `json:"sid"`
	Ts   int64  `json:"ts"`
	Dur  int64  `json:"dur"`
	Date int64  `json:"date"` // the Date column: days since 1970-01-01 (UInt16)
}
type RSpan struct {
	Ok    bool   `json:"ok"` // the reader produced a span for this row
	Tid   string `json:"tid"`
	Sid   string `json:"sid"`
	Pid   string `json:"pid"`
	Name  string `json:"name"`
	Start uint64 `json:"start"`
	End   uint64 `json:"end"`
	Kind  int32  `json:"kind"`
	Attrs []KV   `json:"attrs"`
	Svc   string `json:"svc"`
	Panic string `json:"panic,omitempty"`
	// Events: the span's events as (time_unix_nano, name); Status: status code
	Events []Ev `json:"ev"`
	Status int32 `json:"status"`
	// More: trace_state, dropped counts, flags and links of the span OutputQuery returned (always set for a returned span)
	More *OMore `json:"more,omitempty"`
}
type Ev struct {
	T uint64 `json:"t"`
	N string `json:"n"`
	D uint32 `json:"d,omitempty"` // dropped_attributes_count (OTLP)
}
type Case struct {
	ID    int    `json:"id"`
	Class string `json:"class"`
	Fmt   string `json:"fmt"` // otlp | zarr | znd
	Otlp  []ORes `json:"otlp"`
	Zip   []JV   `json:"zip"`
	// rendering knobs (do not reach the model; the model is insensitive to them)
	Sep     int  `json:"sep"`      // whitespace variant between elements
	TrailNL bool `json:"trail_nl"` // NDJSON: final newline
	// Esc: how strings and member names are written: 0 = encoding/json's choice, 1 = every non-ASCII character, '/' and control
	// characters as \uXXXX / \/ escapes (surrogate pairs above U+FFFF), 2 = additionally every third character as \u00XX
	Esc int `json:"esc"`
	// Tails: NDJSON only: text appended to the line of element i after its JSON value (what follows the span object on its line)
	Tails []string `json:"tails,omitempty"`
	// Toks: per element / line: the token stream jx (the write side's tokenizer) reads from its text: "{" "}" "[" "]" "k<name>" "s<string>"
	// "n<number text>" "t" "f" "z"; "!" = the tokenizer refused the rest.  This is the input of the Coq model (model/SpansJson.v).
	Toks [][]string `json:"toks"`
	// PayTokDiff: first difference between the token streams jx and fastjson (the read side's parser) read from a STORED Zipkin payload
	PayTokDiff string `json:"pay_tok_diff,omitempty"`
	// JSONRead: OTLP: the stored span of every row re-written in the legacy JSON payload form (the JS writer's: base64 ids, decimal-string
	// times and integers, camelCase names) and read through OutputQuery (parseOTLPJson); JSONDiff: first difference from the read-back of the
	// protobuf form of the same span ("" = none; rows whose span has a non-scalar or missing attribute value are skipped: JSONSkipped)
	JSONDiff    string `json:"json_diff,omitempty"`
	// JSONKnown: the recorded divergences of the legacy JSON path that were observed (finding otlp-json-legacy-divergences): "dupkey" a repeated
	// attribute key loses its value, "svcname" service.name / remoteService.name are recomputed, "time63" a time of 2^63 ns or more is clipped
	JSONKnown []string `json:"json_known,omitempty"`
	JSONRows    int    `json:"json_rows"`
	JSONSkipped int    `json:"json_skipped"`
	// PayTokSurrogate: every such difference is a string in which fastjson kept a lone \uD800-\uDFFF escape as text where jx decoded U+FFFD
	PayTokSurrogate bool `json:"pay_tok_surrogate,omitempty"`
	// delivery of the request body to the parser: 0 = one io.Reader over the whole body, 1 = one byte per Read,
	// 2 = 1..1500 bytes per Read (network-like), 3 = 1..64 bytes per Read; sizes drawn from a PRNG seeded with SegSeed
	SegMode int   `json:"seg_mode"`
	SegSeed int64 `json:"seg_seed"`
	// TZ: the zone of the writer PROCESS while this request is parsed and its blocks are built, in seconds east of UTC (time.Local = FixedZone;
	// 0 = UTC): what time.Unix / time.Now hand out, and what ch-go's ColDate.Append adds before dividing by 86400. Absent in older cases = UTC.
	TZ int `json:"tz"`
	BodyLen int   `json:"body_len"`
	Reads   int   `json:"reads"`    // Read calls that returned data
	SegHead []int `json:"seg_head"` // sizes of the first 24 of them
	// Retry: the insert-service step is run the way controller.doPush runs it when the first insert fails: ProcessRequest on
	// fresh columns (block discarded), then ProcessRequest AGAIN with the same request object on fresh columns; the rows
	// judged are those of the second block. RetryDiff: first difference between the two blocks ("" = identical).
	Retry     bool    `json:"retry"`
	RetryDiff string  `json:"retry_diff,omitempty"`
	BodyB64   string  `json:"body_b64,omitempty"` // with SPANS_DUMP_BODY=1: the exact request body and every segment size
	SegAll    []int   `json:"seg_all,omitempty"`
	Panic     string  `json:"panic,omitempty"` // the insert service panicked / lost rows on what the parser accepted
	Err       bool    `json:"err"`
	ErrMsg    string  `json:"errmsg"`
	Spans     []TRow  `json:"spans"`
	Tags      []ARow  `json:"tags"`
	Read      []RSpan `json:"read"`
	ReadAll   int     `json:"read_all"`  // spans returned by ONE OutputQuery over all rows in order
	// ReadAllDiff: first difference between the spans of that one call and the rows decoded one by one ("" = none)
	ReadAllDiff string `json:"read_all_diff,omitempty"`
	// QueryK / QueryBad / QueryType3: the span ids (hex) one OutputQuery returns when row QueryK holds a payload that is no span / has payload type 3
	QueryK     int      `json:"query_k"`
	QueryBad   []string `json:"query_bad"`
	QueryType3 []string `json:"query_type3"`
	Responses int     `json:"responses"` // parser responses carrying rows (> 1 = mid-request flush)
	// Resp: per parser response that carried rows, in order: [trace rows, tag rows] as the parser built them (before the insert services)
	Resp [][2]int `json:"resp"`
	// TextLens: Zipkin: byte length of the text of every element of the request (what the decoder stores as payload); an input-side fact
	TextLens []int `json:"text_lens"`
	// PayLens: byte length of every stored payload (observation; for OTLP = len(proto.Marshal(span)))
	PayLens []int `json:"pay_lens"`
	// PayFp: OTLP: two polynomial fingerprints of every stored payload's bytes (see fp61); the Coq model computes the same over its own encoding
	PayFp [][2]uint64 `json:"pay_fp"`
	// PayFirst: the first byte of every stored payload (-1 = empty): parseOTLP reads a payload beginning with '{' as the legacy JSON form
	PayFirst []int `json:"pay_first"`
}

// ---------------------------------------------------------------- conversions abstract <-> protobuf

func unhex(s string) []byte {
	b, err := hex.DecodeString(s)
	if err != nil {
		panic(err)
	}
	return b
}

func toAny(v AVal) *common.AnyValue {
	switch v.T {
	case "s":
		return &common.AnyValue{Value: &common.AnyValue_StringValue{StringValue: v.S}}
	case "i":
		return &common.AnyValue{Value: &common.AnyValue_IntValue{IntValue: v.I}}
	case "b":
		return &common.AnyValue{Value: &common.AnyValue_BoolValue{BoolValue: v.B}}
	case "d":
		return &common.AnyValue{Value: &common.AnyValue_DoubleValue{DoubleValue: float64(v.M) / 1e6}}
	case "y":
		return &common.AnyValue{Value: &common.AnyValue_BytesValue{BytesValue: unhex(v.S)}}
	case "e":
		return &common.AnyValue{}
	case "n":
		return nil
	case "l":
		arr := &common.ArrayValue{}
		for _, x := range v.L {
			e := toAny(x)
			if e == nil {
				e = &common.AnyValue{} // a repeated message field cannot hold nil
			}
			arr.Values = append(arr.Values, e)
		}
		return &common.AnyValue{Value: &common.AnyValue_ArrayValue{ArrayValue: arr}}
	case "m":
		return &common.AnyValue{Value: &common.AnyValue_KvlistValue{KvlistValue: &common.KeyValueList{Values: toKVs(v.KV)}}}
	}
	panic("bad aval " + v.T)
}

func toKVs(kvs []KV) []*common.KeyValue {
	var out []*common.KeyValue
	for _, kv := range kvs {
		out = append(out, &common.KeyValue{Key: kv.K, Value: toAny(kv.V)})
	}
	return out
}

func fromAny(a *common.AnyValue) AVal {
	if a == nil {
		return AVal{T: "n"}
	}
	switch x := a.Value.(type) {
	case *common.AnyValue_StringValue:
		return AVal{T: "s", S: x.StringValue}
	case *common.AnyValue_IntValue:
		return AVal{T: "i", I: x.IntValue}
	case *common.AnyValue_BoolValue:
		return AVal{T: "b", B: x.BoolValue}
	case *common.AnyValue_DoubleValue:
		m := int64(x.DoubleValue * 1e6)
		if float64(m)/1e6 != x.DoubleValue {
			return AVal{T: "s", S: "<inexact double " + strconv.FormatFloat(x.DoubleValue, 'g', -1, 64) + ">"}
		}
		return AVal{T: "d", M: m}
	case *common.AnyValue_BytesValue:
		return AVal{T: "y", S: hex.EncodeToString(x.BytesValue)}
	case *common.AnyValue_ArrayValue:
		v := AVal{T: "l"}
		if x.ArrayValue != nil {
			for _, e := range x.ArrayValue.Values {
				ee := fromAny(e)
				if ee.T == "n" {
					ee.T = "e"
				}
				v.L = append(v.L, ee)
			}
		}
		return v
	case *common.AnyValue_KvlistValue:
		v := AVal{T: "m"}
		if x.KvlistValue != nil {
			v.KV = fromKVs(x.KvlistValue.Values)
		}
		return v
	case nil:
		return AVal{T: "e"}
	}
	return AVal{T: "s", S: fmt.Sprintf("<unknown %T>", a.Value)}
}

func fromKVs(kvs []*common.KeyValue) []KV {
	out := []KV{}
	for _, kv := range kvs {
		out = append(out, KV{K: kv.Key, V: fromAny(kv.Value)})
	}
	return out
}

func toSpan(s OSpan) *trace.Span {
	sp := &trace.Span{TraceId: unhex(s.Tid), SpanId: unhex(s.Sid), ParentSpanId: unhex(s.Pid), Name: s.Name,
		StartTimeUnixNano: s.Start, EndTimeUnixNano: s.End, Kind: trace.Span_SpanKind(s.Kind), Attributes: toKVs(s.Attrs)}
	for _, e := range s.Events {
		sp.Events = append(sp.Events, &trace.Span_Event{TimeUnixNano: e.T, Name: e.N, Attributes: toKVs(e.Attrs), DroppedAttributesCount: e.Dropped})
	}
	if s.Status != nil {
		sp.Status = &trace.Status{Message: s.Status.Msg, Code: trace.Status_StatusCode(s.Status.Code)}
	}
	if m := s.More; m != nil {
		sp.TraceState, sp.DroppedAttributesCount, sp.DroppedEventsCount, sp.DroppedLinksCount, sp.Flags = m.State, m.DAttrs, m.DEvents, m.DLinks, m.Flags
		for _, l := range m.Links {
			sp.Links = append(sp.Links, &trace.Span_Link{TraceId: unhex(l.Tid), SpanId: unhex(l.Sid), TraceState: l.State,
				Attributes: toKVs(l.Attrs), DroppedAttributesCount: l.Dropped, Flags: l.Flags})
		}
	}
	return sp
}

// moreOf: the further fields of a span as it came back from storage
func moreOf(s *trace.Span) *OMore {
	m := &OMore{State: s.TraceState, DAttrs: s.DroppedAttributesCount, DEvents: s.DroppedEventsCount, DLinks: s.DroppedLinksCount,
		Flags: s.Flags, Links: []OLink{}}
	for _, l := range s.Links {
		m.Links = append(m.Links, OLink{Tid: hex.EncodeToString(l.TraceId), Sid: hex.EncodeToString(l.SpanId), State: l.TraceState,
			Attrs: fromKVs(l.Attributes), Dropped: l.DroppedAttributesCount, Flags: l.Flags})
	}
	return m
}

func fromSpan(s *trace.Span) *OSpan {
	o := &OSpan{Tid: hex.EncodeToString(s.TraceId), Sid: hex.EncodeToString(s.SpanId), Pid: hex.EncodeToString(s.ParentSpanId),
		Name: s.Name, Start: s.StartTimeUnixNano, End: s.EndTimeUnixNano, Kind: int32(s.Kind), Attrs: fromKVs(s.Attributes)}
	for _, e := range s.Events {
		o.Events = append(o.Events, OEvent{T: e.TimeUnixNano, N: e.Name, Attrs: fromKVs(e.Attributes), Dropped: e.DroppedAttributesCount})
	}
	if s.Status != nil {
		o.Status = &OStatus{Msg: s.Status.Message, Code: int32(s.Status.Code)}
	}
	return o
}

// ---- strings that are not UTF-8 in an OTLP request.  proto.Marshal refuses them, so such a field is written by hand (protowire) and handed to
// the message as "unknown" bytes, which Marshal appends verbatim: on the wire it is an ordinary occurrence of the field.
func avalUTF8(v AVal) bool {
	switch v.T {
	case "s":
		return utf8.ValidString(v.S)
	case "l":
		for _, x := range v.L {
			if !avalUTF8(x) {
				return false
			}
		}
	case "m":
		for _, kv := range v.KV {
			if !utf8.ValidString(kv.K) || !avalUTF8(kv.V) {
				return false
			}
		}
	}
	return true
}
func rawAny(v AVal) []byte {
	var b []byte
	switch v.T {
	case "s":
		b = protowire.AppendTag(b, 1, protowire.BytesType)
		b = protowire.AppendString(b, v.S)
	case "b":
		b = protowire.AppendTag(b, 2, protowire.VarintType)
		b = protowire.AppendVarint(b, protowire.EncodeBool(v.B))
	case "i":
		b = protowire.AppendTag(b, 3, protowire.VarintType)
		b = protowire.AppendVarint(b, uint64(v.I))
	case "d":
		b = protowire.AppendTag(b, 4, protowire.Fixed64Type)
		b = protowire.AppendFixed64(b, math.Float64bits(float64(v.M)/1e6))
	case "l":
		var in []byte
		for _, x := range v.L {
			in = protowire.AppendTag(in, 1, protowire.BytesType)
			in = protowire.AppendBytes(in, rawAny(x))
		}
		b = protowire.AppendTag(b, 5, protowire.BytesType)
		b = protowire.AppendBytes(b, in)
	case "m":
		var in []byte
		for _, kv := range v.KV {
			in = protowire.AppendTag(in, 1, protowire.BytesType)
			in = protowire.AppendBytes(in, rawKV(kv))
		}
		b = protowire.AppendTag(b, 6, protowire.BytesType)
		b = protowire.AppendBytes(b, in)
	case "y":
		b = protowire.AppendTag(b, 7, protowire.BytesType)
		b = protowire.AppendBytes(b, unhex(v.S))
	}
	return b
}
func rawKV(kv KV) []byte {
	var b []byte
	b = protowire.AppendTag(b, 1, protowire.BytesType)
	b = protowire.AppendString(b, kv.K)
	if kv.V.T != "n" {
		b = protowire.AppendTag(b, 2, protowire.BytesType)
		b = protowire.AppendBytes(b, rawAny(kv.V))
	}
	return b
}

// splitKVs: the attributes proto.Marshal takes, and the others as raw occurrences of field num
func splitKVs(kvs []KV, num protowire.Number) (ok []KV, raw []byte) {
	for _, kv := range kvs {
		if utf8.ValidString(kv.K) && avalUTF8(kv.V) {
			ok = append(ok, kv)
		} else {
			raw = protowire.AppendTag(raw, num, protowire.BytesType)
			raw = protowire.AppendBytes(raw, rawKV(kv))
		}
	}
	return
}

func otlpBody(rs []ORes) []byte {
	td := &trace.TracesData{}
	for _, r := range rs {
		x := &trace.ResourceSpans{}
		if r.HasRes {
			ok, raw := splitKVs(r.Attrs, 1)
			x.Resource = &resource.Resource{Attributes: toKVs(ok)}
			if raw != nil {
				x.Resource.ProtoReflect().SetUnknown(raw)
			}
		}
		if r.Schema {
			x.SchemaUrl = "https://opentelemetry.io/schemas/1.21.0"
		}
		for j, sc := range r.Scopes {
			ss := &trace.ScopeSpans{}
			if j < len(r.ScopeMsg) {
				switch r.ScopeMsg[j] {
				case 1:
					ss.Scope = &common.InstrumentationScope{}
				case 2:
					ss.Scope = &common.InstrumentationScope{Name: "lib", Version: "1.2", Attributes: toKVs([]KV{{K: "service.name", V: AVal{T: "s", S: "scope-attr-must-not-leak"}}})}
					ss.SchemaUrl = "https://opentelemetry.io/schemas/1.21.0"
				}
			}
			for _, sp := range sc {
				var raw []byte
				if !utf8.ValidString(sp.Name) {
					raw = protowire.AppendTag(raw, 5, protowire.BytesType)
					raw = protowire.AppendString(raw, sp.Name)
					sp.Name = ""
				}
				ok, rawAttrs := splitKVs(sp.Attrs, 9)
				sp.Attrs = ok
				m := toSpan(sp)
				if raw = append(raw, rawAttrs...); raw != nil {
					m.ProtoReflect().SetUnknown(raw)
				}
				ss.Spans = append(ss.Spans, m)
			}
			x.ScopeSpans = append(x.ScopeSpans, ss)
		}
		td.ResourceSpans = append(td.ResourceSpans, x)
	}
	b, err := proto.Marshal(td)
	if err != nil {
		panic(err)
	}
	return b
}

// ---------------------------------------------------------------- JSON rendering (order and duplicates preserved)

// escMode: the string-writing variant of the request being rendered (Case.Esc)
var escMode int

func jstr(s string) string {
	if !utf8.ValidString(s) {
		// bytes that are not UTF-8 go into the text as they are (both JSON readers pass them through); only what JSON demands is escaped
		var sb strings.Builder
		sb.WriteByte('"')
		for i := 0; i < len(s); i++ {
			switch c := s[i]; {
			case c == '"':
				sb.WriteString(`\"`)
			case c == '\\':
				sb.WriteString(`\\`)
			case c < 0x20:
				fmt.Fprintf(&sb, `\u%04x`, c)
			default:
				sb.WriteByte(c)
			}
		}
		sb.WriteByte('"')
		return sb.String()
	}
	if escMode == 0 {
		b, _ := json.Marshal(s)
		return string(b)
	}
	var sb strings.Builder
	sb.WriteByte('"')
	i := 0
	for _, r := range s {
		i++
		switch {
		case r == '"':
			sb.WriteString(`\"`)
		case r == '\\':
			sb.WriteString(`\\`)
		case r == '/':
			sb.WriteString(`\/`)
		case r == '\n' && i%2 == 0:
			sb.WriteString(`\n`)
		case r == '\t' && i%2 == 0:
			sb.WriteString(`\t`)
		case r < 0x20 || r == 0x7f:
			fmt.Fprintf(&sb, `\u%04x`, r)
		case r > 0xffff:
			r1, r2 := utf16.EncodeRune(r)
			fmt.Fprintf(&sb, `\u%04X\u%04x`, r1, r2)
		case r >= 0x80:
			fmt.Fprintf(&sb, `\u%04x`, r)
		case escMode == 2 && i%3 == 0:
			fmt.Fprintf(&sb, `\u%04X`, r)
		default:
			sb.WriteRune(r)
		}
	}
	sb.WriteByte('"')
	return sb.String()
}

// ---------------------------------------------------------------- token streams (the tokenizers are the oracle of the Coq model)

func jxValue(d *jx.Decoder, out *[]string) error {
	switch d.Next() {
	case jx.String:
		s, err := d.Str()
		if err != nil {
			return err
		}
		*out = append(*out, "s"+s)
	case jx.Number:
		n, err := d.Num()
		if err != nil {
			return err
		}
		*out = append(*out, "n"+string(n))
	case jx.Null:
		if err := d.Null(); err != nil {
			return err
		}
		*out = append(*out, "z")
	case jx.Bool:
		b, err := d.Bool()
		if err != nil {
			return err
		}
		if b {
			*out = append(*out, "t")
		} else {
			*out = append(*out, "f")
		}
	case jx.Array:
		*out = append(*out, "[")
		if err := d.Arr(func(d *jx.Decoder) error { return jxValue(d, out) }); err != nil {
			return err
		}
		*out = append(*out, "]")
	case jx.Object:
		*out = append(*out, "{")
		if err := d.Obj(func(d *jx.Decoder, k string) error {
			*out = append(*out, "k"+k)
			return jxValue(d, out)
		}); err != nil {
			return err
		}
		*out = append(*out, "}")
	default:
		return fmt.Errorf("not a value")
	}
	return nil
}

// jxTokens: every value of the text in turn; what jx cannot read ends the stream with "!"
func jxTokens(text string) []string {
	out := []string{}
	d := jx.DecodeStr(text)
	for {
		if d.Next() == jx.Invalid {
			// end of input (only whitespace left) or a byte that starts no value
			if err := d.Skip(); err != io.EOF {
				out = append(out, "!")
			}
			return out
		}
		if err := jxValue(d, &out); err != nil {
			return append(out, "!")
		}
	}
}

func fjValue(v *fastjson.Value, out *[]string) {
	switch v.Type() {
	case fastjson.TypeString:
		*out = append(*out, "s"+string(v.GetStringBytes()))
	case fastjson.TypeNumber:
		*out = append(*out, "n"+v.String())
	case fastjson.TypeNull:
		*out = append(*out, "z")
	case fastjson.TypeTrue:
		*out = append(*out, "t")
	case fastjson.TypeFalse:
		*out = append(*out, "f")
	case fastjson.TypeArray:
		*out = append(*out, "[")
		for _, e := range v.GetArray() {
			fjValue(e, out)
		}
		*out = append(*out, "]")
	case fastjson.TypeObject:
		*out = append(*out, "{")
		v.GetObject().Visit(func(k []byte, x *fastjson.Value) {
			*out = append(*out, "k"+string(k))
			fjValue(x, out)
		})
		*out = append(*out, "}")
	}
}

// fjTokens: the whole text must be one value (fastjson.Parser.Parse), else "!"
func fjTokens(text string) []string {
	var p fastjson.Parser
	v, err := p.Parse(text)
	if err != nil {
		return []string{"!"}
	}
	out := []string{}
	fjValue(v, &out)
	return out
}

var loneSurrogate = func() func(string) bool {
	return func(s string) bool {
		// the text holds a \uD800..\uDFFF escape literally (fastjson keeps an unpaired one as it stands)
		for i := 0; i+5 < len(s); i++ {
			if s[i] == '\\' && s[i+1] == 'u' && (s[i+2] == 'd' || s[i+2] == 'D') && strings.ContainsRune("89abcdefABCDEF", rune(s[i+3])) {
				return true
			}
		}
		return false
	}
}()

// tokDiff: first difference of two token streams, and whether all differences are lone-surrogate strings
func tokDiff(row int, a, b []string) (string, bool) {
	first, onlySur := "", true
	n := len(a)
	if len(b) != n {
		return fmt.Sprintf("row %d: jx reads %d tokens, fastjson %d (first %q)", row, len(a), len(b), b[0]), false
	}
	for i := 0; i < n; i++ {
		if a[i] == b[i] {
			continue
		}
		if first == "" {
			first = fmt.Sprintf("row %d token %d: jx %q, fastjson %q", row, i, a[i], b[i])
		}
		if !(a[i][0] == b[i][0] && (a[i][0] == 's' || a[i][0] == 'k') && strings.Contains(a[i], "\uFFFD") && loneSurrogate(b[i])) {
			onlySur = false
		}
	}
	return first, first != "" && onlySur
}

func render(v JV, sb *strings.Builder, sp string) {
	switch v.T {
	case "s":
		sb.WriteString(jstr(v.S))
	case "i":
		sb.WriteString(v.I)
	case "f":
		sb.WriteString("1.5")
	case "n", "x":
		sb.WriteString(v.S)
	case "b":
		if v.B {
			sb.WriteString("true")
		} else {
			sb.WriteString("false")
		}
	case "z":
		sb.WriteString("null")
	case "o":
		sb.WriteString("{")
		for i, kv := range v.O {
			if i > 0 {
				sb.WriteString("," + sp)
			}
			sb.WriteString(jstr(kv.K) + ":" + sp)
			render(kv.V, sb, sp)
		}
		sb.WriteString("}")
	case "a":
		sb.WriteString("[")
		for i, x := range v.A {
			if i > 0 {
				sb.WriteString("," + sp)
			}
			render(x, sb, sp)
		}
		sb.WriteString("]")
	default:
		panic("bad jv " + v.T)
	}
}

func renderElem(v JV, sep int) string {
	var sb strings.Builder
	sp := ""
	if sep%2 == 1 {
		sp = " "
	}
	render(v, &sb, sp)
	return sb.String()
}

func zipkinBody(c *Case) (body []byte, texts []string) {
	escMode = c.Esc
	for i, e := range c.Zip {
		t := renderElem(e, c.Sep)
		if c.Fmt == "znd" && i < len(c.Tails) {
			t += c.Tails[i]
		}
		texts = append(texts, t)
	}
	escMode = 0
	if c.Fmt == "znd" {
		s := strings.Join(texts, "\n")
		if c.TrailNL {
			s += "\n"
		}
		return []byte(s), texts
	}
	seps := []string{",", ", ", ",\n", " ,\n  "}
	sep := seps[c.Sep%len(seps)]
	pre, post := "[", "]"
	if c.Sep >= 2 {
		pre, post = "[ ", " ]\n"
	}
	return []byte(pre + strings.Join(texts, sep) + post), texts
}

// ---------------------------------------------------------------- scripted database/sql driver

var (
	scriptMu   sync.Mutex
	scriptRows [][]driver.Value
)

type drv struct{}
type conn struct{}
type stmt struct{}
type rows struct {
	data [][]driver.Value
	i    int
}

func (drv) Open(string) (driver.Conn, error)            { return conn{}, nil }
func (conn) Prepare(string) (driver.Stmt, error)        { return stmt{}, nil }
func (conn) Close() error                               { return nil }
func (conn) Begin() (driver.Tx, error)                  { return nil, fmt.Errorf("no tx") }
func (stmt) Close() error                               { return nil }
func (stmt) NumInput() int                              { return -1 }
func (stmt) Exec([]driver.Value) (driver.Result, error) { return nil, fmt.Errorf("no exec") }
func (stmt) Query([]driver.Value) (driver.Rows, error) {
	scriptMu.Lock()
	defer scriptMu.Unlock()
	return &rows{data: scriptRows}, nil
}
func (r *rows) Columns() []string {
	return []string{"trace_id", "span_id", "parent_id", "timestamp_ns", "duration_ns", "payload_type", "payload"}
}
func (r *rows) Close() error { return nil }
func (r *rows) Next(dest []driver.Value) error {
	if r.i >= len(r.data) {
		return io.EOF
	}
	copy(dest, r.data[r.i])
	r.i++
	return nil
}

var db *sql.DB

// queryMu: "script the rows, open the query" is one step (several queries may be open at once: see concPhase)
var queryMu sync.Mutex

func openRows(rs [][]driver.Value) *sql.Rows {
	queryMu.Lock()
	defer queryMu.Unlock()
	scriptMu.Lock()
	scriptRows = rs
	scriptMu.Unlock()
	r, err := db.Query("select")
	if err != nil {
		panic(err)
	}
	return r
}

func readRows(rs [][]driver.Value) (out []RSpan, pan string) {
	r := openRows(rs)
	defer r.Close()
	svc := &rsvc.TempoService{}
	ch, err := svc.OutputQuery(true, r)
	if err != nil {
		return nil, "error: " + err.Error()
	}
	return drainSpans(ch), ""
}

func drainSpans(ch chan *rmodel.SpanResponse) (out []RSpan) {
	for sr := range ch {
		x := RSpan{Ok: true, Svc: sr.ServiceName}
		if sr.Span != nil {
			s := sr.Span
			x.Tid, x.Sid, x.Pid = hex.EncodeToString(s.TraceId), hex.EncodeToString(s.SpanId), hex.EncodeToString(s.ParentSpanId)
			x.Name, x.Start, x.End, x.Kind = s.Name, s.StartTimeUnixNano, s.EndTimeUnixNano, int32(s.Kind)
			x.Attrs = fromKVs(s.Attributes)
			x.Events = []Ev{}
			for _, e := range s.Events {
				x.Events = append(x.Events, Ev{T: e.TimeUnixNano, N: e.Name, D: e.DroppedAttributesCount})
			}
			if s.Status != nil {
				x.Status = int32(s.Status.Code)
			} else {
				x.Status = -1
			}
			x.More = moreOf(s)
		} else {
			x.Ok = false
		}
		out = append(out, x)
	}
	return out
}

// ---------------------------------------------------------------- body delivery
type segReader struct {
	b     []byte
	r     *rand.Rand
	mode  int
	reads int
	head  []int
	all   []int
}

func (s *segReader) Read(p []byte) (int, error) {
	if len(s.b) == 0 {
		return 0, io.EOF
	}
	n := len(s.b)
	switch s.mode {
	case 1:
		n = 1
	case 2:
		n = 1 + s.r.Intn(1500)
	case 3:
		n = 1 + s.r.Intn(64)
	}
	if n > len(s.b) {
		n = len(s.b)
	}
	if n > len(p) {
		n = len(p)
	}
	copy(p, s.b[:n])
	s.b = s.b[n:]
	s.reads++
	if len(s.head) < 24 {
		s.head = append(s.head, n)
	}
	if len(s.all) < 100000 {
		s.all = append(s.all, n)
	}
	return n, nil
}

// ---------------------------------------------------------------- running one case

func collect(ch chan *wmodel.ParserResponse) (err error, spans []*wmodel.TempoSamples, tags []*wmodel.TempoTag, resp [][2]int) {
	for r := range ch {
		if r.Error != nil {
			if err == nil {
				err = r.Error
			}
			continue
		}
		one := [2]int{0, 0}
		if s, ok := r.SpansRequest.(*wmodel.TempoSamples); ok && s != nil {
			spans = append(spans, s)
			one[0] = len(s.MTraceId)
		}
		if t, ok := r.SpansAttrsRequest.(*wmodel.TempoTag); ok && t != nil {
			tags = append(tags, t)
			one[1] = len(t.MKey)
		}
		resp = append(resp, one)
	}
	return
}

// fp61: polynomial fingerprints of a byte string modulo two 53-bit numbers (the same arithmetic runs inside Coq on primitive 63-bit integers)
const fpP1, fpP2 = uint64(9007199254740881), uint64(9007199254740847)

func mulmod(a, b, m uint64) uint64 {
	hi, lo := bits.Mul64(a, b)
	_, rem := bits.Div64(hi%m, lo, m)
	return rem
}

func fp61(b []byte) [2]uint64 {
	var h1, h2 uint64
	for _, c := range b {
		h1 = (mulmod(h1, 257, fpP1) + uint64(c) + 1) % fpP1
		h2 = (mulmod(h2, 263, fpP2) + uint64(c) + 1) % fpP2
	}
	return [2]uint64{h1, h2}
}

// ---- the rows as the insert services hand them to ClickHouse: the parser's TempoSamples / TempoTag go through the
// real AcquireColumns + ProcessRequest of impl.NewTempoSamplesInsertService / NewTempoTagsInsertService and are read
// back from the ch-go columns BY COLUMN NAME (the name is what the INSERT block carries).
var (
	samplesSvc *wsvc.InsertServiceV2Multimodal
	tagsSvc    *wsvc.InsertServiceV2Multimodal
)

type colset map[string]chproto.ColInput

func toCols(svc *wsvc.InsertServiceV2Multimodal, req any) (colset, int, string) {
	var cs colset
	var n int
	p := hx.Catch(func() {
		cols := svc.AcquireColumns()
		var err error
		n, cols, err = svc.ProcessRequest(req, cols)
		if err != nil {
			panic(err)
		}
		cs = colset{}
		for _, c := range cols {
			in := c.Input()
			cs[in.Name] = in.Data
		}
	})
	return cs, n, p
}

// every cell of a block, column by column (for comparing the blocks of two ProcessRequest calls)
func (cs colset) diff(other colset, n int) string {
	for name, col := range cs {
		for i := 0; i < n; i++ {
			var a, b string
			switch col.(type) {
			case *chproto.ColStr, *chproto.ColFixedStr:
				a, b = cs.str(name, i), other.str(name, i)
			default:
				a, b = strconv.FormatInt(cs.i64(name, i), 10), strconv.FormatInt(other.i64(name, i), 10)
			}
			if a != b {
				if len(a) > 60 {
					a = a[:60] + "..."
				}
				if len(b) > 60 {
					b = b[:60] + "..."
				}
				return fmt.Sprintf("column %s row %d: first block %q, retried block %q", name, i, a, b)
			}
		}
	}
	return ""
}

// toColsRetry: see Case.Retry
func toColsRetry(svc *wsvc.InsertServiceV2Multimodal, req any, retry bool, diff *string) (colset, int, string) {
	cs, n, p := toCols(svc, req)
	if !retry || p != "" {
		return cs, n, p
	}
	cs2, n2, p2 := toCols(svc, req)
	if p2 == "" && *diff == "" {
		if n2 != n {
			*diff = fmt.Sprintf("first block %d rows, retried block %d rows", n, n2)
		} else if pd := hx.Catch(func() { *diff = cs.diff(cs2, n) }); pd != "" {
			*diff = "blocks not comparable: " + pd
		}
	}
	return cs2, n2, p2
}

func (cs colset) str(name string, i int) string {
	switch c := cs[name].(type) {
	case *chproto.ColStr:
		return c.Row(i)
	case *chproto.ColFixedStr:
		return string(c.Row(i))
	}
	panic("column " + name + " is not a string column")
}

func (cs colset) i64(name string, i int) int64 {
	switch c := cs[name].(type) {
	case chproto.ColInt64:
		return c[i]
	case *chproto.ColInt64:
		return (*c)[i]
	case chproto.ColInt8:
		return int64(c[i])
	case *chproto.ColInt8:
		return int64((*c)[i])
	case chproto.ColDate:
		return int64(c[i])
	case *chproto.ColDate:
		return int64((*c)[i])
	}
	panic(fmt.Sprintf("column %s is not an integer column: %T", name, cs[name]))
}

// ---- the legacy JSON form of an OTLP payload
func scalarAttrs(kvs []*common.KeyValue) bool {
	for _, kv := range kvs {
		if kv.Value == nil {
			return false
		}
		switch kv.Value.Value.(type) {
		case *common.AnyValue_StringValue, *common.AnyValue_IntValue, *common.AnyValue_BoolValue, *common.AnyValue_DoubleValue:
		default:
			return false
		}
	}
	return true
}

func jsonAttrs(kvs []*common.KeyValue) []any {
	out := []any{}
	for _, kv := range kvs {
		v := map[string]any{}
		switch x := kv.Value.Value.(type) {
		case *common.AnyValue_StringValue:
			v["stringValue"] = x.StringValue
		case *common.AnyValue_IntValue:
			v["intValue"] = strconv.FormatInt(x.IntValue, 10)
		case *common.AnyValue_BoolValue:
			v["boolValue"] = x.BoolValue
		case *common.AnyValue_DoubleValue:
			v["doubleValue"] = x.DoubleValue
		}
		out = append(out, map[string]any{"key": kv.Key, "value": v})
	}
	return out
}

// legacyJSON: the span as the JS writer stored it (protobufjs toObject with longs as strings, bytes as base64, enums as numbers)
func legacyJSON(sp *trace.Span) (string, bool) {
	if !scalarAttrs(sp.Attributes) {
		return "", false
	}
	o := map[string]any{"traceId": base64.StdEncoding.EncodeToString(sp.TraceId), "spanId": base64.StdEncoding.EncodeToString(sp.SpanId),
		"name": sp.Name, "kind": int32(sp.Kind), "startTimeUnixNano": strconv.FormatUint(sp.StartTimeUnixNano, 10),
		"endTimeUnixNano": strconv.FormatUint(sp.EndTimeUnixNano, 10), "attributes": jsonAttrs(sp.Attributes), "droppedAttributesCount": 0}
	if len(sp.ParentSpanId) > 0 {
		o["parentSpanId"] = base64.StdEncoding.EncodeToString(sp.ParentSpanId)
	}
	evs := []any{}
	for _, e := range sp.Events {
		if !scalarAttrs(e.Attributes) {
			return "", false
		}
		evs = append(evs, map[string]any{"timeUnixNano": strconv.FormatUint(e.TimeUnixNano, 10), "name": e.Name, "attributes": jsonAttrs(e.Attributes)})
	}
	o["events"] = evs
	if sp.Status != nil {
		o["status"] = map[string]any{"code": int32(sp.Status.Code), "message": sp.Status.Message}
	}
	b, err := json.Marshal(o)
	if err != nil {
		return "", false
	}
	return string(b), true
}

func dupKeys(kvs []*common.KeyValue) bool {
	seen := map[string]bool{}
	for _, kv := range kvs {
		if seen[kv.Key] {
			return true
		}
		seen[kv.Key] = true
	}
	return false
}

// coreOf: the read-back span without what the legacy JSON path recomputes (the service names)
func coreOf(x RSpan) RSpan {
	y := x
	y.Svc = ""
	y.Attrs = nil
	for _, kv := range x.Attrs {
		if kv.K != "service.name" && kv.K != "remoteService.name" {
			y.Attrs = append(y.Attrs, kv)
		}
	}
	return y
}

func addKnown(c *Case, k string) {
	for _, x := range c.JSONKnown {
		if x == k {
			return
		}
	}
	c.JSONKnown = append(c.JSONKnown, k)
}

func rspanDiff(a, b RSpan) string {
	x, _ := json.Marshal(a)
	y, _ := json.Marshal(b)
	if string(x) == string(y) {
		return ""
	}
	return fmt.Sprintf("protobuf form reads %s, JSON form reads %s", x, y)
}

func run(c *Case, silence bool) {
	var body []byte
	var texts []string
	var parser unmarshal.ParsingFunction
	switch c.Fmt {
	case "otlp":
		body = otlpBody(c.Otlp)
		parser = unmarshal.UnmarshalOTLPV2
	case "zarr":
		body, texts = zipkinBody(c)
		parser = unmarshal.UnmarshalZipkinJSONV2
	case "znd":
		body, texts = zipkinBody(c)
		parser = unmarshal.UnmarshalZipkinNDJSONV2
	default:
		panic("fmt " + c.Fmt)
	}
	c.Err, c.ErrMsg, c.Spans, c.Tags, c.Read, c.ReadAll, c.Panic, c.RetryDiff = false, "", []TRow{}, []ARow{}, []RSpan{}, 0, "", ""
	// the writer process's zone for this request (parsers, onSpan, insert services, ch-go columns all run under it)
	if c.TZ != 0 {
		time.Local = time.FixedZone("verif", c.TZ)
	} else {
		time.Local = time.UTC
	}
	defer func() { time.Local = time.UTC }()
	c.JSONDiff, c.JSONRows, c.JSONSkipped, c.JSONKnown = "", 0, 0, nil
	// the parser gets its own copy of the body (what it retains must not alias our buffers) delivered in segments
	sr := &segReader{b: append([]byte{}, body...), r: hx.Rand(c.SegSeed), mode: c.SegMode}
	err, spans, tags, resp := collect(parser(context.Background(), sr, nil))
	c.Resp, c.TextLens, c.PayLens, c.PayFp, c.PayFirst = resp, []int{}, []int{}, [][2]uint64{}, []int{}
	if c.Resp == nil {
		c.Resp = [][2]int{}
	}
	c.Toks, c.PayTokDiff, c.PayTokSurrogate = [][]string{}, "", false
	for _, t := range texts {
		c.TextLens = append(c.TextLens, len(t))
		c.Toks = append(c.Toks, jxTokens(t))
	}
	surOnly := true
	c.BodyLen, c.Reads, c.SegHead = len(body), sr.reads, sr.head
	c.BodyB64, c.SegAll = "", nil
	if os.Getenv("SPANS_DUMP_BODY") != "" {
		c.BodyB64, c.SegAll = base64.StdEncoding.EncodeToString(body), sr.all
	}
	c.Responses = len(spans)
	if err != nil {
		c.Err, c.ErrMsg = true, err.Error()
		if len(c.ErrMsg) > 200 {
			c.ErrMsg = c.ErrMsg[:200]
		}
	}
	var dbrows [][]driver.Value
	for _, s := range spans {
		cs, n, p := toColsRetry(samplesSvc, s, c.Retry, &c.RetryDiff)
		if p != "" || n != len(s.MTraceId) {
			c.Panic = fmt.Sprintf("traces insert service: %d rows for %d spans; %s", n, len(s.MTraceId), p)
			continue
		}
		for i := 0; i < n; i++ {
			pl := cs.str("payload", i)
			row := TRow{Tid: hx.Hex(cs.str("trace_id", i)), Sid: hx.Hex(cs.str("span_id", i)), Pid: hx.Hex(cs.str("parent_id", i)),
				Name: cs.str("name", i), Ts: cs.i64("timestamp_ns", i), Dur: cs.i64("duration_ns", i), Svc: cs.str("service_name", i),
				PType: int(cs.i64("payload_type", i))}
			p := []byte(pl)
			idx := len(c.Spans)
			c.PayLens = append(c.PayLens, len(p))
			if len(p) > 0 {
				c.PayFirst = append(c.PayFirst, int(p[0]))
			} else {
				c.PayFirst = append(c.PayFirst, -1)
			}
			if c.Fmt == "otlp" {
				c.PayFp = append(c.PayFp, fp61(p))
			}
			switch {
			case len(p) == 0:
				row.Payload.Kind = "empty"
			case c.Fmt == "otlp":
				sp := &trace.Span{}
				if e := proto.Unmarshal(p, sp); e != nil {
					row.Payload.Kind = "other"
				} else {
					row.Payload.Kind = "otlp"
					row.Payload.Span = fromSpan(sp)
				}
			default:
				// both tokenizers on the STORED text: the write side read it with jx, the read side will read it with fastjson
				if d, sur := tokDiff(idx, jxTokens(pl), fjTokens(pl)); d != "" {
					if c.PayTokDiff == "" {
						c.PayTokDiff = d
					}
					surOnly = surOnly && sur
				}
				row.Payload.Kind = "other"
				if idx < len(texts) && string(p) == texts[idx] {
					row.Payload.Kind = "self"
					row.Payload.Ref = idx
				} else {
					for j, t := range texts {
						if string(p) == t {
							row.Payload.Kind, row.Payload.Ref = "ref", j
							break
						}
					}
				}
			}
			c.Spans = append(c.Spans, row)
			dbrows = append(dbrows, []driver.Value{cs.str("trace_id", i), cs.str("span_id", i), cs.str("parent_id", i),
				row.Ts, row.Dur, int64(row.PType), pl})
		}
	}
	c.PayTokSurrogate = c.PayTokDiff != "" && surOnly
	for _, t := range tags {
		cs, n, p := toColsRetry(tagsSvc, t, c.Retry, &c.RetryDiff)
		if p != "" || n != len(t.MKey) {
			c.Panic = fmt.Sprintf("tags insert service: %d rows for %d tags; %s", n, len(t.MKey), p)
			continue
		}
		for i := 0; i < n; i++ {
			c.Tags = append(c.Tags, ARow{K: cs.str("key", i), V: cs.str("val", i), Tid: hx.Hex(cs.str("trace_id", i)), Sid: hx.Hex(cs.str("span_id", i)),
				Ts: cs.i64("timestamp_ns", i), Dur: cs.i64("duration", i), Date: cs.i64("date", i)})
		}
	}
	// read path: every stored row alone (so that one undecodable row does not hide the others) ...
	for _, r := range dbrows {
		safe := len(r[0].(string)) >= 16 && len(r[1].(string)) >= 8 && (r[5].(int64) != 2 || len(r[6].(string)) > 0)
		if !safe {
			// OutputQuery slices ids and indexes the payload in a goroutine without recover (C12's defect): not driven
			c.Read = append(c.Read, RSpan{Ok: false, Panic: "not driven: id narrower than 16/8 bytes or empty OTLP payload"})
			continue
		}
		out, _ := readRows([][]driver.Value{r})
		if len(out) == 1 {
			x := out[0]
			if c.Fmt == "otlp" { // attribute order comes from a Go map
				sort.SliceStable(x.Attrs, func(a, b int) bool { return x.Attrs[a].K < x.Attrs[b].K })
			}
			c.Read = append(c.Read, x)
			// the same stored span in the legacy JSON payload form must read back the same
			if c.Fmt == "otlp" && r[5].(int64) == 2 {
				sp := &trace.Span{}
				if proto.Unmarshal([]byte(r[6].(string)), sp) == nil {
					if js, ok := legacyJSON(sp); ok {
						c.JSONRows++
						r2 := append([]driver.Value{}, r...)
						r2[6] = js
						out2, _ := readRows([][]driver.Value{r2})
						y := RSpan{Ok: false}
						if len(out2) == 1 {
							y = out2[0]
							sort.SliceStable(y.Attrs, func(a, b int) bool { return y.Attrs[a].K < y.Attrs[b].K })
						}
						xj := x
						xj.More, y.More = nil, nil // the legacy form is rendered without trace_state / counts / links / flags
						xj.Events = append([]Ev{}, x.Events...)
						for i := range xj.Events {
							xj.Events[i].D = 0
						}
						full := rspanDiff(xj, y)
						switch {
						case full == "":
						case dupKeys(sp.Attributes):
							addKnown(c, "dupkey")
						case sp.StartTimeUnixNano >= 1<<63 || sp.EndTimeUnixNano >= 1<<63:
							addKnown(c, "time63")
						default:
							if d := rspanDiff(coreOf(xj), coreOf(y)); d != "" {
								if c.JSONDiff == "" {
									c.JSONDiff = fmt.Sprintf("row %d: %s", len(c.Read)-1, d)
									if len(c.JSONDiff) > 1500 {
										c.JSONDiff = c.JSONDiff[:1500]
									}
								}
							} else {
								addKnown(c, "svcname")
							}
						}
					} else {
						c.JSONSkipped++
					}
				}
			}
		} else {
			c.Read = append(c.Read, RSpan{Ok: false})
		}
	}
	// ... and all rows through one call (row order = storage order here)
	allSafe := true
	for _, r := range dbrows {
		if !(len(r[0].(string)) >= 16 && len(r[1].(string)) >= 8 && (r[5].(int64) != 2 || len(r[6].(string)) > 0)) {
			allSafe = false
		}
	}
	c.ReadAllDiff, c.QueryK, c.QueryBad, c.QueryType3 = "", -1, nil, nil
	if allSafe && c.Fmt != "otlp" && len(c.Read) == len(dbrows) {
		// stored Zipkin rows + what each gives when read alone (the observation the Coq model is compared with): material of concPhase
		for i, r := range dbrows {
			if r[5].(int64) == 1 && c.Read[i].Ok && len(r[6].(string)) <= 20000 {
				// an own copy of the span the row gives when read alone (c.Read is re-written in place for the output file), held to equal c.Read[i]
				again, _ := readRows([][]driver.Value{r})
				if len(again) != 1 || rspanDiff(c.Read[i], again[0]) != "" {
					concUnstable = append(concUnstable, fmt.Sprintf("case %d row %d", c.ID, i))
					continue
				}
				concPool = append(concPool, concItem{CaseIdx: concCases, Case: c.ID, Row: i, vals: r, want: again[0]})
			}
		}
	}
	concCases++
	if allSafe && len(dbrows) > 0 {
		out, _ := readRows(dbrows)
		c.ReadAll = len(out)
		// the spans of the ONE call (all gathered before any is looked at: a span that kept a reference into the reused parser's buffers
		// would have been overwritten by the rows decoded after it) against the rows decoded one by one
		for i := range out {
			if i >= len(c.Read) {
				break
			}
			x := out[i]
			if c.Fmt == "otlp" {
				sort.SliceStable(x.Attrs, func(a, b int) bool { return x.Attrs[a].K < x.Attrs[b].K })
			}
			if d := rspanDiff(c.Read[i], x); d != "" {
				d = strings.Replace(strings.Replace(d, "protobuf form reads", "decoded alone:", 1), "JSON form reads", "in the one call:", 1)
				c.ReadAllDiff = fmt.Sprintf("row %d: %s", i, d)
				if len(c.ReadAllDiff) > 1200 {
					c.ReadAllDiff = c.ReadAllDiff[:1200]
				}
				break
			}
		}
		// OutputQuery's loop on rows that do not decode: row k with a payload that is no span (the output ends there) and row k with an
		// unknown payload type (the row is passed over); observed = the span ids returned, in order
		k := (len(body) + c.ID) % len(dbrows)
		c.QueryK = k
		ids := func(rs [][]driver.Value) []string {
			out, _ := readRows(rs)
			l := []string{}
			for _, x := range out {
				l = append(l, x.Sid)
			}
			return l
		}
		mut := func(f func(r []driver.Value)) [][]driver.Value {
			cp := make([][]driver.Value, len(dbrows))
			for i, r := range dbrows {
				cp[i] = append([]driver.Value{}, r...)
			}
			f(cp[k])
			return cp
		}
		c.QueryBad = ids(mut(func(r []driver.Value) {
			if r[5].(int64) == 2 {
				r[6] = "\xff\xff"
			} else {
				r[6] = "{"
			}
		}))
		c.QueryType3 = ids(mut(func(r []driver.Value) { r[5] = int64(3) }))
	} else {
		c.ReadAll = -1
	}
}

// ---------------------------------------------------------------- trace requests in flight at the same time
// One reader process answers many GET /api/traces/{id} at once: every OutputQuery call starts a goroutine that streams its rows while the
// other calls' goroutines stream theirs. concPhase runs K OutputQuery calls over K row sets ("traces": the stored Zipkin rows of whole
// requests of this run, a trace = the rows of one or more requests, repeated until it has concMinRows rows) ALL IN FLIGHT, each answer drained by
// its own goroutine, and compares every span of every answer with the span the same row gives when it is read alone (Case.Read, which the
// Coq model judges).  Two ways of starting: "seq" = the K calls are made one after the other by one goroutine (requests arriving in a
// burst on one connection handler thread; what a sync.Pool hands from one call to the next stays on one P), "par" = every call made by
// its own goroutine.
type concItem struct {
	CaseIdx int `json:"-"`
	Case    int `json:"case"`
	Row     int `json:"row"`
	vals    []driver.Value
	want    RSpan
}
type ConcMismatch struct {
	Round    int    `json:"round"`
	Start    string `json:"start"`
	InFlight int    `json:"in_flight"`
	Trace    int    `json:"trace"`
	Pos      int    `json:"pos"` // position in the answer (-1: only the number of spans differs)
	CaseIdx  int    `json:"case_index"`
	Case     int    `json:"case"`
	Row      int    `json:"row"`
	Rows     int    `json:"rows"`     // rows of the trace
	Returned int    `json:"returned"` // spans in the answer
	Want     *RSpan `json:"read_alone,omitempty"`
	Got      *RSpan `json:"read_in_flight,omitempty"`
	// Content: whose name/service/attributes the span came back with: "trace t pos p (case c row r)" or "" (of no stored row of this run)
	Content string `json:"content_of,omitempty"`
	What    string `json:"what"`
}
type ConcTrace struct {
	Cases []int `json:"cases"` // indexes (order of this run) of the requests whose rows make the trace
	Ids   []int `json:"ids"`
	Rows  int   `json:"rows"`
}
type ConcReport struct {
	Ran        bool           `json:"ran"`
	Started    bool           `json:"started"`
	Why        string         `json:"why,omitempty"`
	GoMaxProcs int            `json:"gomaxprocs"`
	Traces     []ConcTrace    `json:"traces"`
	Rounds     int            `json:"rounds"`
	Calls      int            `json:"calls"`
	Spans      int            `json:"spans_compared"`
	PoolRows   int            `json:"pool_rows"`
	PoolCases  int            `json:"pool_cases"`
	BadTraces  int            `json:"answers_wrong"`
	Unstable   []string       `json:"rows_unstable_when_read_alone"`
	Mismatches []ConcMismatch `json:"mismatches"`
}

var (
	concPool    []concItem
	concCases   int
	// rows that gave two different spans in two one-at-a-time reads (none expected: the read path is a function of the row)
	concUnstable []string
	concMinRows = 160
)

func contentKey(x RSpan) string {
	b, _ := json.Marshal([]any{x.Name, x.Svc, x.Attrs})
	return string(b)
}

func concPhase(rounds int, planned func(ConcReport)) ConcReport {
	rep := ConcReport{Mismatches: []ConcMismatch{}, Traces: []ConcTrace{}, PoolRows: len(concPool), Unstable: append([]string{}, concUnstable...)}
	// whole requests, in order; the biggest payloads are left to the one-at-a-time reads (a 100 kB tag value per row makes a round slow)
	var reqs [][]concItem
	for _, it := range concPool {
		if n := len(reqs); n > 0 && reqs[n-1][0].CaseIdx == it.CaseIdx {
			reqs[n-1] = append(reqs[n-1], it)
		} else {
			reqs = append(reqs, []concItem{it})
		}
	}
	rep.PoolCases = len(reqs)
	if len(reqs) < 2 {
		rep.Why = "fewer than two requests with stored Zipkin rows"
		return rep
	}
	k := 8
	if len(reqs) < k {
		k = len(reqs)
	}
	traces := make([][]concItem, k)
	rep.Traces = make([]ConcTrace, k)
	for i, rq := range reqs {
		t := i % k
		if len(traces[t]) >= 4*concMinRows {
			continue
		}
		traces[t] = append(traces[t], rq...)
		rep.Traces[t].Cases = append(rep.Traces[t].Cases, rq[0].CaseIdx)
		rep.Traces[t].Ids = append(rep.Traces[t].Ids, rq[0].Case)
	}
	for t := range traces {
		for n := len(traces[t]); len(traces[t]) < concMinRows; {
			traces[t] = append(traces[t], traces[t][:n]...)
		}
		rep.Traces[t].Rows = len(traces[t])
	}
	where := map[string]string{}
	for t := range traces {
		for p, it := range traces[t] {
			key := contentKey(it.want)
			if _, ok := where[key]; !ok {
				where[key] = fmt.Sprintf("trace %d pos %d (case %d row %d)", t, p, it.Case, it.Row)
			}
		}
	}
	old := runtime.GOMAXPROCS(0)
	if old < 4 {
		runtime.GOMAXPROCS(4)
		defer runtime.GOMAXPROCS(old)
	}
	rep.GoMaxProcs = runtime.GOMAXPROCS(0)
	rep.Rounds = rounds
	// the plan is on disk before the first call: should the process die of the reads (the read path's goroutines run outside our control; a race
	// can corrupt memory), the check still holds the trace set
	rep.Started = true
	if planned != nil {
		planned(rep)
	}
	rep.Ran = true
	for round := 0; round < rounds; round++ {
		inflight := []int{k, k, (k + 1) / 2, 2}[round%4]
		start := []string{"seq", "par"}[(round/4)%2]
		first := (round * 3) % k
		answers := make([][]RSpan, inflight)
		var wg sync.WaitGroup
		serve := func(j int, ch chan *rmodel.SpanResponse, r *sql.Rows) {
			defer wg.Done()
			defer r.Close()
			answers[j] = drainSpans(ch)
		}
		for j := 0; j < inflight; j++ {
			rs := make([][]driver.Value, 0, len(traces[(first+j)%k]))
			for _, it := range traces[(first+j)%k] {
				rs = append(rs, it.vals)
			}
			wg.Add(1)
			if start == "seq" {
				r := openRows(rs)
				ch, err := (&rsvc.TempoService{}).OutputQuery(true, r)
				if err != nil {
					panic(err)
				}
				go serve(j, ch, r)
			} else {
				go func(j int) {
					r := openRows(rs)
					ch, err := (&rsvc.TempoService{}).OutputQuery(true, r)
					if err != nil {
						panic(err)
					}
					serve(j, ch, r)
				}(j)
			}
		}
		wg.Wait()
		rep.Calls += inflight
		for j := 0; j < inflight; j++ {
			t := (first + j) % k
			tr, got := traces[t], answers[j]
			bad := false
			for p := 0; p < len(tr) && p < len(got); p++ {
				rep.Spans++
				if rspanDiff(tr[p].want, got[p]) == "" {
					continue
				}
				bad = true
				if len(rep.Mismatches) < 12 {
					w, g := tr[p].want, got[p]
					m := ConcMismatch{Round: round, Start: start, InFlight: inflight, Trace: t, Pos: p, CaseIdx: tr[p].CaseIdx, Case: tr[p].Case, Row: tr[p].Row,
						Rows: len(tr), Returned: len(got), Want: &w, Got: &g, What: "the span differs from the span its row gives when read alone"}
					if src, ok := where[contentKey(g)]; ok && contentKey(g) != contentKey(w) {
						m.Content = src
						m.What = "the span came back with the name / service / attributes of another stored span: " + src
					}
					rep.Mismatches = append(rep.Mismatches, m)
				}
				break
			}
			if !bad && len(got) != len(tr) {
				bad = true
				if len(rep.Mismatches) < 12 {
					p := len(got)
					if p >= len(tr) {
						p = len(tr) - 1
					}
					rep.Mismatches = append(rep.Mismatches, ConcMismatch{Round: round, Start: start, InFlight: inflight, Trace: t, Pos: -1, CaseIdx: tr[p].CaseIdx,
						Case: tr[p].Case, Row: tr[p].Row, Rows: len(tr), Returned: len(got),
						What: fmt.Sprintf("the answer has %d spans for %d stored rows (every row decodes when read alone)", len(got), len(tr))})
				}
			}
			if bad {
				rep.BadTraces++
			}
		}
	}
	return rep
}

func writeConc(path string) {
	if path == "" || path == "-" || os.Getenv("SPANS_CONC") == "0" {
		return
	}
	rounds := 24
	if n, err := strconv.Atoi(os.Getenv("SPANS_CONC")); err == nil && n > 0 {
		rounds = n
	}
	t0 := time.Now()
	put := func(rep ConcReport) {
		b, _ := json.Marshal(map[string]any{"conc": rep, "wall_ms": time.Since(t0).Milliseconds()})
		if err := os.WriteFile(path+".conc", append(b, '\n'), 0o644); err != nil {
			panic(err)
		}
	}
	put(concPhase(rounds, put))
}

// ---------------------------------------------------------------- generators

var strPool = []string{"", "a", "b", "frontend", "db", "GET /x", "x y", "é", "quo\"te", "back\\slash", "line\nbreak", "0", "true", "svc-1", "cart",
	"\xf4\x8f\xbf\xbf", "\xed\x9f\xbf\xee\x80\x80"} // the last two: U+10FFFF, U+D7FF U+E000 (the code points around the surrogates)
var keyPool = []string{"service.name", "peer.service", "faas.name", "k8s.deployment.name", "process.executable.name", "remoteService.name",
	"name", "a", "a.b", "a.0", "http.method", "http.status_code", "k", "k2", "", "é", "span.kind"}

func pick(r *rand.Rand, xs []string) string { return xs[r.Intn(len(xs))] }

func genStr(r *rand.Rand) string {
	if r.Intn(6) == 0 {
		n := r.Intn(12)
		b := make([]byte, n)
		for i := range b {
			b[i] = byte(32 + r.Intn(95))
		}
		return string(b)
	}
	return pick(r, strPool)
}

func genAVal(r *rand.Rand, depth int, nilOK bool) AVal {
	k := r.Intn(100)
	switch {
	case k < 40:
		return AVal{T: "s", S: genStr(r)}
	case k < 52:
		switch r.Intn(5) {
		case 0:
			return AVal{T: "i", I: 0}
		case 1:
			return AVal{T: "i", I: -1 - r.Int63n(1000)}
		case 2:
			return AVal{T: "i", I: 9223372036854775807}
		case 3:
			return AVal{T: "i", I: -9223372036854775808}
		}
		return AVal{T: "i", I: r.Int63n(100000)}
	case k < 60:
		return AVal{T: "b", B: r.Intn(2) == 0}
	case k < 70:
		// multiples of 1/8: exact in binary and in six decimals
		return AVal{T: "d", M: (r.Int63n(2000000) - 1000000) * 125000}
	case k < 73:
		return AVal{T: "y", S: hex.EncodeToString([]byte(genStr(r)))}
	case k < 76:
		return AVal{T: "e"}
	case k < 78:
		if nilOK {
			return AVal{T: "n"}
		}
		return AVal{T: "e"}
	case k < 89:
		v := AVal{T: "l", L: []AVal{}}
		if depth > 0 {
			n := r.Intn(4)
			for i := 0; i < n; i++ {
				v.L = append(v.L, genAVal(r, depth-1, false))
			}
		}
		return v
	default:
		v := AVal{T: "m", KV: []KV{}}
		if depth > 0 {
			v.KV = genKVs(r, r.Intn(4), depth-1, nilOK)
		}
		return v
	}
}

func genKVs(r *rand.Rand, n int, depth int, nilOK bool) []KV {
	out := []KV{}
	for i := 0; i < n; i++ {
		out = append(out, KV{K: pick(r, keyPool), V: genAVal(r, depth, nilOK)})
	}
	return out
}

func genID(r *rand.Rand, n int) string {
	b := make([]byte, n)
	switch r.Intn(8) {
	case 0: // all zero
	case 1:
		for i := range b {
			b[i] = 0xff
		}
	default:
		r.Read(b)
	}
	return hex.EncodeToString(b)
}

const nowNs = uint64(1727700000000000000)

// ---- process zone and the time of day of the generated spans (from a PRNG of their own, seeded by the case: the main stream is not disturbed)
// zones: the offsets a writer can run under (whole hours both sides, the half / quarter hour zones, the extremes -12:00 and +14:00)
var zoneOffsets = []int{-5 * 3600, 9 * 3600, -12 * 3600, 14 * 3600, 5*3600 + 1800, -(3*3600 + 1800), 5*3600 + 2700, -8 * 3600, 3600, -3600,
	12*3600 + 2700, -(9*3600 + 1800), 2 * 3600, -10 * 3600, 1800, -900}

const midnightNs = uint64(1727740800) * 1000000000 // 2024-10-01T00:00:00Z, the UTC midnight after nowNs

// spanBaseNs: where the ordinary span times of the case being generated start (OTLP: + up to 1000 s; Zipkin: the same in microseconds);
// zr: the side PRNG of the case (nil outside gen)
var spanBaseNs = nowNs
var zr *rand.Rand
var genTZ int

func genZone(c *Case) {
	zr = rand.New(rand.NewSource(c.SegSeed ^ 0x7a6f6e65))
	spanBaseNs = nowNs
	if zr.Intn(10) < 3 {
		c.TZ = 0
	} else if zr.Intn(2) == 0 {
		c.TZ = zoneOffsets[zr.Intn(3)] // UTC-5, UTC+9, UTC-12 most often
	} else {
		c.TZ = zoneOffsets[zr.Intn(len(zoneOffsets))]
	}
	genTZ = c.TZ
	switch k := zr.Intn(10); {
	case k < 3: // around 12:40Z, as before
	case k < 7: // the 1000 s window straddles UTC midnight: the spans before it are on another LOCAL day east of UTC, those after it west of UTC
		spanBaseNs = midnightNs - uint64(zr.Intn(1000))*1000000000
	default: // the window straddles the writer's LOCAL midnight (UTC midnight - offset)
		spanBaseNs = uint64(int64(midnightNs) - int64(c.TZ)*1000000000 - int64(zr.Intn(1000))*1000000000)
	}
}

// edgeNs: one ordinary span time in eight is snapped to the second / nanosecond around UTC midnight or around the writer's local midnight
func edgeNs(t uint64, tz int) uint64 {
	if zr == nil || zr.Intn(8) != 0 {
		return t
	}
	m := int64(midnightNs)
	if zr.Intn(3) == 0 {
		m -= int64(tz) * 1000000000
	}
	return uint64(m + []int64{-1000000000, -1, 0, 1, 999999999, 1000000000, -1000000001}[zr.Intn(7)])
}

func genOtlp(r *rand.Rand, c *Case, depth int) {
	c.Fmt = "otlp"
	cls := r.Intn(100)
	badUTF := cls >= 82 && cls < 85 // 3 %: one string of the request is not UTF-8 (proto.Unmarshal refuses the whole request)
	nilOK := cls >= 89 && cls < 92
	noRes := cls >= 92 // 8 %: some resource groups lack the optional resource message, mixed with ordinary groups
	badIDs := cls >= 85 && cls < 89
	plain := cls < 35 // strings only, no special keys: the guard of the partial theorems is met
	c.Class = "otlp"
	if plain {
		c.Class = "otlp-plain"
	} else if nilOK {
		c.Class = "otlp-nilvalue"
	} else if noRes {
		c.Class = "otlp-noresource"
	} else if badIDs {
		c.Class = "otlp-badids"
	} else if badUTF {
		c.Class = "otlp-badutf8"
	}
	nres := 1 + r.Intn(3)
	if noRes && nres == 1 && r.Intn(3) != 0 {
		nres = 2 + r.Intn(2)
	}
	lacking := -1
	if noRes {
		lacking = r.Intn(nres) // this group lacks the resource message for sure, every other one with probability 1/3
	}
	for i := 0; i < nres; i++ {
		res := ORes{HasRes: true, Attrs: []KV{}, Scopes: [][]OSpan{}, Schema: r.Intn(4) == 0}
		if noRes && (i == lacking || r.Intn(3) == 0) {
			res.HasRes = false
		}
		if plain {
			if r.Intn(4) != 0 {
				res.Attrs = append(res.Attrs, KV{K: "service.name", V: AVal{T: "s", S: pick(r, []string{"frontend", "cart", "db", "svc-1"})}})
			}
			for j := r.Intn(3); j > 0; j-- {
				res.Attrs = append(res.Attrs, KV{K: pick(r, []string{"host", "k", "k2", "region", "a.b"}), V: AVal{T: "s", S: genStr(r)}})
			}
		} else if res.HasRes {
			res.Attrs = genKVs(r, r.Intn(5), depth, nilOK)
			if r.Intn(2) == 0 {
				res.Attrs = append(res.Attrs, KV{K: "service.name", V: AVal{T: "s", S: pick(r, []string{"frontend", "cart", "db", ""})}})
			}
		}
		nsc := r.Intn(3)
		if (i == 0 || i == lacking) && nsc == 0 {
			nsc = 1
		}
		for j := 0; j < nsc; j++ {
			sc := []OSpan{}
			nsp := r.Intn(4)
			if (i == 0 || i == lacking) && j == 0 && nsp == 0 {
				nsp = 1
			}
			for k := 0; k < nsp; k++ {
				sp := OSpan{Tid: genID(r, 16), Sid: genID(r, 8), Name: genStr(r), Kind: int32(r.Intn(6)), Attrs: []KV{}}
				if badIDs && r.Intn(3) == 0 { // rejected by onSpan (400) since the repair of defect 9
					if r.Intn(2) == 0 {
						sp.Tid = genID(r, []int{0, 3, 15, 17, 32}[r.Intn(5)])
					} else {
						sp.Sid = genID(r, []int{0, 4, 7, 9, 16}[r.Intn(5)])
					}
				}
				if r.Intn(2) == 0 {
					sp.Pid = genID(r, 8)
				}
				switch r.Intn(12) {
				case 0:
					sp.Start, sp.End = 0, 0
				case 1:
					sp.Start, sp.End = nowNs, nowNs-1-uint64(r.Intn(1000)) // end before start
				case 2:
					sp.Start, sp.End = 1<<63+uint64(r.Intn(1000)), 1<<63+uint64(r.Intn(100000))+1000
				case 3:
					sp.Start, sp.End = ^uint64(0), ^uint64(0)
				default:
					sp.Start = edgeNs(spanBaseNs+uint64(r.Int63n(1e12)), c.TZ)
					sp.End = sp.Start + uint64(r.Int63n(5e9))
				}
				if plain {
					for n := r.Intn(4); n > 0; n-- {
						sp.Attrs = append(sp.Attrs, KV{K: pick(r, []string{"http.method", "k", "k2", "a", "a.b", "span.kind", "é"}), V: AVal{T: "s", S: genStr(r)}})
					}
				} else {
					sp.Attrs = genKVs(r, r.Intn(6), depth, nilOK)
				}
				if r.Intn(10) < 3 { // events and status: carried through the write path inside the payload, returned by the read path
					for n := r.Intn(3); n > 0; n-- {
						ev := OEvent{T: sp.Start + uint64(r.Intn(1000)), N: pick(r, []string{"exception", "", "retry", "é"}), Attrs: []KV{}}
						if r.Intn(8) == 0 {
							ev.T = 0
						}
						if r.Intn(2) == 0 {
							ev.Attrs = genKVs(r, 1+r.Intn(2), 1, false)
						}
						if r.Intn(3) == 0 {
							ev.Dropped = []uint32{1, 7, 300, ^uint32(0)}[r.Intn(4)]
						}
						sp.Events = append(sp.Events, ev)
					}
					if r.Intn(3) != 0 {
						sp.Status = &OStatus{Msg: pick(r, []string{"", "boom", "é"}), Code: int32(r.Intn(3))}
					}
				}
				if r.Intn(5) == 0 { // trace_state, dropped counts, flags, links: carried through the write path inside the payload
					m := &OMore{State: pick(r, []string{"", "rojo=00f067aa0ba902b7", "k=v,k2=v2"}), Links: []OLink{}}
					u32 := func() uint32 {
						switch r.Intn(4) {
						case 0:
							return 0
						case 1:
							return ^uint32(0)
						case 2:
							return uint32(r.Intn(300))
						}
						return r.Uint32()
					}
					m.DAttrs, m.DEvents, m.DLinks, m.Flags = u32(), u32(), u32(), u32()
					for n := r.Intn(3); n > 0; n-- {
						l := OLink{Tid: genID(r, 16), Sid: genID(r, 8), State: pick(r, []string{"", "a=b"}), Attrs: []KV{}, Dropped: u32(), Flags: u32()}
						if r.Intn(6) == 0 { // an empty link message
							l = OLink{Attrs: []KV{}}
						}
						if r.Intn(2) == 0 {
							l.Attrs = genKVs(r, 1+r.Intn(2), 1, false)
						}
						m.Links = append(m.Links, l)
					}
					sp.More = m
				}
				sc = append(sc, sp)
			}
			res.Scopes = append(res.Scopes, sc)
			res.ScopeMsg = append(res.ScopeMsg, r.Intn(3))
		}
		c.Otlp = append(c.Otlp, res)
	}
	if badUTF { // a span's name, an attribute key, a string value (top level or inside a key-value list or an array) of a span or of a resource
		bad := pick(r, badUTF8)
		res := &c.Otlp[r.Intn(len(c.Otlp))]
		var sp *OSpan
		for i := range c.Otlp {
			for j := range c.Otlp[i].Scopes {
				for k := range c.Otlp[i].Scopes[j] {
					if sp == nil || r.Intn(3) == 0 {
						sp = &c.Otlp[i].Scopes[j][k]
					}
				}
			}
		}
		switch r.Intn(6) {
		case 0:
			sp.Name = bad
		case 1:
			sp.Attrs = append(sp.Attrs, KV{K: bad, V: AVal{T: "i", I: 1}})
		case 2:
			sp.Attrs = append(sp.Attrs, KV{K: "k", V: AVal{T: "s", S: bad}})
		case 3:
			sp.Attrs = append(sp.Attrs, KV{K: "m", V: AVal{T: "m", KV: []KV{{K: "in", V: AVal{T: "l", L: []AVal{{T: "s", S: "ok"}, {T: "s", S: bad}}}}}}})
		case 4:
			sp.Attrs = append(sp.Attrs, KV{K: "m", V: AVal{T: "m", KV: []KV{{K: bad, V: AVal{T: "b", B: true}}}}})
		default:
			if res.HasRes {
				res.Attrs = append(res.Attrs, KV{K: "host", V: AVal{T: "s", S: bad}})
			} else {
				sp.Name = bad
			}
		}
	}
}

func js(s string) JV       { return JV{T: "s", S: s} }
func ji(i int64) JV        { return JV{T: "i", I: strconv.FormatInt(i, 10)} }
func jo(kv ...JKV) JV      { return JV{T: "o", O: kv} }
func f(k string, v JV) JKV { return JKV{K: k, V: v} }

func genHex(r *rand.Rand, n int) string {
	const lo, up = "0123456789abcdef", "0123456789ABCDEF"
	al := lo
	if r.Intn(5) == 0 {
		al = up
	}
	b := make([]byte, n)
	for i := range b {
		b[i] = al[r.Intn(16)]
	}
	switch r.Intn(10) {
	case 0:
		for i := range b {
			b[i] = '0'
		}
	case 1:
		for i := range b {
			b[i] = 'f'
		}
	}
	return string(b)
}

// genZStr: a string of a Zipkin request; one in twelve is not UTF-8 (a lone continuation byte, a truncated sequence, Latin-1, an encoded
// surrogate, an overlong form, 0xFF): the write side (jx) and the read side (fastjson) both hand such bytes on unchanged
var badUTF8 = []string{"a\xffb", "\xc3", "caf\xe9", "\xed\xa0\x80", "ok\x80", "\xc0\xaf", "\xf0\x9f\x98", "x\xfe\xffy\"q"}

func genZStr(r *rand.Rand) string {
	if r.Intn(12) == 0 {
		return pick(r, badUTF8)
	}
	return genStr(r)
}

func genJunk(r *rand.Rand, depth int) JV {
	switch r.Intn(7) {
	case 0:
		return js(genZStr(r))
	case 1:
		return ji(int64(r.Intn(1000)))
	case 2:
		return JV{T: "f"}
	case 3:
		return JV{T: "b", B: r.Intn(2) == 0}
	case 4:
		return JV{T: "z"}
	case 5:
		v := JV{T: "a", A: []JV{}}
		if depth > 0 {
			for n := r.Intn(3); n > 0; n-- {
				v.A = append(v.A, genJunk(r, depth-1))
			}
		}
		return v
	}
	v := JV{T: "o", O: []JKV{}}
	if depth > 0 {
		for n := r.Intn(3); n > 0; n-- {
			v.O = append(v.O, f(pick(r, keyPool), genJunk(r, depth-1)))
		}
	}
	return v
}

func genEndpoint(r *rand.Rand) JV {
	o := JV{T: "o", O: []JKV{}}
	if r.Intn(5) != 0 {
		o.O = append(o.O, f("serviceName", js(pick(r, []string{"frontend", "cart", "db", "", "svc-1", "é", "svc\xe9"}))))
	}
	if r.Intn(2) == 0 {
		o.O = append(o.O, f("ipv4", js("10.0.0."+strconv.Itoa(r.Intn(255)))))
	}
	if r.Intn(6) == 0 {
		o.O = append(o.O, f("ipv6", js("::1")))
	}
	if r.Intn(2) == 0 {
		if r.Intn(4) == 0 { // lexical forms the read side's number reader (fastjson GetInt64) does not take for an integer, and the edges of int64
			o.O = append(o.O, f("port", JV{T: "n", S: pick(r, []string{"80.0", "8e1", "-0", "9223372036854775807", "9223372036854775808", "-1", "0.5"})}))
		} else {
			o.O = append(o.O, f("port", ji(int64(r.Intn(3))*4040)))
		}
	}
	if !strictEndpoints && r.Intn(10) == 0 { // a repeated member inside the endpoint: the write path takes the last serviceName, the read path the first
		o.O = append(o.O, f("serviceName", js(pick(r, []string{"other", "", "db"}))))
	}
	if r.Intn(2) == 0 {
		r.Shuffle(len(o.O), func(i, j int) { o.O[i], o.O[j] = o.O[j], o.O[i] })
	}
	return o
}

// strictEndpoints: set while a span of the strict classes (no repeated member names anywhere) is generated
var strictEndpoints bool

// annotations: mostly proper {"timestamp": microseconds, "value": text} objects; otherwise (not strict) the forms the read path
// answers with no event or a changed one: timestamp 0 / a string / a fraction / beyond uint64 nanoseconds, a missing or non-string value,
// an element that is no object, a member that is no array
func genAnnotations(r *rand.Rand, strict bool) JV {
	if !strict && r.Intn(10) == 0 {
		return pick2(r, js("x"), jo(f("timestamp", ji(5))), JV{T: "z"})
	}
	a := JV{T: "a", A: []JV{}}
	for n := r.Intn(4); n > 0; n-- {
		ts := ji(1727700000000001 + int64(r.Intn(1000)))
		val := js(pick(r, []string{"ws", "wr", "cs", "é", "error: x/y"}))
		if !strict {
			switch r.Intn(8) {
			case 0:
				ts = pick2(r, ji(0), JV{T: "n", S: "-0"}, js("1727700000000001"), JV{T: "n", S: "1727700000000001.0"}, JV{T: "n", S: "1e15"},
					JV{T: "i", I: "18446744073709551"}, JV{T: "i", I: "18446744073709552"}, JV{T: "i", I: "18446744073709551616"}, ji(-5), JV{T: "z"})
			case 1:
				val = pick2(r, ji(3), JV{T: "z"}, jo())
			case 2:
				a.A = append(a.A, pick2(r, js("x"), ji(1), JV{T: "a", A: []JV{}}))
				continue
			}
		}
		fs := []JKV{f("timestamp", ts), f("value", val)}
		if r.Intn(4) == 0 {
			fs = fs[:1+r.Intn(1)]
		}
		if r.Intn(2) == 0 && len(fs) == 2 {
			fs[0], fs[1] = fs[1], fs[0]
		}
		a.A = append(a.A, JV{T: "o", O: fs})
	}
	return a
}

func genTime(r *rand.Rand, base int64) JV {
	var v int64
	switch r.Intn(12) {
	case 0:
		v = 0
	case 1:
		v = 9223372036854775 + int64(r.Intn(10)) - 5 // around the *1000 overflow
	case 2:
		v = -int64(r.Intn(100000))
	default:
		v = base + r.Int63n(1e9)
		if base > 1 { // a timestamp (durations have base 1)
			v = int64(edgeNs(uint64(v)*1000, genTZ) / 1000)
		}
	}
	if v == 0 && r.Intn(2) == 0 {
		return JV{T: "n", S: "-0"} // an integer literal: the value 0
	}
	if r.Intn(3) == 0 {
		s := strconv.FormatInt(v, 10)
		if v >= 0 && r.Intn(6) == 0 {
			s = "+" + s
		}
		return js(s)
	}
	return ji(v)
}

// malformed: 0 none; otherwise one defect is injected
func genZSpan(r *rand.Rand, malformed bool, strict bool) JV {
	strictEndpoints = strict
	fs := []JKV{}
	tl := 32
	if !strict {
		switch r.Intn(6) {
		case 0:
			tl = 16
		case 1:
			tl = 1 + r.Intn(31)
		case 2:
			tl = 33 + r.Intn(4)
		}
	} else if r.Intn(3) == 0 {
		tl = 16
	}
	if strict || r.Intn(40) != 0 {
		fs = append(fs, f("traceId", js(genHex(r, tl))))
	}
	il := 16
	if !strict && r.Intn(5) == 0 {
		il = 1 + r.Intn(20)
	}
	if strict || r.Intn(40) != 0 {
		fs = append(fs, f("id", js(genHex(r, il))))
	}
	if r.Intn(2) == 0 {
		pl := 16
		if !strict && r.Intn(3) == 0 {
			pl = 1 + r.Intn(20)
		}
		fs = append(fs, f("parentId", js(genHex(r, pl))))
	}
	if r.Intn(8) != 0 {
		fs = append(fs, f("name", js(genZStr(r))))
	}
	if r.Intn(10) != 0 {
		fs = append(fs, f("timestamp", genTime(r, int64(spanBaseNs/1000))))
	}
	if r.Intn(10) != 0 {
		fs = append(fs, f("duration", genTime(r, 1)))
	}
	if r.Intn(2) == 0 {
		fs = append(fs, f("kind", js(pick(r, []string{"CLIENT", "SERVER", "PRODUCER", "CONSUMER", "client", ""}))))
	}
	if r.Intn(4) != 0 {
		fs = append(fs, f("localEndpoint", genEndpoint(r)))
	}
	if r.Intn(3) == 0 {
		fs = append(fs, f("remoteEndpoint", genEndpoint(r)))
	}
	if r.Intn(5) != 0 {
		tags := JV{T: "o", O: []JKV{}}
		for n := r.Intn(5); n > 0; n-- {
			k := pick(r, keyPool)
			if strict {
				k = pick(r, []string{"http.method", "k", "k2", "a", "a.b", "é", "error"}) + strconv.Itoa(len(tags.O))
			}
			if !strict && r.Intn(6) == 0 {
				tags.O = append(tags.O, f(k, genJunk(r, 1)))
			} else {
				if r.Intn(25) == 0 { // a member name that is not UTF-8
					k = pick(r, badUTF8) + strconv.Itoa(len(tags.O))
				}
				tags.O = append(tags.O, f(k, js(genZStr(r))))
			}
		}
		fs = append(fs, f("tags", tags))
	}
	if r.Intn(3) == 0 {
		fs = append(fs, f("annotations", genAnnotations(r, strict)))
	}
	if r.Intn(5) == 0 {
		fs = append(fs, f(pick(r, []string{"debug", "shared", "extra"}), genJunk(r, 2)))
	}
	if !strict && r.Intn(12) == 0 && len(fs) > 0 { // a repeated field
		d := fs[r.Intn(len(fs))]
		switch d.K {
		case "name":
			d.V = js(genStr(r))
		case "tags":
			d.V = jo(f("dup", js("x")))
		case "localEndpoint", "remoteEndpoint":
			d.V = genEndpoint(r)
		}
		fs = append(fs, d)
	}
	r.Shuffle(len(fs), func(i, j int) { fs[i], fs[j] = fs[j], fs[i] })
	if malformed {
		switch r.Intn(12) {
		case 0:
			return genJunk(r, 1) // most likely not an object (when it is one, it is a span without ids: see below)
		case 1:
			fs = append(fs, f("timestamp", JV{T: "f"}))
		case 2:
			fs = append(fs, f("duration", pick2(r, JV{T: "b", B: true}, js("12x"), js(""), JV{T: "i", I: "9223372036854775808"}, JV{T: "z"})))
		case 3:
			fs = append(fs, f("name", ji(5)))
		case 4:
			fs = append(fs, f(pick(r, []string{"traceId", "id", "parentId"}), pick2(r, js(""), js("zz"), js("0g"), ji(7), js("abc"))))
		case 5:
			fs = append(fs, f("tags", pick2(r, js("x"), JV{T: "a", A: []JV{}}, ji(1))))
		case 6:
			fs = append(fs, f(pick(r, []string{"localEndpoint", "remoteEndpoint"}), pick2(r, js("x"), jo(f("serviceName", ji(3))), JV{T: "z"})))
		case 7:
			fs = append(fs, f("timestamp", js(pick(r, []string{"1_000", " 5", "0x10", "-", "99999999999999999999"}))))
		case 8:
			fs = append(fs, f("duration", JV{T: "i", I: "-9223372036854775809"}))
		case 9: // integers far outside int64 (jx.Decoder.Int64 wraps around on some of them instead of reporting an overflow)
			big := []string{"25000000000000000000", "18446744073709551617", "36893488147419103232", "-25000000000000000000",
				strconv.FormatUint(2050000000000000000+uint64(r.Int63n(700000000000000000)), 10) + strconv.Itoa(r.Intn(10))}
			fs = setField(fs, pick(r, []string{"timestamp", "duration"}), JV{T: "i", I: big[r.Intn(len(big))]})
		case 10: // numbers that are not integer literals
			fs = setField(fs, pick(r, []string{"timestamp", "duration"}), JV{T: "n", S: pick(r, []string{"1e3", "1E3", "5.0", "1.5e3", "12e-1", "-0.0", "1727700000000000.0"})})
		case 11: // microseconds whose nanoseconds leave int64
			fs = setField(fs, pick(r, []string{"timestamp", "duration"}), pick2(r, ji(9223372036854776), ji(-9223372036854776), js("9223372036854775807"), ji(1727700000000000000)))
		}
	}
	return JV{T: "o", O: fs}
}

func pick2(r *rand.Rand, xs ...JV) JV { return xs[r.Intn(len(xs))] }

// setField: the member k of the object gets the value v (every earlier occurrence is replaced: no repeated member name is introduced)
func setField(fs []JKV, k string, v JV) []JKV {
	out := []JKV{}
	done := false
	for _, kv := range fs {
		if kv.K == k {
			if !done {
				out = append(out, f(k, v))
				done = true
			}
			continue
		}
		out = append(out, kv)
	}
	if !done {
		out = append(out, f(k, v))
	}
	return out
}

func hasIDs(v JV) bool {
	if v.T != "o" {
		return true
	}
	t, i := false, false
	for _, kv := range v.O {
		if kv.K == "traceId" {
			t = true
		}
		if kv.K == "id" {
			i = true
		}
	}
	return t && i
}

func genZipkin(r *rand.Rand, c *Case) {
	c.Fmt = "zarr"
	if r.Intn(2) == 0 {
		c.Fmt = "znd"
	}
	cls := r.Intn(10)
	strict := cls < 4
	mal := cls >= 8
	c.Class = c.Fmt
	if strict {
		c.Class += "-strict"
	} else if mal {
		c.Class += "-malformed"
	}
	n := 1 + r.Intn(4)
	if c.Fmt == "zarr" && r.Intn(15) == 0 {
		n = 0
	}
	bad := -1
	if mal && n > 0 {
		bad = r.Intn(n)
	}
	c.Zip = []JV{}
	for i := 0; i < n; i++ {
		e := genZSpan(r, i == bad, strict)
		if !hasIDs(e) {
			c.Class = c.Fmt + "-noids" // rejected by onSpan (400) since the repair of defect 9
		}
		c.Zip = append(c.Zip, e)
	}
	c.Sep = r.Intn(4)
	c.TrailNL = r.Intn(2) == 0
	switch k := r.Intn(10); {
	case k < 5:
		c.Esc = 0
	case k < 8:
		c.Esc = 1
	default:
		c.Esc = 2
	}
	// what follows the span object on an NDJSON line: whitespace is harmless, anything else makes the line something that is not one JSON value
	if c.Fmt == "znd" && n > 0 && r.Intn(8) == 0 {
		c.Tails = make([]string, n)
		c.Tails[r.Intn(n)] = pick(r, []string{" garbage", `{"traceId":"0af7651916cd43dd8448eb211c80319c","id":"00000000000000aa","name":"second"}`,
			",", " 1", "]", " \t ", "  ", ` "x"`, "}"})
		c.Class += "-tail"
	}
}

// one request above the 1 MiB threshold of onSpan: the parser answers with several responses (mid-request flush);
// all spans share one 30 kB attribute value so that the case file stays small
func genBig(r *rand.Rand, c *Case) {
	c.Fmt, c.Class = "otlp", "otlp-big-flush"
	blob := strings.Repeat("x", 30000)
	res := ORes{HasRes: true, Attrs: []KV{{K: "service.name", V: AVal{T: "s", S: "bulk"}}}, Scopes: [][]OSpan{{}}}
	n := 40 + r.Intn(10)
	for i := 0; i < n; i++ {
		sp := OSpan{Tid: genID(r, 16), Sid: genID(r, 8), Name: "op" + strconv.Itoa(i), Kind: 1,
			Start: nowNs + uint64(i), End: nowNs + uint64(i) + 1000, Attrs: []KV{{K: "blob", V: AVal{T: "s", S: blob}}, {K: "i", V: AVal{T: "i", I: int64(i)}}}}
		res.Scopes[0] = append(res.Scopes[0], sp)
	}
	c.Otlp = []ORes{res}
}

// n Zipkin spans, each with a shared blob tag of blobLen bytes (0: small spans): bodies beyond the 64 KiB read
// buffers of jx.Decoder / bufio.Scanner, i.e. consumed in several Reads whatever the delivery
func genFat(r *rand.Rand, c *Case, fmtName string, n int, blobLen int, segMode int) {
	c.Fmt, c.Class, c.SegMode = fmtName, fmt.Sprintf("%s-large-%dx%d", fmtName, n, blobLen), segMode
	blob := strings.Repeat("x", blobLen)
	c.Zip = []JV{}
	for i := 0; i < n; i++ {
		tags := JV{T: "o", O: []JKV{f("http.method", js("GET")), f("i", js(strconv.Itoa(i)))}}
		if blobLen > 0 {
			tags.O = append(tags.O, f("blob", js(blob)))
		}
		fs := []JKV{f("traceId", js(genHex(r, 32))), f("id", js(genHex(r, 16))), f("name", js("operation-"+strconv.Itoa(i))),
			f("timestamp", ji(1727700000000000+int64(i))), f("duration", ji(1000+int64(i))),
			f("localEndpoint", jo(f("serviceName", js("bulk")))), f("tags", tags)}
		if i > 0 && r.Intn(2) == 0 {
			fs = append(fs, f("parentId", js(genHex(r, 16))))
		}
		r.Shuffle(len(fs), func(a, b int) { fs[a], fs[b] = fs[b], fs[a] })
		c.Zip = append(c.Zip, JV{T: "o", O: fs})
	}
	c.Sep, c.TrailNL = r.Intn(4), r.Intn(2) == 0
}

// ---- requests around and above the 1 MiB threshold of onSpan (mid-request flush)

func jfield(v JV, k string) (JV, bool) {
	for _, kv := range v.O {
		if kv.K == k {
			return kv.V, true
		}
	}
	return JV{}, false
}

// estZipSize: what onSpan adds to spans.Size + attrs.Size for a well-formed span object without repeated members
// (used only to AIM generated requests at the threshold; the expected flush points come from the Coq model)
func estZipSize(e JV, text string) int {
	n := 49 + len(text)
	if _, ok := jfield(e, "parentId"); ok {
		n += 8
	}
	svc := ""
	for _, ep := range []string{"localEndpoint", "remoteEndpoint"} {
		if o, ok := jfield(e, ep); ok {
			if sn, ok := jfield(o, "serviceName"); ok {
				n += 40 + len(ep) - len("Endpoint") + len("_endpoint_service_name") + len(sn.S)
				if svc == "" {
					svc = sn.S
				}
			}
		}
	}
	if nm, ok := jfield(e, "name"); ok {
		n += len(nm.S) + 40 + 4 + len(nm.S)
	}
	if tg, ok := jfield(e, "tags"); ok {
		for _, kv := range tg.O {
			if kv.V.T == "s" {
				n += 40 + len(kv.K) + len(kv.V.S)
			}
		}
	}
	return n + len(svc) + 40 + len("service.name") + len(svc)
}

func estCaseSize(c *Case) int {
	_, texts := zipkinBody(c)
	n := 0
	for i, e := range c.Zip {
		n += estZipSize(e, texts[i])
	}
	return n
}

// genThreshold: n Zipkin spans with a 30 kB tag each; target > 0: the first span is padded so that the sizes onSpan
// accumulates over the whole request add up to exactly target (1 MiB: no flush; 1 MiB + 1: a flush at the last span)
func genThreshold(r *rand.Rand, c *Case, fmtName string, n int, target int, segMode int, class string) {
	genFat(r, c, fmtName, n, 30000, segMode)
	c.Class = class
	if target <= 0 {
		return
	}
	d := target - estCaseSize(c)
	if d < 3 {
		panic("genThreshold: request already above the target")
	}
	first := &c.Zip[0]
	for k := range first.O {
		if first.O[k].K == "name" && d%2 == 1 {
			first.O[k].V.S += "x" // row name + tag value + text
			d -= 3
		}
	}
	for k := range first.O {
		if first.O[k].K == "tags" {
			for j := range first.O[k].V.O {
				if first.O[k].V.O[j].K == "blob" {
					first.O[k].V.O[j].V.S += strings.Repeat("x", d/2) // tag value + text
				}
			}
		}
	}
	if estCaseSize(c) != target {
		panic("genThreshold: padding missed the target")
	}
}

// breakSpan: the span at index i fails to decode (after the spans before it were handed to onSpan)
func breakSpan(c *Case, i int) {
	c.Zip[i].O = append(c.Zip[i].O, f("duration", JV{T: "b", B: true}))
}

var skipIDs = map[int]bool{}

func gen(r *rand.Rand, id int, depth int) Case {
	c := Case{ID: id, Otlp: []ORes{}, Zip: []JV{}}
	c.SegSeed = r.Int63()
	c.Retry = r.Intn(5) < 2
	switch k := r.Intn(100); {
	case k < 35:
		c.SegMode = 0
	case k < 45:
		c.SegMode = 1
	case k < 85:
		c.SegMode = 2
	default:
		c.SegMode = 3
	}
	genZone(&c)
	sid := id
	if skipIDs[id] { // the quick tier leaves some of the large fixed requests to the thorough tier (SPANS_SKIP)
		sid = -1
	}
	if sid >= 7 && sid <= 23 { // the large fixed requests keep their times (their sizes are tuned); they run under the zone drawn above
		spanBaseNs, zr = nowNs, nil
	}
	switch sid {
	case 7:
		genBig(r, &c)
		return c
	case 8: // > 64 KiB array body, network-like delivery
		genFat(r, &c, "zarr", 40, 2000, 2)
		return c
	case 9: // > 128 KiB array body through ONE reader (the decoder's 64 KiB buffer is refilled twice)
		genFat(r, &c, "zarr", 80, 2000, 0)
		return c
	case 10:
		genFat(r, &c, "znd", 80, 2000, 2)
		return c
	case 11: // hundreds of small spans
		genFat(r, &c, "zarr", 320, 0, 0)
		return c
	case 12:
		genFat(r, &c, "znd", 320, 0, 3)
		return c
	case 13:
		genFat(r, &c, "zarr", 320, 0, 2)
		return c
	case 14, 15, 16: // NDJSON (and array) lines beyond bufio.Scanner's default 64 KiB token limit, followed by further spans
		fm := "znd"
		if id == 16 {
			fm = "zarr"
		}
		genFat(r, &c, fm, 3+r.Intn(3), 0, []int{2, 0, 3}[id-14])
		long := 1 + r.Intn(len(c.Zip)-1) // never the last span
		if long == len(c.Zip)-1 {
			long--
		}
		for k := range c.Zip[long].O {
			if c.Zip[long].O[k].K == "tags" {
				c.Zip[long].O[k].V.O = append(c.Zip[long].O[k].V.O, f("blob", js(strings.Repeat("x", 66000+r.Intn(60000)))))
			}
		}
		c.Class = fm + "-long-line"
		return c
	case 17: // > 1 MiB Zipkin array: two mid-request flushes
		genThreshold(r, &c, "zarr", 40, 0, 2, "zarr-big-flush")
		return c
	case 18:
		genThreshold(r, &c, "znd", 38, 0, 0, "znd-big-flush")
		return c
	case 19: // the accumulated size is exactly 1 MiB: not above the threshold, one response
		genThreshold(r, &c, "zarr", 17, 1024*1024, 0, "zarr-at-threshold")
		return c
	case 20: // one byte more: flushed at the last span, the final response is empty
		genThreshold(r, &c, "znd", 17, 1024*1024+1, 2, "znd-threshold-plus-1")
		return c
	case 21: // the last span fails after two flushes: error response, the flushed rows stay
		genThreshold(r, &c, "zarr", 40, 0, 2, "zarr-error-after-flush")
		breakSpan(&c, len(c.Zip)-1)
		return c
	case 22: // a span in the middle fails after one flush: nothing after it is decoded
		genThreshold(r, &c, "znd", 40, 0, 0, "znd-error-after-flush")
		breakSpan(&c, 25)
		return c
	case 23: // OTLP: a span with a 3-byte trace id after two flushes
		genBig(r, &c)
		c.Class = "otlp-error-after-flush"
		last := &c.Otlp[0].Scopes[0][len(c.Otlp[0].Scopes[0])-1]
		last.Tid = "010203"
		return c
	}
	if r.Intn(2) == 0 {
		genOtlp(r, &c, depth)
	} else {
		genZipkin(r, &c)
	}
	return c
}

// ---------------------------------------------------------------- byte-safe transport of strings
// encoding/json replaces bytes that are not UTF-8 by U+FFFD; the strings of a case (inputs, tokens, rows, read-back) are byte strings.
// armor: every such string of a case becomes "\x00hex:<hex of its bytes>" before the case is printed; unarmor reverses it on cases read back.
const armorMark = "\x00hex:"

func walkStrings(v reflect.Value, fn func(string) string) {
	switch v.Kind() {
	case reflect.Ptr, reflect.Interface:
		if !v.IsNil() {
			walkStrings(v.Elem(), fn)
		}
	case reflect.Struct:
		for i := 0; i < v.NumField(); i++ {
			walkStrings(v.Field(i), fn)
		}
	case reflect.Slice, reflect.Array:
		for i := 0; i < v.Len(); i++ {
			walkStrings(v.Index(i), fn)
		}
	case reflect.String:
		if v.CanSet() {
			v.SetString(fn(v.String()))
		}
	}
}
func armor(c *Case) {
	walkStrings(reflect.ValueOf(c), func(s string) string {
		if utf8.ValidString(s) {
			return s
		}
		return armorMark + hex.EncodeToString([]byte(s))
	})
}
func unarmor(c *Case) {
	walkStrings(reflect.ValueOf(c), func(s string) string {
		if strings.HasPrefix(s, armorMark) {
			if b, err := hex.DecodeString(s[len(armorMark):]); err == nil {
				return string(b)
			}
		}
		return s
	})
}

func main() {
	time.Local = time.UTC
	sql.Register("verifscript", drv{})
	var err error
	db, err = sql.Open("verifscript", "")
	if err != nil {
		panic(err)
	}
	wsvc.CreateColPools(8)
	node := &wmodel.DataDatabasesMap{}
	samplesSvc = impl.NewTempoSamplesInsertService(wmodel.InsertServiceOpts{Node: node}).(*wsvc.InsertServiceV2Multimodal)
	tagsSvc = impl.NewTempoTagsInsertService(wmodel.InsertServiceOpts{Node: node}).(*wsvc.InsertServiceV2Multimodal)
	fl := hx.ParseFlags()
	out := hx.OpenOut(fl.Out)
	defer out.Close()
	// the read path prints decode errors with fmt.Println: keep them off our stdout
	if fl.Out == "-" || fl.Out == "" {
		fmt.Fprintln(os.Stderr, "spans: use --out <file> (the read path writes diagnostics to stdout)")
	}
	for _, x := range strings.Split(os.Getenv("SPANS_SKIP"), ",") {
		if n, err := strconv.Atoi(x); err == nil {
			skipIDs[n] = true
		}
	}
	depth := 3
	if os.Getenv("SPANS_DEPTH") != "" {
		depth, _ = strconv.Atoi(os.Getenv("SPANS_DEPTH"))
	}
	if n, _ := strconv.Atoi(os.Getenv("SPANS_UTF8")); n > 0 {
		// byte strings over the bytes at which UTF-8 decides, with utf8.Valid's verdict (= what proto.Unmarshal applies to proto3 strings)
		r := hx.Rand(fl.Seed)
		al := []byte{0x00, 0x41, 0x7f, 0x80, 0x8f, 0x90, 0x9f, 0xa0, 0xbf, 0xc0, 0xc1, 0xc2, 0xdf, 0xe0, 0xe1, 0xec, 0xed, 0xee, 0xef, 0xf0, 0xf1, 0xf3, 0xf4, 0xf5, 0xff}
		for i := 0; i < n; i++ {
			b := make([]byte, r.Intn(7))
			for j := range b {
				b[j] = al[r.Intn(len(al))]
			}
			out.Put(map[string]any{"hex": hex.EncodeToString(b), "valid": utf8.Valid(b)})
		}
		return
	}
	if fl.Cases != "" {
		hx.ReadLines(fl.Cases, func(b []byte) {
			var c Case
			if err := json.Unmarshal(b, &c); err != nil {
				panic(err)
			}
			unarmor(&c)
			run(&c, true)
			armor(&c)
			out.Put(c)
		})
		out.Close() // the cases are on disk before the reads in flight begin
		writeConc(fl.Out)
		return
	}
	r := hx.Rand(fl.Seed)
	for i := 0; i < fl.N; i++ {
		c := gen(r, i, depth)
		run(&c, true)
		armor(&c)
		out.Put(c)
	}
	out.Close()
	writeConc(fl.Out)
}
