// inteng drives the real in-process LogQL engine (reader/logql/logql_transpiler_v2/internal_planner)
// offline: a generated query string is parsed by logql_parser.Parse and planned by the production
// logql_transpiler_v2.Plan; the ClickhouseGetterPlanner at the bottom of the planned chain is
// replaced by a scripted upstream RequestProcessor (generated entries in a generated batching), a
// recording tap is inserted between every two stages, and the output channel is read to the end.
// Printed per case: the chain as read off the planned processor structs, the input batches, the
// canonicalised output, and the oracle tables (fingerprint, regexp, ParseFloat, json/logfmt
// decoding, template rendering) for every value that passed a tap.
package main

import (
	"bufio"
	"bytes"
	"context"
	"encoding/json"
	"flag"
	"fmt"
	"io"
	"math"
	"math/rand"
	"os"
	"os/exec"
	"reflect"
	"regexp"
	"sort"
	"strconv"
	"strings"
	"sync/atomic"
	"text/template"
	"time"

	"github.com/Masterminds/sprig"
	"github.com/go-faster/city"
	"github.com/kr/logfmt"
	"github.com/metrico/qryn/reader/logql/logql_parser"
	lt "github.com/metrico/qryn/reader/logql/logql_transpiler_v2"
	ip "github.com/metrico/qryn/reader/logql/logql_transpiler_v2/internal_planner"
	"github.com/metrico/qryn/reader/logql/logql_transpiler_v2/shared"
	"github.com/metrico/qryn/writer/utils/heputils/cityhash102"
	"verif/harness/hx"
)

// ---------------------------------------------------------------------------------- case format

type Entry struct {
	TS     int64             `json:"ts"`
	FP     uint64            `json:"fp"`
	Labels map[string]string `json:"labels"` // nil = nil Go map
	Msg    string            `json:"msg"`    // hex
	Val    string            `json:"val"`    // float64 in %x form
	Err    string            `json:"err"`    // "" | "eof" | "err" | "panic"
	EMsg   string            `json:"emsg,omitempty"`
}

type Stage struct {
	K      string      `json:"k"`
	Op     string      `json:"op,omitempty"`
	Val    string      `json:"val,omitempty"` // hex (strings) or %x float (comparison)
	Filter *LFilter    `json:"filter,omitempty"`
	Fmt    []FmtOp     `json:"fmt,omitempty"`
	Label  string      `json:"label,omitempty"`
	Names  []string    `json:"names,omitempty"`
	Vals   []string    `json:"vals,omitempty"`
	By     bool        `json:"by,omitempty"`
	Fn     string      `json:"fn,omitempty"`
	Dur    int64       `json:"dur,omitempty"`
	Tmpl   string      `json:"tmpl,omitempty"`
	Params [][2]string `json:"params,omitempty"`
}
type FmtOp struct {
	Label string `json:"label"`
	Const bool   `json:"const"`
	Val   string `json:"val"` // hex const value or source label name
}
type LFilter struct {
	Simple  *LSimple `json:"simple,omitempty"`
	Complex *LFilter `json:"complex,omitempty"`
	Op      string   `json:"op,omitempty"`
	Tail    *LFilter `json:"tail,omitempty"`
}
type LSimple struct {
	Label string `json:"label"`
	Fn    string `json:"fn"`
	IsStr bool   `json:"is_str"`
	Str   string `json:"str"`           // hex
	Num   string `json:"num"`           // %x
	Ill   bool   `json:"ill,omitempty"` // a string operator with a numeric literal: makeFilter must refuse it
}

type Out struct {
	Err     string  `json:"err"` // "" | "err" | "panic" | "plan" | "planpanic" (Process() itself panicked)
	ErrMsg  string  `json:"err_msg,omitempty"`
	Cancel  bool    `json:"cancel"`  // ctx.CancelCtx was called during the run
	Entries []Entry `json:"entries"` // non-EOF entries, stable-sorted by fingerprint
}

type Tables struct {
	FP    []FPRow    `json:"fp"`
	Re    []ReRow    `json:"re"`
	PF    []PFRow    `json:"pf"`
	Parse []ParseRow `json:"parse"`
	Tmpl  []TmplRow  `json:"tmpl"`
}
type FPRow struct {
	Labels map[string]string `json:"labels"`
	FP     uint64            `json:"fp"`
}
type ReRow struct {
	Pat  string `json:"pat"`
	Subj string `json:"subj"`
	M    bool   `json:"m"`
}
type PFRow struct {
	S  string `json:"s"`
	Ok bool   `json:"ok"`
	V  string `json:"v"`
}
type ParseRow struct {
	ID  int               `json:"id"`
	Msg string            `json:"msg"`
	Ok  bool              `json:"ok"`
	KV  map[string]string `json:"kv"`
	// json stages: the value tree of the line (jx), whether jx.Skip and the full walk agree on it, the typed paths
	Json   bool     `json:"json,omitempty"`
	Tree   *JNode   `json:"tree,omitempty"`
	Plain  bool     `json:"plain,omitempty"`
	Params []JParam `json:"params,omitempty"`
	// logfmt stages: the (key, value) pairs kr/logfmt hands to the stage's handler on the line (hex), nil + false when it refuses it
	Logfmt  bool        `json:"logfmt,omitempty"`
	Pairs   [][2]string `json:"pairs,omitempty"`
	PairsOk bool        `json:"pairs_ok,omitempty"`
}
type TmplRow struct {
	ID     int               `json:"id"`
	Labels map[string]string `json:"labels"`
	// Ok / S: what text/template itself renders (refRender: the library called by the harness, NOT the stage under test)
	Ok bool   `json:"ok"`
	S  string `json:"s"`
	// StageOk / StageS: what a fresh instance of the real stage does with the single entry (compared with Ok / S by the check)
	StageOk bool   `json:"stage_ok"`
	StageS  string `json:"stage_s"`
	Tmpl    string `json:"tmpl"`
}

type Case struct {
	ID        int       `json:"id"`
	Class     string    `json:"class"`
	Query     string    `json:"query"`
	From      int64     `json:"from"`
	To        int64     `json:"to"`
	Limit     int64     `json:"limit"`
	In        [][]Entry `json:"in"`
	Range     string    `json:"range,omitempty"`      // the range of a generated metric query as written ([1500ms]) ...
	RangeKind string    `json:"range_kind,omitempty"` // ... and how it relates to whole seconds / milliseconds
	NoFix     bool      `json:"nofix,omitempty"`      // true: ctx is used as given (not aligned like FixPeriodPlanner does)
	Mode      string    `json:"mode,omitempty"`       // "" = chain | "fp" = fingerprint structure case
	Chain     []Stage   `json:"chain"`
	Split     int       `json:"split"` // number of pipeline stages left to ClickHouse
	NPipe     int       `json:"npipe"`
	BP        int       `json:"bp"` // GetBreakpoint(script)
	Out       Out       `json:"out"`
	Stages    [][]Entry `json:"stage_out,omitempty"` // flattened output of every stage (debug / localisation)
	Tab       Tables    `json:"tab"`
	// mode "fp"
	FPLabels map[string]string `json:"fp_labels,omitempty"`
	FPPairs  []PFH             `json:"fp_pairs,omitempty"`
	FPDescr  string            `json:"fp_descr,omitempty"`
	FPDescrH uint64            `json:"fp_descr_h"`
	FPOut    uint64            `json:"fp_out"`
	// process death / cross-check of the pipelined run against the stage-by-stage run
	QTmpl      string   `json:"qtmpl,omitempty"` // query with placeholders for the comparison thresholds (generator only)
	ThI        string   `json:"th_i,omitempty"`
	ThO        string   `json:"th_o,omitempty"`
	Aggs       *AggQ    `json:"aggs,omitempty"` // the aggregators of the query as parsed (a second parse, not the planned chain)
	Pipes      []string `json:"pipes"`  // kinds of the pipeline stages of the parsed query, before the split
	Absent     bool     `json:"absent"` // the range aggregation is absent_over_time
	CrashStage int      `json:"crash_stage"`
	CrashTrace string   `json:"crash_trace,omitempty"` // planner types named in the stack trace of the dying process
	SQL        string   `json:"sql,omitempty"`         // Mode "sql": the statement the ClickHouse planner prints for Query
	Pipelined  string   `json:"pipelined,omitempty"`
	PipeOut    *Out     `json:"pipe_out,omitempty"`
}
type PFH struct {
	S string `json:"s"`
	H uint64 `json:"h"`
}

// the aggregators of the query as PARSED (round 8): read off a second parse of the query text, never off the planned chain;
// model/InternalEnginePlan.v (plan_aggs) says which stages, in which order, they become
type BWQ struct {
	By    bool     `json:"by"`
	Names []string `json:"names"`
}
type CmpQ struct {
	Op  string `json:"op"`
	Val string `json:"val"` // %x
}
type RangeQ struct {
	Fn     string `json:"fn"`
	Unwrap bool   `json:"unwrap"`
	Dur    int64  `json:"dur"`
	Pre    *BWQ   `json:"pre,omitempty"`
	Suf    *BWQ   `json:"suf,omitempty"`
	Cmp    *CmpQ  `json:"cmp,omitempty"`
}
type AggQ struct {
	Kind  string  `json:"kind"` // log | range | agg
	Fn    string  `json:"fn,omitempty"`
	Pre   *BWQ    `json:"pre,omitempty"`
	Suf   *BWQ    `json:"suf,omitempty"`
	Cmp   *CmpQ   `json:"cmp,omitempty"`
	Range *RangeQ `json:"range,omitempty"`
}

func describeBW(b *logql_parser.ByOrWithout) *BWQ {
	if b == nil {
		return nil
	}
	r := &BWQ{By: strings.ToLower(b.Fn) == "by", Names: []string{}}
	for _, l := range b.Labels {
		r.Names = append(r.Names, l.Name)
	}
	return r
}
func describeCmp(c *logql_parser.Comparison) *CmpQ {
	if c == nil {
		return nil
	}
	v, err := strconv.ParseFloat(c.Val, 64)
	if err != nil {
		return &CmpQ{Op: c.Fn, Val: "NaN"}
	}
	return &CmpQ{Op: c.Fn, Val: fhex(v)}
}
func describeRange(l *logql_parser.LRAOrUnwrap) *RangeQ {
	d, _ := time.ParseDuration(l.Time + l.TimeUnit)
	n := len(l.StrSel.Pipelines)
	return &RangeQ{Fn: l.Fn, Unwrap: n > 0 && l.StrSel.Pipelines[n-1].Unwrap != nil, Dur: d.Nanoseconds(),
		Pre: describeBW(l.ByOrWithoutPrefix), Suf: describeBW(l.ByOrWithoutSuffix), Cmp: describeCmp(l.Comparison)}
}

// describeAggs: nil for the query forms the in-process planner refuses (topk / bottomk / quantile_over_time)
func describeAggs(query string) *AggQ {
	script, err := logql_parser.Parse(query)
	if err != nil {
		return nil
	}
	switch {
	case script.StrSelector != nil:
		return &AggQ{Kind: "log"}
	case script.LRAOrUnwrap != nil:
		return &AggQ{Kind: "range", Range: describeRange(script.LRAOrUnwrap)}
	case script.AggOperator != nil:
		a := script.AggOperator
		return &AggQ{Kind: "agg", Fn: a.Fn, Pre: describeBW(a.ByOrWithoutPrefix), Suf: describeBW(a.ByOrWithoutSuffix),
			Cmp: describeCmp(a.Comparison), Range: describeRange(&a.LRAOrUnwrap)}
	}
	return nil
}

func fhex(v float64) string { return strconv.FormatFloat(v, 'x', -1, 64) }
func funhex(s string) float64 {
	if s == "" {
		return 0
	}
	v, err := strconv.ParseFloat(s, 64)
	if err != nil {
		panic(err)
	}
	return v
}

func cloneMap(m map[string]string) map[string]string {
	if m == nil {
		return nil
	}
	r := make(map[string]string, len(m))
	for k, v := range m {
		r[k] = v
	}
	return r
}

func toEntry(e *shared.LogEntry) Entry {
	r := Entry{TS: e.TimestampNS, FP: e.Fingerprint, Labels: cloneMap(e.Labels), Msg: hx.Hex(e.Message), Val: fhex(e.Value)}
	switch {
	case e.Err == nil:
	case e.Err == io.EOF:
		r.Err = "eof"
	case strings.HasPrefix(e.Err.Error(), "panic: "):
		r.Err = "panic"
	default:
		r.Err = "err"
	}
	if e.Err != nil && e.Err != io.EOF {
		r.EMsg = e.Err.Error()
		if len(r.EMsg) > 120 {
			r.EMsg = r.EMsg[:120]
		}
	}
	return r
}

var errScripted = fmt.Errorf("scripted upstream error")

func fromEntry(e Entry) shared.LogEntry {
	r := shared.LogEntry{TimestampNS: e.TS, Fingerprint: e.FP, Labels: cloneMap(e.Labels), Message: hx.UnHex(e.Msg), Value: funhex(e.Val)}
	switch e.Err {
	case "eof":
		r.Err = io.EOF
	case "err":
		r.Err = errScripted
	case "panic":
		r.Err = fmt.Errorf("panic: scripted")
	}
	return r
}

// ---------------------------------------------------------------------------------- upstream, taps

type upstream struct {
	batches [][]Entry
	matrix  bool
	done    chan struct{}
}

func (u *upstream) IsMatrix() bool { return u.matrix }
func (u *upstream) Process(ctx *shared.PlannerContext, in chan []shared.LogEntry) (chan []shared.LogEntry, error) {
	out := make(chan []shared.LogEntry)
	go func() {
		defer close(out)
		for _, b := range u.batches {
			es := make([]shared.LogEntry, len(b))
			for i := range b {
				es[i] = fromEntry(b[i])
			}
			select {
			case out <- es:
			case <-u.done:
				return
			}
		}
	}()
	return out, nil
}

type tap struct {
	inner shared.RequestProcessor
	rec   *[][]Entry // batches as they passed (snapshot at pass time)
	done  chan struct{}
}

func (t *tap) IsMatrix() bool { return t.inner.IsMatrix() }
func (t *tap) Process(ctx *shared.PlannerContext, in chan []shared.LogEntry) (chan []shared.LogEntry, error) {
	c, err := t.inner.Process(ctx, in)
	if err != nil {
		return nil, err
	}
	out := make(chan []shared.LogEntry)
	go func() {
		defer close(out)
		for b := range c {
			snap := make([]Entry, len(b))
			for i := range b {
				snap[i] = toEntry(&b[i])
			}
			*t.rec = append(*t.rec, snap)
			select {
			case out <- b:
			case <-t.done:
				go func() {
					for range c {
					}
				}()
				return
			}
		}
	}()
	return out, nil
}

func mainField(p shared.RequestProcessor) reflect.Value {
	v := reflect.ValueOf(p)
	if v.Kind() != reflect.Ptr {
		return reflect.Value{}
	}
	return v.Elem().FieldByName("Main")
}

// ---------------------------------------------------------------------------------- chain description

func describeFilter(f *logql_parser.LabelFilter) *LFilter {
	if f == nil {
		return nil
	}
	r := &LFilter{Op: strings.ToLower(f.Op), Tail: describeFilter(f.Tail)}
	if f.Head.SimpleHead != nil {
		s := f.Head.SimpleHead
		ls := &LSimple{Label: s.Label.Name, Fn: s.Fn}
		isStr := s.Fn == "=" || s.Fn == "=~" || s.Fn == "!~" || (s.Fn == "!=" && s.StrVal != nil)
		ls.IsStr = isStr
		if isStr {
			if s.StrVal == nil {
				ls.Ill = true
				r.Simple = ls
				return r
			}
			str, err := s.StrVal.Unquote()
			if err != nil {
				panic(err)
			}
			ls.Str = hx.Hex(str)
		} else {
			v, err := strconv.ParseFloat(s.NumVal, 64)
			if err != nil {
				panic(err)
			}
			ls.Num = fhex(v)
		}
		r.Simple = ls
	} else {
		r.Complex = describeFilter(f.Head.ComplexHead)
	}
	return r
}

func describe(p shared.RequestProcessor) (Stage, bool) {
	switch s := p.(type) {
	case *ip.LineFilterPlanner:
		return Stage{K: "line_filter", Op: s.Op, Val: hx.Hex(s.Val)}, true
	case *ip.LabelFilterPlanner:
		return Stage{K: "label_filter", Filter: describeFilter(s.Filter)}, true
	case *ip.LabelFormatPlanner:
		st := Stage{K: "label_format"}
		for _, op := range s.LabelFormat.LabelFormatOps {
			if op.ConstVal != nil {
				str, err := op.ConstVal.Unquote()
				if err != nil {
					panic(err)
				}
				st.Fmt = append(st.Fmt, FmtOp{Label: op.Label.Name, Const: true, Val: hx.Hex(str)})
			} else {
				st.Fmt = append(st.Fmt, FmtOp{Label: op.Label.Name, Val: op.LabelVal.Name})
			}
		}
		return st, true
	case *ip.LineFormatterPlanner:
		return Stage{K: "line_format", Tmpl: s.Template}, true
	case *ip.UnwrapPlanner:
		return Stage{K: "unwrap", Label: s.Label}, true
	case *ip.ParserPlanner:
		st := Stage{K: "parser", Op: s.Op}
		for i := range s.ParameterNames {
			st.Params = append(st.Params, [2]string{s.ParameterNames[i], s.ParameterValues[i]})
		}
		return st, true
	case *ip.DropPlanner:
		return Stage{K: "drop", Names: s.Labels, Vals: s.Values}, true
	case *ip.ByWithoutPlanner:
		return Stage{K: "by_without", By: s.By, Names: s.Labels}, true
	case *ip.LRAPlanner:
		return Stage{K: "lra", Fn: s.Func, Dur: s.Duration.Nanoseconds()}, true
	case *ip.UnwrapAggPlanner:
		return Stage{K: "unwrap_agg", Fn: s.Function, Dur: s.Duration.Nanoseconds()}, true
	case *ip.AggOpPlanner:
		return Stage{K: "agg_op", Fn: s.Func, Dur: s.Duration.Nanoseconds()}, true
	case *ip.ComparisonPlanner:
		return Stage{K: "comparison", Op: s.Op, Val: fhex(s.Val)}, true
	case *ip.LimitPlanner:
		return Stage{K: "limit"}, true
	case *ip.ResponseOptimizerPlanner:
		return Stage{K: "optimizer"}, true
	}
	return Stage{}, false
}

// ---------------------------------------------------------------------------------- running a case

// newCtx: the third result tells whether the chain called ctx.CancelCtx (the side effect of the limit stage)
func newCtx(c *Case) (*shared.PlannerContext, context.CancelFunc, *int32) {
	cctx, cancel := context.WithCancel(context.Background())
	called := new(int32)
	return &shared.PlannerContext{
		From: time.Unix(0, c.From), To: time.Unix(0, c.To), Limit: c.Limit, Ctx: cctx,
		CancelCtx: func() { atomic.StoreInt32(called, 1); cancel() },
	}, cancel, called
}

// safeProcess: Process() runs on the request goroutine; a panic there is caught by the controller's recover and answered
// with status 500
func safeProcess(p shared.RequestProcessor, ctx *shared.PlannerContext) (out chan []shared.LogEntry, err error, panicked string) {
	defer func() {
		if r := recover(); r != nil {
			panicked = fmt.Sprint(r)
		}
	}()
	out, err = p.Process(ctx, nil)
	return
}

func drain(out chan []shared.LogEntry, timeout time.Duration) ([][]Entry, bool) {
	var res [][]Entry
	t := time.After(timeout)
	for {
		select {
		case b, ok := <-out:
			if !ok {
				return res, true
			}
			snap := make([]Entry, len(b))
			for i := range b {
				snap[i] = toEntry(&b[i])
			}
			res = append(res, snap)
		case <-t:
			return res, false
		}
	}
}

func canon(bs [][]Entry) Out {
	var o Out
	o.Entries = []Entry{}
	for _, b := range bs {
		for _, e := range b {
			if e.Err == "eof" {
				continue
			}
			if e.Err != "" {
				if o.Err == "" {
					o.Err = e.Err
					o.ErrMsg = e.EMsg
				}
				continue
			}
			o.Entries = append(o.Entries, e)
		}
	}
	if o.Err != "" {
		o.Entries = []Entry{}
		return o
	}
	sort.SliceStable(o.Entries, func(i, j int) bool { return o.Entries[i].FP < o.Entries[j].FP })
	return o
}

func flat(bs [][]Entry) []Entry {
	r := []Entry{}
	for _, b := range bs {
		r = append(r, b...)
	}
	return r
}

// realFingerprint is internal_planner's fingerprint(labels), reached through the `verif` build-tag export
// (zz_verif_export.go): the oracle table must not depend on any stage under test.
func realFingerprint(labels map[string]string) uint64 {
	return ip.Fingerprint(cloneMapNN(labels))
}
func cloneMapNN(m map[string]string) map[string]string {
	r := cloneMap(m)
	if r == nil {
		r = map[string]string{}
	}
	return r
}

func labelsKey(m map[string]string) string {
	ks := make([]string, 0, len(m))
	for k := range m {
		ks = append(ks, k)
	}
	sort.Strings(ks)
	var b strings.Builder
	for _, k := range ks {
		b.WriteString(strconv.Quote(k))
		b.WriteString("=")
		b.WriteString(strconv.Quote(m[k]))
		b.WriteString(",")
	}
	return b.String()
}

// single runs one fresh stage on one entry and returns what came out
func single(mk func(up shared.RequestProcessor) shared.RequestProcessor, e Entry) (res []Entry, planErr error) {
	done := make(chan struct{})
	defer close(done)
	up := &upstream{batches: [][]Entry{{e}}, done: done}
	p := mk(up)
	out, err := p.Process(&shared.PlannerContext{}, nil)
	if err != nil {
		return nil, err
	}
	bs, _ := drain(out, 5*time.Second)
	return flat(bs), nil
}

// planCase parses and plans the query with the production planner and describes the in-process part of
// the chain (innermost stage first). procs is nil when nothing is left to run.
func planCase(c *Case) (procs []shared.RequestProcessor, matrix bool) {
	c.Chain, c.Stages, c.Tab = nil, nil, Tables{}
	c.Out = Out{Entries: []Entry{}}
	c.CrashStage = -1
	script, err := logql_parser.Parse(c.Query)
	if err != nil {
		c.Out.Err = "parse"
		c.Out.ErrMsg = err.Error()
		return nil, false
	}
	c.Pipes, c.Absent = nil, false
	c.Aggs = describeAggs(c.Query)
	if ss := shared.GetStrSelector(script); ss != nil {
		c.NPipe = len(ss.Pipelines)
		for i := range ss.Pipelines {
			c.Pipes = append(c.Pipes, pipeKind(&ss.Pipelines[i]))
		}
	}
	if script.LRAOrUnwrap != nil && script.LRAOrUnwrap.Fn == "absent_over_time" {
		c.Absent = true
	}
	if script.AggOperator != nil && script.AggOperator.LRAOrUnwrap.Fn == "absent_over_time" {
		c.Absent = true
	}
	c.BP, _ = lt.GetBreakpoint(script)
	chain, err := lt.Plan(script)
	if err != nil {
		c.Out.Err = "plan"
		c.Out.ErrMsg = err.Error()
		return nil, false
	}
	var top shared.RequestProcessor = chain[0]
	// the matrix post-processors (C08) are not part of this property: step inside them
	if fp, ok := top.(*lt.FixPeriodPlanner); ok {
		top = fp.Main
	}
	if ze, ok := top.(*lt.ZeroEaterPlanner); ok {
		top = ze.Main
	}
	cur := top
	for {
		if _, ok := cur.(*shared.ClickhouseGetterPlanner); ok {
			break
		}
		st, ok := describe(cur)
		if !ok {
			c.Out.Err = "plan"
			c.Out.ErrMsg = fmt.Sprintf("unknown processor %T", cur)
			return nil, false
		}
		c.Chain = append([]Stage{st}, c.Chain...)
		procs = append([]shared.RequestProcessor{cur}, procs...)
		mf := mainField(cur)
		if !mf.IsValid() {
			c.Out.Err = "plan"
			c.Out.ErrMsg = fmt.Sprintf("no Main in %T", cur)
			return nil, false
		}
		cur = mf.Interface().(shared.RequestProcessor)
	}
	getter := cur.(*shared.ClickhouseGetterPlanner)
	if ss := shared.GetStrSelector(script); ss != nil {
		c.Split = c.NPipe - len(ss.Pipelines)
	}
	if len(procs) == 0 {
		c.Out.Err = "nosplit"
		return nil, false
	}
	return procs, getter.Matrix
}

func pipeKind(p *logql_parser.StrSelectorPipeline) string {
	switch {
	case p.LineFilter != nil:
		return "line_filter"
	case p.LabelFilter != nil:
		return "label_filter"
	case p.Parser != nil:
		switch {
		case p.Parser.Fn == "json" && len(p.Parser.ParserParams) == 0:
			return "json"
		case p.Parser.Fn == "json":
			return "json_params"
		case p.Parser.Fn == "logfmt":
			return "logfmt"
		}
		return "regexp"
	case p.LineFormat != nil:
		return "line_format"
	case p.LabelFormat != nil:
		return "label_format"
	case p.Unwrap != nil:
		return "unwrap"
	}
	return "drop"
}

func setMain(p, m shared.RequestProcessor) { mainField(p).Set(reflect.ValueOf(m)) }

// messages of a worker process to its parent
type wmsg struct {
	T   string    `json:"t"` // "s" stage output | "perr" Process error | "ppanic" Process panicked | "p" pipelined output | "done"
	I   int       `json:"i"`
	C   bool      `json:"c,omitempty"` // CancelCtx was called
	Out [][]Entry `json:"out,omitempty"`
	Msg string    `json:"msg,omitempty"`
	Fin *Out      `json:"fin,omitempty"`
}

// workerRun: every stage alone on the recorded output of the previous one (so that a stage that kills the
// process loses only its own result), then the whole chain at once with a recording tap between the stages.
func workerRun(c *Case, emit func(wmsg)) {
	procs, matrix := planCase(c)
	if procs == nil {
		emit(wmsg{T: "done"})
		return
	}
	in := c.In
	for i, p := range procs {
		done := make(chan struct{})
		setMain(p, &upstream{batches: in, matrix: matrix, done: done})
		ctx, cancel, called := newCtx(c)
		out, perr, pp := safeProcess(p, ctx)
		if pp != "" {
			emit(wmsg{T: "ppanic", I: i, Msg: pp})
			emit(wmsg{T: "done"})
			cancel()
			close(done)
			return
		}
		if perr != nil {
			emit(wmsg{T: "perr", I: i, Msg: perr.Error()})
			emit(wmsg{T: "done"})
			cancel()
			close(done)
			return
		}
		res, ok := drain(out, 20*time.Second)
		cancel()
		close(done)
		if !ok {
			emit(wmsg{T: "perr", I: i, Msg: "timeout"})
			emit(wmsg{T: "done"})
			return
		}
		// a panicking stage goroutine closes its channel (deferred) before the runtime kills the process:
		// give the process time to die before this stage is reported as finished
		switch p.(type) {
		case *ip.LRAPlanner, *ip.UnwrapAggPlanner, *ip.AggOpPlanner, *ip.LabelFormatPlanner, *ip.ParserPlanner:
			time.Sleep(2 * time.Millisecond)
		}
		emit(wmsg{T: "s", I: i, Out: res, C: atomic.LoadInt32(called) != 0})
		in = res
	}
	// pipelined run on a freshly planned chain
	procs, matrix = planCase(c)
	done := make(chan struct{})
	defer close(done)
	setMain(procs[0], &upstream{batches: c.In, matrix: matrix, done: done})
	recs := make([]*[][]Entry, len(procs))
	for i := 0; i+1 < len(procs); i++ {
		recs[i] = &[][]Entry{}
		setMain(procs[i+1], &tap{inner: procs[i], rec: recs[i], done: done})
	}
	ctx, cancel, called := newCtx(c)
	defer cancel()
	out, perr, pp := safeProcess(procs[len(procs)-1], ctx)
	if pp != "" {
		emit(wmsg{T: "ppanic", I: -1, Msg: pp})
		emit(wmsg{T: "done"})
		return
	}
	if perr != nil {
		emit(wmsg{T: "perr", I: -1, Msg: perr.Error()})
		emit(wmsg{T: "done"})
		return
	}
	final, ok := drain(out, 20*time.Second)
	if !ok {
		emit(wmsg{T: "perr", I: -1, Msg: "timeout"})
		emit(wmsg{T: "done"})
		return
	}
	o := canon(final)
	o.Cancel = atomic.LoadInt32(called) != 0
	emit(wmsg{T: "p", Fin: &o})
	emit(wmsg{T: "done"})
}

var plannerRe = regexp.MustCompile(`\(\*(\w+Planner)\)`)

func plannerTypes(trace string) string {
	seen := map[string]bool{}
	var r []string
	for _, m := range plannerRe.FindAllStringSubmatch(trace, -1) {
		if !seen[m[1]] {
			seen[m[1]] = true
			r = append(r, m[1])
		}
	}
	return strings.Join(r, ",")
}

type worker struct {
	cmd    *exec.Cmd
	in     io.WriteCloser
	out    *bufio.Reader
	stderr *bytes.Buffer
}

func startWorker() *worker {
	cmd := exec.Command(os.Args[0], "--worker")
	in, _ := cmd.StdinPipe()
	outp, _ := cmd.StdoutPipe()
	w := &worker{cmd: cmd, in: in, out: bufio.NewReaderSize(outp, 1<<20), stderr: &bytes.Buffer{}}
	cmd.Stderr = w.stderr
	if err := cmd.Start(); err != nil {
		panic(err)
	}
	return w
}

func (w *worker) stop() {
	w.in.Close()
	w.cmd.Wait()
}

var theWorker *worker

// runCase (parent side): plan, let a worker process run the stages, assemble observations and tables.
func runCase(c *Case) {
	procs, _ := planCase(c)
	if procs == nil {
		return
	}
	if theWorker == nil {
		theWorker = startWorker()
	}
	w := theWorker
	b, _ := json.Marshal(c)
	w.in.Write(append(b, '\n'))
	var stageOuts [][][]Entry
	var fin *Out
	perr := ""
	ppanic := ""
	cancelled := false
	finished := false
	for {
		line, err := w.out.ReadBytes('\n')
		if err != nil {
			break
		}
		var m wmsg
		if json.Unmarshal(line, &m) != nil {
			continue
		}
		if m.T == "done" {
			finished = true
			break
		}
		switch m.T {
		case "s":
			if m.Out == nil {
				m.Out = [][]Entry{}
			}
			stageOuts = append(stageOuts, m.Out)
			cancelled = cancelled || m.C
		case "perr":
			perr = m.Msg
		case "ppanic":
			ppanic = m.Msg
		case "p":
			fin = m.Fin
		}
	}
	ins := [][]Entry{flat(c.In)}
	for _, so := range stageOuts {
		c.Stages = append(c.Stages, flat(so))
	}
	for i := 0; i < len(stageOuts) && i+1 < len(procs); i++ {
		ins = append(ins, flat(stageOuts[i]))
	}
	switch {
	case !finished:
		// the worker died: the stage after the last reported one killed the process
		w.cmd.Wait()
		msg := w.stderr.String()
		if i := strings.Index(msg, "\n"); i > 0 {
			msg = msg[:i]
		}
		theWorker = nil
		c.CrashStage = len(stageOuts)
		c.CrashTrace = plannerTypes(w.stderr.String())
		c.Out = Out{Err: "crash", ErrMsg: msg, Entries: []Entry{}}
	case ppanic != "":
		c.Out = Out{Err: "planpanic", ErrMsg: ppanic, Entries: []Entry{}}
	case perr != "":
		c.Out = Out{Err: "plan", ErrMsg: perr, Entries: []Entry{}}
	default:
		c.Out = canon(stageOuts[len(stageOuts)-1])
		c.Out.Cancel = cancelled
		if fin == nil {
			c.Pipelined = "missing"
		} else {
			// the error text is not compared: the stage-by-stage replay re-creates error entries from their kind only
			x, y := c.Out, *fin
			x.ErrMsg, y.ErrMsg = "", ""
			a, _ := json.Marshal(x)
			b, _ := json.Marshal(y)
			if string(a) == string(b) {
				c.Pipelined = "equal"
			} else {
				c.Pipelined = "differs"
				c.PipeOut = fin
			}
		}
	}
	buildTables(c, ins)
}

func buildTables(c *Case, ins [][]Entry) {
	// fingerprints of every label set that passed anywhere
	seenFP := map[string]bool{}
	addFP := func(m map[string]string) {
		k := labelsKey(m)
		if seenFP[k] {
			return
		}
		seenFP[k] = true
		c.Tab.FP = append(c.Tab.FP, FPRow{Labels: cloneMapNN(m), FP: realFingerprint(m)})
	}
	addFP(map[string]string{})
	all := append([][]Entry{}, ins...)
	all = append(all, c.Stages...)
	seenPF := map[string]bool{}
	addPF := func(s string) {
		if seenPF[s] || s == "" {
			return
		}
		seenPF[s] = true
		v, err := strconv.ParseFloat(s, 64)
		c.Tab.PF = append(c.Tab.PF, PFRow{S: hx.Hex(s), Ok: err == nil, V: fhex(v)})
	}
	needMsgPF := false
	for _, st := range c.Chain {
		if st.K == "unwrap" && st.Label == "_entry" {
			needMsgPF = true
		}
	}
	for _, es := range all {
		for _, e := range es {
			if e.Labels != nil {
				addFP(e.Labels)
			}
			for _, v := range e.Labels {
				addPF(v)
			}
			if needMsgPF {
				addPF(hx.UnHex(e.Msg))
			}
		}
	}
	seenRe := map[string]bool{}
	addRe := func(pat, subj string) {
		k := strconv.Quote(pat) + strconv.Quote(subj)
		if seenRe[k] {
			return
		}
		seenRe[k] = true
		re, err := regexp.Compile(pat)
		c.Tab.Re = append(c.Tab.Re, ReRow{Pat: hx.Hex(pat), Subj: hx.Hex(subj), M: err == nil && re.MatchString(subj)})
	}
	var walkF func(f *LFilter, es []Entry)
	walkF = func(f *LFilter, es []Entry) {
		if f == nil {
			return
		}
		if f.Simple != nil && f.Simple.IsStr && !f.Simple.Ill && (f.Simple.Fn == "=~" || f.Simple.Fn == "!~") {
			addRe(hx.UnHex(f.Simple.Str), "")
			for _, e := range es {
				addRe(hx.UnHex(f.Simple.Str), e.Labels[f.Simple.Label])
			}
		}
		walkF(f.Complex, es)
		walkF(f.Tail, es)
	}
	seenParse := map[string]bool{}
	seenTmpl := map[string]bool{}
	for i, st := range c.Chain {
		if i >= len(ins) {
			break
		}
		switch st.K {
		case "line_filter":
			if st.Op == "|~" || st.Op == "!~" {
				for _, e := range ins[i] {
					addRe(hx.UnHex(st.Val), hx.UnHex(e.Msg))
				}
			}
		case "label_filter":
			walkF(st.Filter, ins[i])
		case "parser":
			names := make([]string, len(st.Params))
			vals := make([]string, len(st.Params))
			for j, p := range st.Params {
				names[j], vals[j] = p[0], p[1]
			}
			for _, e := range ins[i] {
				if e.Err != "" {
					continue
				}
				k := strconv.Itoa(i) + ":" + e.Msg
				if seenParse[k] {
					continue
				}
				seenParse[k] = true
				res, perr := single(func(up shared.RequestProcessor) shared.RequestProcessor {
					return &ip.ParserPlanner{GenericPlanner: ip.GenericPlanner{Main: up}, Op: st.Op, ParameterNames: names, ParameterValues: vals}
				}, Entry{Labels: map[string]string{}, Msg: e.Msg})
				row := ParseRow{ID: i, Msg: e.Msg}
				if perr == nil && len(res) == 1 && res[0].Err == "" {
					row.Ok = true
					row.KV = cloneMapNN(res[0].Labels)
					addFP(row.KV)
				}
				if st.Op == "json" {
					if ps, ok := jparams(names, vals); ok {
						row.Json = true
						row.Params = ps
						row.Tree, row.Plain = jtree(hx.UnHex(e.Msg))
					}
				}
				if st.Op == "logfmt" {
					if ps, ok := jparams(names, vals); ok {
						row.Logfmt = true
						row.Params = ps
						row.Pairs, row.PairsOk = logfmtPairs(hx.UnHex(e.Msg))
					}
				}
				c.Tab.Parse = append(c.Tab.Parse, row)
			}
		case "line_format":
			for _, e := range ins[i] {
				l := cloneMapNN(e.Labels)
				l["_entry"] = hx.UnHex(e.Msg)
				k := strconv.Itoa(i) + ":" + labelsKey(l)
				if seenTmpl[k] {
					continue
				}
				seenTmpl[k] = true
				// the oracle row is what text/template + the documented function set render (refRender: the library called
				// from here); a fresh instance of the real stage on this one entry is recorded next to it (no error marker:
				// the stage does not look at it; an entry that comes back was rendered, a missing one was dropped) and the
				// check requires the two to agree: a table filled by the stage could not detect the stage's own corruption
				row := TmplRow{ID: i, Labels: l, Tmpl: st.Tmpl}
				row.S, row.Ok = refRender(st.Tmpl, e.Labels, hx.UnHex(e.Msg))
				res, perr := single(func(up shared.RequestProcessor) shared.RequestProcessor {
					return &ip.LineFormatterPlanner{GenericPlanner: ip.GenericPlanner{Main: up}, Template: st.Tmpl}
				}, Entry{Labels: cloneMapNN(e.Labels), Msg: e.Msg})
				if perr == nil && len(res) == 1 {
					row.StageOk = true
					row.StageS = res[0].Msg
				}
				c.Tab.Tmpl = append(c.Tab.Tmpl, row)
			}
		}
	}
}

// ---------------------------------------------------------------------------------- template oracle

// refFuncs: the function set of `| line_format` as LogQL documents it, bound HERE to the libraries (strings, regexp, sprig):
// the stage's own functionMap is code under test and is not consulted
var refFuncs = func() template.FuncMap {
	res := template.FuncMap{
		"ToLower": strings.ToLower, "ToUpper": strings.ToUpper, "Replace": strings.Replace, "Trim": strings.Trim,
		"TrimLeft": strings.TrimLeft, "TrimRight": strings.TrimRight, "TrimPrefix": strings.TrimPrefix,
		"TrimSuffix": strings.TrimSuffix, "TrimSpace": strings.TrimSpace,
		"regexReplaceAll": func(re string, s string, repl string) string {
			return regexp.MustCompile(re).ReplaceAllString(s, repl)
		},
		"regexReplaceAllLiteral": func(re string, s string, repl string) string {
			return regexp.MustCompile(re).ReplaceAllLiteralString(s, repl)
		},
	}
	sp := sprig.GenericFuncMap()
	for _, n := range []string{"lower", "upper", "title", "trunc", "substr", "contains", "hasPrefix", "hasSuffix", "indent", "nindent",
		"replace", "repeat", "trim", "trimAll", "trimSuffix", "trimPrefix", "int", "float64", "add", "sub", "mul", "div", "mod", "addf",
		"subf", "mulf", "divf", "max", "min", "maxf", "minf", "ceil", "floor", "round", "fromJson", "date", "toDate", "now", "unixEpoch"} {
		if f, ok := sp[n]; ok {
			res[n] = f
		}
	}
	return res
}()

// refRender: the line `| line_format tmpl` defines for an entry: the template executed by text/template over the labels plus
// `_entry` = the line, a missing label reading as ""; ok = false when the template does not parse or its execution fails
// (the stage then drops the entry)
func refRender(tmpl string, labels map[string]string, line string) (out string, ok bool) {
	defer func() {
		if recover() != nil {
			out, ok = "", false
		}
	}()
	tpl, err := template.New("ref").Option("missingkey=zero").Funcs(refFuncs).Parse(tmpl)
	if err != nil {
		return "", false
	}
	data := map[string]string{}
	for k, v := range labels {
		data[k] = v
	}
	data["_entry"] = line
	var buf bytes.Buffer
	if err := tpl.Execute(&buf, data); err != nil {
		return "", false
	}
	return hx.Hex(buf.String()), true
}

// ---------------------------------------------------------------------------------- fingerprint structure cases

func le64(x uint64) []byte {
	b := make([]byte, 8)
	for i := 0; i < 8; i++ {
		b[i] = byte(x >> (8 * i))
	}
	return b
}

// runFP: the oracle CH64 values of every key and every value of the label set and of the 24 descriptor bytes (computed here
// from the same library), and the fingerprint the real code returns
func runFP(c *Case) {
	c.FPPairs = nil
	var d [3]uint64
	d[2] = 1
	ks := make([]string, 0, len(c.FPLabels))
	for k := range c.FPLabels {
		ks = append(ks, k)
	}
	sort.Strings(ks)
	seen := map[string]bool{}
	add := func(s string) uint64 {
		h := city.CH64([]byte(s))
		if !seen[s] {
			seen[s] = true
			c.FPPairs = append(c.FPPairs, PFH{S: hx.Hex(s), H: h})
		}
		return h
	}
	for _, k := range ks {
		// key and value hashed separately; the mix (cityhash102.Hash128to64) is modelled in Coq, not tabulated
		h := cityhash102.Hash128to64(cityhash102.Uint128{add(k), add(c.FPLabels[k])})
		d[0] += h
		d[1] ^= h
		d[2] *= 1779033703 + 2*h
	}
	descr := append(append(le64(d[0]), le64(d[1])...), le64(d[2])...)
	c.FPDescr = hx.Hex(string(descr))
	c.FPDescrH = city.CH64(descr)
	c.FPOut = realFingerprint(c.FPLabels)
}

// ---------------------------------------------------------------------------------- generator

var keyPool = []string{"app", "level", "a", "ab", "job", "n", "x_y", "dur", "msg", "caf_", "gr__e"}
var valPool = []string{"b", "bc", "c", "error", "info", "warn", "1", "2", "2.5", "10", "-3", "0", "x y", "A1"}

func pick(r *rand.Rand, xs []string) string { return xs[r.Intn(len(xs))] }

func genLabels(r *rand.Rand) map[string]string {
	m := map[string]string{}
	n := 1 + r.Intn(3)
	for i := 0; i < n; i++ {
		m[pick(r, keyPool[:5])] = pick(r, valPool[:6])
	}
	return m
}

func jsonStr(s string) string { b, _ := json.Marshal(s); return string(b) }

// keys with valid multi-byte characters (2, 3 and 4 bytes, a combining mark): the label is named with ONE "_" per
// character (caf_, gr__e, ab_, _k, e_x); keyPool holds those names so that filters, by/without, drop, unwrap and
// label_format of the generated queries meet the extracted labels
var uKeys = []string{"café", "größe", "ab€", "\U0001D11Ek", "e\u0301x"}

// keys holding ill-formed UTF-8: a lone continuation byte, an overlong form, a surrogate, a cut 3-byte sequence, a byte that
// is never valid, a cut 4-byte sequence followed by ASCII
// (only in the single-line rows of the json-only stream: a label map of the main stream travels as JSON text, which cannot hold them)
var badUTF8Keys = []string{"a\xa9k", "\xc0\xafk", "k\xed\xa0\x80", "x\xe2\x82", "\xffz", "q\xf0\x9d\x84k"}

// logfmtPairs: the decoder oracle of the logfmt stage (github.com/kr/logfmt, as the stage calls it)
type pairCollector struct{ pairs [][2]string }

func (p *pairCollector) HandleLogfmt(key, val []byte) error {
	p.pairs = append(p.pairs, [2]string{hx.Hex(string(key)), hx.Hex(string(val))})
	return nil
}

func logfmtPairs(line string) ([][2]string, bool) {
	pc := &pairCollector{pairs: [][2]string{}}
	if err := logfmt.Unmarshal([]byte(line), pc); err != nil {
		return nil, false
	}
	return pc.pairs, true
}

func genJSONLine(r *rand.Rand) string {
	var parts []string
	n := 1 + r.Intn(4)
	for i := 0; i < n; i++ {
		k := pick(r, keyPool)
		if r.Intn(6) == 0 {
			// written literally or as \uXXXX escapes: the key is the same, the line is all ASCII in the second form
			uk := pick(r, uKeys)
			parts = append(parts, jsonStrEsc(r, uk)+":"+jsonStr(pick(r, valPool)))
			if r.Intn(3) == 0 {
				parts = append(parts, jsonStr(k)+":{"+jsonStrEsc(r, pick(r, uKeys))+":"+strconv.Itoa(r.Intn(5))+"}")
			}
			continue
		}
		switch r.Intn(8) {
		case 0:
			parts = append(parts, jsonStr(k)+":"+strconv.Itoa(r.Intn(20)-3))
		case 1:
			parts = append(parts, jsonStr(k)+":"+[]string{"true", "false", "null", "1.50", "1e2"}[r.Intn(5)])
		case 2:
			parts = append(parts, jsonStr(k)+":{"+jsonStr(pick(r, keyPool))+":"+jsonStr(pick(r, valPool))+","+jsonStr("k-2")+":{"+jsonStr("z")+":7}}")
		case 3:
			parts = append(parts, jsonStr(k)+":[1,"+jsonStr(pick(r, valPool))+",{\"q\":2}]")
		case 4:
			parts = append(parts, jsonStr(k+".d")+":"+jsonStr(pick(r, valPool)))
		default:
			parts = append(parts, jsonStr(k)+":"+jsonStr(pick(r, valPool)))
		}
	}
	return "{" + strings.Join(parts, ",") + "}"
}

func genLogfmtLine(r *rand.Rand) string {
	var parts []string
	n := 1 + r.Intn(4)
	for i := 0; i < n; i++ {
		k := pick(r, keyPool)
		if r.Intn(6) == 0 {
			k = pick(r, uKeys)
		}
		v := pick(r, valPool)
		switch r.Intn(6) {
		case 0:
			parts = append(parts, k)
		case 1:
			parts = append(parts, k+"="+strconv.Quote(v+" q"))
		case 2:
			parts = append(parts, k+"-z="+v)
		default:
			if strings.Contains(v, " ") {
				v = strconv.Quote(v)
			}
			parts = append(parts, k+"="+v)
		}
	}
	return strings.Join(parts, " ")
}

var badJSON = []string{`{"a":`, `{"a":"b"`, `[1,2]`, `"str"`, `123`, ``, `not json`, `{"a":"b"}}`, `{"a":tru}`, `{a:1}`}
var badLogfmt = []string{`a="unterminated`, `a=b"c`, `"`, `=x`}

type genPlan struct {
	metric   bool
	unwrap   bool
	parserFn string // json | logfmt | line_format (the breakpoint stage)
}

func genLabelFilter(r *rand.Rand, depth int) string {
	simple := func() string {
		k := pick(r, keyPool)
		if r.Intn(60) == 0 {
			// a string operator with a number: refused by both planners (the in-process one used to panic)
			return k + pick(r, []string{" = ", " =~ ", " !~ "}) + pick(r, []string{"5", "2", "1.5"})
		}
		switch r.Intn(9) {
		case 0:
			return k + "=" + strconv.Quote(pick(r, valPool))
		case 1:
			return k + "!=" + strconv.Quote(pick(r, valPool))
		case 2:
			return k + "=~" + strconv.Quote(pick(r, []string{"b.*", "^(error|warn)$", "[0-9]+", ".*", "^$", "x", "^b$", "\\Aerror\\z"}))
		case 3:
			return k + "!~" + strconv.Quote(pick(r, []string{"b.*", "err", "[0-9]+", ".+", "^b$", "^info$"}))
		case 4:
			return k + " > " + pick(r, []string{"1", "2", "0", "2.5", "10"})
		case 5:
			return k + " >= " + pick(r, []string{"1", "2", "2.5"})
		case 6:
			return k + " < " + pick(r, []string{"2", "3", "10"})
		case 7:
			return k + " == " + pick(r, []string{"1", "2", "2.5", "0"})
		default:
			return k + " != " + pick(r, []string{"1", "2"})
		}
	}
	s := simple()
	if depth > 0 && r.Intn(4) == 0 {
		s = "(" + genLabelFilter(r, depth-1) + ")"
	}
	if depth > 0 && r.Intn(3) == 0 {
		s += " " + pick(r, []string{"and", "or"}) + " " + genLabelFilter(r, depth-1)
	}
	return s
}

var templates = []string{
	`{{.level}} {{.msg}}`, `{{._entry}}`, `x`, `{{ToUpper .level}}-{{.n}}`, `{{.a}}{{.ab}}`,
	`{{if .level}}L={{.level}}{{else}}none{{end}}`, `{{.n | int | add 1}}`, `{{index . "x_y"}}`,
	`{{.level.foo}}`, `{{div 1 (int .n)}}`, `{{._entry | lower}}`, `{{.level}}`,
}

// anchored literal patterns: the forms of a regular-expression line filter whose text is a literal between anchors (Go's
// regexp.LiteralPrefix reports "complete" for ^L$ and \AL\z: a fast path built on it forgets the anchors), next to the forms
// anchored at one end, with flags, in a group and in an alternation
func anchoredPattern(r *rand.Rand, lit string) string {
	q := regexp.QuoteMeta(lit)
	switch r.Intn(12) {
	case 0, 1, 2:
		return "^" + q + "$"
	case 3, 4:
		return "\\A" + q + "\\z"
	case 5:
		return "^" + q
	case 6:
		return q + "$"
	case 7:
		return "^" + q + "\\z"
	case 8:
		return "^(?:" + q + ")$"
	case 9:
		return "(?i)^" + strings.ToUpper(q) + "$"
	case 10:
		return "(?m)^" + q + "$"
	default:
		return "^" + q + "$|^zzz$"
	}
}

// anchoredWords: lines around the literal: equal to it, containing it at the start / at the end / inside, twice, on the first or
// last line of a multi-line text, in another case, and unrelated ones
func anchoredWords(lit string) []string {
	return []string{lit, lit, lit + "s", "no" + lit, "t" + lit + "_x", lit + " " + lit, lit + "\nwarn", "warn\n" + lit, strings.ToUpper(lit), "", "warn", "zzz"}
}

func genStage(r *rand.Rand, gp *genPlan) string {
	switch r.Intn(14) {
	case 0:
		return " |= " + strconv.Quote(pick(r, []string{"a", "error", "b", "", "{", "level"}))
	case 1:
		return " != " + strconv.Quote(pick(r, []string{"a", "error", "x y", "zzz"}))
	case 2:
		return " |~ " + strconv.Quote(pick(r, []string{"err.r", "[0-9]+", "^\\{", "b|c", "", "^error$", "error$", "^b$", "\\Ainfo\\z"}))
	case 3:
		return " !~ " + strconv.Quote(pick(r, []string{"err.r", "[0-9]{2}", "info$", "^info$", "\\Aerror\\z", "^b"}))
	case 4, 5, 6:
		return " | " + genLabelFilter(r, 2)
	case 7:
		var ops []string
		n := 1 + r.Intn(2)
		for i := 0; i < n; i++ {
			if r.Intn(2) == 0 {
				ops = append(ops, pick(r, keyPool)+"="+strconv.Quote(pick(r, valPool)))
			} else {
				ops = append(ops, pick(r, keyPool)+"="+pick(r, keyPool))
			}
		}
		return " | label_format " + strings.Join(ops, ", ")
	case 8:
		var ps []string
		n := 1 + r.Intn(2)
		for i := 0; i < n; i++ {
			if r.Intn(2) == 0 {
				ps = append(ps, pick(r, keyPool))
			} else {
				ps = append(ps, pick(r, keyPool)+"="+strconv.Quote(pick(r, valPool)))
			}
		}
		return " | drop " + strings.Join(ps, ", ")
	case 9:
		return " | line_format " + strconv.Quote(pick(r, templates))
	case 10:
		return " | json " + pick(r, keyPool) + "=" + strconv.Quote(pick(r, []string{"level", "n", "a.b", "msg", "a[1]", "app.k-2.z", "job[\"k\"]"}))
	case 11:
		if r.Intn(3) == 0 {
			// logfmt with fields: label = "key" (the first part of the path names the key)
			return " | logfmt " + pick(r, keyPool) + "=" + strconv.Quote(pick(r, []string{"level", "n", "msg", "[\"ab-z\"]", "dur", "[\"café\"]"})) +
				pick(r, []string{"", "", ", lv=\"level\"", ", m2=\"msg\""})
		}
		return " | logfmt"
	case 12:
		return " | json"
	default:
		return " | " + genLabelFilter(r, 0)
	}
}

// a range as it is written and its length in nanoseconds
type rangeLit struct {
	text string
	ns   int64
}

var wholeRanges = []rangeLit{{"1s", 1e9}, {"2s", 2e9}, {"4s", 4e9}, {"5s", 5e9}, {"10s", 10e9}, {"60s", 60e9}, {"1m", 60e9}, {"2000ms", 2e9}, {"1000000us", 1e9}}
var fracRanges = []rangeLit{{"1500ms", 1500e6}, {"500ms", 500e6}, {"250ms", 250e6}, {"999ms", 999e6}, {"2500ms", 2500e6}, {"1001ms", 1001e6}, {"100ms", 100e6},
	{"1999ms", 1999e6}, {"7ms", 7e6}, {"1ms", 1e6}, {"1500us", 1500e3}, {"999us", 999e3}, {"750us", 750e3}, {"1000001us", 1000001e3}, {"2500us", 2500e3}, {"1us", 1e3},
	{"1500ns", 1500}, {"999ns", 999}, {"1500000001ns", 1500000001}, {"7ns", 7}}
var exactRanges = []rangeLit{{"1s", 1e9}, {"2s", 2e9}, {"4s", 4e9}, {"8s", 8e9}, {"500ms", 500e6}, {"250ms", 250e6}, {"125ms", 125e6}, {"500000us", 500e6}}

// rangeKind: how the range relates to whole seconds / milliseconds (evidence histogram; class suffix)
func rangeKind(ns int64) string {
	switch {
	case ns%1e9 == 0:
		return "whole-s"
	case ns%1e6 == 0 && ns > 1e9:
		return "ms>1s"
	case ns%1e6 == 0:
		return "ms<1s"
	case ns > 1e6:
		return "sub-ms-part"
	default:
		return "<1ms"
	}
}

var rangeFns = []string{"rate", "count_over_time", "bytes_rate", "bytes_over_time"}
var unwrapFns = []string{"rate", "sum_over_time", "avg_over_time", "max_over_time", "min_over_time", "first_over_time", "last_over_time"}
var aggFns = []string{"sum", "min", "max", "avg", "count"}

func genByWithout(r *rand.Rand) string {
	n := 1 + r.Intn(2)
	var ls []string
	for i := 0; i < n; i++ {
		ls = append(ls, pick(r, keyPool[:6]))
	}
	return pick(r, []string{"by", "without"}) + " (" + strings.Join(ls, ",") + ")"
}

// per-run pools: the Coq side pays for every distinct string / label set / fingerprint literal, so the generated
// lines and series are drawn from pools (combinations still vary per case)
type pools struct {
	series              []map[string]string
	jsonL, logfmtL, bad []string
}

func mkPools(r *rand.Rand, n int) *pools {
	p := &pools{}
	ns := 8 + n/100
	if ns > 60 {
		ns = 60
	}
	nl := 30 + n/25
	if nl > 1500 {
		nl = 1500
	}
	for i := 0; i < ns; i++ {
		p.series = append(p.series, genLabels(r))
	}
	for i := 0; i < nl; i++ {
		p.jsonL = append(p.jsonL, genJSONLine(r))
		p.logfmtL = append(p.logfmtL, genLogfmtLine(r))
	}
	return p
}

func instantiate(c *Case) string {
	return strings.Replace(strings.Replace(c.QTmpl, "\x01", c.ThI, 1), "\x02", c.ThO, 1)
}

// adapt moves the thresholds of the comparison stages onto values that actually reach them (the boundary between
// >= and >, <= and <, == and != is otherwise hit too rarely); true when the query changed and must be run again
func adapt(c *Case) bool {
	if c.QTmpl == "" || c.ID%4 == 0 {
		return false
	}
	changed := false
	seenAggOp := false
	for i, st := range c.Chain {
		if st.K == "agg_op" {
			seenAggOp = true
		}
		if st.K != "comparison" || i == 0 || i-1 >= len(c.Stages) {
			continue
		}
		cur := funhex(st.Val)
		var cand []string
		hit := false
		for _, e := range c.Stages[i-1] {
			if e.Err != "" {
				continue
			}
			v := funhex(e.Val)
			if v == cur {
				hit = true
			}
			t := strconv.FormatFloat(v, 'f', -1, 64)
			if v >= 0 && len(t) <= 8 && !strings.ContainsAny(t, "eE") {
				cand = append(cand, t)
			}
		}
		if hit || len(cand) == 0 {
			continue
		}
		t := cand[(c.ID/4)%len(cand)]
		if !seenAggOp && strings.Contains(c.QTmpl, "\x01") {
			c.ThI = t
		} else if strings.Contains(c.QTmpl, "\x02") {
			c.ThO = t
		} else {
			continue
		}
		changed = true
	}
	if changed {
		c.Query = instantiate(c)
		c.Class += "+adapted"
	}
	return changed
}

func genCase(r *rand.Rand, id int, pl *pools) Case {
	c := Case{ID: id}
	gp := genPlan{}
	kind := r.Intn(10)
	gp.metric = kind >= 5
	gp.unwrap = kind >= 8
	gp.parserFn = []string{"json", "json", "json", "logfmt", "logfmt", "line_format"}[r.Intn(6)]
	// "collapse": streams whose label sets become EQUAL under the by/without of the query, one of them losing no label,
	// with upstream (ClickHouse) fingerprints that are not the in-process hash: the split stage is line_format, or a
	// label_format follows the parser
	// (for a log query, and for half of the metric ones, a `drop pod` stage does the collapsing: an entry that loses nothing
	// must end in the same series as one that loses its pod label)
	collapse := r.Intn(6) == 0
	collapseLF := false
	if collapse {
		if r.Intn(3) == 0 {
			gp.parserFn = "logfmt"
			collapseLF = true
		} else {
			gp.parserFn = "line_format"
		}
	}
	// "anchored": a regular-expression line filter whose pattern is a literal between anchors, run in process on lines that
	// equal the literal and on lines that only contain it (the line is the extracted level through line_format, the raw
	// message through line_format "{{._entry}}", or the undecoded json / logfmt text)
	anch := !collapse && r.Intn(9) == 0
	anchLit, anchRaw := "", false
	if anch {
		anchLit = pick(r, []string{"error", "info", "b"})
	}
	sel := `{app="x"}`
	var pre string
	if r.Intn(4) == 0 {
		pre = " |= " + strconv.Quote("a") // runs in ClickHouse: must not appear in the in-process chain
	}
	var bp string
	switch gp.parserFn {
	case "json":
		bp = " | json"
	case "logfmt":
		bp = " | logfmt"
	default:
		bp = " | line_format " + strconv.Quote(pick(r, templates[:6]))
		if anch {
			bp, anchRaw = " | line_format "+strconv.Quote("{{._entry}}"), true
		}
	}
	pipe := pre + bp
	ns := r.Intn(4)
	if anch {
		if !anchRaw && r.Intn(4) != 0 {
			pipe += " | line_format " + strconv.Quote("{{.level}}")
		}
		pipe += pick(r, []string{" |~ ", " |~ ", " !~ "}) + strconv.Quote(anchoredPattern(r, anchLit))
		ns = r.Intn(2)
	}
	if collapse {
		ns = 0
		if collapseLF {
			pipe += " | label_format tier=" + strconv.Quote("front")
		} else if r.Intn(2) == 0 {
			pipe += " |= " + strconv.Quote("")
		}
		if !gp.metric || r.Intn(2) == 0 {
			pipe += pick(r, []string{" | drop pod", " | drop pod, zone", " | drop zone=\"b\", pod"})
		}
	}
	for i := 0; i < ns; i++ {
		pipe += genStage(r, &gp)
	}
	// ranges: a number and a unit, as the grammar reads them.  Half of the metric queries get a range that is NOT a whole number
	// of seconds (ms / us / ns units, below and above one second, with and without a sub-millisecond part): the in-process rates
	// divide by the range, and a divisor truncated to whole seconds / milliseconds shows only there (seed C09-f; the defect of
	// round 6).  Powers of two (in seconds) where sums of quotients must stay exact
	rg := wholeRanges[r.Intn(len(wholeRanges))]
	fracRange := gp.metric && r.Intn(2) == 0
	if fracRange {
		rg = fracRanges[r.Intn(len(fracRanges))]
	}
	exactOnly := false
	c.Class = "log"
	uw := ""
	if gp.metric {
		fn := pick(r, rangeFns)
		if fracRange && r.Intn(2) == 0 {
			fn = pick(r, []string{"rate", "bytes_rate"})
		}
		inner := pipe
		if !gp.unwrap && r.Intn(10) == 0 {
			fn = "absent_over_time"
			if r.Intn(2) == 0 {
				// nothing ClickHouse cannot run: the whole pipeline stays there, only the aggregation runs in process
				inner = pre + pick(r, []string{"", " |= \"a\"", " | level=\"info\""})
			}
		}
		if gp.unwrap {
			fn = pick(r, unwrapFns)
			if fracRange && r.Intn(2) == 0 {
				fn = "rate"
			}
			uw = pick(r, []string{"n", "n", "dur", "dur", "_entry", "level"})
			inner += " | unwrap " + uw
			c.Class = "unwrap"
		} else {
			c.Class = "lra"
		}
		bwInner := ""
		if r.Intn(3) == 0 {
			bwInner = " " + genByWithout(r)
		} else if gp.unwrap && r.Intn(2) == 0 {
			// group on one or two low-cardinality labels so that several unwrapped values meet in one bucket of one series
			// (otherwise the unwrapped label itself keeps every value in its own series and min/max/first/last see one sample)
			bwInner = " by (" + pick(r, keyPool[:5])
			if r.Intn(2) == 0 {
				bwInner += "," + pick(r, keyPool[:5])
			}
			bwInner += ")"
		}
		agg := r.Intn(3) == 0
		if collapse {
			if gp.unwrap && r.Intn(2) == 0 {
				agg = false
				bwInner = " " + pick(r, []string{"by (app)", "without (pod)"})
				if collapseLF {
					bwInner = " by (app,tier)"
				}
			} else {
				agg = true
				bwInner = ""
			}
		}
		var aggFn, bwOuter, cmpO string
		if agg {
			aggFn = pick(r, aggFns)
			if r.Intn(2) == 0 {
				bwOuter = " " + genByWithout(r)
			}
			if collapse {
				bwOuter = " " + pick(r, []string{"by (app)", "without (pod)"})
				if collapseLF {
					bwOuter = " by (app,tier)"
				}
				aggFn = pick(r, []string{"sum", "count", "max"})
			}
			c.Class += "+agg"
			exactOnly = aggFn == "sum" || aggFn == "avg"
		}
		if exactOnly {
			rg = exactRanges[r.Intn(4)]
			if fracRange {
				rg = exactRanges[4+r.Intn(len(exactRanges)-4)]
			}
		}
		cmpI := ""
		if r.Intn(3) == 0 {
			// thresholds that bucket counts and small sums actually take: the boundary of >= / > and <= / < must be hit
			cmpI = " " + pick(r, []string{">", ">=", "<", "<=", "==", "!="}) + " \x01"
			c.ThI = pick(r, []string{"1", "1", "2", "2", "0.5", "3"})
		}
		q := fn + "(" + sel + inner + " [" + rg.text + "])" + bwInner + cmpI
		if agg {
			if r.Intn(3) == 0 {
				cmpO = " " + pick(r, []string{">", ">=", "<", "<=", "==", "!="}) + " \x02"
				c.ThO = pick(r, []string{"1", "1", "2", "3"})
			}
			q = aggFn + bwOuter + " (" + q + ")" + cmpO
		}
		c.QTmpl = q
		c.Query = instantiate(&c)
	} else {
		c.Query = sel + pipe
	}
	if anch {
		c.Class += "+anchored"
	}
	// context, aligned the way FixPeriodPlanner leaves it for matrix requests
	dur := rg.ns
	if gp.metric {
		c.Range, c.RangeKind = rg.text, rangeKind(rg.ns)
	}
	base := int64(1700000000) * 1e9
	base -= base % dur
	nb := int64(1 + r.Intn(6))
	if gp.unwrap && r.Intn(2) == 0 {
		nb = int64(1 + r.Intn(2)) // few buckets: several samples meet in one
	}
	c.From, c.To = base, base+nb*dur
	switch r.Intn(5) {
	case 0:
		c.Limit = 0
	case 1:
		c.Limit = int64(1 + r.Intn(4))
	default:
		c.Limit = int64(1 + r.Intn(40))
	}
	if r.Intn(40) == 0 {
		c.Limit = -int64(1 + r.Intn(5)) // the controller passes whatever ParseInt read
		c.Class += "+neglimit"
	}
	// series and entries
	nser := 1 + r.Intn(3)
	if gp.unwrap && r.Intn(2) == 0 {
		nser = 1
	}
	type ser struct {
		labels map[string]string
		fp     uint64
	}
	var sers []ser
	for i := 0; i < nser; i++ {
		l := pl.series[r.Intn(len(pl.series))]
		sers = append(sers, ser{l, city.CH64([]byte(labelsKey(l)))})
	}
	if collapse {
		app := pick(r, []string{"web", "api"})
		a := map[string]string{"app": app}
		b := map[string]string{"app": app, "pod": pick(r, []string{"p1", "p2"})}
		sers = []ser{{a, city.CH64([]byte(labelsKey(a)))}, {b, city.CH64([]byte(labelsKey(b)))}}
		if r.Intn(2) == 0 {
			d := map[string]string{"app": app, "pod": "p3"}
			sers = append(sers, ser{d, city.CH64([]byte(labelsKey(d)))})
		}
		c.Class += "+collapse"
	}
	n := r.Intn(14)
	if r.Intn(8) == 0 {
		n = 0
	}
	bad := r.Intn(12) == 0
	var es []Entry
	for i := 0; i < n; i++ {
		s := sers[r.Intn(len(sers))]
		var msg string
		switch gp.parserFn {
		case "json":
			msg = pick(r, pl.jsonL)
		case "logfmt":
			msg = pick(r, pl.logfmtL)
		default:
			if r.Intn(2) == 0 {
				msg = pick(r, pl.jsonL)
			} else {
				msg = pick(r, pl.logfmtL)
			}
		}
		if (uw == "n" || uw == "dur") && r.Intn(10) < 7 {
			// the unwrapped label present, with few distinct numeric values (ties, zero, negative, fraction)
			v := pick(r, []string{"0", "1", "2", "3", "5", "2.5", "-1", "1"})
			if gp.parserFn == "logfmt" {
				msg = uw + "=" + v + pick(r, []string{"", " level=info", " msg=b"})
			} else {
				msg = "{" + jsonStr(uw) + ":" + pick(r, []string{v, jsonStr(v)}) + pick(r, []string{"", ",\"level\":\"info\"", ",\"msg\":\"b\""}) + "}"
			}
		}
		if anch && r.Intn(6) != 0 {
			w := pick(r, anchoredWords(anchLit))
			uv := pick(r, []string{"0", "1", "2", "2.5"})
			switch {
			case anchRaw:
				msg = w
			case gp.parserFn == "json":
				msg = "{" + jsonStr("level") + ":" + jsonStr(w)
				if uw == "n" || uw == "dur" {
					msg += "," + jsonStr(uw) + ":" + uv
				}
				msg += pick(r, []string{"", "", ",\"msg\":\"b\""}) + "}"
			default:
				if w == "" || strings.ContainsAny(w, " \n") {
					w = strconv.Quote(w)
				}
				msg = "level=" + w
				if uw == "n" || uw == "dur" {
					msg += " " + uw + "=" + uv
				}
				msg += pick(r, []string{"", "", " msg=b"})
			}
		}
		if bad && r.Intn(4) == 0 {
			if gp.parserFn == "logfmt" {
				msg = pick(r, badLogfmt)
			} else {
				msg = pick(r, badJSON)
			}
			c.Class += "+bad"
			bad = false
		}
		ts := c.From + r.Int63n(c.To-c.From)
		if r.Intn(3) == 0 {
			ts = c.From + r.Int63n(nb)*dur // on a bucket boundary
		}
		es = append(es, Entry{TS: ts, FP: s.fp, Labels: cloneMap(s.labels), Msg: hx.Hex(msg), Val: fhex(0)})
	}
	if gp.metric && r.Intn(15) == 0 && len(es) > 0 {
		// outside the window: the aggregators index their bucket arrays without a check
		es[r.Intn(len(es))].TS = c.To + r.Int63n(2*dur)
		c.Class += "+oow"
		c.NoFix = true
	}
	sort.SliceStable(es, func(i, j int) bool {
		if es[i].FP != es[j].FP {
			return es[i].FP < es[j].FP
		}
		return es[i].TS < es[j].TS
	})
	// terminator and batching
	term := r.Intn(10)
	switch {
	case term < 7:
		es = append(es, Entry{Err: "eof", Val: fhex(0)})
	case term < 8:
		es = append(es, Entry{Err: "err", Val: fhex(0)})
		c.Class += "+uperr"
	default:
		c.Class += "+noeof"
	}
	c.In = split(r, es)
	return c
}

// genDropRepCase ("+droprep", own PRNG stream): ONE in-process `| drop` stage that names the same label more than once --
// with different values, the same value twice, bare and with a value in either order, with another label in between, three
// times -- behind a json / logfmt / line_format split, on lines (or stream labels) that carry each of the named values, a value
// no parameter names, and no such label at all.  The stage is the conjunction over ALL its parameters (ClickHouse prints one
// `(k, v) != (name, value)` per parameter): a stage that keeps one value per name honours only the last one (seed C09-g).
func genDropRepCase(r *rand.Rand, id int) Case {
	c := Case{ID: id}
	vals := []string{"debug", "info", "error", "warn"}
	name := pick(r, []string{"level", "level", "level", "msg", "pod"})
	other := pick(r, []string{"app", "n", "zone", "job"})
	v1 := vals[r.Intn(3)]
	v2 := vals[(indexOf(vals, v1)+1+r.Intn(2))%len(vals)]
	q := func(n, v string) string { return n + "=" + strconv.Quote(v) }
	var ps []string
	form := r.Intn(9)
	switch form {
	case 0, 1, 2:
		ps = []string{q(name, v1), q(name, v2)}
	case 3:
		ps = []string{name, q(name, v2)} // the unconditional parameter first: a last-one-wins table loses it
	case 4:
		ps = []string{q(name, v1), name}
	case 5:
		ps = []string{q(name, v1), other, q(name, v2)}
	case 6:
		ps = []string{q(name, v1), q(name, v2), q(name, vals[3])}
	case 7:
		ps = []string{q(name, v1), q(other, "x"), q(name, v1), q(name, v2)}
	default:
		ps = []string{name, name, q(other, "1"), q(other, "2")}
	}
	fn := pick(r, []string{"json", "json", "logfmt", "line_format"})
	var bp string
	switch fn {
	case "json":
		bp = " | json"
	case "logfmt":
		bp = " | logfmt"
	default:
		bp = " | line_format " + strconv.Quote(pick(r, []string{"{{._entry}}", "{{.level}} {{.msg}}", "x"}))
	}
	pipe := bp + " | drop " + strings.Join(ps, ", ")
	switch r.Intn(6) {
	case 0:
		pipe += " | " + name + "!=" + strconv.Quote(v1)
	case 1:
		pipe += " | " + name + "=" + strconv.Quote(v2)
	case 2:
		pipe += " | drop " + q(name, vals[3]) // a second drop stage: its own conjunction
	}
	rg := wholeRanges[r.Intn(4)]
	kind := r.Intn(8)
	sel := `{app="x"}`
	switch {
	case kind < 3:
		c.Class = "log"
		c.Query = sel + pipe
	case kind < 5:
		c.Class = "lra"
		c.Query = pick(r, []string{"count_over_time", "rate", "bytes_over_time"}) + "(" + sel + pipe + " [" + rg.text + "])"
	case kind < 7:
		c.Class = "lra+agg"
		rg = exactRanges[r.Intn(4)]
		c.Query = pick(r, []string{"sum", "count", "max"}) + pick(r, []string{" by (app)", " by (" + name + ")", " without (" + other + ")", ""}) +
			" (count_over_time(" + sel + pipe + " [" + rg.text + "]))"
	default:
		c.Class = "unwrap"
		rg = exactRanges[r.Intn(4)]
		c.Query = pick(r, []string{"sum_over_time", "max_over_time", "count_over_time"}) + "(" + sel + pipe + " | unwrap n [" + rg.text + "])" +
			pick(r, []string{"", " by (app)", " by (" + name + ")"})
	}
	c.QTmpl = c.Query
	c.Class += "+droprep"
	if kind >= 3 {
		c.Range, c.RangeKind = rg.text, rangeKind(rg.ns)
	}
	dur := rg.ns
	base := int64(1700000000) * 1e9
	base -= base % dur
	nb := int64(1 + r.Intn(3))
	c.From, c.To = base, base+nb*dur
	c.Limit = int64([]int{0, 0, 3, 10, 40}[r.Intn(5)])
	// streams: the named label among the stream labels (line_format split: nothing is extracted) or only in the lines
	type ser struct {
		labels map[string]string
		fp     uint64
	}
	var sers []ser
	nser := 1 + r.Intn(3)
	for i := 0; i < nser; i++ {
		l := map[string]string{"app": pick(r, []string{"x", "web"})}
		if fn == "line_format" || r.Intn(3) == 0 {
			if w := pick(r, []string{v1, v2, v1, v2, vals[3], ""}); w != "" {
				l[name] = w
			}
		}
		if r.Intn(3) == 0 {
			l[other] = pick(r, []string{"x", "1", "2"})
		}
		sers = append(sers, ser{l, city.CH64([]byte(labelsKey(l)))})
	}
	n := 3 + r.Intn(8)
	var es []Entry
	for i := 0; i < n; i++ {
		s := sers[r.Intn(len(sers))]
		w := pick(r, []string{v1, v1, v2, v2, vals[3], "zzz", ""})
		nv := pick(r, []string{"0", "1", "2", "3", "2.5"})
		var msg string
		if fn == "logfmt" {
			msg = "n=" + nv
			if w != "" {
				msg = name + "=" + w + " " + msg
			}
			msg += pick(r, []string{"", "", " " + other + "=x", " " + other + "=1"})
		} else {
			msg = "{"
			if w != "" {
				msg += jsonStr(name) + ":" + jsonStr(w) + ","
			}
			msg += jsonStr("n") + ":" + nv + pick(r, []string{"", "", "," + jsonStr(other) + ":\"x\"", "," + jsonStr(other) + ":\"2\""}) + "}"
		}
		ts := c.From + r.Int63n(c.To-c.From)
		es = append(es, Entry{TS: ts, FP: s.fp, Labels: cloneMap(s.labels), Msg: hx.Hex(msg), Val: fhex(0)})
	}
	sort.SliceStable(es, func(i, j int) bool {
		if es[i].FP != es[j].FP {
			return es[i].FP < es[j].FP
		}
		return es[i].TS < es[j].TS
	})
	if r.Intn(8) != 0 {
		es = append(es, Entry{Err: "eof", Val: fhex(0)})
	} else {
		c.Class += "+noeof"
	}
	c.In = split(r, es)
	return c
}

// genInnerCmpCase ("+innercmp", own PRNG stream; round 8, seed C09-h): a vector aggregation with a by / without clause (or none)
// over count_over_time / bytes_over_time / rate with a comparison written INSIDE the vector aggregation, on lines whose extracted
// label sets (lvl x host) fall several into one group: the comparison has to see one series per extracted label set, and the
// thresholds sit between the value of a label set and the total of its group.
func genInnerCmpCase(r *rand.Rand, id int) Case {
	c := Case{ID: id, CrashStage: -1}
	logfmt := r.Intn(3) == 0
	pipe := " | json"
	if logfmt {
		pipe = " | logfmt"
	}
	if r.Intn(4) == 0 {
		pipe += pick(r, []string{` | host!="c"`, ` | lvl=~"err|warn"`, ` | drop pod`, ` | label_format zone="z"`})
	}
	line := func(lvl, host string) string {
		if logfmt {
			return "lvl=" + lvl + " host=" + host
		}
		return `{"lvl":"` + lvl + `","host":"` + host + `"}`
	}
	lraFn := pick(r, []string{"count_over_time", "count_over_time", "count_over_time", "bytes_over_time", "bytes_over_time", "rate"})
	rg := wholeRanges[r.Intn(len(wholeRanges))]
	aggFn := pick(r, []string{"sum", "sum", "sum", "sum", "count", "max", "min", "avg"})
	if lraFn == "rate" || aggFn == "avg" {
		rg = exactRanges[r.Intn(4)]
	}
	var th string
	switch lraFn {
	case "count_over_time":
		th = pick(r, []string{"1", "1", "2", "2", "3"})
	case "bytes_over_time":
		l := len(line("err", "a")) // lvl in err / wrn, host one letter: every line has this length
		th = strconv.Itoa(pick2(r, []int{l, l + l/2, 2 * l, 2*l + l/2}))
	default:
		// k lines in a range of 2^j seconds: k / 2^j
		th = map[int64][]string{1e9: {"1", "2"}, 2e9: {"0.5", "1"}, 4e9: {"0.25", "0.5"}, 8e9: {"0.125", "0.25"}}[rg.ns][r.Intn(2)]
	}
	op := pick(r, []string{">", ">", ">=", ">=", "<", "<=", "==", "!="})
	pre, suf := "", ""
	clause := pick(r, []string{" by (lvl)", " by (lvl)", " without (host)", " without (host)", "", " by (app, lvl)", " by (host)", " without (lvl, app)"})
	switch r.Intn(8) {
	case 0, 1:
		suf = clause
	case 2:
		// both places written: planByWithout takes the LAST clause that is there (the suffix)
		pre, suf = pick(r, []string{" by (host)", " without (lvl)", " by (app)"}), clause
		if suf == "" {
			suf = " by (lvl)"
		}
	default:
		pre = clause
	}
	outer := ""
	if r.Intn(4) == 0 {
		outer = " " + pick(r, []string{">", ">=", "<", "!="}) + " " + pick(r, []string{"1", "2", "3"})
	}
	c.Query = aggFn + pre + " (" + lraFn + `({app=~"x|web"}` + pipe + " [" + rg.text + "]) " + op + " " + th + ")" + suf + outer
	c.QTmpl = c.Query
	c.Class = "lra+agg+innercmp"
	c.Range, c.RangeKind = rg.text, rangeKind(rg.ns)
	dur := rg.ns
	base := int64(1700000000) * 1e9
	base -= base % dur
	nb := int64(1 + r.Intn(2))
	c.From, c.To = base, base+nb*dur
	c.Limit = int64([]int{0, 10, 40}[r.Intn(3)])
	type ser struct {
		labels map[string]string
		fp     uint64
	}
	sers := []ser{{map[string]string{"app": "x"}, 0}}
	if r.Intn(3) == 0 {
		sers = append(sers, ser{map[string]string{"app": "web", "pod": "p1"}, 0})
	}
	for i := range sers {
		sers[i].fp = city.CH64([]byte(labelsKey(sers[i].labels)))
	}
	hosts := []string{"a", "b"}
	if r.Intn(3) == 0 {
		hosts = append(hosts, "c")
	}
	var es []Entry
	for b := int64(0); b < nb; b++ {
		for _, lvl := range []string{"err", "wrn"} {
			for _, h := range hosts {
				k := r.Intn(4) // 0..3 lines of this label set in this window
				if len(es)+k > 14 {
					k = 0
				}
				for j := 0; j < k; j++ {
					s := sers[r.Intn(len(sers))]
					ts := c.From + b*dur + r.Int63n(dur)
					es = append(es, Entry{TS: ts, FP: s.fp, Labels: cloneMap(s.labels), Msg: hx.Hex(line(lvl, h)), Val: fhex(0)})
				}
			}
		}
	}
	sort.SliceStable(es, func(i, j int) bool {
		if es[i].FP != es[j].FP {
			return es[i].FP < es[j].FP
		}
		return es[i].TS < es[j].TS
	})
	if r.Intn(8) != 0 {
		es = append(es, Entry{Err: "eof", Val: fhex(0)})
	} else {
		c.Class += "+noeof"
	}
	c.In = split(r, es)
	return c
}

func pick2(r *rand.Rand, xs []int) int { return xs[r.Intn(len(xs))] }

func indexOf(xs []string, x string) int {
	for i, y := range xs {
		if y == x {
			return i
		}
	}
	return 0
}

func split(r *rand.Rand, es []Entry) [][]Entry {
	var bs [][]Entry
	mode := r.Intn(4)
	i := 0
	for i < len(es) {
		var k int
		switch mode {
		case 0:
			k = len(es)
		case 1:
			k = 1
		default:
			k = r.Intn(5)
		}
		if i+k > len(es) {
			k = len(es) - i
		}
		bs = append(bs, append([]Entry{}, es[i:i+k]...))
		i += k
	}
	if r.Intn(5) == 0 {
		bs = append(bs, []Entry{})
	}
	if r.Intn(8) == 0 {
		bs = append([][]Entry{{}}, bs...)
	}
	return bs
}

// genManySeries: n series of one entry each (foreign fingerprints 1..n, label sets {app:x, i:<n>}) under a range aggregation
func genManySeries(id int, n int) Case {
	c := Case{ID: id, Class: fmt.Sprintf("series%d", n), Limit: 0}
	c.Query = `count_over_time({app="x"} | line_format "x" [10s])`
	c.From = int64(1700000000) * 1e9
	c.To = c.From + 10*1e9
	var es []Entry
	for i := 1; i <= n; i++ {
		// one label set per fingerprint, as ClickHouse delivers them
		es = append(es, Entry{TS: c.From + int64(i%10)*1e9, FP: uint64(i), Labels: map[string]string{"app": "x", "i": strconv.Itoa(i)}, Msg: hx.Hex("m"), Val: fhex(0)})
	}
	es = append(es, Entry{Err: "eof", Val: fhex(0)})
	for i := 0; i < len(es); i += 100 {
		j := i + 100
		if j > len(es) {
			j = len(es)
		}
		c.In = append(c.In, es[i:j])
	}
	return c
}

// genRefused: queries whose in-process part the planner refuses (topk / quantile_over_time over a split pipeline)
func genRefused(r *rand.Rand, id int) Case {
	c := Case{ID: id, Class: "refused", Limit: 10}
	c.Query = pick(r, []string{
		`topk(2, rate({app="x"} | json [1m]))`,
		`bottomk(1, sum by (app) (count_over_time({app="x"} | logfmt [1m])))`,
		`quantile_over_time(0.5, {app="x"} | json | unwrap n [1m])`,
		`quantile_over_time(0.9, {app="x"} | line_format "{{.a}}" | unwrap _entry [1m]) by (app)`,
		// a zero range: refused by MatrixPostProcessors before any stage divides by it
		`rate({app="x"} | json [0s])`,
		`sum by (app) (count_over_time({app="x"} | logfmt | unwrap n [0s]))`,
		`absent_over_time({app="x"} [0s])`,
	})
	c.From = int64(1700000000) * 1e9
	c.To = c.From + 60*1e9
	c.In = [][]Entry{{{TS: c.From + 1e9, FP: 7, Labels: map[string]string{"app": "x"}, Msg: hx.Hex(`{"n":1}`), Val: fhex(0)}, {Err: "eof", Val: fhex(0)}}}
	return c
}

func genFPCase(r *rand.Rand, id int) Case {
	c := Case{ID: id, Mode: "fp", Class: "fp"}
	c.FPLabels = map[string]string{}
	n := r.Intn(5)
	for i := 0; i < n; i++ {
		c.FPLabels[pick(r, keyPool)] = pick(r, valPool)
	}
	if r.Intn(4) == 0 {
		// the separator-less pairs of hash.go
		if r.Intn(2) == 0 {
			c.FPLabels = map[string]string{"a": "bc"}
		} else {
			c.FPLabels = map[string]string{"ab": "c"}
		}
		c.Class = "fp+collide"
	}
	return c
}

func main() {
	isWorker := flag.Bool("worker", false, "internal: run cases read from stdin, report per stage")
	f := hx.ParseFlags()
	if *isWorker {
		w := bufio.NewWriterSize(os.Stdout, 1<<20)
		emit := func(m wmsg) {
			b, _ := json.Marshal(m)
			w.Write(b)
			w.WriteByte('\n')
			w.Flush()
		}
		sc := bufio.NewScanner(os.Stdin)
		sc.Buffer(make([]byte, 1<<20), 1<<28)
		for sc.Scan() {
			var c Case
			if err := json.Unmarshal(sc.Bytes(), &c); err != nil {
				panic(err)
			}
			workerRun(&c, emit)
		}
		return
	}
	defer func() {
		if theWorker != nil {
			theWorker.stop()
		}
	}()
	out := hx.OpenOut(f.Out)
	defer out.Close()
	_ = math.Pi
	run := func(c *Case) {
		if c.Mode == "fp" {
			runFP(c)
		} else if c.Mode == "json" {
		} else if c.Mode == "sql" {
			runSQL(c)
		} else {
			runCase(c)
		}
	}
	if f.Cases != "" {
		hx.ReadLines(f.Cases, func(b []byte) {
			var c Case
			if err := json.Unmarshal(b, &c); err != nil {
				panic(err)
			}
			run(&c)
			out.Put(c)
		})
		return
	}
	r := hx.Rand(f.Seed)
	pl := mkPools(r, f.N)
	for i := 0; i < f.N; i++ {
		var c Case
		switch {
		case i%10 == 9:
			c = genFPCase(r, i)
		case i == 50 || (i == 51 && f.N >= 5000):
			// the 2000-series limit of the aggregators: 2001 series are refused, 2000 (thorough tier) are not
			c = genManySeries(i, 2051-i)
		case i%100 == 37:
			c = genRefused(r, i)
		default:
			c = genCase(r, i, pl)
		}
		run(&c)
		if c.Mode != "fp" && adapt(&c) {
			run(&c)
		}
		out.Put(c)
	}
	// json-only cases from their own stream (the stream of the chain cases is not disturbed)
	rj := rand.New(rand.NewSource(int64(f.Seed)*31 + 7))
	for i := 0; i < f.N/8+5; i++ {
		out.Put(genJSONCase(rj, f.N+i))
	}
	// drop stages naming one label several times, from their own stream too
	rd := rand.New(rand.NewSource(int64(f.Seed)*37 + 11))
	for i := 0; i < f.N/25+5; i++ {
		c := genDropRepCase(rd, 2*f.N+i)
		run(&c)
		out.Put(c)
	}
	// comparisons written inside a vector aggregation (round 8), from their own stream
	ri := rand.New(rand.NewSource(int64(f.Seed)*41 + 13))
	for i := 0; i < f.N/30+5; i++ {
		c := genInnerCmpCase(ri, 3*f.N+i)
		run(&c)
		out.Put(c)
	}
}
