// jtree.go: the JSON VALUE tree of a line, read with the byte-level decoder the json stage itself uses (go-faster/jx).
// The tree is the oracle of coq/model/InternalJson.v; what qryn does with it (flattening, sanitizeLabel, the path walker)
// is the model's.
package main

import (
	"encoding/hex"
	"fmt"
	"math/rand"
	"strconv"

	"github.com/go-faster/jx"
	ip "github.com/metrico/qryn/reader/logql/logql_transpiler_v2/internal_planner"
	"github.com/metrico/qryn/reader/logql/logql_transpiler_v2/shared"
	"verif/harness/hx"
)

type JNode struct {
	T  string   `json:"t"`           // s string (decoded), r raw scalar text, o object, a array
	S  string   `json:"s,omitempty"` // hex
	KV []JKV    `json:"kv,omitempty"`
	L  []*JNode `json:"l,omitempty"`
}
type JKV struct {
	K string `json:"k"` // hex
	V *JNode `json:"v"`
}

// PathPart of a json parameter as shared.JsonPathParamToTypedArray types it: a key or an index
type PathPart struct {
	Key string `json:"key,omitempty"` // hex
	Idx int    `json:"idx"`
	Str bool   `json:"str"`
}
type JParam struct {
	Label string     `json:"label"`
	Path  []PathPart `json:"path"`
}

func jwalk(d *jx.Decoder) (*JNode, error) {
	switch d.Next() {
	case jx.Object:
		n := &JNode{T: "o"}
		err := d.Obj(func(d *jx.Decoder, key string) error {
			c, err := jwalk(d)
			if err != nil {
				return err
			}
			n.KV = append(n.KV, JKV{K: hex.EncodeToString([]byte(key)), V: c})
			return nil
		})
		return n, err
	case jx.Array:
		n := &JNode{T: "a"}
		err := d.Arr(func(d *jx.Decoder) error {
			c, err := jwalk(d)
			if err != nil {
				return err
			}
			n.L = append(n.L, c)
			return nil
		})
		return n, err
	case jx.String:
		s, err := d.Str()
		return &JNode{T: "s", S: hex.EncodeToString([]byte(s))}, err
	default:
		raw, err := d.Raw()
		if err != nil {
			return nil, err
		}
		return &JNode{T: "r", S: hex.EncodeToString([]byte(raw.String()))}, nil
	}
}

// jtree returns the tree of the first JSON value of the line (what follows it is never read by the stage either),
// nil when the decoder refuses it, and whether the line is "plain": jx.Skip (which the stage uses for the parts it does
// not need) and the full walk agree on accepting it.  Lines on which they differ are reported, not compared.
func jtree(line string) (*JNode, bool) {
	n, werr := jwalk(jx.DecodeStr(line))
	serr := jx.DecodeStr(line).Skip()
	if werr != nil {
		n = nil
	}
	return n, (werr == nil) == (serr == nil)
}

func jparams(names, vals []string) ([]JParam, bool) {
	var res []JParam
	for i, v := range vals {
		parts, err := shared.JsonPathParamToTypedArray(v)
		if err != nil {
			return nil, false
		}
		p := JParam{Label: names[i], Path: []PathPart{}}
		for _, x := range parts {
			switch t := x.(type) {
			case string:
				p.Path = append(p.Path, PathPart{Key: hex.EncodeToString([]byte(t)), Str: true})
			case int:
				p.Path = append(p.Path, PathPart{Idx: t})
			default:
				return nil, false
			}
		}
		res = append(res, p)
	}
	return res, true
}

// ---------------------------------------------------------------------------------- json-only cases (Mode "json")
// an own PRNG stream (the chain cases keep theirs): documents with nesting, duplicate keys, names that need sanitising,
// non-ASCII and empty keys, empty strings, arrays of arrays; paths that follow the document (idents, ["quoted"], [index]),
// stop at an object / array, or run past it; documents cut short or followed by garbage.

// keys with valid multi-byte characters of every UTF-8 length (2: é ö ß, 3: € 名 and the combining U+0301, 4: U+1D11E): the
// LogQL name has ONE "_" per character, whatever its byte length; text() writes them literally or as \uXXXX escapes
var jKeys = []string{"app", "a", "b", "a_b", "a.b", "k-2", "n", "x y", "é", "", "Z9", "名", "café", "größe", "ab€", "ab$", "\U0001D11Ek", "e\u0301x"}
var jStrs = []string{"", "b", "x y", "é", "a\"b", "10", "2.5", "\\", "line\nbreak", "info"}
var jRaws = []string{"1", "-3", "2.50", "1e2", "true", "false", "null", "0"}
var jNames = []string{"x", "app", "a_b", "n"}

type jgen struct {
	T  int // 0 str 1 raw 2 obj 3 arr
	S  string
	KV []jgenKV
	L  []*jgen
}
type jgenKV struct {
	K string
	V *jgen
}

func genJV(r interface{ Intn(int) int }, depth int) *jgen {
	t := r.Intn(4)
	if depth <= 0 && t >= 2 {
		t = r.Intn(2)
	}
	switch t {
	case 0:
		return &jgen{T: 0, S: jStrs[r.Intn(len(jStrs))]}
	case 1:
		return &jgen{T: 1, S: jRaws[r.Intn(len(jRaws))]}
	case 2:
		g := &jgen{T: 2}
		for i, n := 0, r.Intn(4); i < n; i++ {
			g.KV = append(g.KV, jgenKV{jKeys[r.Intn(len(jKeys))], genJV(r, depth-1)})
		}
		return g
	default:
		g := &jgen{T: 3}
		for i, n := 0, r.Intn(4); i < n; i++ {
			g.L = append(g.L, genJV(r, depth-1))
		}
		return g
	}
}

func (g *jgen) text(r interface{ Intn(int) int }) string {
	sp := func() string {
		if r.Intn(6) == 0 {
			return " "
		}
		return ""
	}
	switch g.T {
	case 0:
		return jsonStrEsc(r, g.S)
	case 1:
		return g.S
	case 2:
		s := "{" + sp()
		for i, kv := range g.KV {
			if i > 0 {
				s += "," + sp()
			}
			s += jsonStrEsc(r, kv.K) + sp() + ":" + sp() + kv.V.text(r)
		}
		return s + sp() + "}"
	default:
		s := "["
		for i, x := range g.L {
			if i > 0 {
				s += "," + sp()
			}
			s += x.text(r)
		}
		return s + "]"
	}
}

// jsonStrEsc: the JSON string of s; a character outside ASCII is written literally or (1 in 2 strings) as \uXXXX
// escapes (a surrogate pair above U+FFFF), so that an all-ASCII line can hold a key with multi-byte characters
func jsonStrEsc(r interface{ Intn(int) int }, s string) string {
	ascii := true
	for i := 0; i < len(s); i++ {
		if s[i] >= 0x80 {
			ascii = false
		}
	}
	if ascii || r.Intn(2) == 0 {
		return jsonStr(s)
	}
	out := ""
	for _, c := range s {
		switch {
		case c < 0x80:
			q := jsonStr(string(c))
			out += q[1 : len(q)-1]
		case c < 0x10000:
			out += fmt.Sprintf("\\u%04x", c)
		default:
			c -= 0x10000
			out += fmt.Sprintf("\\u%04x\\u%04x", 0xd800+(c>>10), 0xdc00+(c&0x3ff))
		}
	}
	return "\"" + out + "\""
}

func isIdent(s string) bool {
	if s == "" {
		return false
	}
	for i, c := range []byte(s) {
		if !(c == '_' || (c >= 'a' && c <= 'z') || (c >= 'A' && c <= 'Z') || (i > 0 && c >= '0' && c <= '9')) {
			return false
		}
	}
	return true
}

// a path into g: follows members / items while it can, then (1 in 4) one step further into nothing
func genPath(r interface{ Intn(int) int }, g *jgen) string {
	p := ""
	cur := g
	for steps := 0; steps < 5; steps++ {
		if cur.T == 2 && len(cur.KV) > 0 && r.Intn(5) != 0 {
			kv := cur.KV[r.Intn(len(cur.KV))]
			if isIdent(kv.K) && r.Intn(4) != 0 {
				if p != "" {
					p += "."
				}
				p += kv.K
			} else {
				p += "[" + strconv.Quote(kv.K) + "]"
			}
			cur = kv.V
			continue
		}
		if cur.T == 3 && len(cur.L) > 0 && r.Intn(5) != 0 {
			i := r.Intn(len(cur.L))
			p += "[" + strconv.Itoa(i) + "]"
			cur = cur.L[i]
			continue
		}
		break
	}
	if p == "" || r.Intn(4) == 0 {
		if r.Intn(2) == 0 {
			if p != "" {
				p += "."
			}
			p += "nope"
		} else {
			p += "[7]"
		}
	}
	return p
}

func genJSONCase(r *rand.Rand, id int) Case {
	c := Case{ID: id, Mode: "json", Class: "json-tree"}
	for k := 0; k < 8; k++ {
		g := genJV(r, 3)
		if r.Intn(5) != 0 && g.T != 2 {
			g = &jgen{T: 2, KV: []jgenKV{{jKeys[r.Intn(len(jKeys))], g}}}
		}
		line := g.text(r)
		if r.Intn(25) == 0 {
			// a key with ill-formed UTF-8 written raw: whatever jx makes of it (refuses it, or hands the bytes on), the model runs on that
			line = "{\"" + []string{"a\xa9k", "\xc0\xafk", "k\xed\xa0\x80", "\xffz"}[r.Intn(4)] + "\":1," + line[1:]
			if len(g.KV) == 0 || g.T != 2 {
				line = "{\"" + "a\xa9k" + "\":1}"
			}
		}
		switch r.Intn(12) {
		case 0:
			line = line[:r.Intn(len(line)+1)]
		case 1:
			line += " trailing"
		case 2:
			line = "  " + line
		}
		row := ParseRow{ID: k, Msg: hx.Hex(line), Json: true}
		var names, vals []string
		if r.Intn(2) == 0 {
			for i, n := 0, 1+r.Intn(3); i < n; i++ {
				names = append(names, jNames[r.Intn(len(jNames))])
				vals = append(vals, genPath(r, g))
			}
		}
		ps, ok := jparams(names, vals)
		if !ok {
			continue
		}
		row.Params = ps
		if row.Params == nil {
			row.Params = []JParam{}
		}
		row.Tree, row.Plain = jtree(line)
		res, perr := single(func(up shared.RequestProcessor) shared.RequestProcessor {
			return &ip.ParserPlanner{GenericPlanner: ip.GenericPlanner{Main: up}, Op: "json", ParameterNames: names, ParameterValues: vals}
		}, Entry{Labels: map[string]string{}, Msg: hx.Hex(line)})
		if perr == nil && len(res) == 1 && res[0].Err == "" {
			row.Ok = true
			row.KV = cloneMapNN(res[0].Labels)
		}
		c.Tab.Parse = append(c.Tab.Parse, row)
	}
	// two logfmt rows: keys with multi-byte characters and with bytes that are no character (logfmt takes any byte above ' ' in
	// a key; each such byte is named with one "_"), without and with fields
	for k := 0; k < 2; k++ {
		var parts []string
		for i, n := 0, 1+r.Intn(4); i < n; i++ {
			key := keyPool[r.Intn(len(keyPool))]
			switch r.Intn(3) {
			case 0:
				key = uKeys[r.Intn(len(uKeys))]
			case 1:
				key = badUTF8Keys[r.Intn(len(badUTF8Keys))]
			}
			switch r.Intn(4) {
			case 0:
				parts = append(parts, key)
			case 1:
				parts = append(parts, key+"="+strconv.Quote(valPool[r.Intn(len(valPool))]+" q"))
			default:
				parts = append(parts, key+"="+valPool[r.Intn(6)])
			}
		}
		line := ""
		for i, p := range parts {
			if i > 0 {
				line += " "
			}
			line += p
		}
		var names, vals []string
		if r.Intn(3) == 0 {
			names = []string{"x", "lv"}
			vals = []string{[]string{"level", "app", "a"}[r.Intn(3)], []string{"level", "app", "job"}[r.Intn(3)]}
		}
		ps, ok := jparams(names, vals)
		if !ok {
			continue
		}
		row := ParseRow{ID: 100 + k, Msg: hx.Hex(line), Logfmt: true, Params: ps}
		row.Pairs, row.PairsOk = logfmtPairs(line)
		res, perr := single(func(up shared.RequestProcessor) shared.RequestProcessor {
			return &ip.ParserPlanner{GenericPlanner: ip.GenericPlanner{Main: up}, Op: "logfmt", ParameterNames: names, ParameterValues: vals}
		}, Entry{Labels: map[string]string{}, Msg: hx.Hex(line)})
		if perr == nil && len(res) == 1 && res[0].Err == "" {
			row.Ok = true
			row.KV = cloneMapNN(res[0].Labels)
		}
		c.Tab.Parse = append(c.Tab.Parse, row)
	}
	return c
}
