// sqlside.go: the SQL text the ClickHouse planner prints for a query (Mode "sql"): used by the check to compare how
// the two engines read a json path (an [index] part must reach ClickHouse as a number: a string argument of
// JSONExtract* is an object key).
package main

import (
	"time"

	"github.com/metrico/cloki-config/config"
	"github.com/metrico/qryn/reader/logql/logql_parser"
	"github.com/metrico/qryn/reader/logql/logql_transpiler_v2/clickhouse_planner"
	"github.com/metrico/qryn/reader/logql/logql_transpiler_v2/shared"
	"github.com/metrico/qryn/reader/model"
	sql "github.com/metrico/qryn/reader/utils/sql_select"
	"github.com/metrico/qryn/reader/utils/tables"
	"verif/harness/hx"
)

func runSQL(c *Case) {
	c.SQL, c.Out.Err, c.Out.ErrMsg = "", "", ""
	script, err := logql_parser.Parse(c.Query)
	if err != nil {
		c.Out.Err, c.Out.ErrMsg = "parse", err.Error()
		return
	}
	pc := &shared.PlannerContext{
		From:       time.Unix(0, c.From),
		To:         time.Unix(0, c.To),
		Limit:      c.Limit,
		CHFinalize: true,
	}
	tables.PopulateTableNames(pc, &model.DataDatabasesMap{Config: &config.ClokiBaseDataBase{Name: "qryn"}})
	p := hx.Catch(func() {
		planner, err := clickhouse_planner.Plan(script, true)
		if err != nil {
			c.Out.Err, c.Out.ErrMsg = "plan", err.Error()
			return
		}
		sel, err := planner.Process(pc)
		if err != nil {
			c.Out.Err, c.Out.ErrMsg = "plan", err.Error()
			return
		}
		c.SQL, err = sel.String(&sql.Ctx{Params: map[string]sql.SQLObject{}, Result: map[string]sql.SQLObject{}})
		if err != nil {
			c.Out.Err, c.Out.ErrMsg = "plan", err.Error()
		}
	})
	if p != "" {
		c.Out.Err, c.Out.ErrMsg = "planpanic", p
	}
}
