package main

// A fake clickhouse-go v2 driver.Conn that interprets the statements maintenance.Update sends with the
// catalogue semantics of model/Migrate.v (exec_ch), logs every call and injects one failure per run.

import (
	"context"
	"errors"
	"fmt"
	"regexp"
	"sort"
	"strconv"
	"strings"

	"github.com/ClickHouse/clickhouse-go/v2/lib/driver"
	"github.com/ClickHouse/clickhouse-go/v2/lib/proto"
)

type Obj struct {
	Name   string   `json:"name"`
	Kind   string   `json:"kind"` // KTable | KView | KMV
	Engine string   `json:"engine"`
	Repl   bool     `json:"repl"`
	Cols   []string `json:"cols"`
	Okey   []string `json:"okey"`
	To     string   `json:"to"`
	Def    uint64   `json:"def"`
}

// Host is the catalogue of one server of the fake cluster.
type Host struct {
	Objs   map[string]*Obj
	Rows   map[[2]string]bool
	VerTbl bool
	VdTbl  bool
	// round 7: the engine ver was created with (Replicated*: its rows are shared by the replicas of one shard;
	// otherwise they stay on this host)
	VerRepl bool
}

// DB is the state of the fake cluster (Hosts[0] = the server the process is connected to; it receives every
// statement, the others only what is sent ON CLUSTER); it survives "process restarts".  Vers is the content
// of table ver of the connected host (INSERT INTO ver has no ON CLUSTER; ver_dist reads it).
//
// Round 7: a start may reach the cluster through any host (Conn.at).  INSERT INTO ver (no ON CLUSTER) writes the LOCAL
// table of the connected host: VersAt[store of that host]; the store of a host is its shard when ver is a Replicated
// table (rows shared by the replicas of the shard) and the host itself otherwise (a plain table; such hosts are taken
// to be one shard each).  SELECT .. FROM ver reads that store only, SELECT .. FROM ver_dist (Distributed over the
// cluster) reads every shard.  Vers stays the cluster-wide maximum (what ver_dist answers).
type DB struct {
	Hosts []*Host
	Vers  map[int64]uint64
	Shard  []int // shard of each host (missing: host i is shard i)
	VersAt map[string]map[int64]uint64
	// databases created by the bootstrap (tcp.go: CREATE DATABASE IF NOT EXISTS), on every host at once
	Exists map[string]bool
}

func newHost() *Host { return &Host{Objs: map[string]*Obj{}, Rows: map[[2]string]bool{}} }

func NewDB(nhosts int) *DB {
	if nhosts < 1 {
		nhosts = 1
	}
	d := &DB{Vers: map[int64]uint64{}, Exists: map[string]bool{}, VersAt: map[string]map[int64]uint64{}}
	for i := 0; i < nhosts; i++ {
		d.Hosts = append(d.Hosts, newHost())
	}
	return d
}

func (h *Host) clone() *Host {
	n := newHost()
	for k, o := range h.Objs {
		c := *o
		c.Cols = append([]string(nil), o.Cols...)
		c.Okey = append([]string(nil), o.Okey...)
		n.Objs[k] = &c
	}
	for k := range h.Rows {
		n.Rows[k] = true
	}
	n.VerTbl, n.VdTbl, n.VerRepl = h.VerTbl, h.VdTbl, h.VerRepl
	return n
}

func (d *DB) Clone() *DB {
	n := &DB{Vers: map[int64]uint64{}, Exists: map[string]bool{}, VersAt: map[string]map[int64]uint64{}}
	for _, h := range d.Hosts {
		n.Hosts = append(n.Hosts, h.clone())
	}
	n.Shard = append([]int(nil), d.Shard...)
	for st, m := range d.VersAt {
		n.VersAt[st] = map[int64]uint64{}
		for k, v := range m {
			n.VersAt[st][k] = v
		}
	}
	for k, v := range d.Exists {
		n.Exists[k] = v
	}
	for k, v := range d.Vers {
		n.Vers[k] = v
	}
	return n
}

// store names the place the rows of the local table ver of host i live in
func (d *DB) store(i int) string {
	if i < len(d.Hosts) && d.Hosts[i].VerRepl {
		sh := i
		if i < len(d.Shard) {
			sh = d.Shard[i]
		}
		return fmt.Sprintf("shard%d", sh)
	}
	return fmt.Sprintf("host%d", i)
}

func (d *DB) insertVer(at int, k int64, v uint64) {
	if d.VersAt == nil {
		d.VersAt = map[string]map[int64]uint64{}
	}
	st := d.store(at)
	if d.VersAt[st] == nil {
		d.VersAt[st] = map[int64]uint64{}
	}
	if v > d.VersAt[st][k] {
		d.VersAt[st][k] = v
	}
	if v > d.Vers[k] {
		d.Vers[k] = v
	}
}

// readVer: max(ver) of stream k as the connected host `at` sees it in its local table or through ver_dist
func (d *DB) readVer(at int, k int64, dist bool) uint64 {
	if !dist {
		return d.VersAt[d.store(at)][k]
	}
	var v uint64
	for i := range d.Hosts {
		if x := d.VersAt[d.store(i)][k]; x > v {
			v = x
		}
	}
	return v
}

// hostsFrom: the hosts as a start connected to host `at` sees them (the connected one first, hosts 0 and at exchanged)
func (d *DB) hostsFrom(at int) []*Host {
	if at <= 0 || at >= len(d.Hosts) {
		return d.Hosts
	}
	hs := append([]*Host(nil), d.Hosts...)
	hs[0], hs[at] = hs[at], hs[0]
	return hs
}

func (d *DB) allHave(f func(*Host) bool) bool {
	for _, h := range d.Hosts {
		if !f(h) {
			return false
		}
	}
	return true
}

func mem(s string, l []string) bool {
	for _, x := range l {
		if x == s {
			return true
		}
	}
	return false
}

func isPrefix(a, b []string) bool {
	if len(a) > len(b) {
		return false
	}
	for i := range a {
		if a[i] != b[i] {
			return false
		}
	}
	return true
}

var errSem = errors.New("fake clickhouse: statement rejected")

// execStmt = exec_ch: nil when the statement is accepted (effect applied), errSem otherwise (no effect).
func (d *Host) execStmt(s *Stmt) error {
	has := func(n string) bool { _, ok := d.Objs[n]; return ok }
	allHave := func(l []string) bool {
		for _, n := range l {
			if !has(n) {
				return false
			}
		}
		return true
	}
	switch s.C {
	case "CreateTable":
		if has(s.Name) {
			if s.Ine {
				return nil
			}
			return errSem
		}
		d.Objs[s.Name] = &Obj{Name: s.Name, Kind: "KTable", Engine: s.Engine, Repl: s.Repl,
			Cols: append([]string{}, s.Cols...), Okey: append([]string{}, s.Okey...)}
		return nil
	case "CreateView":
		if has(s.Name) {
			if s.Ine {
				return nil
			}
			return errSem
		}
		if !allHave(s.Srcs) {
			return errSem
		}
		d.Objs[s.Name] = &Obj{Name: s.Name, Kind: "KView", Engine: "ENull", Cols: []string{}, Okey: []string{}, Def: s.Def}
		return nil
	case "CreateMV":
		if has(s.Name) {
			if s.Ine {
				return nil
			}
			return errSem
		}
		if !has(s.To) || !allHave(s.Srcs) {
			return errSem
		}
		d.Objs[s.Name] = &Obj{Name: s.Name, Kind: "KMV", Engine: "ENull", Cols: []string{}, Okey: []string{}, To: s.To, Def: s.Def}
		return nil
	case "DropTable":
		if has(s.Name) {
			delete(d.Objs, s.Name)
			for k := range d.Rows {
				if k[0] == s.Name {
					delete(d.Rows, k)
				}
			}
			return nil
		}
		if s.Ine {
			return nil
		}
		return errSem
	case "RenameTable":
		o, ok := d.Objs[s.Name]
		if !ok {
			if s.Ine {
				return nil
			}
			return errSem
		}
		if has(s.To) {
			return errSem
		}
		delete(d.Objs, s.Name)
		o.Name = s.To
		d.Objs[s.To] = o
		for k := range d.Rows {
			if k[0] == s.Name {
				delete(d.Rows, k)
				d.Rows[[2]string{s.To, k[1]}] = true
			}
		}
		return nil
	case "AlterTable":
		o, ok := d.Objs[s.Name]
		if !ok {
			return errSem
		}
		cols := append([]string{}, o.Cols...)
		okey := append([]string{}, o.Okey...)
		var fresh []string
		for _, a := range s.Cmds {
			switch a.A {
			case "AddColumn":
				if mem(a.Col, cols) {
					if a.Ine {
						continue
					}
					return errSem
				}
				if a.Alias != "" && !mem(a.Alias, cols) {
					return errSem
				}
				cols = append(cols, a.Col)
				fresh = append(fresh, a.Col)
			case "ModifyOrderBy":
				if !isPrefix(okey, a.Key) {
					return errSem
				}
				for _, x := range a.Key[len(okey):] {
					if !mem(x, fresh) {
						return errSem
					}
				}
				okey = append([]string{}, a.Key...)
			default:
				return errSem
			}
		}
		o.Cols, o.Okey = cols, okey
		return nil
	case "InsertInto":
		if !has(s.Name) {
			return errSem
		}
		d.Rows[[2]string{s.Name, s.Key}] = true
		return nil
	}
	return errSem
}

// ---------------------------------------------------------------- observations
type Event struct {
	T    string        `json:"t"` // cv | cvd | rd | s | iv | o | cdb | sdb (bootstrap: CREATE DATABASE, SHOW CREATE DATABASE)
	K    int64         `json:"k,omitempty"`
	V    uint64        `json:"v,omitempty"`
	Stmt []interface{} `json:"stmt,omitempty"` // canonical structure of a script statement
	R    string        `json:"r"`              // ok | err | fb | fa | fp
	Text string        `json:"text,omitempty"` // first characters of an unrecognised call
}

type Fault struct {
	N    int    `json:"n"`
	Kind string `json:"kind"` // before | after | partial
	// kind partial: the statement runs on the hosts whose bit is false (missing bits: false), the caller gets the error
	Skip []bool `json:"skip,omitempty"`
	// further failing calls of the same start; only code that carries on after an error ever reaches them
	Also []Fault `json:"also,omitempty"`
	// what the failing call returns: "" = a plain error value; "ch:<code>:<name>:<message>" = a ClickHouse
	// server exception (*proto.Exception); "raw:<text>" = an error with exactly this text (driver / network)
	Err string `json:"err,omitempty"`
	// > 0: the process is killed before call number DeadFrom (every call from there on fails before its effect)
	DeadFrom int `json:"dead_from,omitempty"`
}

func (f *Fault) at(n int) (string, error, []bool) {
	if f == nil {
		return "", nil, nil
	}
	if f.N == n {
		return f.Kind, errorOf(f.Err), f.Skip
	}
	if f.DeadFrom > 0 && n >= f.DeadFrom {
		return "before", errInjected, nil
	}
	for _, g := range f.Also {
		if g.N == n {
			return g.Kind, errorOf(g.Err), g.Skip
		}
	}
	return "", nil, nil
}

// errorOf builds the error value a failing call returns (see Fault.Err).
func errorOf(spec string) error {
	switch {
	case strings.HasPrefix(spec, "ch:"):
		parts := strings.SplitN(spec[3:], ":", 3)
		if len(parts) == 3 {
			code, _ := strconv.Atoi(parts[0])
			return &proto.Exception{Code: int32(code), Name: parts[1], Message: parts[2]}
		}
	case strings.HasPrefix(spec, "raw:"):
		return errors.New(spec[4:])
	}
	return errInjected
}

type Conn struct {
	db    *DB
	ctx   Ctx
	fault *Fault
	calls int
	Log   []Event
	// two concurrent starters (conc.go): every call waits for the scheduler, which also says how it ends
	gate *gate
	who  int
	// round 7: index of the host this start is connected to
	at int
}

var errInjected = errors.New("fake clickhouse: injected failure")

// call runs one database call with the injected outcome of this call number.  The call goes to every host
// (cluster = true) or to the connected host only; hosts run it independently: one that accepts it keeps the
// effect whatever the others do.  The caller sees success only if every targeted host ran and accepted it.
// whole = true: a call on ver / ver_dist bookkeeping, for which "partial" means "did not happen".
func (c *Conn) call(ev Event, cluster bool, whole bool, eff func(h *Host) error) error {
	n := c.calls
	c.calls++
	kind, ferr, skip := c.fault.at(n)
	if c.gate != nil {
		c.gate.req[c.who] <- struct{}{}
		g := <-c.gate.grant[c.who]
		before := len(c.Log)
		defer func() {
			// remember where the event this call appended sits in the global order
			if len(c.Log) > before {
				c.gate.order = append(c.gate.order, [2]int{c.who, len(c.Log) - 1})
			}
			c.gate.done[c.who] <- struct{}{}
		}()
		if g.dead {
			return errInjected
		}
		kind, ferr, skip = g.e.Kind, errorOf(g.e.Err), g.e.Skip
	}
	if kind == "before" || (kind == "partial" && whole) {
		ev.R = "fb"
		if kind == "partial" {
			ev.R = "fp"
		}
		c.Log = append(c.Log, ev)
		return ferr
	}
	targets := c.db.hostsFrom(c.at)[:1]
	if cluster {
		targets = c.db.hostsFrom(c.at)
	}
	rejected := false
	for j, h := range targets {
		if kind == "partial" && j < len(skip) && skip[j] {
			continue
		}
		if err := eff(h); err != nil {
			rejected = true
		}
	}
	switch {
	case kind == "partial":
		ev.R = "fp"
		c.Log = append(c.Log, ev)
		return ferr
	case rejected:
		ev.R = "err"
		c.Log = append(c.Log, ev)
		return errSem
	case kind == "after":
		ev.R = "fa"
		c.Log = append(c.Log, ev)
		return ferr
	}
	ev.R = "ok"
	c.Log = append(c.Log, ev)
	return nil
}

var reHasOnCluster = regexp.MustCompile("(?i)\\bON\\s+CLUSTER\\b")

func short(s string) string {
	s = normWS(s)
	if len(s) > 80 {
		s = s[:80]
	}
	return s
}

func (c *Conn) Exec(_ context.Context, query string, args ...any) error {
	if normWS(query) == "INSERT INTO ver (k, ver) VALUES ($1, $2)" && len(args) == 2 {
		k, ok1 := args[0].(int64)
		v, ok2 := args[1].(uint64)
		if ok1 && ok2 {
			return c.call(Event{T: "iv", K: k, V: v}, false, true, func(h *Host) error {
				if !h.VerTbl {
					return errSem
				}
				c.db.insertVer(c.at, k, v)
				return nil
			})
		}
	}
	if len(args) != 0 {
		return c.call(Event{T: "o", Text: short(query)}, false, true, func(*Host) error { return errSem })
	}
	st := classify(query, c.ctx)
	oc := reHasOnCluster.MatchString(query)
	if st.C == "CreateTable" && st.Ine && (st.Name == "ver" || st.Name == "ver_dist") {
		if st.Name == "ver" {
			return c.call(Event{T: "cv"}, oc, true, func(h *Host) error {
				if !h.VerTbl {
					h.VerRepl = st.Repl
				}
				h.VerTbl = true
				return nil
			})
		}
		return c.call(Event{T: "cvd"}, oc, true, func(h *Host) error { h.VdTbl = true; return nil })
	}
	ev := Event{T: "s", Stmt: st.Canon()}
	if st.C == "Unclassified" {
		ev.Text = short(query)
	}
	return c.call(ev, oc, false, func(h *Host) error { return h.execStmt(&st) })
}

func (c *Conn) Query(_ context.Context, query string, args ...any) (driver.Rows, error) {
	q := normWS(query)
	var tbl string
	switch q {
	case "SELECT max(ver) as ver FROM ver WHERE k = $1 FORMAT JSON":
		tbl = "ver"
	case "SELECT max(ver) as ver FROM ver_dist WHERE k = $1 FORMAT JSON":
		tbl = "ver_dist"
	}
	if tbl != "" && len(args) == 1 {
		if k, ok := args[0].(int64); ok {
			var v uint64
			err := c.call(Event{T: "rd", K: k}, false, true, func(h *Host) error {
				// ver_dist reads ver on every host of the cluster
				if !c.db.allHave(func(x *Host) bool { return x.VerTbl }) || (tbl == "ver_dist" && !h.VdTbl) {
					return errSem
				}
				v = c.db.readVer(c.at, k, tbl == "ver_dist")
				return nil
			})
			if err != nil {
				return nil, err
			}
			c.Log[len(c.Log)-1].V = v
			return &rows{vals: []uint64{v}}, nil
		}
	}
	if q == "SHOW TABLES" { // Cleanup's helper (unused while its dependency table is empty); harmless read
		names := []string{}
		h0 := c.db.hostsFrom(c.at)[0]
		for n := range h0.Objs {
			names = append(names, n)
		}
		// round 8: the version tables are tables of the connected host too (kept outside Objs); a fake that never lists
		// them hides every piece of code that asks "does ver exist?" before creating it (seeded C18-h)
		if h0.VerTbl {
			names = append(names, "ver")
		}
		if h0.VdTbl {
			names = append(names, "ver_dist")
		}
		sort.Strings(names)
		return &rows{strs: names}, nil
	}
	err := c.call(Event{T: "o", Text: short(query)}, false, true, func(*Host) error { return errSem })
	return nil, err
}

type rows struct {
	vals []uint64
	strs []string
	i    int
}

func (r *rows) Next() bool {
	r.i++
	return r.i <= len(r.vals)+len(r.strs)
}
func (r *rows) Scan(dest ...any) error {
	if len(dest) != 1 {
		return fmt.Errorf("fake rows: %d destinations", len(dest))
	}
	switch p := dest[0].(type) {
	case *uint64:
		if r.i-1 < len(r.vals) {
			*p = r.vals[r.i-1]
			return nil
		}
	case *string:
		if r.i-1 < len(r.strs) {
			*p = r.strs[r.i-1]
			return nil
		}
	}
	return fmt.Errorf("fake rows: cannot scan into %T", dest[0])
}
func (r *rows) ScanStruct(any) error             { return errors.New("unsupported") }
func (r *rows) ColumnTypes() []driver.ColumnType { return nil }
func (r *rows) Totals(...any) error              { return nil }
func (r *rows) Columns() []string                { return []string{"ver"} }
func (r *rows) Close() error                     { return nil }
func (r *rows) Err() error                       { return nil }

func (c *Conn) Contributors() []string                        { return nil }
func (c *Conn) ServerVersion() (*driver.ServerVersion, error) { return nil, errors.New("unsupported") }
func (c *Conn) Select(context.Context, any, string, ...any) error {
	return c.call(Event{T: "o", Text: "Select"}, false, true, func(*Host) error { return errSem })
}
func (c *Conn) QueryRow(context.Context, string, ...any) driver.Row { return nil }
func (c *Conn) PrepareBatch(context.Context, string, ...driver.PrepareBatchOption) (driver.Batch, error) {
	return nil, c.call(Event{T: "o", Text: "PrepareBatch"}, false, true, func(*Host) error { return errSem })
}
func (c *Conn) AsyncInsert(context.Context, string, bool, ...any) error {
	return c.call(Event{T: "o", Text: "AsyncInsert"}, false, true, func(*Host) error { return errSem })
}
func (c *Conn) Ping(context.Context) error { return nil }
func (c *Conn) Stats() driver.Stats        { return driver.Stats{} }
func (c *Conn) Close() error               { return nil }

// ---------------------------------------------------------------- final state
type HostFinal struct {
	Objs []*Obj      `json:"objs"`
	Rows [][2]string `json:"rows"`
}

type Final struct {
	Hosts  []HostFinal       `json:"hosts"`
	VerTbl bool              `json:"ver_tbl"` // ver exists on every host
	VdTbl  bool              `json:"vd_tbl"`  // ver_dist exists on every host
	Vers   map[string]uint64 `json:"vers"`
}

func (h *Host) final() HostFinal {
	f := HostFinal{Objs: []*Obj{}, Rows: [][2]string{}}
	names := []string{}
	for n := range h.Objs {
		names = append(names, n)
	}
	sort.Strings(names)
	for _, n := range names {
		f.Objs = append(f.Objs, h.Objs[n])
	}
	for k := range h.Rows {
		f.Rows = append(f.Rows, k)
	}
	sort.Slice(f.Rows, func(i, j int) bool {
		if f.Rows[i][0] != f.Rows[j][0] {
			return f.Rows[i][0] < f.Rows[j][0]
		}
		return f.Rows[i][1] < f.Rows[j][1]
	})
	return f
}

func (d *DB) Final() Final {
	f := Final{Vers: map[string]uint64{}}
	f.VerTbl = d.allHave(func(h *Host) bool { return h.VerTbl })
	f.VdTbl = d.allHave(func(h *Host) bool { return h.VdTbl })
	for _, h := range d.Hosts {
		f.Hosts = append(f.Hosts, h.final())
	}
	for k, v := range d.Vers {
		if v != 0 {
			f.Vers[fmt.Sprint(k)] = v
		}
	}
	return f
}

var _ driver.Conn = (*Conn)(nil)
