package main

// Port of the statement classifier of translate/gen_scripts (function classify), for the EXPANDED text the
// fake ClickHouse connection receives.  Kept line by line parallel to the Python; checks/c18.py compares the
// two on every statement the real Update executes (a structure the translator does not know gets id 0).

import (
	"crypto/sha1"
	"regexp"
	"strings"
)

const ident = "`?[A-Za-z_][A-Za-z0-9_]*`?"

var (
	reIdentFull  = regexp.MustCompile("^" + ident + "$")
	reOnCluster  = regexp.MustCompile("\\bON CLUSTER `[^`]*`")
	reQuoted     = regexp.MustCompile(`'[^']*'`)
	reCreateTbl  = regexp.MustCompile(`^CREATE TABLE (IF NOT EXISTS )?(\S+)\s*\(`)
	reColumn     = regexp.MustCompile(`^\s*(` + ident + `)\s+\S`)
	reEngine     = regexp.MustCompile(`(?is)\bENGINE\b\s*=?\s*(.*)$`)
	reEngineName = regexp.MustCompile(`^([A-Za-z]+)`)
	reOrderBy    = regexp.MustCompile(`\bORDER BY\s*(\(|[^\s(]+)`)
	reCreateMV   = regexp.MustCompile(`^CREATE MATERIALIZED VIEW (IF NOT EXISTS )?(\S+) TO (\S+) AS (SELECT .*)$`)
	reCreateView = regexp.MustCompile(`^CREATE VIEW (IF NOT EXISTS )?(\S+) AS (SELECT .*)$`)
	reFrom       = regexp.MustCompile(`\bFROM\s+([^\s(),;]+)`)
	reDrop       = regexp.MustCompile(`^DROP TABLE (IF EXISTS )?(\S+)$`)
	reRename     = regexp.MustCompile(`^RENAME TABLE (IF EXISTS )?(\S+) TO (\S+)$`)
	reAlter      = regexp.MustCompile(`^ALTER TABLE (\S+) (.*)$`)
	reAddColumn  = regexp.MustCompile(`^ADD COLUMN (IF NOT EXISTS )?(` + ident + `) (.*)$`)
	reAlias      = regexp.MustCompile(`\bALIAS (` + ident + `)$`)
	reColExtra   = regexp.MustCompile(`\b(ALIAS|DEFAULT|MATERIALIZED|AFTER|FIRST)\b`)
	reModifyOrd  = regexp.MustCompile(`^MODIFY ORDER BY \((.*)\)$`)
	reInsert     = regexp.MustCompile(`^INSERT INTO (\S+) \(([^)]*)\) VALUES \((.*)\)$`)
	reLiteral    = regexp.MustCompile(`'([^']*)'`)
)

type AlterCmd struct {
	A     string // AddColumn | ModifyOrderBy
	Ine   bool
	Col   string
	Alias string
	Key   []string
}

// Stmt is the classified structure of one statement (C = constructor of model/Migrate.v stmt).
type Stmt struct {
	C      string
	Ine    bool // IF NOT EXISTS / IF EXISTS guard
	Name   string
	To     string
	Cols   []string
	Okey   []string
	Engine string
	Repl   bool
	Srcs   []string
	Def    uint64
	Cmds   []AlterCmd
	Key    string
}

// Canon is the canonical array form compared with the translator's structures.
func (s *Stmt) Canon() []interface{} {
	strs := func(x []string) []interface{} {
		r := make([]interface{}, 0, len(x))
		for _, v := range x {
			r = append(r, v)
		}
		return r
	}
	switch s.C {
	case "CreateTable":
		return []interface{}{s.C, s.Ine, s.Name, strs(s.Cols), strs(s.Okey), s.Engine, s.Repl}
	case "CreateMV":
		return []interface{}{s.C, s.Ine, s.Name, s.To, strs(s.Srcs), s.Def}
	case "CreateView":
		return []interface{}{s.C, s.Ine, s.Name, strs(s.Srcs), s.Def}
	case "DropTable":
		return []interface{}{s.C, s.Ine, s.Name}
	case "RenameTable":
		return []interface{}{s.C, s.Ine, s.Name, s.To}
	case "AlterTable":
		cmds := []interface{}{}
		for _, a := range s.Cmds {
			if a.A == "AddColumn" {
				cmds = append(cmds, []interface{}{a.A, a.Ine, a.Col, a.Alias})
			} else {
				cmds = append(cmds, []interface{}{a.A, strs(a.Key)})
			}
		}
		return []interface{}{s.C, s.Name, cmds}
	case "InsertInto":
		return []interface{}{s.C, s.Name, s.Key}
	}
	return []interface{}{"Unclassified"}
}

func stripIdent(s string) string { return strings.Trim(strings.TrimSpace(s), "`") }

func normWS(s string) string { return strings.Join(strings.Fields(s), " ") }

func splitTop(s string) []string {
	var out []string
	var cur []byte
	depth, q := 0, false
	for i := 0; i < len(s); i++ {
		ch := s[i]
		if q {
			cur = append(cur, ch)
			if ch == '\'' {
				q = false
			}
			continue
		}
		switch {
		case ch == '\'':
			q = true
			cur = append(cur, ch)
		case ch == '(':
			depth++
			cur = append(cur, ch)
		case ch == ')':
			depth--
			cur = append(cur, ch)
		case ch == ',' && depth == 0:
			out = append(out, string(cur))
			cur = nil
		default:
			cur = append(cur, ch)
		}
	}
	out = append(out, string(cur))
	return out
}

func matchingParen(s string, i int) int {
	depth, q := 0, false
	for j := i; j < len(s); j++ {
		ch := s[j]
		if q {
			if ch == '\'' {
				q = false
			}
			continue
		}
		switch ch {
		case '\'':
			q = true
		case '(':
			depth++
		case ')':
			depth--
			if depth == 0 {
				return j
			}
		}
	}
	return -1
}

type Ctx struct{ DB string }

func (c Ctx) objName(s string) (string, bool) {
	s = strings.TrimSpace(s)
	pre := c.DB + "."
	if strings.HasPrefix(s, pre) {
		s = s[len(pre):]
	} else if strings.HasPrefix(s, "`"+c.DB+"`.") {
		s = s[len(c.DB)+3:]
	}
	if !reIdentFull.MatchString(s) {
		return "", false
	}
	return stripIdent(s), true
}

func (c Ctx) bodyDigest(body string) uint64 {
	body = strings.ReplaceAll(body, c.DB+".", "")
	h := sha1.Sum([]byte(normWS(body)))
	var v uint64
	for i := 0; i < 6; i++ {
		v = v<<8 | uint64(h[i])
	}
	return v
}

func engineOf(s string) (string, bool, bool) {
	m := reEngineName.FindStringSubmatch(strings.TrimSpace(s))
	if m == nil {
		return "", false, false
	}
	switch m[1] {
	case "ReplacingMergeTree":
		return "EReplacing", false, true
	case "MergeTree":
		return "EMergeTree", false, true
	case "AggregatingMergeTree":
		return "EAggregating", false, true
	case "ReplicatedReplacingMergeTree":
		return "EReplacing", true, true
	case "ReplicatedMergeTree":
		return "EMergeTree", true, true
	case "ReplicatedAggregatingMergeTree":
		return "EAggregating", true, true
	case "Null":
		return "ENull", false, true
	case "Merge":
		return "EMerge", false, true
	case "Distributed":
		return "EDistributed", false, true
	}
	return "", false, false
}

func (c Ctx) froms(body string) ([]string, bool) {
	var out []string
	for _, m := range reFrom.FindAllStringSubmatch(body, -1) {
		n, ok := c.objName(m[1])
		if !ok {
			return nil, false
		}
		out = append(out, n)
	}
	return out, len(out) > 0
}

func classify(text string, c Ctx) Stmt {
	un := Stmt{C: "Unclassified"}
	t := strings.TrimSpace(text)
	if strings.HasSuffix(t, ";") {
		t = strings.TrimRight(t[:len(t)-1], " \t\n\r\f\v")
	}
	if strings.Contains(reQuoted.ReplaceAllString(t, "''"), ";") {
		return un
	}
	t1 := reOnCluster.ReplaceAllString(t, " ")
	up := normWS(t1)

	if m := reCreateTbl.FindStringSubmatch(up); m != nil {
		name, ok := c.objName(m[2])
		if !ok {
			return un
		}
		at := strings.Index(t1, m[2])
		if at < 0 {
			return un
		}
		i := strings.Index(t1[at+len(m[2]):], "(")
		if i < 0 {
			return un
		}
		i += at + len(m[2])
		j := matchingParen(t1, i)
		if j < 0 {
			return un
		}
		var cols []string
		for _, part := range splitTop(t1[i+1 : j]) {
			mm := reColumn.FindStringSubmatch(part)
			if mm == nil {
				return un
			}
			cols = append(cols, stripIdent(mm[1]))
		}
		rest := t1[j+1:]
		me := reEngine.FindStringSubmatch(rest)
		if me == nil {
			return un
		}
		eng, repl, ok := engineOf(me[1])
		if !ok {
			return un
		}
		okey := []string{}
		if mo := reOrderBy.FindStringSubmatchIndex(rest); mo != nil {
			g := rest[mo[2]:mo[3]]
			if g == "(" {
				a := strings.Index(rest[mo[0]:], "(") + mo[0]
				b := matchingParen(rest, a)
				if b < 0 {
					return un
				}
				for _, x := range splitTop(rest[a+1 : b]) {
					okey = append(okey, normWS(x))
				}
			} else {
				okey = []string{g}
			}
		}
		return Stmt{C: "CreateTable", Ine: m[1] != "", Name: name, Cols: cols, Okey: okey, Engine: eng, Repl: repl}
	}

	if m := reCreateMV.FindStringSubmatch(up); m != nil {
		name, ok1 := c.objName(m[2])
		to, ok2 := c.objName(m[3])
		if !ok1 || !ok2 {
			return un
		}
		srcs, ok := c.froms(m[4])
		if !ok {
			return un
		}
		return Stmt{C: "CreateMV", Ine: m[1] != "", Name: name, To: to, Srcs: srcs, Def: c.bodyDigest(m[4])}
	}

	if m := reCreateView.FindStringSubmatch(up); m != nil {
		name, ok1 := c.objName(m[2])
		if !ok1 {
			return un
		}
		srcs, ok := c.froms(m[3])
		if !ok {
			return un
		}
		return Stmt{C: "CreateView", Ine: m[1] != "", Name: name, Srcs: srcs, Def: c.bodyDigest(m[3])}
	}

	if m := reDrop.FindStringSubmatch(up); m != nil {
		name, ok := c.objName(m[2])
		if !ok {
			return un
		}
		return Stmt{C: "DropTable", Ine: m[1] != "", Name: name}
	}

	if m := reRename.FindStringSubmatch(up); m != nil {
		a, ok1 := c.objName(m[2])
		b, ok2 := c.objName(m[3])
		if !ok1 || !ok2 {
			return un
		}
		return Stmt{C: "RenameTable", Ine: m[1] != "", Name: a, To: b}
	}

	if m := reAlter.FindStringSubmatch(up); m != nil {
		name, ok := c.objName(m[1])
		if !ok {
			return un
		}
		body := strings.TrimSpace(m[2])
		if strings.HasPrefix(body, "(") && matchingParen(body, 0) == len(body)-1 {
			body = strings.TrimSpace(body[1 : len(body)-1])
		}
		var cmds []AlterCmd
		for _, part := range splitTop(body) {
			p := normWS(part)
			if mm := reAddColumn.FindStringSubmatch(p); mm != nil {
				alias := ""
				if ma := reAlias.FindStringSubmatch(mm[3]); ma != nil {
					alias = stripIdent(ma[1])
				} else if reColExtra.MatchString(mm[3]) {
					return un
				}
				cmds = append(cmds, AlterCmd{A: "AddColumn", Ine: mm[1] != "", Col: stripIdent(mm[2]), Alias: alias})
				continue
			}
			if mm := reModifyOrd.FindStringSubmatch(p); mm != nil {
				var key []string
				for _, x := range splitTop(mm[1]) {
					key = append(key, normWS(x))
				}
				cmds = append(cmds, AlterCmd{A: "ModifyOrderBy", Key: key})
				continue
			}
			return un
		}
		if len(cmds) == 0 {
			return un
		}
		return Stmt{C: "AlterTable", Name: name, Cmds: cmds}
	}

	if m := reInsert.FindStringSubmatch(up); m != nil {
		name, ok := c.objName(m[1])
		if !ok {
			return un
		}
		var lits []string
		for _, l := range reLiteral.FindAllStringSubmatch(m[3], -1) {
			lits = append(lits, l[1])
		}
		if len(lits) == 0 {
			return un
		}
		return Stmt{C: "InsertInto", Name: name, Key: strings.Join(lits, "|")}
	}
	return un
}
