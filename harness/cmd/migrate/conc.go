package main

// Two concurrent starters: two goroutines run the real maintenance.Update against ONE fake database; a
// scheduler lets exactly one database call through at a time, in the order given by the schedule (who makes
// the next call and how it ends).  When the schedule is exhausted a process that is still running is killed
// (its next call fails before any effect and is not logged).  Then two undisturbed solo starts follow.

import (
	"math/rand"

	"github.com/metrico/qryn/ctrl/qryn/maintenance"
	"verif/harness/hx"
)

type SchedEntry struct {
	W    int    `json:"w"`              // 0 = process p, 1 = process q
	Kind string `json:"kind,omitempty"` // "" (the call succeeds) | before | after | partial
	Skip []bool `json:"skip,omitempty"`
	Err  string `json:"err,omitempty"`
}

type TaggedEvent struct {
	W int `json:"w"`
	Event
}

type ConcCase struct {
	ID     int           `json:"id"`
	Class  string        `json:"class"`
	Cfg    Cfg           `json:"cfg"`
	NHosts int           `json:"nhosts"`
	Sched  []SchedEntry  `json:"sched"`
	Log    []TaggedEvent `json:"log"`
	Nil    [2]bool       `json:"nil"`    // Update returned nil before the schedule ended
	Errs   [2]string     `json:"errs"`   // what it returned otherwise ("killed" when it was still running)
	After  []Run         `json:"after"`  // two undisturbed solo starts afterwards
	Final  Final         `json:"final"`
}

type grant struct {
	dead bool
	e    SchedEntry
}

type gate struct {
	req   [2]chan struct{}
	grant [2]chan grant
	done  [2]chan struct{}
	fin   [2]chan struct{}
	order [][2]int // (process, index in its own log), in the global order of the calls
}

func newGate() *gate {
	g := &gate{}
	for i := 0; i < 2; i++ {
		g.req[i] = make(chan struct{})
		g.grant[i] = make(chan grant)
		g.done[i] = make(chan struct{})
		g.fin[i] = make(chan struct{})
	}
	return g
}

func runConc(c *ConcCase) {
	if c.NHosts < 1 {
		c.NHosts = 1
	}
	db := NewDB(c.NHosts)
	g := newGate()
	mode := maintenance.CLUST_MODE_SINGLE
	if c.Cfg.Cloud {
		mode = maintenance.CLUST_MODE_CLOUD
	}
	if c.Cfg.Dist {
		mode |= maintenance.CLUST_MODE_DISTRIBUTED
	}
	cluster := ""
	if c.Cfg.Clustered {
		cluster = "c18"
	}
	var errs [2]error
	var panics [2]string
	killed := [2]bool{}
	var conns [2]*Conn
	for i := 0; i < 2; i++ {
		i := i
		conn := &Conn{db: db, ctx: Ctx{DB: dbName}, gate: g, who: i}
		conns[i] = conn
		go func() {
			panics[i] = hx.Catch(func() {
				errs[i] = maintenance.Update(conn, dbName, cluster, mode, 7, "", "", false, quiet{})
			})
			close(g.fin[i])
		}()
	}
	finished := [2]bool{}
	for _, e := range c.Sched {
		w := e.W & 1
		if finished[w] {
			continue
		}
		select {
		case <-g.req[w]:
			g.grant[w] <- grant{e: e}
			<-g.done[w]
		case <-g.fin[w]:
			finished[w] = true
		}
	}
	// the schedule is over: a process still running is killed
	for w := 0; w < 2; w++ {
		for !finished[w] {
			select {
			case <-g.req[w]:
				killed[w] = true
				g.grant[w] <- grant{dead: true}
				<-g.done[w]
			case <-g.fin[w]:
				finished[w] = true
			}
		}
	}
	c.Log = []TaggedEvent{}
	for _, o := range g.order {
		c.Log = append(c.Log, TaggedEvent{W: o[0], Event: conns[o[0]].Log[o[1]]})
	}
	for w := 0; w < 2; w++ {
		c.Nil[w] = errs[w] == nil && panics[w] == "" && !killed[w]
		switch {
		case panics[w] != "":
			c.Errs[w] = "panic: " + panics[w]
		case killed[w]:
			c.Errs[w] = "killed"
		case errs[w] != nil:
			c.Errs[w] = errs[w].Error()
		}
	}
	c.After = []Run{start(db, c.Cfg, nil), start(db, c.Cfg, nil)}
	c.Final = db.Final()
}

// schedules: bursts of calls of one process, a few failing calls; the stale-reader shape (q reads early, p runs
// far ahead, q resumes) is drawn often because it is the one that matters
func genConc(r *rand.Rand, id int) ConcCase {
	c := ConcCase{ID: id}
	c.Cfg, c.Class = genCfg(r)
	c.Class = "concurrent/" + c.Class
	c.NHosts = 1
	if c.Cfg.Clustered {
		c.NHosts = 1 + r.Intn(2)
	}
	total := 2*callsOfCleanRun(NewDB(c.NHosts), c.Cfg) + 10
	add := func(w, n int) {
		for j := 0; j < n; j++ {
			e := SchedEntry{W: w}
			switch x := r.Intn(400); {
			case x == 0:
				e.Kind = "before"
			case x == 1:
				e.Kind = "after"
			case x == 2 && c.NHosts > 1:
				e.Kind, e.Skip, e.Err = "partial", randSkip(r, c.NHosts), errDDLTimeout
			}
			c.Sched = append(c.Sched, e)
		}
	}
	switch r.Intn(4) {
	case 0: // stale reader
		c.Class += "/stale-reader"
		add(1, 2+r.Intn(3))
		add(0, 5+r.Intn(total/2))
		add(1, 1+r.Intn(30))
		if r.Intn(2) == 0 {
			add(0, total)
		}
	case 1: // lockstep
		c.Class += "/lockstep"
		for len(c.Sched) < total {
			add(0, 1)
			add(1, 1)
		}
	default: // bursts
		c.Class += "/bursts"
		n := r.Intn(total)
		for len(c.Sched) < n {
			add(r.Intn(2), 1+r.Intn(12))
		}
	}
	return c
}
