package main

// The bootstrap around Update, through the real entry point: ctrl.Init(config, "qryn") = maintenance.InitDB per
// configured database (panics on an error), then UpgradeAll -> upgradeDB -> Update, over the real clickhouse-go
// client talking to the fake server of tcp.go.  A case = interrupted process starts, then two undisturbed ones.

import (
	"io"
	"math/rand"
	"syscall"

	clconfig "github.com/metrico/cloki-config"
	"github.com/metrico/cloki-config/config"
	"github.com/metrico/qryn/ctrl"
	"github.com/metrico/qryn/ctrl/logger"
	"verif/harness/hx"
)

type BootCase struct {
	ID      int      `json:"id"`
	Class   string   `json:"class"`
	Cfg     Cfg      `json:"cfg"` // dist = clustered (upgradeDB derives the mode from cluster_name)
	NHosts  int      `json:"nhosts"`
	Default bool     `json:"default"` // the database is "default": InitDB does nothing
	TTL0    bool     `json:"ttl0"`    // ttl_days = 0: upgradeDB refuses before any call
	Faults  []*Fault `json:"faults"`
	Runs    []Run    `json:"runs"`
	Final   Final    `json:"final"`
	Exists  bool     `json:"exists"`
	SrvErrs []string `json:"srv_errs"`
}

func bootStart(srv *tcpServer, db *DB, c *BootCase, f *Fault) Run {
	name := dbName
	if c.Default {
		name = "default"
	}
	conn := &Conn{db: db, ctx: Ctx{DB: name}, fault: f}
	srv.mu.Lock()
	srv.conn = conn
	srv.mu.Unlock()
	cluster := ""
	if c.Cfg.Clustered {
		cluster = "c18"
	}
	ttl := 7
	if c.TTL0 {
		ttl = 0
	}
	cfg := clconfig.New(clconfig.CLOKI_WRITER, nil, "", "")
	cfg.Setting.DATABASE_DATA = []config.ClokiBaseDataBase{{Name: name, Host: "127.0.0.1", Port: srv.port(), User: "default",
		Node: "n1", Cloud: c.Cfg.Cloud, ClusterName: cluster, TTLDays: ttl}}
	r := Run{Fault: f}
	var err error
	r.Panic = hx.Catch(func() { err = ctrl.Init(cfg, "qryn") })
	// ctrl.Init panics on an InitDB error by design: that is "the start failed", not a crash of the harness
	r.Ok = err == nil && r.Panic == ""
	if err != nil {
		r.Err = err.Error()
	}
	if r.Panic != "" {
		r.Err, r.Panic = "panic: "+r.Panic, ""
	}
	srv.mu.Lock()
	r.Log = conn.Log
	srv.mu.Unlock()
	if r.Log == nil {
		r.Log = []Event{}
	}
	return r
}

func runBoot(srv *tcpServer, c *BootCase) {
	if c.NHosts < 1 {
		c.NHosts = 1
	}
	c.Cfg.Dist = c.Cfg.Clustered
	db := NewDB(c.NHosts)
	c.Runs = nil
	for _, f := range c.Faults {
		c.Runs = append(c.Runs, bootStart(srv, db, c, f))
	}
	c.Runs = append(c.Runs, bootStart(srv, db, c, nil), bootStart(srv, db, c, nil))
	c.Final = db.Final()
	c.Exists = db.Exists[dbName]
	srv.mu.Lock()
	c.SrvErrs = append([]string{}, srv.errs...)
	srv.errs = nil
	srv.mu.Unlock()
}

func bootMain(r *rand.Rand, n int, casesFile string, out *hx.Out) {
	var lim syscall.Rlimit
	if syscall.Getrlimit(syscall.RLIMIT_NOFILE, &lim) == nil {
		lim.Cur = lim.Max
		_ = syscall.Setrlimit(syscall.RLIMIT_NOFILE, &lim)
	}
	logger.Logger.SetOutput(io.Discard)
	srv, err := newTCPServer()
	if err != nil {
		panic(err)
	}
	if casesFile != "" {
		hx.ReadLines(casesFile, func(b []byte) {
			var c BootCase
			if err := jsonUnmarshal(b, &c); err != nil {
				panic(err)
			}
			runBoot(srv, &c)
			out.Put(c)
		})
		return
	}
	names := []string{"single", "cloud", "clustered", "cloud+clustered"}
	id := 0
	put := func(c BootCase) {
		c.ID = id
		id++
		runBoot(srv, &c)
		out.Put(c)
	}
	// clean bootstraps, the default database, ttl_days = 0
	for ci, cfg := range mainCfgs {
		put(BootCase{Class: "boot/" + names[ci] + "/clean", Cfg: cfg, NHosts: 1 + ci/2})
	}
	put(BootCase{Class: "boot/default-db", Cfg: mainCfgs[0], Default: true, Faults: []*Fault{{N: 5, Kind: "after"}}})
	put(BootCase{Class: "boot/ttl0", Cfg: mainCfgs[0], TTL0: true})
	// every bootstrap call x {before, after} x {exception, dropped connection}, fresh database and after a first start
	for ci, cfg := range mainCfgs {
		for call := 0; call < 2; call++ {
			for _, kind := range []string{"before", "after"} {
				for _, e := range []string{"ch:81:DB::Exception:Database qdb18 does not exist. (UNKNOWN_DATABASE)", "raw:EOF"} {
					put(BootCase{Class: "boot/" + names[ci] + "/bootstrap-call", Cfg: cfg, NHosts: 1 + ci/2, Faults: []*Fault{{N: call, Kind: kind, Err: e}}})
					put(BootCase{Class: "boot/" + names[ci] + "/bootstrap-call-later", Cfg: cfg, NHosts: 1 + ci/2,
						Faults: []*Fault{{N: 10 + r.Intn(40), Kind: "after"}, {N: call, Kind: kind, Err: e}}})
				}
			}
		}
	}
	for i := 0; i < n; i++ {
		ci := r.Intn(4)
		c := BootCase{Class: "boot/" + names[ci] + "/generated", Cfg: mainCfgs[ci], NHosts: 1}
		if c.Cfg.Clustered {
			c.NHosts = 1 + r.Intn(3)
		}
		nf := 1 + r.Intn(3)
		for j := 0; j < nf; j++ {
			f := &Fault{N: r.Intn(60), Kind: "before"}
			if r.Intn(4) == 0 {
				f.N = r.Intn(3)
			}
			if r.Intn(5) < 3 {
				f.Kind = "after"
			}
			if c.NHosts > 1 && f.N >= 2 && r.Intn(4) == 0 {
				f.Kind, f.Skip, f.Err = "partial", randSkip(r, c.NHosts), errDDLTimeout
			} else if len(errPool) > 0 && r.Intn(2) == 0 {
				f.Err = errPool[r.Intn(len(errPool))]
			}
			c.Faults = append(c.Faults, f)
		}
		put(c)
	}
}
