// migrate drives the real schema initialisation (ctrl/qryn/maintenance.Update: updateScripts, getSQLFile,
// the embedded ctrl/qryn/sql/*.sql) against a fake ClickHouse connection (fake.go) with one injected
// failure per process start, restarts it, and prints the call logs and the final catalogue.
//
//	migrate --seed S --n N --out F            generated cases (sampled failure points)
//	migrate --exhaustive --out F              every call x {before, after} of a first run, main configurations
//	migrate --cases in.jsonl --out F          the given cases (corpus / replay)
//	migrate --split --out F                   getSQLFile (hook) on the six embedded scripts
package main

import (
	"encoding/json"
	"flag"
	"math/rand"
	"os"

	"github.com/metrico/qryn/ctrl/qryn/maintenance"
	"github.com/metrico/qryn/ctrl/qryn/sql"
	"verif/harness/hx"
)

type Cfg struct {
	Cloud     bool `json:"cloud"`
	Dist      bool `json:"dist"`
	Clustered bool `json:"clustered"`
}

type Run struct {
	Fault *Fault  `json:"fault"`
	Ok    bool    `json:"ok"`
	Err   string  `json:"err,omitempty"`
	Panic string  `json:"panic,omitempty"`
	Log   []Event `json:"log"`
}

type Case struct {
	ID     int      `json:"id"`
	Class  string   `json:"class"`
	Why    string   `json:"why,omitempty"`
	Cfg    Cfg      `json:"cfg"`
	NHosts int      `json:"nhosts"` // servers of the fake cluster (0 = 1); the first is the one connected to
	Faults []*Fault `json:"faults"` // one entry per interrupted start (nil = start without failure)
	// round 7: shard of each host (missing: host i = shard i; only matters for Replicated tables) and the host each
	// start connects to, one entry per run incl. the two undisturbed ones (missing: host 0)
	Shards []int `json:"shards,omitempty"`
	Conn   []int `json:"conn,omitempty"`
	Runs   []Run    `json:"runs"`   // the interrupted starts, then two starts without failure
	Final  Final    `json:"final"`
}

func jsonUnmarshal(b []byte, v any) error { return json.Unmarshal(b, v) }

type quiet struct{}

func (quiet) Error(...any) {}
func (quiet) Debug(...any) {}
func (quiet) Info(...any)  {}

const dbName = "qdb18"

// one process start
func start(db *DB, cfg Cfg, f *Fault) Run { return startAt(db, cfg, f, 0) }

// one process start that reaches the cluster through host `at`
func startAt(db *DB, cfg Cfg, f *Fault, at int) Run {
	if at < 0 || at >= len(db.Hosts) {
		at = 0
	}
	conn := &Conn{db: db, ctx: Ctx{DB: dbName}, fault: f, at: at}
	mode := maintenance.CLUST_MODE_SINGLE
	if cfg.Cloud {
		mode = maintenance.CLUST_MODE_CLOUD
	}
	if cfg.Dist {
		mode |= maintenance.CLUST_MODE_DISTRIBUTED
	}
	cluster := ""
	if cfg.Clustered {
		cluster = "c18"
	}
	r := Run{Fault: f}
	var err error
	r.Panic = hx.Catch(func() {
		err = maintenance.Update(conn, dbName, cluster, mode, 7, "", "", false, quiet{})
	})
	r.Ok = err == nil && r.Panic == ""
	if err != nil {
		r.Err = err.Error()
	}
	r.Log = conn.Log
	if r.Log == nil {
		r.Log = []Event{}
	}
	return r
}

// number of database calls the next start makes if nothing fails (only used to place failures: per stream
// the ver table statements, the version read, then two calls per outstanding script)
var streamLens = map[int64]int{}

func callsOfCleanRun(db *DB, cfg Cfg) int {
	if len(streamLens) == 0 {
		for k, txt := range map[int64]string{1: sql.LogScript, 3: sql.LogDistScript, 2: sql.TracesScript,
			4: sql.TracesDistScript, 5: sql.ProfilesScript, 6: sql.ProfilesDistScript} {
			parts, _ := maintenance.VerifC18GetSQLFile(txt)
			streamLens[k] = len(parts)
		}
	}
	ks := []int64{1, 2, 5}
	if cfg.Dist {
		ks = []int64{1, 3, 2, 4, 5, 6}
	}
	n := 0
	for _, k := range ks {
		n += 2
		if cfg.Clustered {
			n++
		}
		if left := streamLens[k] - int(db.Vers[k]); left > 0 {
			n += 2 * left
		}
	}
	return n
}

func runCase(c *Case) {
	if c.NHosts < 1 {
		c.NHosts = 1
	}
	db := NewDB(c.NHosts)
	db.Shard = c.Shards
	at := func(i int) int {
		if i < len(c.Conn) {
			return c.Conn[i]
		}
		return 0
	}
	c.Runs = nil
	for i, f := range c.Faults {
		c.Runs = append(c.Runs, startAt(db, c.Cfg, f, at(i)))
	}
	n := len(c.Faults)
	c.Runs = append(c.Runs, startAt(db, c.Cfg, nil, at(n)), startAt(db, c.Cfg, nil, at(n+1)))
	c.Final = db.Final()
}

// elsewhere (round 7): the clustered configurations on 2 and 3 hosts laid out in shards; the LAST start (the one that
// must find the database up to date) reaches the cluster through another host: a replica of the same shard or a host
// of another shard.  Histories: no failure, and `per` histories with one interrupted start before.
func elsewhere(r *rand.Rand, per int, out *hx.Out) {
	id := 0
	names := []string{"single", "cloud", "clustered", "cloud+clustered"}
	layouts := []struct {
		shards []int
		last   int
		what   string
	}{
		{[]int{0, 1}, 1, "other-shard"},
		{[]int{0, 0, 1}, 1, "other-replica"},
		{[]int{0, 0, 1}, 2, "other-shard"},
		{[]int{0, 1, 1}, 2, "other-shard"},
	}
	for ci, cfg := range mainCfgs {
		if !cfg.Clustered {
			continue
		}
		for _, l := range layouts {
			nh := len(l.shards)
			log := start(NewDB(nh), cfg, nil).Log
			for j := 0; j <= per; j++ {
				c := Case{ID: id, Class: names[ci] + "/last-start-through-" + l.what, Cfg: cfg, NHosts: nh, Shards: l.shards}
				if j > 0 {
					f := &Fault{N: r.Intn(len(log)), Kind: "before"}
					if r.Intn(2) == 0 {
						f.Kind = "after"
					}
					c.Faults = []*Fault{f}
				}
				c.Conn = make([]int, len(c.Faults)+2)
				c.Conn[len(c.Conn)-1] = l.last
				runCase(&c)
				out.Put(c)
				id++
			}
		}
	}
	// round 8: a RESUMED start through another host (drawn after everything above: the histories above keep their
	// values per seed).  Start 1 through host 0 is interrupted, the next start goes through the other host, the
	// following one through host 0 again (with two interruptions: hosts 0, other, 0, other).  The starts that apply
	// scripts use different hosts: the statements without ON CLUSTER spread over the hosts (finding
	// resumed-start-through-another-host excuses the expected-schema clause for these, nothing else).
	for ci, cfg := range mainCfgs {
		if !cfg.Clustered {
			continue
		}
		for _, l := range layouts {
			nh := len(l.shards)
			log := start(NewDB(nh), cfg, nil).Log
			for j := 0; j < per; j++ {
				c := Case{ID: id, Class: names[ci] + "/resumed-start-through-" + l.what, Cfg: cfg, NHosts: nh, Shards: l.shards}
				kinds := []string{"before", "after"}
				c.Faults = []*Fault{{N: 4 + r.Intn(len(log)-4), Kind: kinds[r.Intn(2)]}}
				if j%2 == 1 {
					c.Faults = append(c.Faults, &Fault{N: 4 + r.Intn(len(log)/2), Kind: kinds[r.Intn(2)]})
				}
				c.Conn = make([]int, len(c.Faults)+2)
				for i := range c.Conn {
					if i%2 == 1 {
						c.Conn[i] = l.last
					}
				}
				runCase(&c)
				out.Put(c)
				id++
			}
		}
	}
}

var mainCfgs = []Cfg{
	{false, false, false}, // single node
	{true, false, false},  // replicated (cloud)
	{false, true, true},   // clustered
	{true, true, true},    // replicated + clustered
}

func genCfg(r *rand.Rand) (Cfg, string) {
	switch x := r.Intn(20); {
	case x < 6:
		return mainCfgs[0], "single"
	case x < 10:
		return mainCfgs[1], "cloud"
	case x < 15:
		return mainCfgs[2], "clustered"
	case x < 18:
		return mainCfgs[3], "cloud+clustered"
	case x == 18:
		return Cfg{false, true, false}, "dist-without-cluster-name"
	default:
		return Cfg{false, false, true}, "cluster-name-without-dist"
	}
}

// gen picks the failure points run by run, each inside the calls the next start would really make.
func gen(r *rand.Rand, id int) Case {
	c := Case{ID: id}
	var cl string
	c.Cfg, cl = genCfg(r)
	nf := 1
	switch x := r.Intn(10); {
	case x == 0:
		nf = 0
	case x < 6:
		nf = 1
	case x < 9:
		nf = 2
	default:
		nf = 3 + r.Intn(3)
	}
	c.NHosts = 1
	if c.Cfg.Clustered {
		c.NHosts = 1 + r.Intn(3)
	}
	db := NewDB(c.NHosts)
	for i := 0; i < nf; i++ {
		n := callsOfCleanRun(db, c.Cfg)
		if n == 0 {
			break
		}
		f := &Fault{N: r.Intn(n), Kind: "before"}
		if r.Intn(5) < 3 {
			f.Kind = "after"
		}
		if c.NHosts > 1 && r.Intn(5) < 2 { // an ON CLUSTER statement that completes on some hosts only
			f.Kind = "partial"
			f.Skip = randSkip(r, c.NHosts)
			f.Err = errDDLTimeout
			cl += "+partial"
		}
		if r.Intn(4) == 0 { // exactly at the statement this start resumes with
			if p := firstScriptCall(db, c.Cfg); p >= 0 {
				f.N = p
			}
		}
		if len(errPool) > 0 && r.Intn(2) == 0 && f.Kind != "partial" {
			f.Err = errPool[r.Intn(len(errPool))]
		}
		switch r.Intn(12) {
		case 0: // a second failing call a little later in the same start
			g := Fault{N: f.N + 1 + r.Intn(5), Kind: "before"}
			if r.Intn(2) == 0 {
				g.Kind = "after"
			}
			f.Also = append(f.Also, g)
		case 1, 2: // an error first, the kill a few calls later
			f.DeadFrom = f.N + 2 + r.Intn(3)
		}
		c.Faults = append(c.Faults, f)
		start(db, c.Cfg, f)
	}
	if c.NHosts > 1 && r.Intn(2) == 0 {
		for i := 0; i < c.NHosts; i++ {
			c.Shards = append(c.Shards, r.Intn(2))
		}
		c.Conn = make([]int, len(c.Faults)+2)
		c.Conn[len(c.Conn)-1] = r.Intn(c.NHosts)
		cl += "+last-start-elsewhere"
	}
	c.Class = cl
	return c
}

const errDDLTimeout = "ch:159:DB::Exception:Watching task /clickhouse/task_queue/ddl/query-0000000042 is executing longer than distributed_ddl_task_timeout (=180) seconds. " +
	"There are 1 unfinished hosts (0 of them are currently active), they are going to execute the query in background"

func randSkip(r *rand.Rand, n int) []bool {
	sk := make([]bool, n)
	for i := range sk {
		sk[i] = r.Intn(2) == 0
	}
	return sk
}

// partial: in the two clustered configurations, every script statement of a first start completes on some
// hosts only (2 or 3 hosts, mask drawn from the seed; the caller gets the ON CLUSTER timeout error); in half
// of the cases the statement the next start resumes with is cut short again with another mask
func partial(r *rand.Rand, out *hx.Out, every int) {
	id := 0
	names := []string{"single", "cloud", "clustered", "cloud+clustered"}
	for ci, cfg := range mainCfgs {
		if !cfg.Clustered {
			continue
		}
		log := start(NewDB(2), cfg, nil).Log
		for i, e := range log {
			if e.T != "s" && e.T != "cv" && e.T != "cvd" {
				continue
			}
			if every > 1 && r.Intn(every) != 0 {
				continue
			}
			nh := 2 + r.Intn(2)
			c := Case{ID: id, Class: names[ci] + "/partial", Cfg: cfg, NHosts: nh,
				Faults: []*Fault{{N: i, Kind: "partial", Skip: randSkip(r, nh), Err: errDDLTimeout}}}
			if r.Intn(2) == 0 {
				db := NewDB(nh)
				start(db, cfg, c.Faults[0])
				if p := firstScriptCall(db, cfg); p >= 0 {
					c.Faults = append(c.Faults, &Fault{N: p, Kind: "partial", Skip: randSkip(r, nh), Err: errDDLTimeout})
					c.Class += "-twice"
				}
			}
			runCase(&c)
			out.Put(c)
			id++
		}
	}
}

// error values a failing call may return (Fault.Err), given by checks/c18.py: a pool of realistic ClickHouse /
// driver errors plus every string literal the ctrl code compares error texts with
var errPool []string

func loadErrPool(path string) {
	if path == "" {
		return
	}
	b, err := os.ReadFile(path)
	if err != nil {
		panic(err)
	}
	if err := json.Unmarshal(b, &errPool); err != nil {
		panic(err)
	}
}

// call number of the first script statement the next start would execute (-1: none)
func firstScriptCall(db *DB, cfg Cfg) int {
	for i, e := range start(db.Clone(), cfg, nil).Log {
		if e.T == "s" {
			return i
		}
	}
	return -1
}

// targeted: per main configuration and per error value, `per` failures before a script statement, one at a
// version write and one at the version read (the error VALUE is what varies here)
func targeted(r *rand.Rand, per int, out *hx.Out) {
	id := 0
	names := []string{"single", "cloud", "clustered", "cloud+clustered"}
	for ci, cfg := range mainCfgs {
		log := start(NewDB(1), cfg, nil).Log
		var scripts, ivs, rds []int
		for i, e := range log {
			switch e.T {
			case "s":
				scripts = append(scripts, i)
			case "iv":
				ivs = append(ivs, i)
			case "rd":
				rds = append(rds, i)
			}
		}
		for _, spec := range errPool {
			var at []int
			for j := 0; j < per && len(scripts) > 0; j++ {
				at = append(at, scripts[r.Intn(len(scripts))])
			}
			if len(ivs) > 0 {
				at = append(at, ivs[r.Intn(len(ivs))])
			}
			if len(rds) > 0 {
				at = append(at, rds[r.Intn(len(rds))])
			}
			for j, n := range at {
				kind := "before"
				if j == 1 {
					kind = "after"
				}
				c := Case{ID: id, Class: names[ci] + "/error-value", Cfg: cfg, Faults: []*Fault{{N: n, Kind: kind, Err: spec}}}
				runCase(&c)
				out.Put(c)
				id++
			}
			// resume points: the first script statement a start executes (index == recorded version) -- on a fresh
			// database for the first and for a later stream, and after a start that was interrupted at a script
			if len(scripts) > 0 {
				fresh := []int{scripts[0]}
				if len(rds) > 1 {
					for _, p := range scripts {
						if p > rds[1] {
							fresh = append(fresh, p)
							break
						}
					}
				}
				for _, p := range fresh {
					c := Case{ID: id, Class: names[ci] + "/error-value-resume-fresh", Cfg: cfg, Faults: []*Fault{{N: p, Kind: "before", Err: spec}}}
					runCase(&c)
					out.Put(c)
					id++
				}
				for v, kinds := range [][2]string{{"before", "before"}, {"after", "before"}, {"before", "after"}} {
					first := &Fault{N: scripts[r.Intn(len(scripts))], Kind: kinds[0]}
					if v == 0 && r.Intn(2) == 0 {
						first.N++ // interrupted at the version write instead
					}
					db := NewDB(1)
					start(db, cfg, first)
					p := firstScriptCall(db, cfg)
					if p < 0 {
						continue
					}
					c := Case{ID: id, Class: names[ci] + "/error-value-resume-restart", Cfg: cfg,
						Faults: []*Fault{first, {N: p, Kind: kinds[1], Err: spec}}}
					runCase(&c)
					out.Put(c)
					id++
				}
			}
			// the same error value at the version read of a LATER start (versions are recorded by then): a first
			// start interrupted somewhere among the scripts, then the first version read of the second start fails
			if len(scripts) > 0 && len(rds) > 0 {
				first := &Fault{N: scripts[len(scripts)/4+r.Intn(len(scripts)/2)], Kind: "after"}
				c := Case{ID: id, Class: names[ci] + "/error-value-later-read", Cfg: cfg,
					Faults: []*Fault{first, {N: rds[0], Kind: "before", Err: spec}}}
				runCase(&c)
				out.Put(c)
				id++
			}
		}
	}
}

func main() {
	errtexts := flag.String("errtexts", "", "JSON file: list of error values (Fault.Err) to draw failures from")
	targetedN := flag.Int("targeted", 0, "per configuration and error value: this many failing script statements (+1 version write, +1 version read)")
	split := flag.Bool("split", false, "print getSQLFile of the six embedded scripts")
	exhaustive := flag.Bool("exhaustive", false, "every call x {before, after} of the first start, main configurations")
	concN := flag.Int("conc", 0, "this many generated schedules of two concurrent starters")
	concCases := flag.String("conc-cases", "", "file with concurrent cases (cfg, nhosts, sched) to run")
	elsewhereN := flag.Int("elsewhere", -1, "clustered configurations x shard layouts, the last start through another host: the clean history plus this many with one interrupted start")
	partialN := flag.Int("partial", 0, "clustered configurations: one in N script statements of a first start completes on some hosts only (1 = every statement)")
	bootN := flag.Int("boot", -1, "bootstrap path (ctrl.Init over the fake TCP server): the fixed cases plus this many generated ones")
	bootCases := flag.String("boot-cases", "", "file with bootstrap cases (cfg, nhosts, default, ttl0, faults) to run")
	f := hx.ParseFlags()
	out := hx.OpenOut(f.Out)
	defer out.Close()
	loadErrPool(*errtexts)
	if *bootN >= 0 || *bootCases != "" {
		bootMain(hx.Rand(f.Seed), *bootN, *bootCases, out)
		return
	}
	if *concN > 0 {
		r := hx.Rand(f.Seed)
		for i := 0; i < *concN; i++ {
			c := genConc(r, i)
			runConc(&c)
			out.Put(c)
		}
		return
	}
	if *concCases != "" {
		hx.ReadLines(*concCases, func(b []byte) {
			var c ConcCase
			if err := json.Unmarshal(b, &c); err != nil {
				panic(err)
			}
			runConc(&c)
			out.Put(c)
		})
		return
	}
	if *elsewhereN >= 0 {
		elsewhere(hx.Rand(f.Seed), *elsewhereN, out)
		return
	}
	if *partialN > 0 {
		partial(hx.Rand(f.Seed), out, *partialN)
		return
	}
	if *targetedN > 0 {
		targeted(hx.Rand(f.Seed), *targetedN, out)
		return
	}
	if *split {
		for _, s := range []struct {
			K    int
			File string
			Text string
		}{{1, "log.sql", sql.LogScript}, {3, "log_dist.sql", sql.LogDistScript}, {2, "traces.sql", sql.TracesScript},
			{4, "traces_dist.sql", sql.TracesDistScript}, {5, "profiles.sql", sql.ProfilesScript}, {6, "profiles_dist.sql", sql.ProfilesDistScript}} {
			parts, err := maintenance.VerifC18GetSQLFile(s.Text)
			e := ""
			if err != nil {
				e = err.Error()
			}
			out.Put(map[string]interface{}{"k": s.K, "file": s.File, "stmts": parts, "err": e})
		}
		return
	}
	if f.Cases != "" {
		hx.ReadLines(f.Cases, func(b []byte) {
			var c Case
			if err := json.Unmarshal(b, &c); err != nil {
				panic(err)
			}
			runCase(&c)
			out.Put(c)
		})
		return
	}
	if *exhaustive {
		id := 0
		names := []string{"single", "cloud", "clustered", "cloud+clustered"}
		for ci, cfg := range mainCfgs {
			log := start(NewDB(1), cfg, nil).Log
			n := len(log)
			for i := 0; i < n; i++ {
				for _, kind := range []string{"before", "after"} {
					c := Case{ID: id, Class: names[ci] + "/exhaustive", Cfg: cfg, Faults: []*Fault{{N: i, Kind: kind}}}
					runCase(&c)
					out.Put(c)
					id++
				}
				if log[i].T == "s" {
					for _, spec := range errPool {
						c := Case{ID: id, Class: names[ci] + "/exhaustive-error-value", Cfg: cfg, Faults: []*Fault{{N: i, Kind: "before", Err: spec}}}
						runCase(&c)
						out.Put(c)
						id++
					}
				}
				if cfg.Clustered && (log[i].T == "s" || log[i].T == "cv" || log[i].T == "cvd") {
					for _, sk := range [][]bool{{false, true}, {true, false}, {true, true}} {
						c := Case{ID: id, Class: names[ci] + "/exhaustive-partial", Cfg: cfg, NHosts: 2,
							Faults: []*Fault{{N: i, Kind: "partial", Skip: sk, Err: errDDLTimeout}}}
						runCase(&c)
						out.Put(c)
						id++
					}
				}
				// an error at call i, the process killed two calls later (differs from the above only for code
				// that carries on after an error)
				c := Case{ID: id, Class: names[ci] + "/exhaustive-kill", Cfg: cfg, Faults: []*Fault{{N: i, Kind: "before", DeadFrom: i + 2}}}
				runCase(&c)
				out.Put(c)
				id++
			}
		}
		return
	}
	r := hx.Rand(f.Seed)
	for i := 0; i < f.N; i++ {
		c := gen(r, i)
		runCase(&c)
		out.Put(c)
	}
}
