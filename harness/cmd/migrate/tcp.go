package main

// A fake ClickHouse server on the native TCP protocol, so that the REAL bootstrap path runs: ctrl.Init ->
// maintenance.InitDB (ConnectV2 without database, CREATE DATABASE IF NOT EXISTS .. [ON CLUSTER], SHOW CREATE
// DATABASE) -> UpgradeAll -> upgradeDB (ConnectV2 with database, mode from the configuration, ttl_days check)
// -> Update, through the real clickhouse-go v2 client.  The server hands every statement to the same fake
// catalogue (fake.go) that the in-process driver.Conn uses; a failing call is answered with a server exception
// or by dropping the connection.

import (
	"context"
	"errors"
	"fmt"
	"io"
	"net"
	"regexp"
	"strconv"
	"strings"
	"sync"

	chproto "github.com/ClickHouse/ch-go/proto"
	"github.com/ClickHouse/clickhouse-go/v2/lib/proto"
)

type tcpServer struct {
	ln   net.Listener
	mu   sync.Mutex // the fake database is single-threaded: one statement at a time
	conn *Conn      // state + fault injection + call log of the current process start
	errs []string   // protocol-level problems of the fake server itself (must stay empty)
	wg   sync.WaitGroup
}

func newTCPServer() (*tcpServer, error) {
	ln, err := net.Listen("tcp", "127.0.0.1:0")
	if err != nil {
		return nil, err
	}
	s := &tcpServer{ln: ln}
	go s.serve()
	return s, nil
}

func (s *tcpServer) port() uint32 { return uint32(s.ln.Addr().(*net.TCPAddr).Port) }

func (s *tcpServer) serve() {
	for {
		c, err := s.ln.Accept()
		if err != nil {
			return
		}
		s.wg.Add(1)
		go func() {
			defer s.wg.Done()
			defer c.Close()
			if err := s.handle(c); err != nil && !errors.Is(err, io.EOF) && !errors.Is(err, errDropped) {
				s.mu.Lock()
				s.errs = append(s.errs, err.Error())
				s.mu.Unlock()
			}
		}()
	}
}

var errDropped = errors.New("connection dropped on purpose")

func flush(c net.Conn, b *chproto.Buffer) error {
	_, err := c.Write(b.Buf)
	b.Reset()
	return err
}

func (s *tcpServer) handle(c net.Conn) error {
	r := chproto.NewReader(c)
	buf := new(chproto.Buffer)
	code, err := r.UVarInt()
	if err != nil {
		return err
	}
	if chproto.ClientCode(code) != chproto.ClientCodeHello {
		return fmt.Errorf("fake server: first packet %d", code)
	}
	var hello chproto.ClientHello
	if err := hello.Decode(r); err != nil {
		return fmt.Errorf("fake server: hello: %w", err)
	}
	ver := hello.ProtocolVersion
	if ver > chproto.Version {
		ver = chproto.Version
	}
	sh := chproto.ServerHello{Name: "fake", Major: 24, Minor: 3, Revision: ver, Timezone: "UTC", DisplayName: "fake"}
	sh.EncodeAware(buf, ver)
	if err := flush(c, buf); err != nil {
		return err
	}
	if chproto.FeatureAddendum.In(ver) { // the client's quota key
		if _, err := r.Str(); err != nil {
			return err
		}
	}
	for {
		code, err := r.UVarInt()
		if err != nil {
			return err
		}
		switch chproto.ClientCode(code) {
		case chproto.ClientCodePing:
			chproto.ServerCodePong.Encode(buf)
			if err := flush(c, buf); err != nil {
				return err
			}
		case chproto.ClientCodeQuery:
			var q chproto.Query
			if err := q.DecodeAware(r, ver); err != nil {
				return fmt.Errorf("fake server: query: %w", err)
			}
			// the (empty) external-data block that ends the request
			dc, err := r.UVarInt()
			if err != nil {
				return err
			}
			if chproto.ClientCode(dc) != chproto.ClientCodeData {
				return fmt.Errorf("fake server: packet %d after query", dc)
			}
			var cd chproto.ClientData
			if err := cd.DecodeAware(r, ver); err != nil {
				return err
			}
			var blk chproto.Block
			if err := blk.DecodeBlock(r, ver, nil); err != nil {
				return fmt.Errorf("fake server: data block: %w", err)
			}
			s.mu.Lock()
			res := s.run(hello.Database, q.Body)
			s.mu.Unlock()
			if res.drop {
				return errDropped
			}
			if res.exc != nil {
				chproto.ServerCodeException.Encode(buf)
				(&chproto.Exception{Code: chproto.Error(res.exc.Code), Name: res.exc.Name, Message: res.exc.Message}).EncodeAware(buf, ver)
				if err := flush(c, buf); err != nil {
					return err
				}
				continue
			}
			if res.col != nil {
				for _, rows := range []int{0, res.col.Rows()} { // header block, then the data
					chproto.ServerCodeData.Encode(buf)
					buf.PutString("")
					data := res.col
					if rows == 0 {
						data = res.empty
					}
					b := chproto.Block{Info: chproto.BlockInfo{BucketNum: -1}, Columns: 1, Rows: rows}
					if err := b.EncodeBlock(buf, ver, []chproto.InputColumn{{Name: res.name, Data: data}}); err != nil {
						return err
					}
				}
			}
			chproto.ServerCodeEndOfStream.Encode(buf)
			if err := flush(c, buf); err != nil {
				return err
			}
		default:
			return fmt.Errorf("fake server: packet %d", code)
		}
	}
}

type tcpResult struct {
	drop  bool
	exc   *proto.Exception
	name  string
	col   chproto.ColInput
	empty chproto.ColInput
}

var (
	reInsVer   = regexp.MustCompile(`^INSERT INTO ver \(k, ver\) VALUES \((-?\d+), (\d+)\)$`)
	reReadVer  = regexp.MustCompile(`^SELECT max\(ver\) as ver FROM (ver|ver_dist) WHERE k = (-?\d+) FORMAT JSON$`)
	reCreateDB = regexp.MustCompile("^CREATE DATABASE IF NOT EXISTS `([^`]*)`( ON CLUSTER `[^`]*`)?$")
	reShowDB   = regexp.MustCompile("^SHOW CREATE DATABASE `([^`]*)`$")
)

func excOf(err error) *proto.Exception {
	var e *proto.Exception
	if errors.As(err, &e) {
		return e
	}
	return nil
}

// run hands one statement text to the fake; the client binds arguments into the text, so the two
// parametrised statements of updateScripts are recognised by their bound form
func (s *tcpServer) run(database, body string) tcpResult {
	c := s.conn
	q := normWS(body)
	ctx := context.Background()
	fail := func(err error) tcpResult {
		if err == errSem {
			return tcpResult{exc: &proto.Exception{Code: 60, Name: "DB::Exception", Message: "fake clickhouse: statement rejected"}}
		}
		if e := excOf(err); e != nil {
			return tcpResult{exc: e}
		}
		return tcpResult{drop: true} // a driver / network error: the connection goes away
	}
	if m := reCreateDB.FindStringSubmatch(q); m != nil {
		err := c.call(Event{T: "cdb", Text: m[1]}, m[2] != "", true, func(h *Host) error { c.db.Exists[m[1]] = true; return nil })
		if err != nil {
			return fail(err)
		}
		return tcpResult{}
	}
	if m := reShowDB.FindStringSubmatch(q); m != nil {
		err := c.call(Event{T: "sdb", Text: m[1]}, false, true, func(h *Host) error {
			if !c.db.Exists[m[1]] {
				return errSem
			}
			return nil
		})
		if err != nil {
			return fail(err)
		}
		col := new(chproto.ColStr)
		col.Append("CREATE DATABASE " + m[1] + " ENGINE = Atomic")
		return tcpResult{name: "statement", col: col, empty: new(chproto.ColStr)}
	}
	if database != "" && database != "default" && !c.db.Exists[database] {
		c.Log = append(c.Log, Event{T: "o", Text: short(q), R: "err"})
		c.calls++
		return tcpResult{exc: &proto.Exception{Code: 81, Name: "DB::Exception", Message: "Database " + database + " does not exist. (UNKNOWN_DATABASE)"}}
	}
	if m := reInsVer.FindStringSubmatch(q); m != nil {
		k, _ := strconv.ParseInt(m[1], 10, 64)
		v, _ := strconv.ParseUint(m[2], 10, 64)
		if err := c.Exec(ctx, "INSERT INTO ver (k, ver) VALUES ($1, $2)", k, v); err != nil {
			return fail(err)
		}
		return tcpResult{}
	}
	if m := reReadVer.FindStringSubmatch(q); m != nil {
		k, _ := strconv.ParseInt(m[2], 10, 64)
		rows, err := c.Query(ctx, "SELECT max(ver) as ver FROM "+m[1]+" WHERE k = $1 FORMAT JSON", k)
		if err != nil {
			return fail(err)
		}
		col := new(chproto.ColUInt64)
		for rows.Next() {
			var v uint64
			_ = rows.Scan(&v)
			col.Append(v)
		}
		return tcpResult{name: "ver", col: col, empty: new(chproto.ColUInt64)}
	}
	if q == "SHOW TABLES" { // round 8: answered with the connected host's tables (incl. ver / ver_dist), as a String column
		rows, err := c.Query(ctx, "SHOW TABLES")
		if err != nil {
			return fail(err)
		}
		col := new(chproto.ColStr)
		for rows.Next() {
			var s string
			_ = rows.Scan(&s)
			col.Append(s)
		}
		return tcpResult{name: "name", col: col, empty: new(chproto.ColStr)}
	}
	if strings.HasPrefix(strings.ToUpper(q), "SELECT") || strings.HasPrefix(strings.ToUpper(q), "SHOW") {
		_, err := c.Query(ctx, body)
		if err != nil {
			return fail(err)
		}
		return tcpResult{}
	}
	if err := c.Exec(ctx, body); err != nil {
		return fail(err)
	}
	return tcpResult{}
}
