package main

// The re-indexing of the pprof payload merge (property C16, third session):
//
//	reader/service.ProfService.MergeProfiles -> proto.Unmarshal -> ProfileMergeV2.Merge (sanitizeProfile, the five
//	RewriteTableV2 tables: strings, functions, mappings, locations, samples) -> ProfileMergeV2.Profile
//
// Every payload the service reads is decoded here with the reader's own protobuf type and written, with the merged
// profile the service answered, as a flat list of numbers in the order coq/model/ProfRewriteCase.v (rd_pprofile)
// reads them; strings travel as tokens (one table per case, token 0 = ""). Kind "rw" cases hand the service payloads
// built directly as protobuf messages: several profiles over one universe of functions / mappings / locations with
// their own string tables and ids (positional, random, above 2^63), string and numeric labels, and a share of
// malformed messages (dangling references, duplicate ids, wrong value counts, string indices out of range, no empty
// string) that exercise the dropping branches of sanitizeProfile.

import (
	"math/rand"

	rprof "github.com/metrico/qryn/reader/prof"
	"google.golang.org/protobuf/proto"
)

type flatW struct{ out []uint64 }

func (w *flatW) u(x uint64) { w.out = append(w.out, x) }
func (w *flatW) z(x int64)  { w.out = append(w.out, uint64(x)) }
func (w *flatW) b(x bool) {
	if x {
		w.u(1)
	} else {
		w.u(0)
	}
}

type strTable struct {
	tok  map[string]int
	list []string
}

func newStrTable() *strTable { return &strTable{tok: map[string]int{"": 0}, list: []string{""}} }
func (t *strTable) of(s string) int {
	if i, ok := t.tok[s]; ok {
		return i
	}
	t.tok[s] = len(t.list)
	t.list = append(t.list, s)
	return len(t.list) - 1
}

func dumpProfile(t *strTable, p *rprof.Profile) []uint64 {
	w := &flatW{}
	w.u(uint64(len(p.StringTable)))
	for _, s := range p.StringTable {
		w.z(int64(t.of(s)))
	}
	w.u(uint64(len(p.SampleType)))
	for _, v := range p.SampleType {
		w.z(v.Type)
		w.z(v.Unit)
	}
	if p.PeriodType != nil {
		w.u(1)
		w.z(p.PeriodType.Type)
		w.z(p.PeriodType.Unit)
	} else {
		w.u(0)
	}
	w.u(uint64(len(p.Function)))
	for _, f := range p.Function {
		w.u(f.Id)
		w.z(f.Name)
		w.z(f.SystemName)
		w.z(f.Filename)
		w.z(f.StartLine)
	}
	w.u(uint64(len(p.Mapping)))
	for _, m := range p.Mapping {
		w.u(m.Id)
		w.u(m.MemoryStart)
		w.u(m.MemoryLimit)
		w.u(m.FileOffset)
		w.z(m.Filename)
		w.z(m.BuildId)
		fl := int64(0)
		for i, b := range []bool{m.HasFunctions, m.HasFilenames, m.HasLineNumbers, m.HasInlineFrames} {
			if b {
				fl |= 1 << uint(i)
			}
		}
		w.z(fl)
	}
	w.u(uint64(len(p.Location)))
	for _, l := range p.Location {
		w.u(l.Id)
		w.u(l.MappingId)
		w.u(l.Address)
		w.u(uint64(len(l.Line)))
		for _, ln := range l.Line {
			w.u(ln.FunctionId)
			w.z(ln.Line)
			w.z(ln.Column)
		}
		w.b(l.IsFolded)
	}
	w.u(uint64(len(p.Sample)))
	for _, s := range p.Sample {
		w.u(uint64(len(s.LocationId)))
		for _, x := range s.LocationId {
			w.u(x)
		}
		w.u(uint64(len(s.Value)))
		for _, x := range s.Value {
			w.z(x)
		}
		w.u(uint64(len(s.Label)))
		for _, lb := range s.Label {
			w.z(lb.Key)
			w.z(lb.Str)
			w.z(lb.Num)
			w.z(lb.NumUnit)
		}
	}
	w.z(p.DropFrames)
	w.z(p.KeepFrames)
	w.z(p.TimeNanos)
	w.z(p.DurationNanos)
	w.z(p.Period)
	w.z(p.DefaultSampleType)
	w.u(uint64(len(p.Comment)))
	for _, x := range p.Comment {
		w.z(x)
	}
	return w.out
}

// the payloads as the service will decode them
func dumpPayloads(t *strTable, payloads [][]byte) [][]uint64 {
	var res [][]uint64
	for _, b := range payloads {
		var p rprof.Profile
		if err := proto.Unmarshal(b, &p); err != nil {
			res = append(res, nil)
			continue
		}
		res = append(res, dumpProfile(t, &p))
	}
	return res
}

// ---------------------------------------------------------------------------- generator of kind "rw"

type uFun struct {
	name, sys, file string
	start           int64
}
type uMap struct {
	start, limit, off uint64
	file, build       string
	flags             int
}
type uLoc struct {
	addr   uint64
	lines  [][2]int64 // (function of the universe, line)
	m      int        // mapping of the universe, -1 = none
	folded bool
}

func pick(r *rand.Rand, xs []string) string { return xs[r.Intn(len(xs))] }

func genRW(r *rand.Rand, id int) Case {
	c := Case{ID: id, Kind: "rw", Class: "rw", Types: []string{"cpu nanoseconds"}, Sel: 0}
	names := []string{"main.a", "main.b", "main.c", "runtime.d", "lib.e", "lib.f", "x.g", "x.h"}
	files := []string{"", "a.go", "b.go", "c.go"}
	var funs []uFun
	for i, n := 0, 2+r.Intn(6); i < n; i++ {
		f := uFun{name: pick(r, names), file: pick(r, files), start: int64(r.Intn(3) * 10)}
		f.sys = f.name
		if r.Intn(4) == 0 {
			f.sys = "_" + f.name
		}
		funs = append(funs, f)
	}
	var maps []uMap
	for i, n := 0, r.Intn(4); i < n; i++ {
		st := uint64(r.Intn(4)) * 0x10000
		m := uMap{start: st, limit: st + uint64(1+r.Intn(3))*0x800 + uint64(r.Intn(2)), off: uint64(r.Intn(2)) * 0x1000,
			file: pick(r, []string{"", "/bin/app", "/lib/libc.so"}), build: pick(r, []string{"", "", "bid1", "bid2"}), flags: r.Intn(16)}
		maps = append(maps, m)
	}
	var locs []uLoc
	for i, n := 0, 2+r.Intn(8); i < n; i++ {
		l := uLoc{addr: uint64(0x1000 + r.Intn(6)), m: -1, folded: r.Intn(8) == 0}
		if len(maps) > 0 && r.Intn(4) > 0 {
			l.m = r.Intn(len(maps))
		}
		for j, k := 0, r.Intn(4); j < k; j++ {
			line := int64(1 + r.Intn(5))
			switch r.Intn(12) {
			case 0:
				line += 1 << 32 // beyond the 32 bits hashLines keeps
			case 1:
				line = -line
			}
			l.lines = append(l.lines, [2]int64{int64(r.Intn(len(funs))), line})
		}
		locs = append(locs, l)
	}
	typePairs := [][2]string{{"cpu", "nanoseconds"}, {"samples", "count"}, {"alloc_space", "bytes"}}
	nt := 1 + r.Intn(3)
	malformed := r.Intn(4) == 0
	c.Class = "rw-wellformed"
	if malformed {
		c.Class = "rw-malformed"
	}
	np := 1 + r.Intn(4)
	ptMode := r.Intn(12) // 0: every profile draws its own period type (incompatible ones likely), 1: none has one, else cpu
	typeOdd := -1        // the profile with other sample types (incompatible), mostly none
	if r.Intn(15) == 0 {
		typeOdd = r.Intn(np)
	}
	for pi := 0; pi < np; pi++ {
		bad := func(n int) bool { return malformed && r.Intn(n) == 0 }
		p := &rprof.Profile{}
		// the string table: every string the profile may use, shuffled; the empty string first, elsewhere or absent
		var strs []string
		seen := map[string]bool{}
		add := func(s string) {
			if s != "" && !seen[s] {
				seen[s] = true
				strs = append(strs, s)
			}
		}
		for _, f := range funs {
			add(f.name)
			add(f.sys)
			add(f.file)
		}
		for _, m := range maps {
			add(m.file)
			add(m.build)
		}
		for _, tp := range typePairs {
			add(tp[0])
			add(tp[1])
		}
		for _, s := range []string{"thread", "span", "t1", "t2", "bytes", "wall", "seconds", "drop.*", "keep.*", "a comment"} {
			add(s)
		}
		r.Shuffle(len(strs), func(i, j int) { strs[i], strs[j] = strs[j], strs[i] })
		switch {
		case r.Intn(6) == 0: // the empty string somewhere else
			k := r.Intn(len(strs) + 1)
			strs = append(strs[:k], append([]string{""}, strs[k:]...)...)
		case r.Intn(12) == 0: // no empty string at all
		default:
			strs = append([]string{""}, strs...)
		}
		if r.Intn(8) == 0 {
			strs = append(strs, strs[r.Intn(len(strs))]) // a string twice
		}
		p.StringTable = strs
		si := func(s string) int64 {
			for i, x := range strs {
				if x == s {
					return int64(i)
				}
			}
			return 0
		}
		sx := func(s string) int64 { // string index, sometimes broken
			if bad(40) {
				return int64(len(strs) + r.Intn(3))
			}
			if bad(60) {
				return -1
			}
			return si(s)
		}
		for k := 0; k < nt; k++ {
			tp := typePairs[k]
			if pi == typeOdd {
				tp = typePairs[(k+1)%3] // incompatible sample types
			}
			p.SampleType = append(p.SampleType, &rprof.ValueType{Type: si(tp[0]), Unit: si(tp[1])})
		}
		pt := 2
		if ptMode == 0 {
			pt = r.Intn(3)
		} else if ptMode == 1 {
			pt = 0
		}
		switch pt {
		case 0: // no period type
		case 1:
			p.PeriodType = &rprof.ValueType{Type: si("wall"), Unit: si("seconds")}
		default:
			p.PeriodType = &rprof.ValueType{Type: si("cpu"), Unit: si("nanoseconds")}
		}
		p.TimeNanos = int64(r.Intn(5)) * 1000
		p.DurationNanos = int64(r.Intn(100))
		p.Period = int64(r.Intn(4))
		p.DefaultSampleType = si(pick(r, []string{"", "cpu", "samples"}))
		p.DropFrames = si(pick(r, []string{"", "drop.*"}))
		p.KeepFrames = si(pick(r, []string{"", "keep.*"}))
		if r.Intn(4) == 0 {
			p.Comment = []int64{si("a comment")}
		}
		// ids: positional, random distinct, or huge
		idmode := r.Intn(3)
		mkid := func(i int) uint64 {
			switch idmode {
			case 0:
				return uint64(i + 1)
			case 1:
				return uint64(100 + 7*i + r.Intn(7))
			default:
				return 1<<63 + uint64(i)*3 + 5
			}
		}
		// the subset of the universe this profile uses, in a shuffled order
		fperm, mperm, lperm := r.Perm(len(funs)), r.Perm(len(maps)), r.Perm(len(locs))
		fid, mid, lid := map[int]uint64{}, map[int]uint64{}, map[int]uint64{}
		for i, u := range fperm {
			if i > 0 && r.Intn(5) == 0 {
				continue
			}
			f := funs[u]
			fid[u] = mkid(i)
			if bad(25) && i > 0 {
				fid[u] = fid[fperm[0]] // a duplicate id
			}
			p.Function = append(p.Function, &rprof.Function{Id: fid[u], Name: sx(f.name), SystemName: sx(f.sys), Filename: sx(f.file), StartLine: f.start})
		}
		for i, u := range mperm {
			m := maps[u]
			mid[u] = mkid(i)
			p.Mapping = append(p.Mapping, &rprof.Mapping{Id: mid[u], MemoryStart: m.start, MemoryLimit: m.limit, FileOffset: m.off,
				Filename: sx(m.file), BuildId: sx(m.build), HasFunctions: m.flags&1 != 0, HasFilenames: m.flags&2 != 0,
				HasLineNumbers: m.flags&4 != 0, HasInlineFrames: m.flags&8 != 0})
		}
		for i, u := range lperm {
			l := locs[u]
			ok := true
			pl := &rprof.Location{Id: mkid(i), Address: l.addr, IsFolded: l.folded}
			if l.m >= 0 {
				pl.MappingId = mid[l.m]
			}
			if bad(25) {
				pl.MappingId = 987654 // a mapping that does not exist
			}
			for _, ln := range l.lines {
				f, have := fid[int(ln[0])]
				if !have {
					if bad(3) {
						f = 876543 // a function that does not exist
					} else {
						ok = false
					}
				}
				pl.Line = append(pl.Line, &rprof.Line{FunctionId: f, Line: ln[1], Column: int64(r.Intn(3))})
			}
			if !ok {
				continue
			}
			lid[u] = pl.Id
			p.Location = append(p.Location, pl)
		}
		var have []int
		for u := range locs {
			if _, ok := lid[u]; ok {
				have = append(have, u)
			}
		}
		style := r.Intn(4)
		ns := r.Intn(10)
		if r.Intn(12) == 0 {
			ns = 0 // a profile Merge skips
		}
		for s := 0; s < ns; s++ {
			ps := &rprof.Sample{}
			for d, n := 0, r.Intn(6); d < n && len(have) > 0; d++ {
				ps.LocationId = append(ps.LocationId, lid[have[r.Intn(len(have))]])
			}
			if bad(20) {
				ps.LocationId = append(ps.LocationId, 765432) // a location that does not exist
			}
			for k := 0; k < nt; k++ {
				ps.Value = append(ps.Value, genValue(r, style))
			}
			if bad(20) {
				ps.Value = ps.Value[:len(ps.Value)-1]
			}
			for k, n := 0, r.Intn(3); k < n; k++ {
				if r.Intn(2) == 0 {
					ps.Label = append(ps.Label, &rprof.Label{Key: sx(pick(r, []string{"thread", "span"})), Str: sx(pick(r, []string{"t1", "t2"}))})
				} else {
					ps.Label = append(ps.Label, &rprof.Label{Key: sx("bytes"), Num: int64(r.Intn(3)), NumUnit: sx("bytes")})
				}
			}
			p.Sample = append(p.Sample, ps)
		}
		b, err := proto.Marshal(p)
		if err != nil {
			panic(err)
		}
		c.RWPayloads = append(c.RWPayloads, b)
	}
	return c
}
