// proftree drives the real profile ingest path and the real flame-graph builder of qryn:
//
//	writer/utils/unmarshal.UnmarshalProfileProtoV2 / UnmarshalBinaryStreamProfileProtoV2
//	   (pprof bytes -> postProcessProf -> onProfile -> ProfileData with tree/function rows)
//	reader/service.Tree.MergeTrie / BFS / Total / MaxSelf
//
// A case is a list of generated pprof profiles (serialised with github.com/google/pprof/profile),
// the tree rows each of them is stored with, the projection of those rows on one sample type
// (what the SQL of PlanMergeTraces does; emulated here, trusted), a shuffled (optionally grouped)
// row list fed to MergeTrie, and the resulting tree and levels. Kind "rows" feeds synthetic rows
// to the reader only. Kind "hash" records city.CH64 on 16-byte buffers (the node-id hash).
package main

import (
	"bytes"
	"compress/gzip"
	"context"
	"crypto/sha1"
	"encoding/binary"
	"encoding/hex"
	"encoding/json"
	"fmt"
	"math/rand"
	"mime/multipart"
	"reflect"
	"sort"
	"strings"
	"sync"
	"time"

	fch "github.com/ClickHouse/ch-go"
	"github.com/ClickHouse/ch-go/proto"
	"github.com/go-faster/city"
	pprof "github.com/google/pprof/profile"
	clconfig "github.com/metrico/cloki-config"
	clbase "github.com/metrico/cloki-config/config"
	rsvc "github.com/metrico/qryn/reader/service"
	"github.com/metrico/qryn/writer/ch_wrapper"
	wconfig "github.com/metrico/qryn/writer/config"
	wmodel "github.com/metrico/qryn/writer/model"
	wsvc "github.com/metrico/qryn/writer/service"
	"github.com/metrico/qryn/writer/service/impl"
	"github.com/metrico/qryn/writer/utils/unmarshal"
	"verif/harness/hx"
)

// ---------------------------------------------------------------------------- case format

type Sample struct {
	Stack  []int   `json:"stack"` // leaf first; index into Case.Names, -1 = location without line info
	Values []int64 `json:"values"`
}

type Row struct {
	P  uint64     `json:"p"`
	F  uint64     `json:"f"`
	I  uint64     `json:"i"`
	V  [][2]int64 `json:"v"`  // (self, total) per sample type
	VN []int      `json:"vn"` // token of the value's name ("type:unit"), -1 = unknown string
}

type Prof struct {
	Path    string   `json:"path"` // bin | bingz | mp
	St      []int    `json:"st"`   // sample types: tokens into Case.Types
	Pad     int      `json:"pad"`  // sample type 0's type string is prefixed with this many 'x'
	TagPad  int      `json:"tagpad"`
	Inl     bool     `json:"inl"` // locations get a second (inlined) line; only Line[0] counts
	Bad     string   `json:"bad"` // "" | noperiod | trunc | garbage
	Samples []Sample `json:"samples"`
	Fail    int      `json:"fail"` // the first Fail inserts (ClickHouse Do) of this profile's batch fail; the request is then re-submitted
	// observations: Rows/Funcs/Vagg/NProf are read from the block the insert service finally got ACCEPTED
	// (the parser output only when the profile was rejected before reaching the service)
	Attempts     int         `json:"attempts"`      // svc.Request calls made for the (single) profile request
	Acked        bool        `json:"acked"`         // the last of them succeeded
	Blocks       []string    `json:"blocks"`        // digest of (tree, functions, values_agg, scalar row count) of every block handed to Do, in order
	BlockOK      []bool      `json:"block_ok"`      // which of them were accepted
	ParsedDigest string      `json:"parsed_digest"` // the same digest of the parser's ProfileData
	ReqUnchanged bool        `json:"req_unchanged"` // every svc.Request left the ProfileData deeply equal to what it was
	Err          string      `json:"err"`
	NResp        int         `json:"nresp"`  // responses carrying a profile request
	NOther       int         `json:"nother"` // responses carrying any other request
	NProf        int         `json:"nprof"`  // profiles in those requests (len TimestampNs)
	NArr         int         `json:"narr"`   // requests whose array fields are non-empty
	Rows         []Row       `json:"rows"`
	Funcs        [][2]uint64 `json:"funcs"` // (id, name token)
	Vagg         [][3]int64  `json:"vagg"`  // (name token, sum, count)
	payload      []byte      // the payload column of the parser's ProfileData (what MergeProfiles reads back)
}

type MRow struct {
	P uint64 `json:"p"`
	F uint64 `json:"f"`
	I uint64 `json:"i"`
	S int64  `json:"s"`
	T int64  `json:"t"`
}

type TNode struct {
	F uint64 `json:"f"`
	I uint64 `json:"i"`
	S int64  `json:"s"`
	T int64  `json:"t"`
}
type TEntry struct {
	Parent uint64  `json:"parent"`
	Ch     []TNode `json:"ch"`
}

type Case struct {
	ID    int      `json:"id"`
	Kind  string   `json:"kind"` // e2e | rows | hash
	Class string   `json:"class"`
	Names []string `json:"names"` // function names; Names[0] == "n/a"
	Types []string `json:"types"` // "type unit" pairs separated by one space
	Profs []Prof   `json:"profs"`
	Sel   int      `json:"sel"`  // token (into Types) of the selected sample type
	Mode  string   `json:"mode"` // raw | grouped
	Perm  int64    `json:"perm"` // seed of the shuffle
	// derived by the harness from the observations (SQL emulation) or generated (kind rows)
	MRows  []MRow      `json:"mrows"`
	MFuncs [][2]uint64 `json:"mfuncs"` // (id, name token) fed to MergeTrie
	// observations
	Fnh      []uint64    `json:"fnh"` // CH64 of Names[i]
	Tree     []TEntry    `json:"tree"`
	NodesNum int32       `json:"nodesnum"`
	Total    []int64     `json:"total"`
	MaxSelf  []int64     `json:"maxself"`
	Levels   [][]int64   `json:"levels"`
	TNames   []int       `json:"tnames"` // Tree.Names as tokens (-1 = "total", -2 = unknown)
	TMap     [][2]uint64 `json:"tmap"`   // Tree.NamesMap sorted by key
	Panic    string      `json:"panic,omitempty"`
	// the same rows through ProfService.MergeStackTraces, and the diff view through ProfService.RenderDiff (svc.go)
	Svc  *SvcObs  `json:"svc,omitempty"`
	Diff *DiffObs `json:"diff,omitempty"`
	MP   *MPObs   `json:"mp,omitempty"`
	// the re-indexing tie (rw.go): the payloads MergeProfiles read and the profile it answered, as flat numbers
	RWPayloads [][]byte   `json:"rwpayloads,omitempty"` // kind rw: the payloads themselves (input)
	RWIn       [][]uint64 `json:"rwin,omitempty"`
	RWOut      []uint64   `json:"rwout,omitempty"`
	// kind hash
	HA, HB, HH uint64
}

// ---------------------------------------------------------------------------- building pprof bytes

func typeUnit(c *Case, tok int, pad int) (string, string) {
	parts := strings.SplitN(c.Types[tok], " ", 2)
	return strings.Repeat("x", pad) + parts[0], parts[1]
}

func buildProfile(c *Case, p *Prof) []byte {
	pp := &pprof.Profile{}
	for i, tok := range p.St {
		pad := 0
		if i == 0 {
			pad = p.Pad
		}
		t, u := typeUnit(c, tok, pad)
		pp.SampleType = append(pp.SampleType, &pprof.ValueType{Type: t, Unit: u})
	}
	if p.Bad != "noperiod" {
		pp.PeriodType = &pprof.ValueType{Type: "cpu", Unit: "nanoseconds"}
	}
	pp.Period = 1
	fns := map[int]*pprof.Function{}
	locs := map[int]*pprof.Location{}
	var inl *pprof.Function
	getLoc := func(n int) *pprof.Location {
		if l, ok := locs[n]; ok {
			return l
		}
		l := &pprof.Location{ID: uint64(len(locs) + 1), Address: uint64(0x1000 + len(locs))}
		if n >= 0 {
			f, ok := fns[n]
			if !ok {
				f = &pprof.Function{ID: uint64(len(pp.Function) + 1), Name: c.Names[n], SystemName: c.Names[n]}
				fns[n] = f
				pp.Function = append(pp.Function, f)
			}
			l.Line = append(l.Line, pprof.Line{Function: f, Line: int64(n + 1)})
			if p.Inl {
				if inl == nil {
					inl = &pprof.Function{ID: uint64(len(pp.Function) + 1), Name: "inlined-caller"}
					pp.Function = append(pp.Function, inl)
				}
				l.Line = append(l.Line, pprof.Line{Function: inl, Line: 7})
			}
		}
		locs[n] = l
		pp.Location = append(pp.Location, l)
		return l
	}
	for _, s := range p.Samples {
		ps := &pprof.Sample{Value: append([]int64(nil), s.Values...)}
		for _, n := range s.Stack {
			ps.Location = append(ps.Location, getLoc(n))
		}
		pp.Sample = append(pp.Sample, ps)
	}
	var raw bytes.Buffer
	if err := pp.WriteUncompressed(&raw); err != nil {
		panic(err)
	}
	b := raw.Bytes()
	switch p.Bad {
	case "trunc":
		if len(b) > 3 {
			b = b[:len(b)-3]
		}
	case "garbage":
		b = []byte("this is not a pprof profile")
	}
	return b
}

func gz(b []byte) []byte {
	var out bytes.Buffer
	w := gzip.NewWriter(&out)
	w.Write(b)
	w.Close()
	return out.Bytes()
}

func multipartBody(b []byte) []byte {
	var out bytes.Buffer
	w := multipart.NewWriter(&out)
	w.SetBoundary("verifboundary0123456789")
	fw, _ := w.CreateFormFile("profile", "profile.pprof")
	fw.Write(gz(b))
	w.Close()
	return out.Bytes()
}

// ---------------------------------------------------------------------------- running the writer

func tokOf(table []string, s string) int {
	for i, x := range table {
		if x == s {
			return i
		}
	}
	return -1
}

func runIngest(c *Case, p *Prof) {
	raw := buildProfile(c, p)
	var body []byte
	parser := unmarshal.UnmarshalBinaryStreamProfileProtoV2
	switch p.Path {
	case "bin":
		body = raw
	case "bingz":
		body = gz(raw)
	default:
		body = multipartBody(raw)
		parser = unmarshal.UnmarshalProfileProtoV2
	}
	name := "app{k=v}"
	if p.TagPad > 0 {
		name = "app{k=" + strings.Repeat("v", p.TagPad) + "}"
	}
	ctx := context.WithValue(context.Background(), "from", "1700000000")
	ctx = context.WithValue(ctx, "until", "1700000010")
	ctx = context.WithValue(ctx, "name", name)
	// names of value tuples: "type:unit" with the pad applied to sample type 0
	vnames := map[string]int{}
	for i, tok := range p.St {
		pad := 0
		if i == 0 {
			pad = p.Pad
		}
		t, u := typeUnit(c, tok, pad)
		if _, ok := vnames[t+":"+u]; !ok {
			vnames[t+":"+u] = tok
		}
	}
	vtok := func(s string) int {
		if t, ok := vnames[s]; ok {
			return t
		}
		return -1
	}
	p.Err, p.NResp, p.NOther, p.NProf, p.NArr = "", 0, 0, 0, 0
	p.Rows, p.Funcs, p.Vagg = nil, nil, nil
	p.Attempts, p.Acked, p.Blocks, p.BlockOK, p.ParsedDigest, p.ReqUnchanged = 0, false, nil, nil, "", true
	var pds []*wmodel.ProfileData
	done := make(chan struct{})
	go func() {
		defer close(done)
		ch := parser(ctx, bytes.NewReader(body), nil)
		for r := range ch {
			if r.Error != nil {
				if p.Err == "" {
					p.Err = "error"
				}
				continue
			}
			if !isNil(r.TimeSeriesRequest) || !isNil(r.SamplesRequest) || !isNil(r.SpansRequest) || !isNil(r.SpansAttrsRequest) {
				p.NOther++
			}
			if r.ProfileRequest == nil {
				continue
			}
			pd, ok := r.ProfileRequest.(*wmodel.ProfileData)
			if !ok || pd == nil {
				p.NOther++
				continue
			}
			p.NResp++
			pds = append(pds, pd)
			p.NProf += len(pd.TimestampNs)
			if len(pd.Tree) > 0 || len(pd.Function) > 0 || len(pd.ValuesAgg) > 0 || len(pd.SamplesTypesUnits) > 0 {
				p.NArr++
			}
			for _, t := range pd.Tree {
				row := Row{P: t.Field1, F: t.Field2, I: t.Field3}
				for _, v := range t.ValueArrTuple {
					row.V = append(row.V, [2]int64{v.FirstValueInt64, v.SecondValueInt64})
					row.VN = append(row.VN, vtok(v.ValueStr))
				}
				p.Rows = append(p.Rows, row)
			}
			for _, f := range pd.Function {
				p.Funcs = append(p.Funcs, [2]uint64{f.ValueInt64, uint64(int64(tokOf(c.Names, f.ValueStr)))})
			}
			for _, v := range pd.ValuesAgg {
				p.Vagg = append(p.Vagg, [3]int64{int64(vtok(v.ValueStr)), v.ValueInt64, int64(v.ValueInt32)})
			}
		}
	}()
	select {
	case <-done:
	case <-time.After(60 * time.Second):
		p.Err = "timeout"
		return
	}
	p.payload = nil
	if p.Err == "" && len(pds) == 1 && len(pds[0].Payload) == 1 {
		p.payload = pds[0].Payload[0]
	}
	if p.Err == "" && len(pds) == 1 {
		store(p, pds[0], vtok, func(s string) int { return tokOf(c.Names, s) })
	}
}

// ---------------------------------------------------------------------------- the insert service
// The parser's ProfileData goes through the real impl.NewProfileSamplesInsertService (ProcessRequest fills the
// pooled columns) over a fake ClickHouse client that decodes every block handed to Do and fails the first
// Fail of them; a failed request is re-submitted with the SAME object, as controller.doPush does.

type fakeCH struct {
	ch_wrapper.IChClient
	mtx      sync.Mutex
	failNext int
	blocks   []storedBlock
}

type storedBlock struct {
	ok      bool
	scalars []int // row counts of the scalar columns
	trees   [][]wmodel.TreeRootStructure
	funcs   [][]wmodel.Function
	vaggs   [][]wmodel.ValuesAgg
	err     string
}

func (f *fakeCH) Ping(ctx context.Context) error { return nil }
func (f *fakeCH) Close() error                   { return nil }

func bounds(offsets proto.ColUInt64, i int) (int, int) {
	start := 0
	if i > 0 {
		start = int(offsets[i-1])
	}
	return start, int(offsets[i])
}

func (f *fakeCH) Do(ctx context.Context, q fch.Query) error {
	f.mtx.Lock()
	defer f.mtx.Unlock()
	b := storedBlock{}
	perr := hx.Catch(func() {
		var treeCol *proto.ColArr[wmodel.TreeRootStructure]
		var aggCol *proto.ColArr[wmodel.ValuesAgg]
		var fnCol *proto.ColArr[wmodel.Function]
		for _, c := range q.Input {
			switch c.Name {
			case "tree":
				treeCol = c.Data.(*proto.ColArr[wmodel.TreeRootStructure])
			case "values_agg":
				aggCol = c.Data.(*proto.ColArr[wmodel.ValuesAgg])
			case "functions":
				fnCol = c.Data.(*proto.ColArr[wmodel.Function])
			default:
				b.scalars = append(b.scalars, c.Data.Rows())
			}
		}
		b.scalars = append(b.scalars, treeCol.Rows(), aggCol.Rows(), fnCol.Rows())
		tt := treeCol.Data.(wsvc.ColTupleTreeAdapter).ColTuple
		parents, fns, ids := *tt[0].(*proto.ColUInt64), *tt[1].(*proto.ColUInt64), *tt[2].(*proto.ColUInt64)
		vals := tt[3].(*proto.ColArr[wmodel.ValuesArrTuple])
		vt := vals.Data.(wsvc.ColTupleTreeValueAdapter).ColTuple
		vn, vs, vtot := vt[0].(*proto.ColStr), *vt[1].(*proto.ColInt64), *vt[2].(*proto.ColInt64)
		for r := 0; r < treeCol.Rows(); r++ {
			var tree []wmodel.TreeRootStructure
			s, e := bounds(treeCol.Offsets, r)
			for i := s; i < e; i++ {
				n := wmodel.TreeRootStructure{Field1: parents[i], Field2: fns[i], Field3: ids[i]}
				a, z := bounds(vals.Offsets, i)
				for j := a; j < z; j++ {
					n.ValueArrTuple = append(n.ValueArrTuple, wmodel.ValuesArrTuple{ValueStr: vn.Row(j), FirstValueInt64: vs[j], SecondValueInt64: vtot[j]})
				}
				tree = append(tree, n)
			}
			b.trees = append(b.trees, tree)
		}
		at := aggCol.Data.(wsvc.ColTupleStrInt64Int32Adapter).ColTuple
		an, as, ac := at[0].(*proto.ColStr), *at[1].(*proto.ColInt64), *at[2].(*proto.ColInt32)
		for r := 0; r < aggCol.Rows(); r++ {
			var l []wmodel.ValuesAgg
			s, e := bounds(aggCol.Offsets, r)
			for i := s; i < e; i++ {
				l = append(l, wmodel.ValuesAgg{ValueStr: an.Row(i), ValueInt64: as[i], ValueInt32: ac[i]})
			}
			b.vaggs = append(b.vaggs, l)
		}
		ft := fnCol.Data.(wsvc.ColTupleFunctionAdapter).ColTuple
		fi, fnm := *ft[0].(*proto.ColUInt64), ft[1].(*proto.ColStr)
		for r := 0; r < fnCol.Rows(); r++ {
			var l []wmodel.Function
			s, e := bounds(fnCol.Offsets, r)
			for i := s; i < e; i++ {
				l = append(l, wmodel.Function{ValueInt64: fi[i], ValueStr: fnm.Row(i)})
			}
			b.funcs = append(b.funcs, l)
		}
	})
	if perr != "" {
		b.err = "cannot decode the block: " + perr
	}
	if f.failNext > 0 {
		f.failNext--
		f.blocks = append(f.blocks, b)
		return fmt.Errorf("clickhouse: simulated outage during insert")
	}
	b.ok = true
	f.blocks = append(f.blocks, b)
	return nil
}

func digest(scalars []int, trees [][]wmodel.TreeRootStructure, funcs [][]wmodel.Function, vaggs [][]wmodel.ValuesAgg) string {
	b, _ := json.Marshal([]interface{}{scalars, trees, funcs, vaggs})
	h := sha1.Sum(b)
	return hex.EncodeToString(h[:8])
}

var (
	theFake *fakeCH
	theSvc  wsvc.IInsertServiceV2
)

func service() (wsvc.IInsertServiceV2, *fakeCH) {
	if theSvc != nil {
		return theSvc, theFake
	}
	wsvc.CreateColPools(0)
	cfg := &clbase.ClokiBaseSettingServer{}
	wconfig.Cloki = &clconfig.ClokiConfig{Setting: cfg}
	theFake = &fakeCH{}
	node := &wmodel.DataDatabasesMap{}
	node.Node = "verifnode"
	node.WriteTimeout = 5
	theSvc = impl.NewProfileSamplesInsertService(wmodel.InsertServiceOpts{
		Session:     func() (ch_wrapper.IChClient, error) { return theFake, nil },
		Node:        node,
		Interval:    2 * time.Millisecond,
		ParallelNum: 1,
	})
	theSvc.Init()
	go theSvc.Run()
	return theSvc, theFake
}

func clonePD(pd *wmodel.ProfileData) *wmodel.ProfileData {
	b, _ := json.Marshal(pd)
	var c wmodel.ProfileData
	json.Unmarshal(b, &c)
	return &c
}

func store(p *Prof, pd *wmodel.ProfileData, vtok func(string) int, ntok func(string) int) {
	svc, fake := service()
	fake.mtx.Lock()
	fake.failNext, fake.blocks = p.Fail, nil
	fake.mtx.Unlock()
	p.ParsedDigest = digest(nil, [][]wmodel.TreeRootStructure{pd.Tree}, [][]wmodel.Function{pd.Function}, [][]wmodel.ValuesAgg{pd.ValuesAgg})
	before := clonePD(pd)
	for p.Attempts < p.Fail+2 && !p.Acked {
		p.Attempts++
		var err error
		ch := make(chan struct{})
		go func() {
			defer close(ch)
			if perr := hx.Catch(func() { _, err = svc.Request(pd, wsvc.INSERT_MODE_SYNC).Get() }); perr != "" {
				err = fmt.Errorf("panic: %s", perr)
			}
		}()
		select {
		case <-ch:
		case <-time.After(30 * time.Second):
			p.Err = "insert timeout"
			return
		}
		if !reflect.DeepEqual(before, clonePD(pd)) {
			p.ReqUnchanged = false
		}
		p.Acked = err == nil
	}
	fake.mtx.Lock()
	defer fake.mtx.Unlock()
	// what was finally accepted replaces the parser's view: this is what the property is judged on
	p.Rows, p.Funcs, p.Vagg, p.NProf, p.NArr = nil, nil, nil, 0, 0
	for _, b := range fake.blocks {
		p.Blocks = append(p.Blocks, digest(nil, b.trees, b.funcs, b.vaggs))
		p.BlockOK = append(p.BlockOK, b.ok)
		if !b.ok {
			continue
		}
		if b.err != "" {
			p.Err = b.err
		}
		rect := true
		for _, n := range b.scalars {
			if n != b.scalars[0] {
				rect = false
			}
		}
		if !rect {
			p.Err = fmt.Sprintf("accepted block is not rectangular: %v", b.scalars)
		}
		if len(b.scalars) > 0 {
			p.NProf += b.scalars[0]
		}
		for r := range b.trees {
			if len(b.trees[r]) > 0 || len(b.funcs[r]) > 0 || len(b.vaggs[r]) > 0 {
				p.NArr++
			}
			for _, t := range b.trees[r] {
				row := Row{P: t.Field1, F: t.Field2, I: t.Field3}
				for _, v := range t.ValueArrTuple {
					row.V = append(row.V, [2]int64{v.FirstValueInt64, v.SecondValueInt64})
					row.VN = append(row.VN, vtok(v.ValueStr))
				}
				p.Rows = append(p.Rows, row)
			}
			for _, f := range b.funcs[r] {
				p.Funcs = append(p.Funcs, [2]uint64{f.ValueInt64, uint64(int64(ntok(f.ValueStr)))})
			}
			for _, v := range b.vaggs[r] {
				p.Vagg = append(p.Vagg, [3]int64{int64(vtok(v.ValueStr)), v.ValueInt64, int64(v.ValueInt32)})
			}
		}
	}
	if !p.Acked && p.Err == "" {
		p.Err = "insert not acknowledged"
	}
}

func isNil(v interface{}) bool {
	if v == nil {
		return true
	}
	switch x := v.(type) {
	case *wmodel.TempoSamples:
		return x == nil
	case *wmodel.TempoTag:
		return x == nil
	case *wmodel.TimeSeriesData:
		return x == nil
	case *wmodel.TimeSamplesData:
		return x == nil
	}
	return false
}

// ---------------------------------------------------------------------------- SQL emulation (trusted): PlanMergeTraces

// arrayMap(x -> (x.1, x.2, x.3, (arrayFirst(y -> y.1 == sel, x.4) as af).2, af.3), tree) then ARRAY JOIN,
// optionally GROUP BY (x.1,x.2,x.3) with sum() of both values, ORDER BY x.1
func project(c *Case) {
	c.MRows, c.MFuncs = nil, nil
	seenF := map[[2]uint64]bool{}
	for pi := range c.Profs {
		p := &c.Profs[pi]
		for _, r := range p.Rows {
			m := MRow{P: r.P, F: r.F, I: r.I}
			for k := range r.V {
				if r.VN[k] == c.Sel {
					m.S, m.T = r.V[k][0], r.V[k][1]
					break
				}
			}
			c.MRows = append(c.MRows, m)
		}
		for _, f := range p.Funcs {
			if !seenF[f] {
				seenF[f] = true
				c.MFuncs = append(c.MFuncs, f)
			}
		}
	}
	r := hx.Rand(c.Perm)
	r.Shuffle(len(c.MRows), func(i, j int) { c.MRows[i], c.MRows[j] = c.MRows[j], c.MRows[i] })
	r.Shuffle(len(c.MFuncs), func(i, j int) { c.MFuncs[i], c.MFuncs[j] = c.MFuncs[j], c.MFuncs[i] })
	if c.Mode == "grouped" {
		type key [3]uint64
		idx := map[key]int{}
		var out []MRow
		for _, m := range c.MRows {
			k := key{m.P, m.F, m.I}
			if j, ok := idx[k]; ok {
				out[j].S += m.S
				out[j].T += m.T
				continue
			}
			idx[k] = len(out)
			out = append(out, m)
		}
		sort.SliceStable(out, func(i, j int) bool { return out[i].P < out[j].P })
		c.MRows = out
	}
}

// ---------------------------------------------------------------------------- running the reader

func nameTok(c *Case, s string) int {
	if s == "total" {
		return -1
	}
	if t := tokOf(c.Names, s); t >= 0 {
		return t
	}
	return -2
}

func runMerge(c *Case) {
	c.Tree, c.Levels, c.Total, c.MaxSelf, c.TNames, c.TMap, c.Panic = nil, nil, nil, nil, nil, nil, ""
	st := "sel:type"
	tree := rsvc.NewTree()
	tree.SampleTypes = []string{st}
	var nodes, funcs [][]any
	for _, m := range c.MRows {
		nodes = append(nodes, []any{m.P, m.F, m.I, m.S, m.T})
	}
	for _, f := range c.MFuncs {
		nm := "?"
		if int64(f[1]) >= 0 && int(f[1]) < len(c.Names) {
			nm = c.Names[f[1]]
		}
		funcs = append(funcs, []any{f[0], nm})
	}
	c.Panic = hx.Catch(func() {
		tree.MergeTrie(nodes, funcs, st)
		c.NodesNum = tree.NodesNum
		var parents []uint64
		for k := range tree.Nodes {
			parents = append(parents, k)
		}
		sort.Slice(parents, func(i, j int) bool { return parents[i] < parents[j] })
		for _, k := range parents {
			e := TEntry{Parent: k}
			for _, n := range tree.Nodes[k] {
				e.Ch = append(e.Ch, TNode{F: n.FnID, I: n.NodeID, S: n.Self[0], T: n.Total[0]})
			}
			c.Tree = append(c.Tree, e)
		}
		for _, n := range tree.Names {
			c.TNames = append(c.TNames, nameTok(c, n))
		}
		var ks []uint64
		for k := range tree.NamesMap {
			ks = append(ks, k)
		}
		sort.Slice(ks, func(i, j int) bool { return ks[i] < ks[j] })
		for _, k := range ks {
			c.TMap = append(c.TMap, [2]uint64{k, uint64(tree.NamesMap[k])})
		}
		c.Total = tree.Total()
		c.MaxSelf = tree.MaxSelf()
		done := make(chan struct{})
		go func() {
			defer close(done)
			p := hx.Catch(func() {
				for _, l := range tree.BFS(st) {
					c.Levels = append(c.Levels, append([]int64{}, l.Values...))
				}
			})
			if p != "" {
				c.Panic = "BFS: " + p
			}
		}()
		select {
		case <-done:
		case <-time.After(60 * time.Second):
			c.Panic = "BFS: timeout"
		}
	})
}

func fillFnh(c *Case) {
	c.Fnh = nil
	for _, n := range c.Names {
		c.Fnh = append(c.Fnh, city.CH64([]byte(n)))
	}
}

func run(c *Case) {
	switch c.Kind {
	case "hash":
		buf := make([]byte, 16)
		binary.LittleEndian.PutUint64(buf[0:8], c.HA)
		binary.LittleEndian.PutUint64(buf[8:16], c.HB)
		c.HH = city.CH64(buf)
	case "rows":
		fillFnh(c)
		runMerge(c)
		runService(c)
	case "rw":
		runMergeProfiles(c)
	default:
		fillFnh(c)
		for i := range c.Profs {
			runIngest(c, &c.Profs[i])
		}
		project(c)
		runMerge(c)
		runService(c)
		runMergeProfiles(c)
	}
}

// ---------------------------------------------------------------------------- generators

var typePool = []string{"cpu nanoseconds", "samples count", "alloc_objects count", "alloc_space bytes", "inuse_space bytes"}

func genValue(r *rand.Rand, style int) int64 {
	switch style {
	case 0:
		return int64(1 + r.Intn(20))
	case 1:
		return int64(r.Intn(1000000))
	case 2: // mixed sign
		return int64(r.Intn(41) - 20)
	case 3: // huge: int64 wrap-around on accumulation
		return int64(1)<<62 + int64(r.Intn(1000))
	default:
		return 0
	}
}

func genStack(r *rand.Rand, class string, alpha int, noline bool) []int {
	var d int
	switch class {
	case "tiny":
		d = 1 + r.Intn(3)
	case "shared", "recursive":
		d = 1 + r.Intn(8)
	case "wide":
		d = 1 + r.Intn(6)
	case "deep":
		d = 512 + r.Intn(109) // 512..620 frames: deeper than the 511 levels a node id can carry (the corpus has 520 and 600)
	default:
		d = 1 + r.Intn(5)
	}
	st := make([]int, d)
	for i := range st {
		if class == "recursive" && i > 0 && r.Intn(2) == 0 {
			st[i] = st[i-1]
		} else if class == "deep" {
			if i > 0 && r.Intn(3) == 0 {
				st[i] = st[i-1] // runaway recursion: the same frame again
			} else {
				st[i] = 1 + (i+r.Intn(2))%alpha
			}
		} else {
			st[i] = 1 + r.Intn(alpha)
		}
		if noline && r.Intn(4) == 0 {
			st[i] = -1
		}
	}
	return st
}

func genProf(r *rand.Rand, c *Case, class string, st []int) Prof {
	p := Prof{St: st}
	switch r.Intn(3) {
	case 0:
		p.Path = "bin"
	case 1:
		p.Path = "bingz"
	default:
		p.Path = "mp"
	}
	alpha := len(c.Names) - 1
	ns := 0
	switch class {
	case "tiny":
		ns = 1 + r.Intn(3)
	case "shared", "recursive":
		ns = 3 + r.Intn(22)
	case "wide":
		ns = 50 + r.Intn(150)
		if alpha > 4 {
			alpha = 4
		}
	case "deep":
		ns = 1 + r.Intn(2)
		p.Path = "bin"
	case "nosamples":
		ns = 0
	default:
		ns = 1 + r.Intn(10)
	}
	noline := r.Intn(5) == 0
	p.Inl = r.Intn(5) == 0
	style := 0
	switch r.Intn(10) {
	case 0:
		style = 2
	case 1:
		style = 3
	case 2, 3:
		style = 1
	}
	var proto []int
	for i := 0; i < ns; i++ {
		var stack []int
		if class == "deep" && proto != nil && r.Intn(2) == 0 {
			// share a long prefix (root side) with the first deep stack: leaf-first => common suffix
			cut := r.Intn(len(proto))
			stack = append(genStack(r, "tiny", alpha, false), proto[cut:]...)
		} else {
			stack = genStack(r, class, alpha, noline)
		}
		if proto == nil {
			proto = stack
		}
		if class == "emptystack" && r.Intn(2) == 0 {
			stack = []int{}
		}
		vals := make([]int64, len(st))
		for k := range vals {
			vals[k] = genValue(r, style)
			if r.Intn(12) == 0 {
				vals[k] = 0
			}
		}
		p.Samples = append(p.Samples, Sample{Stack: stack, Values: vals})
	}
	switch class {
	case "big":
		p.Pad = 1024*1024 + 10 + r.Intn(100)
		p.Path = "bin"
	case "bigtags":
		p.TagPad = 1024*1024 + 10 + r.Intn(100)
	case "bad":
		p.Bad = []string{"noperiod", "trunc", "garbage"}[r.Intn(3)]
	}
	if r.Intn(3) == 0 {
		p.Fail = 1 // the first insert of this profile's batch fails; the request is re-submitted
	}
	if p.Path == "mp" && len(buildProfile(c, &p)) > 90000 {
		p.Path = "bingz" // the multipart path rejects bodies over 100000 uncompressed bytes
	}
	return p
}

func genNames(r *rand.Rand) []string {
	n := 2 + r.Intn(8)
	names := []string{"n/a"}
	for i := 0; i < n; i++ {
		switch r.Intn(12) {
		case 0:
			names = append(names, fmt.Sprintf("pkg/%d.(*T).méthode", i))
		case 1:
			if tokOf(names, "") < 0 {
				names = append(names, "")
				continue
			}
			fallthrough
		default:
			names = append(names, fmt.Sprintf("main.f%d", i))
		}
	}
	return names
}

func genE2E(r *rand.Rand, id int) Case {
	return genE2EClass(r, id, "")
}

func genE2EClass(r *rand.Rand, id int, force string) Case {
	c := Case{ID: id, Kind: "e2e", Names: genNames(r), Types: typePool, Perm: r.Int63()}
	classes := []string{"tiny", "shared", "shared", "recursive", "wide", "deep", "emptystack", "nosamples", "mixed", "mixed", "mixed", "big", "bigtags", "bad"}
	weights := []int{6, 10, 10, 8, 2, 1, 3, 1, 8, 8, 8, 1, 1, 2}
	tot := 0
	for _, w := range weights {
		tot += w
	}
	pick := func() string {
		x := r.Intn(tot)
		for i, w := range weights {
			if x < w {
				return classes[i]
			}
			x -= w
		}
		return "mixed"
	}
	cls := pick()
	if cls == "deep" && r.Intn(3) != 0 {
		cls = "recursive" // deep stacks are expensive to evaluate inside Coq: the random ones stay rare ...
	}
	if force != "" {
		cls = force // ... and a fixed share of the cases is deep (see main)
	}
	nt := 1 + r.Intn(4)
	st := r.Perm(5)[:nt]
	if r.Intn(10) == 0 && nt >= 2 && cls != "big" {
		st[nt-1] = st[0] // the same "type:unit" string twice in one profile: arrayFirst picks the first
	}
	np := 1
	switch r.Intn(6) {
	case 0, 1:
		np = 2
	case 2:
		np = 3
	case 3:
		np = 1 + r.Intn(5)
	}
	if cls == "big" {
		np = 1 // the padded type string is this profile's alone
	}
	c.Class = cls
	for i := 0; i < np; i++ {
		pst := st
		pc := cls
		if i > 0 {
			if cls == "big" || cls == "bigtags" || cls == "deep" || cls == "wide" {
				pc = "shared"
			}
			if r.Intn(8) == 0 { // a profile with other sample types: contributes zero-valued nodes or nothing selected
				pst = r.Perm(5)[:1+r.Intn(3)]
			}
		}
		c.Profs = append(c.Profs, genProf(r, &c, pc, pst))
	}
	c.Sel = st[r.Intn(len(st))]
	if r.Intn(2) == 0 {
		c.Mode = "grouped"
	} else {
		c.Mode = "raw"
	}
	return c
}

// repeated profiles: the same profile stored twice or more (an idle service scraped twice, a push re-sent by the agent after
// a timeout, two replicas with the same stacks and counts): A,A / A,B,A / A,A,A ...  The stored trees of the copies are
// identical, so a statement that reads the stored profiles as a SET (SELECT DISTINCT in the raw select) loses their weight.
// Drawn from an own stream so that the main stream stays what it was; path and failed inserts of a copy are its own.
func addRepeats(r *rand.Rand, c *Case) {
	if c.Kind != "e2e" || len(c.Profs) == 0 || len(c.Profs) > 4 || r.Intn(4) != 0 {
		return
	}
	switch c.Class {
	case "big", "bigtags", "deep", "wide", "bad", "nosamples":
		return
	}
	added := 0
	for j := 1 + r.Intn(2); j > 0; j-- {
		src := c.Profs[r.Intn(len(c.Profs))]
		if len(src.Samples) == 0 || len(src.Samples) > 30 {
			continue
		}
		cp := Prof{Path: []string{"bin", "bingz", "mp"}[r.Intn(3)], St: src.St, Pad: src.Pad, TagPad: src.TagPad, Inl: src.Inl, Bad: src.Bad,
			Samples: append([]Sample{}, src.Samples...)}
		if r.Intn(3) == 0 {
			cp.Fail = 1
		}
		pos := r.Intn(len(c.Profs) + 1)
		c.Profs = append(c.Profs, Prof{})
		copy(c.Profs[pos+1:], c.Profs[pos:])
		c.Profs[pos] = cp
		added++
	}
	if added > 0 {
		c.Class += "+repeat"
	}
}

// synthetic rows for the reader alone: well-formed trees, and adversarial ones (same node id under two
// parents, cycles, the same function twice under one parent, negative values, dangling parents)
func genRows(r *rand.Rand, id int) Case {
	c := Case{ID: id, Kind: "rows", Names: genNames(r), Types: typePool, Mode: "raw"}
	adv := r.Intn(3) == 0
	c.Class = "rows-tree"
	if adv {
		c.Class = "rows-adversarial"
	}
	n := 1 + r.Intn(14)
	ids := []uint64{0}
	type nd struct {
		p, f, i uint64
		kids    []int
		self    int64
	}
	var nds []nd
	for k := 0; k < n; k++ {
		pidx := r.Intn(len(ids))
		nid := uint64(1000 + k)
		f := uint64(1 + r.Intn(len(c.Names)-1))
		nds = append(nds, nd{p: ids[pidx], f: 7000 + f, i: nid, self: int64(r.Intn(6))})
		if pidx > 0 {
			nds[pidx-1].kids = append(nds[pidx-1].kids, k)
		}
		ids = append(ids, nid)
	}
	// totals bottom-up (children have larger indexes)
	tot := make([]int64, n)
	for k := n - 1; k >= 0; k-- {
		tot[k] = nds[k].self
		for _, ch := range nds[k].kids {
			tot[k] += tot[ch]
		}
	}
	for k := range nds {
		// split every node's weight over 1..3 rows (as several profiles would)
		parts := 1 + r.Intn(3)
		s, t := nds[k].self, tot[k]
		for j := 0; j < parts; j++ {
			ps, pt := s, t
			if j < parts-1 {
				ps = int64(r.Intn(int(s) + 1))
				pt = ps + int64(r.Intn(int(t-s)+1))
			}
			c.MRows = append(c.MRows, MRow{P: nds[k].p, F: nds[k].f, I: nds[k].i, S: ps, T: pt})
			s -= ps
			t -= pt
		}
	}
	for k := 1; k < len(c.Names); k++ {
		c.MFuncs = append(c.MFuncs, [2]uint64{uint64(7000 + k), uint64(k)})
	}
	if r.Intn(4) == 0 {
		c.MFuncs = append(c.MFuncs, c.MFuncs[0], [2]uint64{c.MFuncs[0][0], 0})
	}
	if adv && len(c.MRows) > 0 {
		for j := 0; j < 1+r.Intn(3); j++ {
			m := c.MRows[r.Intn(len(c.MRows))]
			switch r.Intn(6) {
			case 0: // same node id under another parent
				m.P = ids[r.Intn(len(ids))]
			case 1: // same function, other node id, same parent
				m.I = uint64(5000 + r.Intn(3))
			case 2: // negative values
				m.S, m.T = -m.S-1, -m.T-1
			case 3: // dangling parent
				m.P = uint64(900 + r.Intn(3))
			case 4: // cycle: a node becomes a child of one of its descendants / itself
				m.P = m.I
			case 5: // same node id, other function
				m.F = 7000 + uint64(1+r.Intn(len(c.Names)-1))
			}
			c.MRows = append(c.MRows, m)
		}
	}
	r.Shuffle(len(c.MRows), func(i, j int) { c.MRows[i], c.MRows[j] = c.MRows[j], c.MRows[i] })
	return c
}

func genHash(r *rand.Rand, id int) Case {
	c := Case{ID: id, Kind: "hash", Class: "hash"}
	switch r.Intn(4) {
	case 0:
		c.HA, c.HB = 0, r.Uint64()
	case 1:
		c.HA, c.HB = r.Uint64(), uint64(r.Intn(4))
	default:
		c.HA, c.HB = r.Uint64(), r.Uint64()
	}
	return c
}

func main() {
	f := hx.ParseFlags()
	out := hx.OpenOut(f.Out)
	defer out.Close()
	if f.Cases != "" {
		hx.ReadLines(f.Cases, func(b []byte) {
			var c Case
			if err := json.Unmarshal(b, &c); err != nil {
				panic(err)
			}
			run(&c)
			out.Put(c)
		})
		return
	}
	r := hx.Rand(f.Seed)
	r3 := hx.Rand(f.Seed ^ 0x2545f491)
	for i := 0; i < f.N; i++ {
		var c Case
		switch {
		case i%150 == 3:
			c = genE2EClass(r, i, "deep") // a fixed share of the cases: stacks of 512..620 frames
		case i%10 == 9:
			c = genHash(r, i)
		case i%10 >= 6:
			c = genRows(r, i)
		default:
			c = genE2E(r, i)
			addRepeats(r3, &c)
		}
		run(&c)
		out.Put(c)
	}
	// kind rw: an own stream derived from the same seed (the stream above stays what it was), a fifth of the run
	r2 := hx.Rand(f.Seed ^ 0x5bd1e995)
	for i := 0; i < f.N/5; i++ {
		c := genRW(r2, f.N+i)
		run(&c)
		out.Put(c)
	}
}
