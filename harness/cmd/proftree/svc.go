package main

// The read path as the service runs it (property C16, second session):
//
//	reader/service.ProfService.MergeStackTraces   PlanMergeTraces -> SQL text -> queryCols/Scan -> getTree -> MergeTrie -> BFS/Total/MaxSelf
//	reader/service.ProfService.RenderDiff         two getTree calls -> assertPositive -> synchronizeNames -> mergeNodes -> computeFlameGraphDiff
//	                                              -> diffToFlameBearer
//
// over a scripted database/sql driver: what ClickHouse would answer is computed by the harness from the rows the
// writer stored (the time window is read out of the statement), every statement text is recorded and judged by
// the check (parsed into the statement model of coq/model/ProfSql.v, whose evaluation on the stored rows must
// give the rows handed to the service).  Profile i of a case is stored at timestamp i seconds.

import (
	"context"
	"database/sql"
	"database/sql/driver"
	"errors"
	"io"
	"regexp"
	"sort"
	"strconv"
	"strings"
	"sync"
	"time"

	clbase "github.com/metrico/cloki-config/config"
	rmodel "github.com/metrico/qryn/reader/model"
	rsvc "github.com/metrico/qryn/reader/service"
	"verif/harness/hx"
)

type answerFn func(from, to int64) ([]MRow, [][2]uint64)

var (
	svcMtx      sync.Mutex
	svcAnswer   answerFn
	svcNames    []string
	svcSQL      []string
	svcOther    []string
	svcPayloads [][]byte
)

type sdrv struct{}
type sconn struct{}
type srows struct {
	cols int
	rows [][]driver.Value
	i    int
}

func (sdrv) Open(string) (driver.Conn, error) { return &sconn{}, nil }
func (*sconn) Prepare(string) (driver.Stmt, error) {
	return nil, errors.New("prepare not supported by the scripted driver")
}
func (*sconn) Close() error                             { return nil }
func (*sconn) Begin() (driver.Tx, error)                { return nil, errors.New("no tx") }
func (*sconn) CheckNamedValue(*driver.NamedValue) error { return nil }

var reFrom = regexp.MustCompile(`\(timestamp_ns\) >=? \((-?\d+)\)`)
var reTo = regexp.MustCompile(`\(timestamp_ns\) <=? \((-?\d+)\)`)

func (*sconn) QueryContext(ctx context.Context, q string, args []driver.NamedValue) (driver.Rows, error) {
	svcMtx.Lock()
	defer svcMtx.Unlock()
	if strings.Contains(q, "groupArray(tree)") && svcAnswer != nil {
		svcSQL = append(svcSQL, q)
		var from, to int64
		if m := reFrom.FindStringSubmatch(q); m != nil {
			from, _ = strconv.ParseInt(m[1], 10, 64)
		}
		if m := reTo.FindStringSubmatch(q); m != nil {
			to, _ = strconv.ParseInt(m[1], 10, 64)
		}
		rows, funcs := svcAnswer(from, to)
		tree := make([][]any, 0, len(rows))
		for _, m := range rows {
			tree = append(tree, []any{m.P, m.F, m.I, m.S, m.T})
		}
		fs := make([][]any, 0, len(funcs))
		for _, f := range funcs {
			nm := "?"
			if int64(f[1]) >= 0 && int(f[1]) < len(svcNames) {
				nm = svcNames[f[1]]
			}
			fs = append(fs, []any{f[0], nm})
		}
		return &srows{cols: 2, rows: [][]driver.Value{{tree, fs}}}, nil
	}
	if strings.Contains(q, "SELECT payload FROM") && svcPayloads != nil {
		svcSQL = append(svcSQL, q)
		var rows [][]driver.Value
		for _, b := range svcPayloads {
			rows = append(rows, []driver.Value{b})
		}
		return &srows{cols: 1, rows: rows}, nil
	}
	svcOther = append(svcOther, q)
	if strings.Contains(q, "type='update'") {
		return &srows{cols: 2}, nil
	}
	return &srows{cols: 1}, nil
}
func (*sconn) ExecContext(ctx context.Context, q string, args []driver.NamedValue) (driver.Result, error) {
	return driver.RowsAffected(0), nil
}
func (r *srows) Columns() []string {
	res := make([]string, r.cols)
	for i := range res {
		res[i] = "c" + string(rune('a'+i%26))
	}
	return res
}
func (r *srows) Close() error { return nil }
func (r *srows) Next(dest []driver.Value) error {
	if r.i >= len(r.rows) {
		return io.EOF
	}
	row := r.rows[r.i]
	r.i++
	for i := range dest {
		if i < len(row) {
			dest[i] = row[i]
		} else {
			dest[i] = nil
		}
	}
	return nil
}

type sfakeDB struct{ db *sql.DB }

func (f *sfakeDB) GetName() string { return "verif" }
func (f *sfakeDB) QueryCtx(ctx context.Context, query string, args ...any) (*sql.Rows, error) {
	return f.db.QueryContext(ctx, query, args...)
}
func (f *sfakeDB) ExecCtx(ctx context.Context, query string, args ...any) error {
	_, err := f.db.ExecContext(ctx, query, args...)
	return err
}
func (f *sfakeDB) Conn(ctx context.Context) (*sql.Conn, error) { return f.db.Conn(ctx) }
func (f *sfakeDB) Begin() (*sql.Tx, error)                     { return f.db.Begin() }
func (f *sfakeDB) Close()                                      {}

type sregistry struct{ m *rmodel.DataDatabasesMap }

func (r *sregistry) GetDB(ctx context.Context) (*rmodel.DataDatabasesMap, error) { return r.m, nil }
func (r *sregistry) Run()                                                        {}
func (r *sregistry) Stop()                                                       {}
func (r *sregistry) Ping() error                                                 { return nil }

var theProfSvc *rsvc.ProfService

func profService() *rsvc.ProfService {
	if theProfSvc == nil {
		sql.Register("verifproftree", sdrv{})
		db, err := sql.Open("verifproftree", "")
		if err != nil {
			panic(err)
		}
		db.SetMaxOpenConns(4)
		cfg := &clbase.ClokiBaseDataBase{Name: "qryn", Node: "n1"}
		theProfSvc = &rsvc.ProfService{DataSession: &sregistry{m: &rmodel.DataDatabasesMap{Config: cfg, Session: &sfakeDB{db: db}}}}
	}
	return theProfSvc
}

// ---------------------------------------------------------------------------- what the database answers

const second = int64(1000000000)

// rows of the profiles stored in [from, to), projected on the selected type, grouped by (parent, fn, id) with wrapping
// sums, in a shuffled order, stably sorted by parent id (ORDER BY rtree.1); functions of those profiles, distinct
func answerWindow(c *Case, from, to int64, seed int64) ([]MRow, [][2]uint64) {
	var rows []MRow
	var funcs [][2]uint64
	seenF := map[[2]uint64]bool{}
	for pi := range c.Profs {
		ts := int64(pi) * second
		if ts < from || ts >= to {
			continue
		}
		p := &c.Profs[pi]
		for _, r := range p.Rows {
			m := MRow{P: r.P, F: r.F, I: r.I}
			for k := range r.V {
				if r.VN[k] == c.Sel {
					m.S, m.T = r.V[k][0], r.V[k][1]
					break
				}
			}
			rows = append(rows, m)
		}
		for _, f := range p.Funcs {
			if !seenF[f] {
				seenF[f] = true
				funcs = append(funcs, f)
			}
		}
	}
	r := hx.Rand(seed)
	r.Shuffle(len(rows), func(i, j int) { rows[i], rows[j] = rows[j], rows[i] })
	r.Shuffle(len(funcs), func(i, j int) { funcs[i], funcs[j] = funcs[j], funcs[i] })
	type key [3]uint64
	idx := map[key]int{}
	var out []MRow
	for _, m := range rows {
		k := key{m.P, m.F, m.I}
		if j, ok := idx[k]; ok {
			out[j].S += m.S
			out[j].T += m.T
			continue
		}
		idx[k] = len(out)
		out = append(out, m)
	}
	sort.SliceStable(out, func(i, j int) bool { return out[i].P < out[j].P })
	return out, funcs
}

// ---------------------------------------------------------------------------- observations

type SvcObs struct {
	SQL     string    `json:"sql"`
	Err     string    `json:"err"`
	Names   []int     `json:"names"`
	Levels  [][]int64 `json:"levels"`
	Total   int64     `json:"total"`
	MaxSelf int64     `json:"maxself"`
}

type DiffObs struct {
	Split   int         `json:"split"` // profiles [0, split) are the left side (kind rows: the first split rows)
	SQLL    string      `json:"sql_l"`
	SQLR    string      `json:"sql_r"`
	LRows   []MRow      `json:"lrows"`
	LFuncs  [][2]uint64 `json:"lfuncs"`
	RRows   []MRow      `json:"rrows"`
	RFuncs  [][2]uint64 `json:"rfuncs"`
	Err     string      `json:"err"`
	Panic   string      `json:"panic,omitempty"`
	Names   []int       `json:"names"`
	Levels  [][]int64   `json:"levels"`
	Ticks   int64       `json:"ticks"`
	MaxSelf int64       `json:"maxself"`
	Left    int64       `json:"left"`
	Right   int64       `json:"right"`
	Format  string      `json:"format"`
	Skipped bool        `json:"skipped,omitempty"`
}

func typeID(c *Case) string {
	parts := strings.SplitN(c.Types[c.Sel%len(c.Types)], " ", 2)
	return "process_cpu:" + parts[0] + ":" + parts[1] + ":cpu:nanoseconds"
}

func withTimeout(f func()) string {
	done := make(chan string, 1)
	go func() { done <- hx.Catch(f) }()
	select {
	case p := <-done:
		return p
	case <-time.After(60 * time.Second):
		return "timeout"
	}
}

func runService(c *Case) {
	ps := profService()
	n := int64(len(c.Profs))
	if c.Kind == "rows" {
		n = 2
	}
	svcMtx.Lock()
	svcNames = c.Names
	svcSQL, svcOther = nil, nil
	// the whole window: exactly the rows (and their order) that were fed to MergeTrie directly
	svcAnswer = func(from, to int64) ([]MRow, [][2]uint64) { return c.MRows, c.MFuncs }
	svcMtx.Unlock()
	o := &SvcObs{}
	p := withTimeout(func() {
		res, err := ps.MergeStackTraces(context.Background(), "{}", typeID(c), time.Unix(0, 0).UTC(), time.Unix(n+1, 0).UTC())
		if err != nil {
			o.Err = err.Error()
			return
		}
		fg := res.Flamegraph
		for _, nm := range fg.Names {
			o.Names = append(o.Names, nameTok(c, nm))
		}
		for _, l := range fg.Levels {
			o.Levels = append(o.Levels, append([]int64{}, l.Values...))
		}
		o.Total, o.MaxSelf = fg.Total, fg.MaxSelf
	})
	if p != "" {
		o.Err = "panic: " + p
	}
	svcMtx.Lock()
	if len(svcSQL) == 1 {
		o.SQL = svcSQL[0]
	} else {
		o.Err += " [" + strconv.Itoa(len(svcSQL)) + " tree statements]"
	}
	svcMtx.Unlock()
	c.Svc = o

	// the diff view: left = profiles [0, split), right = the rest
	if c.Class == "rows-adversarial" {
		// computeFlameGraphDiff has no guard against cyclic Nodes maps (BFS has one): synthetic cyclic rows, which no
		// stored tree can produce, would make it loop forever
		c.Diff = &DiffObs{Skipped: true}
		return
	}
	d := &DiffObs{}
	r := hx.Rand(c.Perm ^ 0x5eed)
	if c.Kind == "rows" {
		d.Split = 0
		if len(c.MRows) > 0 {
			d.Split = r.Intn(len(c.MRows) + 1)
		}
	} else {
		d.Split = r.Intn(len(c.Profs) + 1)
	}
	seedL, seedR := r.Int63(), r.Int63()
	svcMtx.Lock()
	svcSQL = nil
	calls := 0
	svcAnswer = func(from, to int64) ([]MRow, [][2]uint64) {
		var rows []MRow
		var funcs [][2]uint64
		left := calls == 0 // RenderDiff asks for the left tree first
		calls++
		switch {
		case c.Kind == "rows" && left: // synthetic rows carry no timestamp: the left side gets the first split rows
			rows, funcs = append(rows, c.MRows[:d.Split]...), c.MFuncs
		case c.Kind == "rows":
			rows, funcs = append(rows, c.MRows[d.Split:]...), c.MFuncs
		case left:
			rows, funcs = answerWindow(c, from, to, seedL)
		default:
			rows, funcs = answerWindow(c, from, to, seedR)
		}
		if left {
			d.LRows, d.LFuncs = rows, funcs
		} else {
			d.RRows, d.RFuncs = rows, funcs
		}
		return rows, funcs
	}
	svcMtx.Unlock()
	split := int64(d.Split)
	if c.Kind == "rows" {
		split = 1
	}
	q := typeID(c) + "{}"
	d.Panic = withTimeout(func() {
		fb, err := ps.RenderDiff(context.Background(), q, q,
			time.Unix(0, 0).UTC(), time.Unix(split, 0).UTC(), time.Unix(split, 0).UTC(), time.Unix(n+1, 0).UTC())
		if err != nil {
			d.Err = err.Error()
			return
		}
		f := fb.FlamebearerProfileV1
		for _, nm := range f.Flamebearer.Names {
			d.Names = append(d.Names, nameTok(c, nm))
		}
		for _, l := range f.Flamebearer.Levels {
			d.Levels = append(d.Levels, append([]int64{}, l...))
		}
		d.Ticks, d.MaxSelf = int64(f.Flamebearer.NumTicks), int64(f.Flamebearer.MaxSelf)
		d.Left, d.Right, d.Format = f.LeftTicks, f.RightTicks, f.Metadata.Format
	})
	svcMtx.Lock()
	if len(svcSQL) == 2 {
		d.SQLL, d.SQLR = svcSQL[0], svcSQL[1]
	} else if d.Err == "" {
		d.Err = "[" + strconv.Itoa(len(svcSQL)) + " tree statements]"
	}
	svcAnswer = nil
	svcMtx.Unlock()
	c.Diff = d
}

// ---------------------------------------------------------------------------- MergeProfiles (pprof payload merge, profMerge_v2)

type MPSample struct {
	Stack  []int   `json:"stack"` // name tokens, leaf first; -1 = location without line
	Values []int64 `json:"values"`
	Labels int     `json:"labels"`
}
type MPObs struct {
	SQL      string     `json:"sql"`
	Err      string     `json:"err"`
	Panic    string     `json:"panic,omitempty"`
	N        int        `json:"n"` // payloads handed over
	Types    []string   `json:"types"`
	TypeToks []int      `json:"typetoks"` // tokens (into Case.Types) of the merged profile's sample types, -1 = unknown string
	Samples  []MPSample `json:"samples"`
}

func runMergeProfiles(c *Case) {
	ps := profService()
	o := &MPObs{}
	var payloads [][]byte
	for i := range c.Profs {
		if c.Profs[i].payload != nil {
			payloads = append(payloads, c.Profs[i].payload)
		}
	}
	payloads = append(payloads, c.RWPayloads...)
	o.N = len(payloads)
	strs := newStrTable()
	c.RWIn, c.RWOut = dumpPayloads(strs, payloads), nil
	svcMtx.Lock()
	svcSQL = nil
	svcPayloads = payloads
	if svcPayloads == nil {
		svcPayloads = [][]byte{}
	}
	svcMtx.Unlock()
	o.Panic = withTimeout(func() {
		p, err := ps.MergeProfiles(context.Background(), "{}", typeID(c), time.Unix(0, 0).UTC(), time.Unix(int64(len(c.Profs))+1, 0).UTC())
		if err != nil {
			o.Err = err.Error()
			return
		}
		str := func(i int64) string {
			if i >= 0 && int(i) < len(p.StringTable) {
				return p.StringTable[i]
			}
			return "?"
		}
		c.RWOut = dumpProfile(strs, p)
		for _, st := range p.SampleType {
			name := str(st.Type) + ":" + str(st.Unit)
			o.Types = append(o.Types, name)
			tok := -1
			for i, ty := range c.Types {
				parts := strings.SplitN(ty, " ", 2)
				if strings.TrimLeft(name, "x") == parts[0]+":"+parts[1] { // the big class pads a type name with x
					tok = i
				}
			}
			o.TypeToks = append(o.TypeToks, tok)
		}
		fn := map[uint64]string{}
		for _, f := range p.Function {
			fn[f.Id] = str(f.Name)
		}
		loc := map[uint64]int{}
		for _, l := range p.Location {
			if len(l.Line) == 0 {
				loc[l.Id] = -1
			} else {
				loc[l.Id] = nameTok(c, fn[l.Line[0].FunctionId])
			}
		}
		for _, s := range p.Sample {
			ms := MPSample{Values: append([]int64{}, s.Value...), Labels: len(s.Label)}
			for _, l := range s.LocationId {
				t, ok := loc[l]
				if !ok {
					t = -3
				}
				ms.Stack = append(ms.Stack, t)
			}
			o.Samples = append(o.Samples, ms)
		}
	})
	svcMtx.Lock()
	if len(svcSQL) > 0 {
		o.SQL = svcSQL[0]
	}
	svcPayloads = nil
	svcMtx.Unlock()
	c.MP = o
}
