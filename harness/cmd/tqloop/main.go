// tqloop drives the REAL portion loop of a TraceQL search,
// reader/traceql/transpiler/complex_request_processor.go ComplexRequestProcessor.Process
// (-> ProcessComplexReqIteration -> TraceQLRequestProcessor.Process -> ctx.CHDb.QueryCtx once per
// portion), against a scripted back-end (db.go) and prints, per case, what every statement asked
// for (portion filter, cached ids, window bounds, LIMIT), what the back-end answered, and the final
// answer read from the channel Process returns.
//
// Construction of the processor (default, the production route of service.SearchTraceQL):
//
//	script  := traceql_parser.Parse(`{.a = "b"}`)
//	planner := traceql_transpiler.Plan(script)          // *TraceQLComplexityEvaluator[model.TraceInfo]
//	ch, err := planner.Process(ctx)
//
// The evaluator first sends the complexity-estimate statement (`... SELECT _count as _count FROM
// pre_final`); the scripted back-end answers it with ONE row = portions * COMPLEXITY_THRESHOLD, so
// that ProcessComplexReq(ctx, complexity) calls complexRequestProcessor.SetMain(initSqlPlanner) and
// then ComplexRequestProcessor.Process(ctx, complexity) with exactly `portions` iterations
// (complexity >= COMPLEXITY_THRESHOLD also for portions = 1, so the complex route is always taken).
// The estimate statement is not listed in "steps".
//
// With --direct the harness builds the same thing by hand instead (no estimate statement):
//
//	p := &traceql_transpiler.ComplexRequestProcessor{}
//	p.SetMain(clickhouse_transpiler.Plan(script)); p.Process(ctx, portions*COMPLEXITY_THRESHOLD)
//
// Both routes give the same steps / final (the estimate planner is a separate planner object).
package main

import (
	"context"
	"encoding/json"
	"flag"
	"fmt"
	"math/rand"
	"os"
	"sort"
	"time"

	"github.com/metrico/qryn/reader/logql/logql_transpiler_v2/shared"
	"github.com/metrico/qryn/reader/model"
	traceql_parser "github.com/metrico/qryn/reader/traceql/parser"
	traceql_transpiler "github.com/metrico/qryn/reader/traceql/transpiler"
	"github.com/metrico/qryn/reader/traceql/transpiler/clickhouse_transpiler"
	"verif/harness/hx"
)

const query = `{.a = "b"}`

type Trace struct {
	N    int    `json:"n"`
	ID   string `json:"id"`
	Key  int64  `json:"key"`
	Part int    `json:"part"`
}

type Step struct {
	Max            int   `json:"max"`
	I              int   `json:"i"`
	Cached         []int `json:"cached"`
	From           int64 `json:"from"`
	To             int64 `json:"to"`
	FromConsistent bool  `json:"from_consistent"`
	SQLLimit       int64 `json:"sqllimit"`
	Rows           []int `json:"rows"`
}

type Case struct {
	ID       int     `json:"id"`
	Limit    int64   `json:"limit"`
	Portions int     `json:"portions"`
	From0    int64   `json:"from0"`
	To       int64   `json:"to"`
	All      []Trace `json:"all"`
	// seed of the PRNG that breaks the ties of the back-end's ORDER BY (one PRNG per case, consumed statement
	// after statement); generated cases draw it from the main PRNG, --cases may give it (default: id)
	Tiebreak *int64 `json:"tiebreak,omitempty"`
	// observations
	Steps         []Step `json:"steps"`
	Final         []int  `json:"final"`
	Err           string `json:"err"`
	UnknownCached int    `json:"unknown_cached"`
}

var (
	direct  = flag.Bool("direct", false, "build ComplexRequestProcessor by hand (SetMain) instead of traceql_transpiler.Plan + estimate statement")
	dumpSQL = flag.Bool("dumpsql", false, "print every statement text on stderr")
)

func run(c *Case) {
	c.Steps, c.Final, c.Err, c.UnknownCached = []Step{}, []int{}, "", 0
	if c.All == nil {
		c.All = []Trace{}
	}
	tb := int64(c.ID)
	if c.Tiebreak != nil {
		tb = *c.Tiebreak
	}
	sc := &script{
		all:        c.All,
		byID:       map[string]int{},
		estimate:   int64(c.Portions) * traceql_transpiler.COMPLEXITY_THRESHOLD,
		tie:        rand.New(rand.NewSource(tb)),
		steps:      []Step{},
		dump:       *dumpSQL,
		limitOfCtx: c.Limit,
	}
	for _, t := range c.All {
		sc.byID[t.ID] = t.N
	}
	setScript(sc)
	defer setScript(nil)

	ctx := &shared.PlannerContext{
		IsCluster: false,
		From:      time.Unix(0, c.From0),
		To:        time.Unix(0, c.To),
		Limit:     c.Limit,
		Ctx:       context.Background(),
		CHDb:      theFakeDB(),
		// tables.PopulateTableNames without a cluster
		TracesAttrsTable: "tempo_traces_attrs_gin", TracesAttrsDistTable: "tempo_traces_attrs_gin",
		TracesTable: "tempo_traces", TracesDistTable: "tempo_traces",
		TracesKVTable: "tempo_traces_kv", TracesKVDistTable: "tempo_traces_kv",
		VersionInfo: map[string]int64{},
	}

	var final []model.TraceInfo
	var err error
	p := hx.Catch(func() {
		var script *traceql_parser.TraceQLScript
		script, err = traceql_parser.Parse(query)
		if err != nil {
			return
		}
		var ch chan []model.TraceInfo
		if *direct {
			var pl shared.SQLRequestPlanner
			pl, err = clickhouse_transpiler.Plan(script)
			if err != nil {
				return
			}
			proc := &traceql_transpiler.ComplexRequestProcessor{}
			proc.SetMain(pl)
			ch, err = proc.Process(ctx, sc.estimate)
		} else {
			var proc shared.TraceRequestProcessor
			proc, err = traceql_transpiler.Plan(script)
			if err != nil {
				return
			}
			ch, err = proc.Process(ctx)
		}
		if err != nil {
			return
		}
		for part := range ch {
			final = append(final, part...)
		}
	})
	if err != nil {
		c.Err = err.Error()
	}
	if p != "" {
		c.Err = "panic: " + p
	}
	for _, t := range final {
		n, ok := sc.byID[t.TraceID]
		if !ok {
			n = -1
		}
		c.Final = append(c.Final, n)
	}
	c.Steps = sc.steps
	c.UnknownCached = sc.unknownCached
	if sc.problem != "" && c.Err == "" {
		c.Err = "harness: " + sc.problem
	}
}

// ---------------------------------------------------------------- generator
var hexDigits = "0123456789abcdef"

func traceID(r *rand.Rand) string {
	b := make([]byte, 32)
	for i := range b {
		b[i] = hexDigits[r.Intn(16)]
	}
	return string(b)
}

func gen(r *rand.Rand, id int) *Case {
	const sec = int64(1000000000)
	c := &Case{ID: id}
	c.Limit = []int64{1, 2, 3, 5, 20}[r.Intn(5)]
	c.Portions = []int{1, 2, 3, 4, 7}[r.Intn(5)]
	c.From0 = (1700000000 + r.Int63n(20000000)) * sec
	if r.Intn(4) != 0 {
		c.From0 += 1 + r.Int63n(sec-1)
	}
	c.To = c.From0 + (1000+r.Int63n(5000))*sec
	if r.Intn(3) == 0 {
		c.To += r.Int63n(sec)
	}
	// candidate key values: the window's edges, whole seconds, arbitrary instants
	firstSec := (c.From0/sec + 1) * sec
	cand := []int64{c.From0, c.From0 - 1, c.To - 1, c.To, c.From0 + 1}
	for j := 0; j < 3; j++ {
		cand = append(cand, firstSec+r.Int63n((c.To-firstSec)/sec)*sec) // whole seconds inside the window
	}
	for j := 0; j < 3; j++ {
		cand = append(cand, c.From0+1+r.Int63n(c.To-c.From0-1))
	}
	r.Shuffle(len(cand), func(i, j int) { cand[i], cand[j] = cand[j], cand[i] })
	size := 3 + r.Intn(4)
	if r.Intn(6) == 0 {
		size = 1 + r.Intn(2) // nearly everything ties
	}
	pool := []int64{}
	seen := map[int64]bool{}
	for _, v := range cand {
		if len(pool) < size && !seen[v] {
			seen[v] = true
			pool = append(pool, v)
		}
	}
	cnt := r.Intn(13)
	if r.Intn(3) == 0 { // crowded: more winners than the limit, in several portions
		cnt = 6 + r.Intn(7)
	}
	ids := map[string]bool{}
	c.All = []Trace{}
	for n := 0; n < cnt; n++ {
		tid := traceID(r)
		for ids[tid] {
			tid = traceID(r)
		}
		ids[tid] = true
		c.All = append(c.All, Trace{N: n, ID: tid, Key: pool[r.Intn(len(pool))], Part: r.Intn(c.Portions)})
	}
	tb := r.Int63n(1 << 40)
	c.Tiebreak = &tb
	return c
}

// ---------------------------------------------------------------- summary (stderr only)
type stats struct {
	cases, tiesAtCut, raised, wholeSec, inconsistent, unknown, errs, finalNotLast, steps int
}

func (s *stats) add(c *Case) {
	s.cases++
	s.steps += len(c.Steps)
	tie, raised, incons := false, false, false
	for _, st := range c.Steps {
		if st.From != c.From0 {
			raised = true
		}
		if !st.FromConsistent {
			incons = true
		}
		// the visible set of this statement, keys descending: is the cut inside a group of equal keys?
		cached := map[int]bool{}
		for _, n := range st.Cached {
			cached[n] = true
		}
		var keys []int64
		for _, t := range c.All {
			if (st.Max == 0 || t.Part == st.I || cached[t.N]) && st.From <= t.Key && t.Key < st.To {
				keys = append(keys, t.Key)
			}
		}
		sort.Slice(keys, func(i, j int) bool { return keys[i] > keys[j] })
		k := int(st.SQLLimit)
		if k > 0 && len(keys) > k && keys[k-1] == keys[k] {
			tie = true
		}
	}
	whole := false
	for _, t := range c.All {
		if t.Key%1000000000 == 0 && c.From0 <= t.Key && t.Key < c.To {
			whole = true
		}
	}
	b := func(x bool, p *int) {
		if x {
			*p++
		}
	}
	b(tie, &s.tiesAtCut)
	b(raised, &s.raised)
	b(whole, &s.wholeSec)
	b(incons, &s.inconsistent)
	b(c.UnknownCached > 0, &s.unknown)
	b(c.Err != "", &s.errs)
	if len(c.Steps) > 0 {
		b(fmt.Sprint(c.Steps[len(c.Steps)-1].Rows) != fmt.Sprint(c.Final), &s.finalNotLast)
	}
}

func main() {
	f := hx.ParseFlags()
	out := hx.OpenOut(f.Out)
	defer out.Close()
	st := &stats{}
	if f.Cases != "" {
		hx.ReadLines(f.Cases, func(line []byte) {
			c := &Case{}
			if err := json.Unmarshal(line, c); err != nil {
				panic(err)
			}
			run(c)
			st.add(c)
			out.Put(c)
		})
	} else {
		r := hx.Rand(f.Seed)
		for i := 0; i < f.N; i++ {
			c := gen(r, i)
			run(c)
			st.add(c)
			out.Put(c)
		}
	}
	fmt.Fprintf(os.Stderr, "tqloop: %d cases, %d statements; ties at the cut: %d; lower bound raised (a portion reached `limit` winners): %d; "+
		"in-window keys that are whole seconds: %d; statements with unequal lower bounds: %d; unknown cached ids: %d; "+
		"final != rows of the last statement: %d; err: %d\n",
		st.cases, st.steps, st.tiesAtCut, st.raised, st.wholeSec, st.inconsistent, st.unknown, st.finalNotLast, st.errs)
}
