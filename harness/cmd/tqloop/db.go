package main

// Scripted database/sql driver behind a fake model.ISqlxDB (the technique of cmd/promsel, cmd/readfuzz):
// the real code receives *sql.Rows made by the real database/sql package; what ClickHouse would
// answer is computed here from the TEXT of each statement and the case's trace set.

import (
	"context"
	"database/sql"
	"database/sql/driver"
	"errors"
	"fmt"
	"io"
	"math/rand"
	"os"
	"regexp"
	"sort"
	"strconv"
	"strings"
	"sync"
	"time"
)

type script struct {
	all        []Trace
	byID       map[string]int
	estimate   int64
	tie        *rand.Rand
	dump       bool
	limitOfCtx int64

	steps         []Step
	unknownCached int
	problem       string // a statement the parser below did not understand
}

var (
	cur    *script
	curMtx sync.Mutex
)

func setScript(s *script) {
	curMtx.Lock()
	cur = s
	curMtx.Unlock()
}

// the textual shapes (reader/utils/sql_select prints every operand of a comparison in parentheses):
//
//	((cityHash64(trace_id) % 3) == (1))                                       portion filter, no cached ids
//	(((cityHash64(trace_id) % 3) == (1)) or (trace_id IN (unhex('..'),unhex('..'))))   with cached ids
//	((traces_idx.timestamp_ns) >= (1700000000000000001)) and ((traces_idx.timestamp_ns) < (17...))
//	((traces.timestamp_ns) >= (..)) and ((traces.timestamp_ns) < (..))        twice (traces_info, outer select)
//	... ORDER BY start_time_unix_nano desc LIMIT 5                            the outer limit = the last LIMIT of the text
var (
	rePortion = regexp.MustCompile(`\(\(cityHash64\(trace_id\) % (-?\d+)\) == \((-?\d+)\)\)`)
	reUnhex   = regexp.MustCompile(`unhex\('([^']*)'\)`)
	reIdxFrom = regexp.MustCompile(`\(\(traces_idx\.timestamp_ns\) >= \((-?\d+)\)\)`)
	reIdxTo   = regexp.MustCompile(`\(\(traces_idx\.timestamp_ns\) < \((-?\d+)\)\)`)
	reAnyFrom = regexp.MustCompile(`timestamp_ns\) >= \((-?\d+)\)\)`)
	reLimit   = regexp.MustCompile(`LIMIT (\d+)`)
)

func atoi(s string) int64 {
	v, err := strconv.ParseInt(s, 10, 64)
	if err != nil {
		panic(err)
	}
	return v
}

// cachedIDs: the unhex('..') arguments of the `trace_id IN (...)` that stands next to the portion filter
func cachedIDs(q string, portionEnd int) []string {
	rest := q[portionEnd:]
	const lead = " or (trace_id IN ("
	if !strings.HasPrefix(rest, lead) {
		return nil
	}
	rest = rest[len(lead):]
	var ids []string
	seen := map[string]bool{}
	for {
		m := reUnhex.FindStringSubmatchIndex(rest)
		if m == nil || m[0] != 0 {
			break
		}
		id := rest[m[2]:m[3]]
		if !seen[id] {
			seen[id] = true
			ids = append(ids, id)
		}
		rest = rest[m[1]:]
		if strings.HasPrefix(rest, ",") {
			rest = rest[1:]
		} else {
			break
		}
	}
	return ids
}

func (s *script) answer(q string) [][]driver.Value {
	st := Step{Cached: []int{}, Rows: []int{}, FromConsistent: true}
	bad := func(f string, a ...interface{}) {
		if s.problem == "" {
			s.problem = fmt.Sprintf("statement %d: ", len(s.steps)) + fmt.Sprintf(f, a...)
		}
	}
	// portion filter (every occurrence must say the same)
	cached := []string{}
	seen := map[string]bool{}
	pm := rePortion.FindAllStringSubmatchIndex(q, -1)
	for j, m := range pm {
		mx, i := int(atoi(q[m[2]:m[3]])), int(atoi(q[m[4]:m[5]]))
		if j == 0 {
			st.Max, st.I = mx, i
		} else if mx != st.Max || i != st.I {
			bad("portion filters disagree")
		}
		for _, id := range cachedIDs(q, m[1]) {
			if !seen[id] {
				seen[id] = true
				cached = append(cached, id)
			}
		}
	}
	if len(pm) == 0 && strings.Contains(q, "cityHash64") {
		bad("cityHash64 in an unknown shape")
	}
	if n := len(reUnhex.FindAllString(q, -1)); n > 0 && len(cached) == 0 {
		bad("unhex outside the portion filter")
	}
	cachedSet := map[int]bool{}
	for _, id := range cached {
		n, ok := s.byID[id]
		if !ok {
			s.unknownCached++
			n = -1
		}
		cachedSet[n] = true
		st.Cached = append(st.Cached, n)
	}
	// window
	if m := reIdxFrom.FindStringSubmatch(q); m != nil {
		st.From = atoi(m[1])
	} else {
		bad("no lower bound on traces_idx.timestamp_ns")
	}
	if m := reIdxTo.FindStringSubmatch(q); m != nil {
		st.To = atoi(m[1])
	} else {
		bad("no upper bound on traces_idx.timestamp_ns")
	}
	for _, m := range reAnyFrom.FindAllStringSubmatch(q, -1) {
		if atoi(m[1]) != st.From {
			st.FromConsistent = false
		}
	}
	// the outer LIMIT
	if m := reLimit.FindAllStringSubmatch(q, -1); m != nil {
		st.SQLLimit = atoi(m[len(m)-1][1])
		if !strings.HasSuffix(strings.TrimSpace(q), m[len(m)-1][0]) {
			bad("the last LIMIT is not at the end of the statement")
		}
	}
	// visible traces, newest first, ties broken at random, cut to the limit
	var vis []Trace
	for _, t := range s.all {
		if (len(pm) == 0 || t.Part == st.I || cachedSet[t.N]) && st.From <= t.Key && t.Key < st.To {
			vis = append(vis, t)
		}
	}
	s.tie.Shuffle(len(vis), func(i, j int) { vis[i], vis[j] = vis[j], vis[i] })
	sort.SliceStable(vis, func(i, j int) bool { return vis[i].Key > vis[j].Key })
	if st.SQLLimit > 0 && int64(len(vis)) > st.SQLLimit {
		vis = vis[:st.SQLLimit]
	}
	rows := [][]driver.Value{}
	for _, t := range vis {
		st.Rows = append(st.Rows, t.N)
		rows = append(rows, []driver.Value{
			t.ID,                                  // lower(hex(traces.trace_id))
			[]string{fmt.Sprintf("%016x", t.N+1)}, // span ids
			[]int64{1000000 + int64(t.N)},         // durations ns
			[]int64{t.Key},                        // timestamps ns
			t.Key,                                 // start_time_unix_nano
			float64(1 + t.N),                      // duration ms
			"svc",
			fmt.Sprintf("root%d", t.N),
		})
	}
	s.steps = append(s.steps, st)
	return rows
}

type drv struct{}
type conn struct{}
type rowsT struct {
	cols int
	rows [][]driver.Value
	i    int
}

func (drv) Open(string) (driver.Conn, error) { return &conn{}, nil }
func (*conn) Prepare(string) (driver.Stmt, error) {
	return nil, errors.New("prepare not supported by the scripted driver")
}
func (*conn) Close() error                             { return nil }
func (*conn) Begin() (driver.Tx, error)                { return nil, errors.New("no tx") }
func (*conn) CheckNamedValue(*driver.NamedValue) error { return nil }
func (*conn) QueryContext(ctx context.Context, q string, args []driver.NamedValue) (driver.Rows, error) {
	curMtx.Lock()
	defer curMtx.Unlock()
	if cur == nil {
		return nil, errors.New("scripted: no case is running")
	}
	if cur.dump {
		fmt.Fprintf(os.Stderr, "SQL> %s\n", q)
	}
	if strings.Contains(q, "pre_final") { // the complexity estimate of TraceQLComplexityEvaluator.Process
		return &rowsT{cols: 1, rows: [][]driver.Value{{cur.estimate}}}, nil
	}
	return &rowsT{cols: 8, rows: cur.answer(q)}, nil
}
func (*conn) ExecContext(ctx context.Context, q string, args []driver.NamedValue) (driver.Result, error) {
	return driver.RowsAffected(0), nil
}

func (r *rowsT) Columns() []string {
	res := make([]string, r.cols)
	for i := range res {
		res[i] = "c" + string(rune('a'+i%26))
	}
	return res
}
func (r *rowsT) Close() error { return nil }
func (r *rowsT) Next(dest []driver.Value) error {
	if r.i >= len(r.rows) {
		return io.EOF
	}
	copy(dest, r.rows[r.i])
	r.i++
	return nil
}

type fakeDB struct{ db *sql.DB }

func (f *fakeDB) GetName() string { return "verif" }
func (f *fakeDB) QueryCtx(ctx context.Context, query string, args ...any) (*sql.Rows, error) {
	return f.db.QueryContext(ctx, query, args...)
}
func (f *fakeDB) ExecCtx(ctx context.Context, query string, args ...any) error {
	_, err := f.db.ExecContext(ctx, query, args...)
	return err
}
func (f *fakeDB) Conn(ctx context.Context) (*sql.Conn, error) { return f.db.Conn(ctx) }
func (f *fakeDB) Begin() (*sql.Tx, error)                     { return f.db.Begin() }
func (f *fakeDB) Close()                                      {}

var theDB *fakeDB

func theFakeDB() *fakeDB {
	if theDB == nil {
		sql.Register("veriftqloop", drv{})
		db, err := sql.Open("veriftqloop", "")
		if err != nil {
			panic(err)
		}
		db.SetMaxOpenConns(64)
		db.SetConnMaxLifetime(time.Hour)
		theDB = &fakeDB{db: db}
	}
	return theDB
}
