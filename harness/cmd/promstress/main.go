// promstress hammers the REAL writer/utils/promise from many goroutines (C01, round 5, after the seeded change C01-e: a lock-free
// fast path in Get / GetCtx that reads res / err after an atomic load of `pending`, while Done flips `pending` BEFORE it stores them --
// a Get landing between the CAS and the stores returns (0, nil): success for a failed INSERT).  model/PushHandler.v takes the completion
// of a promise as ONE step; model/PromiseHB.v + proofs/PromiseHBProofs.v prove that for the micro-step programs regenerated from
// promise.go; this program is the dynamic side: interleaving classes of Done / Get / GetCtx on one promise, each repeated many times
// behind a spinning start barrier, every result compared with the arguments of the Done that won.
//
//	pair   : one Done(v, err) racing one Get()                      (doPush: `reqPromise.Get()` vs releaseWaiting)
//	fanout : one Done racing several Get() (the in-order Get loop of doParse and the harness watchers share promises)
//	poll   : one Done racing a getter that polls GetCtx with an already cancelled context until it stops timing out
//	twice  : two Done calls with different arguments racing two Get(): both getters must see the SAME pair, one of the two (once-only CAS)
//	late   : Get after Done has returned (sequential; the fast path of a completed promise)
//
// Built twice by the check: plain (counts wrong results) and with -race (the detector reports a read of res / err that no
// happens-before edge orders after Done's write, whether or not the timing made it return a wrong value).
package main

import (
	"context"
	"errors"
	"fmt"
	"os"
	"runtime"
	"sync"
	"sync/atomic"
	"time"

	"github.com/metrico/qryn/writer/utils/promise"
	"verif/harness/hx"
)

type Bad struct {
	Round   int    `json:"round"`
	Getter  int    `json:"getter"`
	WantRes uint32 `json:"want_res"`
	WantErr string `json:"want_err"`
	GotRes  uint32 `json:"got_res"`
	GotErr  string `json:"got_err"`
	Note    string `json:"note,omitempty"`
}
type Result struct {
	ID      int    `json:"id"`
	Pattern string `json:"pattern"`
	Rounds  int    `json:"rounds"`
	Gets    int    `json:"gets"`
	Bad     int    `json:"bad"`
	First   *Bad   `json:"first_bad,omitempty"`
	Ms      int64  `json:"ms"`
	Procs   int    `json:"gomaxprocs"`
	Err     string `json:"err,omitempty"`
}

func es(e error) (s string) {
	if e == nil {
		return "<nil>"
	}
	defer func() {
		if recover() != nil {
			s = "<torn interface value: type word of the error without its data word>"
		}
	}()
	return e.Error()
}

type barrier struct{ n, arrived int32 }

func (b *barrier) wait() {
	atomic.AddInt32(&b.arrived, 1)
	for atomic.LoadInt32(&b.arrived) < b.n {
	}
}

// one round: `dones` goroutines call Done with (vals[i], errs[i]), `getters` goroutines get (mode: 0 Get, 1 poll GetCtx)
func round(dones int, getters int, mode int, base uint32, stagger int) (wantRes []uint32, wantErr []error, gotRes []uint32, gotErr []error) {
	p := promise.New[uint32]()
	wantRes = make([]uint32, dones)
	wantErr = make([]error, dones)
	for i := range wantRes {
		wantRes[i] = base + uint32(i) + 1
		wantErr[i] = fmt.Errorf("insert %d failed", wantRes[i])
	}
	gotRes = make([]uint32, getters)
	gotErr = make([]error, getters)
	bar := &barrier{n: int32(dones + getters)}
	var wg sync.WaitGroup
	cctx, cancel := context.WithCancel(context.Background())
	cancel()
	for i := 0; i < dones; i++ {
		wg.Add(1)
		go func(i int) {
			defer wg.Done()
			bar.wait()
			for k := 0; k < stagger*(i+1); k++ {
				runtime.Gosched()
			}
			p.Done(wantRes[i], wantErr[i])
		}(i)
	}
	for g := 0; g < getters; g++ {
		wg.Add(1)
		go func(g int) {
			defer wg.Done()
			bar.wait()
			if mode == 0 {
				gotRes[g], gotErr[g] = p.Get()
				return
			}
			for {
				r, e := p.GetCtx(cctx)
				if e == promise.GetContextTimeout {
					continue
				}
				gotRes[g], gotErr[g] = r, e
				return
			}
		}(g)
	}
	wg.Wait()
	return
}

func run(id int, pattern string, rounds int) Result {
	res := Result{ID: id, Pattern: pattern, Rounds: rounds, Procs: runtime.GOMAXPROCS(0)}
	t0 := time.Now()
	for r := 0; r < rounds; r++ {
		var wr, gr []uint32
		var we, ge []error
		base := uint32(r * 4)
		switch pattern {
		case "pair":
			wr, we, gr, ge = round(1, 1, 0, base, 0)
		case "fanout":
			wr, we, gr, ge = round(1, 3, 0, base, r%2)
		case "poll":
			wr, we, gr, ge = round(1, 1, 1, base, r%3)
		case "twice":
			wr, we, gr, ge = round(2, 2, 0, base, 0)
		case "late":
			p := promise.New[uint32]()
			e := errors.New("insert failed")
			p.Done(base+1, e)
			a, b := p.Get()
			wr, we, gr, ge = []uint32{base + 1}, []error{e}, []uint32{a}, []error{b}
		}
		for g := range gr {
			res.Gets++
			ok := false
			for i := range wr {
				if gr[g] == wr[i] && ge[g] == we[i] {
					ok = true
				}
			}
			note := ""
			if ok && g > 0 && (gr[g] != gr[0] || ge[g] != ge[0]) {
				ok, note = false, "two getters of one promise saw different completions"
			}
			if !ok {
				res.Bad++
				if res.First == nil {
					res.First = &Bad{Round: r, Getter: g, WantRes: wr[0], WantErr: es(we[0]), GotRes: gr[g], GotErr: es(ge[g]), Note: note}
				}
			}
		}
	}
	res.Ms = time.Since(t0).Milliseconds()
	return res
}

func main() {
	f := hx.ParseFlags()
	out := hx.OpenOut(f.Out)
	defer out.Close()
	pats := []string{"pair", "fanout", "poll", "twice", "late"}
	for i, p := range pats {
		n := f.N
		if p == "late" && n > 20000 {
			n = 20000
		}
		out.Put(run(i, p, n))
	}
	_ = os.Stdout
}
