// spandate: the day under which the real trace write path (UnmarshalOTLPV2 / UnmarshalZipkinJSONV2 -> onSpan ->
// TempoTag.MDate -> ch-go proto.ToDate) files the attribute rows of a span, with the process running in a
// given time zone (time.Local = FixedZone). Property C13 compares it with the day the reader's index date
// bounds are computed from (model: ScansProofs.attrs_stored_day).
package main

import (
	"bytes"
	"context"
	"encoding/json"
	"fmt"
	"time"

	chproto "github.com/ClickHouse/ch-go/proto"
	wmodel "github.com/metrico/qryn/writer/model"
	"github.com/metrico/qryn/writer/utils/unmarshal"
	common "go.opentelemetry.io/proto/otlp/common/v1"
	resource "go.opentelemetry.io/proto/otlp/resource/v1"
	trace "go.opentelemetry.io/proto/otlp/trace/v1"
	"google.golang.org/protobuf/proto"

	"verif/harness/hx"
)

type Case struct {
	ID     int    `json:"id"`
	Fmt    string `json:"fmt"`    // otlp | zipkin
	Offset int    `json:"offset"` // seconds east of UTC
	TsNs   int64  `json:"ts_ns"`
	Class  string `json:"class"`
	Days   []int  `json:"days"` // the Date column of every attribute row
	Err    string `json:"err,omitempty"`
}

func kv(k, v string) *common.KeyValue {
	return &common.KeyValue{Key: k, Value: &common.AnyValue{Value: &common.AnyValue_StringValue{StringValue: v}}}
}

func body(c *Case) ([]byte, unmarshal.ParsingFunction) {
	if c.Fmt == "zipkin" {
		b := fmt.Sprintf(`[{"traceId":"0123456789abcdef0123456789abcdef","id":"0123456789abcdef","name":"n","timestamp":%d,"duration":1000,`+
			`"localEndpoint":{"serviceName":"svc"},"tags":{"a":"b"}}]`, c.TsNs/1000)
		return []byte(b), unmarshal.UnmarshalZipkinJSONV2
	}
	td := &trace.TracesData{ResourceSpans: []*trace.ResourceSpans{{
		Resource: &resource.Resource{Attributes: []*common.KeyValue{kv("service.name", "svc")}},
		ScopeSpans: []*trace.ScopeSpans{{Spans: []*trace.Span{{
			TraceId: bytes.Repeat([]byte{1}, 16), SpanId: bytes.Repeat([]byte{2}, 8), Name: "n",
			StartTimeUnixNano: uint64(c.TsNs), EndTimeUnixNano: uint64(c.TsNs) + 1000, Attributes: []*common.KeyValue{kv("a", "b")}}}}},
	}}}
	b, err := proto.Marshal(td)
	if err != nil {
		panic(err)
	}
	return b, unmarshal.UnmarshalOTLPV2
}

func run(c *Case) {
	time.Local = time.FixedZone("verif", c.Offset)
	defer func() { time.Local = time.UTC }()
	c.Days = []int{}
	b, parser := body(c)
	p := hx.Catch(func() {
		for r := range parser(context.Background(), bytes.NewReader(b), nil) {
			if r.Error != nil {
				c.Err = r.Error.Error()
				continue
			}
			if t, ok := r.SpansAttrsRequest.(*wmodel.TempoTag); ok && t != nil {
				for _, d := range t.MDate {
					c.Days = append(c.Days, int(chproto.ToDate(d)))
				}
			}
		}
	})
	if p != "" {
		c.Err = "panic: " + p
	}
}

func main() {
	f := hx.ParseFlags()
	out := hx.OpenOut(f.Out)
	defer out.Close()
	if f.Cases != "" {
		// corpus / replay: explicit (format, zone, timestamp) cases
		hx.ReadLines(f.Cases, func(b []byte) {
			c := &Case{}
			if err := json.Unmarshal(b, c); err != nil {
				panic(err)
			}
			run(c)
			out.Put(c)
		})
		return
	}
	rnd := hx.Rand(f.Seed)
	offs := []int{}
	for h := -12; h <= 14; h++ {
		offs = append(offs, h*3600)
	}
	offs = append(offs, -9*3600-1800, -3*3600-1800, 5*3600+1800, 5*3600+2700, 12*3600+2700)
	id := 0
	for _, off := range offs {
		base := (int64(19700) + int64(rnd.Intn(700))) * 86400 // 2023-12 .. 2025-11
		lm := ((-int64(off))%86400 + 86400) % 86400           // local midnight, as seconds of the UTC day
		secs := []int64{0, 1, 86399, 43200, int64(rnd.Intn(86400)), lm, (lm + 86399) % 86400, (lm + 1) % 86400, (lm + 1800) % 86400, (lm + 86400 - 1800) % 86400}
		for _, s := range secs {
			for _, fm := range []string{"otlp", "zipkin"} {
				if id >= f.N {
					return
				}
				c := &Case{ID: id, Fmt: fm, Offset: off, TsNs: (base+s)*1000000000 + int64(rnd.Intn(1000))*1000, Class: "utc"}
				if off < 0 {
					c.Class = "west"
				} else if off > 0 {
					c.Class = "east"
				}
				run(c)
				out.Put(c)
				id++
			}
		}
	}
}
