// promreq: PromQL REQUESTS through the real Prometheus router (reader/router RoutePrometheusQueryRange: real
// controller, real Prometheus engine, the ONE CLokiQueriable the router creates, real CLokiQuerier.Select /
// labelsGetter) on an httptest server, several of them OVERLAPPING under a generated, fully gated interleaving;
// and single Selects whose row streams FAIL midway.
//
// ClickHouse is a scripted database/sql driver: it answers the sample statement of a request with the rows of
// the request's stored series that satisfy its matchers (Prometheus' own labels.Matcher decides; qryn code is not
// asked), the labels request from the same series, and - like a real driver - ends a row stream with the error
// of the statement's context when that context is done.  A middleware tags the context of every HTTP request with
// the request's index, so the driver sees under WHOSE context a statement runs.
//
//	kind "overlap": 2-3 requests (query_range / query over a plain selector), each with park points (inside
//	     Querier() = IDBRegistry.GetDB, before sample row k, before label row j) and a schedule = sequence of
//	     "advance request r to its next park point / to its end".  Observations: the event trace (set, querier, look =
//	     a querier of r looks at its context: whose context, is it done; end = net/http cancelled the context), per
//	     request the HTTP status and the series of the answer, and what Prometheus answers over the stored samples.
//	kind "stream":  one Select on a querier; the sample row stream or the label row stream reports a driver error
//	     after k rows (database/sql: Next() = false, Err() = the error).
package main

import (
	"context"
	"database/sql"
	"database/sql/driver"
	"encoding/json"
	"errors"
	"fmt"
	"io"
	"math"
	"math/rand"
	"net/http"
	"net/http/httptest"
	"regexp"
	"sort"
	"strconv"
	"strings"
	"sync"
	"time"

	"github.com/gorilla/mux"
	clconfig "github.com/metrico/cloki-config"
	clconfig_config "github.com/metrico/cloki-config/config"
	"github.com/metrico/qryn/reader/config"
	"github.com/metrico/qryn/reader/model"
	apirouterv1 "github.com/metrico/qryn/reader/router"
	"github.com/metrico/qryn/reader/service"
	"github.com/prometheus/prometheus/model/labels"
	"github.com/prometheus/prometheus/storage"
	"verif/harness/hx"
)

type Matcher struct {
	Name string `json:"n"`
	Op   string `json:"op"`
	Val  string `json:"v"`
}
type Series struct {
	Fp      uint64      `json:"fp"`
	Labels  [][2]string `json:"labels"`
	Samples [][2]int64  `json:"samples"` // (timestamp_ms, value), ascending
}
type Fail struct {
	Stmt string `json:"stmt"` // "samples" | "labels"
	At   int    `json:"at"`   // the stream reports a driver error instead of row At
}
type OutSeries struct {
	Labels [][2]string `json:"labels"`
	Points [][2]int64  `json:"points"` // (t_ms, value)
}
type Look struct {
	Stmt   string `json:"stmt"`
	CtxReq int    `json:"ctx_req"` // index of the request whose context the statement runs under (-1: none of them)
	Done   bool   `json:"done"`    // that context is done
}
type Req struct {
	Kind  string    `json:"kind"` // "range" | "instant"
	Ms    []Matcher `json:"ms"`   // ms[0] is __name__="req<i>"
	// a second selector on the same metric: the query is `sel1 or sel2`, two Selects on the request's ONE querier.  Each
	// selector then carries a marker matcher zz!="s1" / zz!="s2" (no series has the label) by which the driver knows them
	Ms2 []Matcher `json:"ms2,omitempty"`
	Start int64     `json:"start"`
	End   int64     `json:"end"`
	Step  int64     `json:"step"`
	DB    []Series  `json:"db"`
	Parks []string  `json:"parks"`
	Fail  *Fail     `json:"fail,omitempty"`
	// k >= 1: the CLIENT of this request goes away while the request is parked at parks[k-1] (net/http cancels the
	// request's context when it notices); 0: the client waits for the answer
	CancelAfter int `json:"cancel_after,omitempty"`
	// observations
	Cancelled bool        `json:"cancelled,omitempty"`
	Query   string      `json:"query,omitempty"`
	Status  int         `json:"status"`
	ErrMsg  string      `json:"err_msg,omitempty"`
	Got     []OutSeries `json:"got"`
	Want    []OutSeries `json:"want"`
	WantErr bool        `json:"want_err"`
	Looks   []Look      `json:"looks"`
}
type Ev struct {
	E      string `json:"e"` // set | querier | look | end
	R      int    `json:"r"`
	CtxReq int    `json:"ctx_req,omitempty"`
	Done   bool   `json:"done,omitempty"`
}
type Row struct {
	Fp  uint64 `json:"fp"`
	Val int64  `json:"val"`
	Ts  int64  `json:"ts"`
}
type LabelsRow struct {
	Fp     uint64      `json:"fp"`
	Labels [][2]string `json:"labels"`
}
type SelSeries struct {
	Fp      uint64      `json:"fp"`
	Labels  [][2]string `json:"labels"`
	Samples [][2]int64  `json:"samples"`
}
type Case struct {
	ID    int      `json:"id"`
	Kind  string   `json:"kind"`
	Class []string `json:"class"`
	// overlap
	Reqs     []Req `json:"reqs,omitempty"`
	Schedule []int `json:"schedule,omitempty"`
	Trace    []Ev  `json:"trace,omitempty"`
	// stream
	Rows      []Row       `json:"rows,omitempty"`
	Fetch     []LabelsRow `json:"fetch,omitempty"`
	CutRows   int         `json:"cut_rows"`   // -1: the sample stream ends normally
	CutLabels int         `json:"cut_labels"` // -1: the label stream ends normally
	Obs       []SelSeries `json:"obs,omitempty"`
	SelErr    string      `json:"sel_err,omitempty"`
	Err       string      `json:"err,omitempty"`
}

// ---------------------------------------------------------------- request state / gates

type reqKey struct{}

type reqState struct {
	idx     int
	parks   []string
	next    int
	reached chan string
	resume  chan struct{}
	ctx     context.Context
	started bool
	ans     chan answer
	cancel      context.CancelFunc
	handlerDone chan struct{}
	cancelled   bool
}
type answer struct {
	status int
	body   string
	err    error
}

type backend struct {
	mtx     sync.Mutex
	c       *Case
	rs      []*reqState
	trace   []Ev
	aborted bool
	abortCh chan struct{}
	// kind "stream"
	direct bool
}

var (
	cur    *backend
	curMtx sync.Mutex
)

func current() *backend {
	curMtx.Lock()
	defer curMtx.Unlock()
	return cur
}

func (b *backend) event(e Ev) {
	b.mtx.Lock()
	b.trace = append(b.trace, e)
	b.mtx.Unlock()
}

// a park point of request r: when it is the next planned one, report it and wait for the scheduler
func (b *backend) at(r int, p string) {
	if b == nil || r < 0 || r >= len(b.rs) {
		return
	}
	rs := b.rs[r]
	b.mtx.Lock()
	hit := !b.aborted && rs.next < len(rs.parks) && rs.parks[rs.next] == p
	if hit {
		rs.next++
	}
	b.mtx.Unlock()
	if !hit {
		return
	}
	rs.reached <- p
	select {
	case <-rs.resume:
	case <-b.abortCh:
	}
}

func reqOf(ctx context.Context) int {
	if v, ok := ctx.Value(reqKey{}).(int); ok {
		return v
	}
	return -1
}

// a querier of request `owner` looks at the context it runs its statements with
func (b *backend) look(owner int, stmt string, ctx context.Context) {
	l := Look{Stmt: stmt, CtxReq: reqOf(ctx), Done: ctx.Err() != nil}
	b.mtx.Lock()
	b.trace = append(b.trace, Ev{E: "look", R: owner, CtxReq: l.CtxReq, Done: l.Done})
	if owner >= 0 && owner < len(b.c.Reqs) {
		b.c.Reqs[owner].Looks = append(b.c.Reqs[owner].Looks, l)
	}
	b.mtx.Unlock()
}

// ---------------------------------------------------------------- scripted driver

type connector struct{}
type drv struct{}
type conn struct{}

func (connector) Connect(context.Context) (driver.Conn, error) { return &conn{}, nil }
func (connector) Driver() driver.Driver                        { return drv{} }
func (drv) Open(string) (driver.Conn, error)                   { return &conn{}, nil }
func (*conn) Prepare(string) (driver.Stmt, error)              { return nil, errors.New("no prepare") }
func (*conn) Close() error                                     { return nil }
func (*conn) Begin() (driver.Tx, error)                        { return nil, errors.New("no tx") }
func (*conn) CheckNamedValue(*driver.NamedValue) error         { return nil }

type rowsT struct {
	ctx    context.Context
	cols   int
	rows   [][]driver.Value
	i      int
	failAt int // -1: never
	before func(i int)
}

func (r *rowsT) Columns() []string {
	res := make([]string, r.cols)
	for i := range res {
		res[i] = "c" + string(rune('a'+i%26))
	}
	return res
}
func (r *rowsT) Close() error { return nil }
func (r *rowsT) Next(dest []driver.Value) error {
	if r.before != nil {
		r.before(r.i)
	}
	// a driver stops streaming when the context of its statement is done
	if err := r.ctx.Err(); err != nil {
		return err
	}
	if r.failAt >= 0 && r.i == r.failAt {
		return errors.New("scripted: connection to ClickHouse lost while reading rows")
	}
	if r.i >= len(r.rows) {
		return io.EOF
	}
	copy(dest, r.rows[r.i])
	r.i++
	return nil
}

var reReq = regexp.MustCompile(`'req(\d+)'`)
var reIn = regexp.MustCompile(`\(fingerprint IN \(([0-9,]*)\)\)`)

func promMatchers(ms []Matcher) []*labels.Matcher {
	var res []*labels.Matcher
	for _, m := range ms {
		t := map[string]labels.MatchType{"=": labels.MatchEqual, "!=": labels.MatchNotEqual, "=~": labels.MatchRegexp, "!~": labels.MatchNotRegexp}[m.Op]
		pm, err := labels.NewMatcher(t, m.Name, m.Val)
		if err != nil {
			panic(err)
		}
		res = append(res, pm)
	}
	return res
}

// the stored series of the request that satisfy every matcher: Prometheus' meaning (an absent label is "")
func selected(rq *Req) []Series { return selectedBy(rq, rq.Ms) }

// every stored series some selector of the request selects
func selectedAny(rq *Req) []Series {
	res := selectedBy(rq, rq.Ms)
	if rq.Ms2 == nil {
		return res
	}
	have := map[uint64]bool{}
	for _, s := range res {
		have[s.Fp] = true
	}
	for _, s := range selectedBy(rq, rq.Ms2) {
		if !have[s.Fp] {
			res = append(res, s)
		}
	}
	sort.Slice(res, func(i, j int) bool { return res[i].Fp < res[j].Fp })
	return res
}

func selectedBy(rq *Req, ms []Matcher) []Series {
	pms := promMatchers(ms)
	var res []Series
	for _, s := range rq.DB {
		ok := true
		for _, m := range pms {
			v := ""
			for _, kv := range s.Labels {
				if kv[0] == m.Name {
					v = kv[1]
				}
			}
			ok = ok && m.Matches(v)
		}
		if ok {
			res = append(res, s)
		}
	}
	sort.Slice(res, func(i, j int) bool { return res[i].Fp < res[j].Fp })
	return res
}

func (*conn) QueryContext(ctx context.Context, q string, args []driver.NamedValue) (driver.Rows, error) {
	if err := ctx.Err(); err != nil {
		b := current()
		if b != nil && !b.direct {
			// which request sent it is not always in the text (settings / SHOW TABLES): looked at under a done context
			owner := -1
			if m := reReq.FindStringSubmatch(q); m != nil {
				owner, _ = strconv.Atoi(m[1])
			} else if m := reIn.FindStringSubmatch(q); m != nil {
				if v, e := strconv.ParseUint(strings.Split(m[1], ",")[0], 10, 64); e == nil {
					owner = int(v/1000) - 1
				}
			}
			b.look(owner, "refused", ctx)
		}
		return nil, err
	}
	switch {
	case strings.Contains(q, "type='update'"):
		return &rowsT{ctx: ctx, cols: 2, failAt: -1}, nil
	case strings.Contains(q, "SHOW TABLES"):
		return &rowsT{ctx: ctx, cols: 1, failAt: -1}, nil
	}
	b := current()
	if b == nil {
		return &rowsT{ctx: ctx, cols: 1, failAt: -1}, nil
	}
	isLabels := strings.Contains(q, "JSONExtractKeysAndValues(labels")
	if b.direct {
		c := b.c
		if isLabels {
			rows := &rowsT{ctx: ctx, cols: 2, failAt: c.CutLabels}
			for _, f := range c.Fetch {
				var l [][]interface{}
				for _, kv := range f.Labels {
					l = append(l, []interface{}{kv[0], kv[1]})
				}
				rows.rows = append(rows.rows, []driver.Value{f.Fp, l})
			}
			return rows, nil
		}
		rows := &rowsT{ctx: ctx, cols: 3, failAt: c.CutRows}
		for _, r := range c.Rows {
			rows.rows = append(rows.rows, []driver.Value{r.Fp, float64(r.Val), r.Ts})
		}
		return rows, nil
	}
	if isLabels {
		m := reIn.FindStringSubmatch(q)
		if m == nil {
			return nil, fmt.Errorf("scripted: labels request without IN list: %s", q)
		}
		want := map[uint64]bool{}
		owner := -1
		for _, x := range strings.Split(m[1], ",") {
			if v, err := strconv.ParseUint(x, 10, 64); err == nil {
				want[v] = true
				owner = int(v/1000) - 1
			}
		}
		if owner < 0 || owner >= len(b.c.Reqs) {
			return nil, fmt.Errorf("scripted: labels request for unknown fingerprints: %s", q)
		}
		rq := &b.c.Reqs[owner]
		rows := &rowsT{ctx: ctx, cols: 2, failAt: -1}
		db := append([]Series(nil), rq.DB...)
		sort.Slice(db, func(i, j int) bool { return db[i].Fp < db[j].Fp })
		for _, s := range db {
			if !want[s.Fp] {
				continue
			}
			var l [][]interface{}
			for _, kv := range s.Labels {
				l = append(l, []interface{}{kv[0], kv[1]})
			}
			rows.rows = append(rows.rows, []driver.Value{s.Fp, l})
		}
		if rq.Fail != nil && rq.Fail.Stmt == "labels" {
			rows.failAt = rq.Fail.At
		}
		b.look(owner, "labels", ctx)
		rows.before = func(i int) {
			before := len(b.rs[owner].parks) - b.rs[owner].next
			b.at(owner, fmt.Sprintf("lrow:%d", i))
			if before != len(b.rs[owner].parks)-b.rs[owner].next {
				b.look(owner, "labels", ctx)
			}
		}
		return rows, nil
	}
	m := reReq.FindStringSubmatch(q)
	if m == nil {
		return nil, fmt.Errorf("scripted: statement not understood: %s", q)
	}
	owner, _ := strconv.Atoi(m[1])
	if owner < 0 || owner >= len(b.c.Reqs) {
		return nil, fmt.Errorf("scripted: statement of an unknown request: %s", q)
	}
	rq := &b.c.Reqs[owner]
	rows := &rowsT{ctx: ctx, cols: 3, failAt: -1}
	ms := rq.Ms
	if rq.Ms2 != nil && strings.Contains(q, "'s2'") {
		ms = rq.Ms2
	}
	for _, s := range selectedBy(rq, ms) {
		for _, sm := range s.Samples {
			rows.rows = append(rows.rows, []driver.Value{s.Fp, float64(sm[1]), sm[0]})
		}
	}
	if rq.Fail != nil && rq.Fail.Stmt == "samples" {
		rows.failAt = rq.Fail.At
	}
	b.look(owner, "samples", ctx)
	rows.before = func(i int) {
		before := len(b.rs[owner].parks) - b.rs[owner].next
		b.at(owner, fmt.Sprintf("srow:%d", i))
		if before != len(b.rs[owner].parks)-b.rs[owner].next {
			b.look(owner, "samples", ctx)
		}
	}
	return rows, nil
}

type session struct{ db *sql.DB }

func (s *session) GetName() string { return "verifpromreq" }
func (s *session) QueryCtx(ctx context.Context, query string, args ...any) (*sql.Rows, error) {
	return s.db.QueryContext(ctx, query, args...)
}
func (s *session) ExecCtx(ctx context.Context, query string, args ...any) error { return nil }
func (s *session) Conn(ctx context.Context) (*sql.Conn, error)                  { return s.db.Conn(ctx) }
func (s *session) Begin() (*sql.Tx, error)                                      { return s.db.Begin() }
func (s *session) Close()                                                       {}

type registry struct{ m *model.DataDatabasesMap }

// called inside CLokiQueriable.Querier(), BEFORE the querier is built from the queryable's Ctx field
func (r *registry) GetDB(ctx context.Context) (*model.DataDatabasesMap, error) {
	if b := current(); b != nil && !b.direct {
		i := reqOf(ctx)
		b.at(i, "getdb")
		if i >= 0 {
			b.event(Ev{E: "querier", R: i})
		}
	}
	return r.m, nil
}
func (r *registry) Run()        {}
func (r *registry) Stop()       {}
func (r *registry) Ping() error { return nil }

// ---------------------------------------------------------------- the server

var (
	srv *httptest.Server
	reg *registry
)

func setup() {
	config.Cloki = &clconfig.ClokiConfig{Setting: &clconfig_config.ClokiBaseSettingServer{}}
	config.Cloki.Setting.SYSTEM_SETTINGS.MetricsMaxSamples = 5000000
	reg = &registry{m: &model.DataDatabasesMap{
		Config:  &clconfig_config.ClokiBaseDataBase{Name: "qryn", Node: "n1"},
		Session: &session{db: sql.OpenDB(connector{})},
	}}
	app := mux.NewRouter()
	apirouterv1.RoutePrometheusQueryRange(app, reg, false)
	// a middleware in front of the router (as a deployment's auth / tracing layer would be): tags the request context
	h := http.HandlerFunc(func(w http.ResponseWriter, r *http.Request) {
		b := current()
		i, err := strconv.Atoi(r.Header.Get("X-Verif-Req"))
		if b == nil || err != nil || i < 0 || i >= len(b.rs) {
			app.ServeHTTP(w, r)
			return
		}
		ctx := context.WithValue(r.Context(), reqKey{}, i)
		b.mtx.Lock()
		b.rs[i].ctx = r.Context()
		b.mtx.Unlock()
		// the controller calls Storage.SetOidAndDB(ctx) before anything of this request can park
		b.event(Ev{E: "set", R: i})
		app.ServeHTTP(w, r.WithContext(ctx))
		close(b.rs[i].handlerDone)
	})
	srv = httptest.NewServer(h)
}

func get(ctx context.Context, i int, url string) answer {
	req, err := http.NewRequestWithContext(ctx, "GET", url, nil)
	if err != nil {
		return answer{err: err}
	}
	req.Header.Set("X-Verif-Req", strconv.Itoa(i))
	cl := &http.Client{Transport: &http.Transport{DisableKeepAlives: true}, Timeout: 60 * time.Second}
	resp, err := cl.Do(req)
	if err != nil {
		return answer{err: err}
	}
	defer resp.Body.Close()
	body, err := io.ReadAll(resp.Body)
	return answer{status: resp.StatusCode, body: string(body), err: err}
}

func queryText(rq *Req) string {
	if rq.Ms2 != nil {
		return selectorText(rq.Ms) + " or " + selectorText(rq.Ms2)
	}
	return selectorText(rq.Ms)
}

func selectorText(ms []Matcher) string {
	var parts []string
	for _, m := range ms[1:] {
		parts = append(parts, m.Name+m.Op+strconv.Quote(m.Val))
	}
	return ms[0].Val + "{" + strings.Join(parts, ",") + "}"
}

func urlOf(rq *Req) string {
	q := strings.NewReplacer("%", "%25", "+", "%2B", "&", "%26", "#", "%23", " ", "%20", "\"", "%22", "{", "%7B", "}", "%7D", "|", "%7C", "\\", "%5C", "^", "%5E").Replace(rq.Query)
	if rq.Kind == "instant" {
		return fmt.Sprintf("%s/api/v1/query?query=%s&time=%d", srv.URL, q, rq.End)
	}
	return fmt.Sprintf("%s/api/v1/query_range?query=%s&start=%d&end=%d&step=%d", srv.URL, q, rq.Start, rq.End, rq.Step)
}

// what Prometheus answers for a plain selector over the stored samples (every sample lies inside [start, end] and the
// window is shorter than the look-back: the value at t is the latest sample at or before t)
func want(rq *Req) []OutSeries {
	res := []OutSeries{}
	for _, s := range selectedAny(rq) {
		o := OutSeries{Labels: append([][2]string(nil), s.Labels...)}
		sort.Slice(o.Labels, func(i, j int) bool { return o.Labels[i][0] < o.Labels[j][0] })
		at := func(t int64) {
			ok := false
			var v int64
			for _, sm := range s.Samples {
				if sm[0] <= t {
					ok, v = true, sm[1]
				}
			}
			if ok {
				o.Points = append(o.Points, [2]int64{t, v})
			}
		}
		if rq.Kind == "instant" {
			at(rq.End * 1000)
		} else {
			for t := rq.Start; t <= rq.End; t += rq.Step {
				at(t * 1000)
			}
		}
		if len(o.Points) > 0 {
			res = append(res, o)
		}
	}
	sortOut(res)
	return res
}

func sortOut(l []OutSeries) {
	sort.SliceStable(l, func(i, j int) bool { return fmt.Sprint(l[i].Labels) < fmt.Sprint(l[j].Labels) })
}

func parseAnswer(rq *Req, a answer) {
	rq.Status = a.status
	rq.Got = []OutSeries{}
	if a.err != nil {
		rq.ErrMsg = "transport: " + a.err.Error()
		return
	}
	var parsed struct {
		Status string `json:"status"`
		Error  string `json:"error"`
		Data   struct {
			ResultType string `json:"resultType"`
			Result     []struct {
				Metric map[string]string `json:"metric"`
				Values [][]interface{}   `json:"values"`
				Value  []interface{}     `json:"value"`
			} `json:"result"`
		} `json:"data"`
	}
	if err := json.Unmarshal([]byte(a.body), &parsed); err != nil {
		rq.ErrMsg = "body: " + err.Error() + ": " + a.body
		return
	}
	if parsed.Status != "success" {
		rq.ErrMsg = parsed.Error
		if rq.ErrMsg == "" {
			rq.ErrMsg = a.body
		}
		return
	}
	for _, s := range parsed.Data.Result {
		o := OutSeries{Labels: [][2]string{}}
		for k, v := range s.Metric {
			o.Labels = append(o.Labels, [2]string{k, v})
		}
		sort.Slice(o.Labels, func(i, j int) bool { return o.Labels[i][0] < o.Labels[j][0] })
		vals := s.Values
		if s.Value != nil {
			vals = append(vals, s.Value)
		}
		for _, p := range vals {
			t, _ := p[0].(float64)
			vs, _ := p[1].(string)
			v, err := strconv.ParseFloat(vs, 64)
			if err != nil || v != math.Trunc(v) {
				rq.ErrMsg = "value: " + vs
			}
			o.Points = append(o.Points, [2]int64{int64(math.Round(t * 1000)), int64(v)})
		}
		rq.Got = append(rq.Got, o)
	}
	sortOut(rq.Got)
}

// ---------------------------------------------------------------- kind "overlap"

const wait = 15 * time.Second

// a request that never came back (a deadlock inside the reader): the process is not driven any further
var stuck bool

func runOverlap(c *Case) {
	c.Trace, c.Err = nil, ""
	b := &backend{c: c, abortCh: make(chan struct{})}
	for i := range c.Reqs {
		rq := &c.Reqs[i]
		rq.Looks, rq.Got, rq.Status, rq.ErrMsg, rq.Cancelled = []Look{}, []OutSeries{}, 0, "", false
		rq.Query = queryText(rq)
		rq.Want = want(rq)
		rq.WantErr = rq.Fail != nil && failReached(rq)
		b.rs = append(b.rs, &reqState{idx: i, parks: rq.Parks, reached: make(chan string, 1), resume: make(chan struct{}), ans: make(chan answer, 1),
			handlerDone: make(chan struct{})})
	}
	curMtx.Lock()
	cur = b
	curMtx.Unlock()
	finished := make([]bool, len(c.Reqs))
	for _, r := range c.Schedule {
		if r < 0 || r >= len(b.rs) || finished[r] {
			continue
		}
		rs := b.rs[r]
		if !rs.started {
			rs.started = true
			cctx, cancel := context.WithCancel(context.Background())
			rs.cancel = cancel
			defer cancel()
			go func(i int, url string) { b.rs[i].ans <- get(cctx, i, url) }(r, urlOf(&c.Reqs[r]))
		} else {
			rs.resume <- struct{}{}
		}
		var ansCh chan answer
		var doneCh chan struct{}
		if rs.cancelled {
			doneCh = rs.handlerDone // the client is gone: the request is over when its handler has returned
		} else {
			ansCh = rs.ans
		}
		select {
		case <-rs.reached:
			b.mtx.Lock()
			parkIdx := rs.next
			b.mtx.Unlock()
			if k := c.Reqs[r].CancelAfter; k >= 1 && k == parkIdx && !rs.cancelled {
				// the client goes away; net/http notices the closed connection and cancels the request's context
				rs.cancel()
				<-rs.ans
				b.mtx.Lock()
				ctx := rs.ctx
				b.mtx.Unlock()
				select {
				case <-ctx.Done():
					rs.cancelled = true
					c.Reqs[r].Cancelled = true
					c.Reqs[r].Status = -1
					b.event(Ev{E: "end", R: r})
				case <-time.After(wait):
					c.Err = fmt.Sprintf("request %d: the server did not notice that its client went away", r)
				}
			}
		case <-doneCh:
			finished[r] = true
		case a := <-ansCh:
			finished[r] = true
			parseAnswer(&c.Reqs[r], a)
			// net/http cancels the request's context when its handler has returned
			b.mtx.Lock()
			ctx := rs.ctx
			b.mtx.Unlock()
			if ctx != nil {
				select {
				case <-ctx.Done():
				case <-time.After(wait):
					c.Err = fmt.Sprintf("request %d: context not cancelled after the answer", r)
				}
			}
			b.event(Ev{E: "end", R: r})
		case <-time.After(wait):
			c.Err = fmt.Sprintf("request %d did not reach its next point", r)
			stuck = true
		}
		if c.Err != "" {
			break
		}
	}
	// let everything still parked run to its end
	b.mtx.Lock()
	b.aborted = true
	b.mtx.Unlock()
	close(b.abortCh)
	for r, rs := range b.rs {
		if rs.started && !finished[r] && rs.cancelled {
			select {
			case <-rs.handlerDone:
				if c.Err == "" {
					c.Err = fmt.Sprintf("schedule ended before request %d did", r)
				}
			case <-time.After(wait):
				c.Err = fmt.Sprintf("request %d never answered", r)
				stuck = true
			}
		} else if rs.started && !finished[r] {
			select {
			case a := <-rs.ans:
				parseAnswer(&c.Reqs[r], a)
				if c.Err == "" {
					c.Err = fmt.Sprintf("schedule ended before request %d did", r)
				}
			case <-time.After(wait):
				c.Err = fmt.Sprintf("request %d never answered", r)
				stuck = true
			}
		} else if !rs.started && c.Err == "" {
			c.Err = fmt.Sprintf("request %d never started", r)
		}
	}
	curMtx.Lock()
	cur = nil
	curMtx.Unlock()
	b.mtx.Lock()
	c.Trace = b.trace
	b.mtx.Unlock()
	classify(c)
}

// the failing row is reached when the reader reads that far (it always does: Select reads every row)
func failReached(rq *Req) bool {
	n := 0
	sel := selected(rq)
	if rq.Fail.Stmt == "samples" {
		for _, s := range sel {
			n += len(s.Samples)
		}
		return rq.Fail.At <= n
	}
	for _, s := range sel {
		if len(s.Samples) > 0 {
			n++
		}
	}
	return n > 0 && rq.Fail.At <= n
}

func addClass(c *Case, cl string) {
	for _, x := range c.Class {
		if x == cl {
			return
		}
	}
	c.Class = append(c.Class, cl)
}

// measured from the observed trace: "overtaken" = some request X was set up between the set-up of Y and Y's
// Querier() call, and X ended before Y's last look at its context (seed C17-f's interleaving)
func classify(c *Case) {
	pos := func(e string, r int, last bool) int {
		p := -1
		for i, ev := range c.Trace {
			if ev.E == e && ev.R == r {
				p = i
				if !last {
					break
				}
			}
		}
		return p
	}
	for y := range c.Reqs {
		for x := range c.Reqs {
			if x == y {
				continue
			}
			sy, qy, ly := pos("set", y, false), pos("querier", y, false), pos("look", y, true)
			sx, ex := pos("set", x, false), pos("end", x, false)
			if sy >= 0 && qy >= 0 && sx > sy && sx < qy {
				addClass(c, "set-up-between-set-and-querier")
				if ex >= 0 && ex < ly {
					addClass(c, "overtaken")
					// X ended while Y was inside its label rows (before the fix of round 6: the silent case, a series under {})
					lastBefore := ""
					for _, l := range c.Reqs[y].Looks {
						lastBefore = l.Stmt
					}
					if n := len(c.Reqs[y].Looks); n >= 2 && lastBefore == "labels" && c.Reqs[y].Looks[n-2].Stmt == "labels" {
						addClass(c, "overtaken-inside-label-rows")
					}
				}
			}
		}
	}
	for i := range c.Reqs {
		if c.Reqs[i].Cancelled {
			addClass(c, "client-went-away")
		}
		if c.Reqs[i].Ms2 != nil {
			addClass(c, "two-selectors-on-one-querier")
		}
		if c.Reqs[i].WantErr {
			addClass(c, "stream-fails/"+c.Reqs[i].Fail.Stmt)
		}
		if len(c.Reqs[i].Want) >= 2 {
			addClass(c, "two-or-more-series-selected")
		}
	}
}

var jobs = []string{"a", "b", "ab", "a-1", "c"}
var envs = []string{"", "p", "q"}

func genReq(r *rand.Rand, i int) Req {
	rq := Req{Kind: "range", Ms: []Matcher{{"__name__", "=", fmt.Sprintf("req%d", i)}}}
	if r.Intn(4) == 0 {
		rq.Kind = "instant"
	}
	rq.Start = 1700000010/15*15 + int64(r.Intn(1000))*15
	rq.End = rq.Start + int64(1+r.Intn(5))*15
	rq.Step = []int64{1, 3, 5}[r.Intn(3)]
	if rq.Kind == "instant" {
		rq.Step = 0
	}
	pool := []Matcher{{"job", "=", "a"}, {"job", "!=", "b"}, {"job", "=~", "a.*"}, {"job", "!~", "a|c"}, {"job", "=~", "a|b"},
		{"env", "=", ""}, {"env", "!=", "p"}, {"env", "=~", "p|q"}, {"env", "!~", "q"}, {"inst", "=~", ".+"}}
	for k := r.Intn(3); k > 0; k-- {
		rq.Ms = append(rq.Ms, pool[r.Intn(len(pool))])
	}
	n := 1 + r.Intn(4)
	seen := map[string]bool{}
	for k := 0; k < n; k++ {
		name := rq.Ms[0].Val
		if r.Intn(6) == 0 {
			name = fmt.Sprintf("other%d", i)
		}
		l := [][2]string{{"__name__", name}, {"job", jobs[r.Intn(len(jobs))]}}
		if e := envs[r.Intn(len(envs))]; e != "" {
			l = append(l, [2]string{"env", e})
		}
		if r.Intn(2) == 0 {
			l = append(l, [2]string{"inst", []string{"x", "y"}[r.Intn(2)]})
		}
		if seen[fmt.Sprint(l)] {
			continue
		}
		seen[fmt.Sprint(l)] = true
		r.Shuffle(len(l), func(a, b int) { l[a], l[b] = l[b], l[a] })
		s := Series{Fp: uint64((i+1)*1000 + k + 1), Labels: l, Samples: [][2]int64{}}
		step := rq.Step
		if step == 0 {
			step = 5
		}
		t := rq.Start + int64(r.Intn(3))*step
		for t <= rq.End && len(s.Samples) < 8 {
			s.Samples = append(s.Samples, [2]int64{t * 1000, int64(r.Intn(50))})
			t += int64(1+r.Intn(3)) * step
		}
		rq.DB = append(rq.DB, s)
	}
	two := r.Intn(4) == 0
	if two {
		rq.Ms2 = []Matcher{rq.Ms[0], {"zz", "!=", "s2"}}
		for k := r.Intn(3); k > 0; k-- {
			rq.Ms2 = append(rq.Ms2, pool[r.Intn(len(pool))])
		}
		rq.Ms = append(rq.Ms, Matcher{"zz", "!=", "s1"})
	}
	sel := selected(&rq)
	nrows, nlab := 0, 0
	for _, s := range sel {
		nrows += len(s.Samples)
		if len(s.Samples) > 0 {
			nlab++
		}
	}
	if r.Intn(3) != 0 {
		rq.Parks = append(rq.Parks, "getdb")
	}
	if nrows > 0 && r.Intn(3) != 0 {
		rq.Parks = append(rq.Parks, fmt.Sprintf("srow:%d", r.Intn(nrows+1)))
	}
	if nlab > 0 && r.Intn(2) == 0 {
		rq.Parks = append(rq.Parks, fmt.Sprintf("lrow:%d", r.Intn(nlab+1)))
	}
	if len(rq.Parks) > 0 && r.Intn(5) == 0 {
		rq.CancelAfter = 1 + r.Intn(len(rq.Parks))
	}
	if r.Intn(6) == 0 && nrows > 0 && !two {
		if r.Intn(2) == 0 {
			rq.Fail = &Fail{"samples", r.Intn(nrows + 1)}
		} else {
			rq.Fail = &Fail{"labels", r.Intn(nlab + 1)}
		}
	}
	return rq
}

func genOverlap(r *rand.Rand, c *Case) {
	n := 2
	if r.Intn(4) == 0 {
		n = 3
	}
	for i := 0; i < n; i++ {
		c.Reqs = append(c.Reqs, genReq(r, i))
	}
	steps := func(i int) int { return len(c.Reqs[i].Parks) + 1 }
	if r.Intn(2) == 0 {
		// the overtaking pattern: Y waits inside Querier(), X runs from its set-up to its end, Y reads its rows
		y := r.Intn(n)
		x := (y + 1 + r.Intn(n-1)) % n
		if len(c.Reqs[y].Parks) == 0 || c.Reqs[y].Parks[0] != "getdb" {
			c.Reqs[y].Parks = append([]string{"getdb"}, c.Reqs[y].Parks...)
		}
		c.Schedule = []int{y}
		for k := 0; k < steps(x); k++ {
			c.Schedule = append(c.Schedule, x)
		}
		for k := 1; k < steps(y); k++ {
			c.Schedule = append(c.Schedule, y)
		}
		for z := 0; z < n; z++ {
			if z != x && z != y {
				for k := 0; k < steps(z); k++ {
					p := r.Intn(len(c.Schedule) + 1)
					c.Schedule = append(c.Schedule[:p], append([]int{z}, c.Schedule[p:]...)...)
				}
			}
		}
		c.Class = append(c.Class, "pattern-overtake")
		return
	}
	for i := 0; i < n; i++ {
		for k := 0; k < steps(i); k++ {
			c.Schedule = append(c.Schedule, i)
		}
	}
	r.Shuffle(len(c.Schedule), func(a, b int) { c.Schedule[a], c.Schedule[b] = c.Schedule[b], c.Schedule[a] })
	c.Class = append(c.Class, "pattern-random")
}

// ---------------------------------------------------------------- kind "stream"

func genStream(r *rand.Rand, c *Case) {
	n := 1 + r.Intn(4)
	ts0 := int64(1700000000000)
	c.CutRows, c.CutLabels = -1, -1
	for i := 0; i < n; i++ {
		fp := uint64(10 + i*7 + r.Intn(5))
		k := 1 + r.Intn(4)
		ts := ts0
		for j := 0; j < k; j++ {
			ts += int64(1+r.Intn(20)) * 1000
			c.Rows = append(c.Rows, Row{Fp: fp, Val: int64(r.Intn(9)), Ts: ts})
		}
		l := [][2]string{{"__name__", "up"}, {"job", jobs[r.Intn(len(jobs))]}, {"i", strconv.Itoa(i)}}
		r.Shuffle(len(l), func(a, b int) { l[a], l[b] = l[b], l[a] })
		c.Fetch = append(c.Fetch, LabelsRow{Fp: fp, Labels: l})
	}
	switch r.Intn(5) {
	case 0:
		c.Class = append(c.Class, "stream-complete")
	case 1, 2:
		c.CutRows = r.Intn(len(c.Rows) + 1)
		c.Class = append(c.Class, "sample-stream-fails")
	default:
		c.CutLabels = r.Intn(len(c.Fetch) + 1)
		c.Class = append(c.Class, "label-stream-fails")
	}
}

func runStream(c *Case) {
	c.Obs, c.SelErr, c.Err = nil, "", ""
	b := &backend{c: c, direct: true, abortCh: make(chan struct{})}
	curMtx.Lock()
	cur = b
	curMtx.Unlock()
	defer func() {
		curMtx.Lock()
		cur = nil
		curMtx.Unlock()
	}()
	var ss storage.SeriesSet
	p := hx.Catch(func() {
		q := &service.CLokiQueriable{ServiceData: model.ServiceData{Session: reg}, Ctx: context.Background()}
		qr, err := q.Querier(context.Background(), 1700000000000, 1700000300000)
		if err != nil {
			panic(err)
		}
		ss = qr.Select(false, &storage.SelectHints{Start: 1700000000000, End: 1700000300000}, promMatchers([]Matcher{{"__name__", "=", "up"}})...)
	})
	if p != "" {
		c.Err = "panic: " + p
		return
	}
	if ss.Err() != nil {
		c.SelErr = ss.Err().Error()
		return
	}
	c.Obs = []SelSeries{}
	p = hx.Catch(func() {
		for ss.Next() {
			s := ss.At().(*model.Series)
			o := SelSeries{Fp: s.Fp, Labels: [][2]string{}, Samples: [][2]int64{}}
			for _, l := range s.Labels() {
				o.Labels = append(o.Labels, [2]string{l.Name, l.Value})
			}
			it := s.Iterator()
			for it.Next() {
				t, v := it.At()
				o.Samples = append(o.Samples, [2]int64{t, int64(v)})
			}
			c.Obs = append(c.Obs, o)
		}
	})
	if p != "" {
		c.Err = "panic: " + p
	}
}

func runCase(c *Case) {
	switch c.Kind {
	case "overlap":
		runOverlap(c)
	case "stream":
		runStream(c)
	default:
		c.Err = "unknown kind"
	}
}

func main() {
	f := hx.ParseFlags()
	out := hx.OpenOut(f.Out)
	setup()
	defer func() {
		out.Close()
		if !stuck { // httptest's Close waits for the requests still in flight
			srv.Close()
		}
	}()
	if f.Cases != "" {
		hx.ReadLines(f.Cases, func(b []byte) {
			var c Case
			if err := json.Unmarshal(b, &c); err != nil {
				panic(err)
			}
			if stuck {
				return
			}
			runCase(&c)
			out.Put(c)
		})
		return
	}
	for i := 0; i < f.N; i++ {
		r := hx.Rand(f.Seed*6700417 + int64(i))
		c := Case{ID: i}
		if i%3 == 2 {
			c.Kind = "stream"
			genStream(r, &c)
		} else {
			c.Kind = "overlap"
			genOverlap(r, &c)
		}
		runCase(&c)
		out.Put(c)
		if stuck {
			break
		}
	}
}
