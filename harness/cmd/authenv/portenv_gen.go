// STUB. checks/c20.py replaces this file at build time (go build -overlay) by verbatim copies of boolEnv,
// portCHEnv and portEnv cut out of main.go of the repository under test (package main cannot be imported).
package main

import (
	"errors"

	clconfig "github.com/metrico/cloki-config"
)

const envGenerated = false

func portEnv(cfg *clconfig.ClokiConfig) error { return errors.New("portEnv not generated") }
