// authenv drives func portEnv of package main (compiled in verbatim, see portenv_gen.go) on generated
// environments and prints what it leaves in the configuration fields the router assembly depends on:
// AUTH_SETTINGS.BASIC.Username / Password, HTTP_SETTINGS.Cors, SYSTEM_SETTINGS.Mode.
package main

import (
	"encoding/json"
	"fmt"
	"math/rand"
	"os"
	"path/filepath"
	"sort"

	clconfig "github.com/metrico/cloki-config"
	"github.com/metrico/cloki-config/config"
	"verif/harness/hx"
)

type KV struct {
	K string `json:"k"`
	V string `json:"v"`
}
type AuthCfg struct {
	User   string `json:"user"`
	Pass   string `json:"pass"`
	Cors   bool   `json:"cors"`
	Origin string `json:"origin"`
	Mode   string `json:"mode"`
}
type Case struct {
	ID     int     `json:"id"`
	Class  string  `json:"class"`
	Env    []KV    `json:"env"`
	File   AuthCfg `json:"file"`   // the configuration as a file left it
	Preset bool    `json:"preset"` // the file listed a database (portCHEnv then ignores the environment)
	// ViaFile: File is written as a JSON configuration file and read the way main does it (clconfig.New with the path,
	// ReadConfig: viper + mapstructure of the cloki-config module) instead of being assigned to the fields
	ViaFile bool `json:"via_file,omitempty"`
	// observations
	Err   bool    `json:"err"`
	Panic string  `json:"panic,omitempty"`
	Out   AuthCfg `json:"out"`
	Read  *AuthCfg `json:"read,omitempty"` // via_file: what ReadConfig left in the fields, before portEnv
}

var vars = []string{"CLICKHOUSE_DB", "CLUSTER_NAME", "CLICKHOUSE_SERVER", "CLICKHOUSE_PORT", "CLICKHOUSE_AUTH",
	"ADVANCED_SAMPLES_ORDERING", "CLICKHOUSE_PROTO", "SELF_SIGNED_CERT", "key", "SAMPLES_DAYS", "STORAGE_POLICY",
	"QRYN_LOGIN", "CLOKI_LOGIN", "QRYN_PASSWORD", "CLOKI_PASSWORD", "CORS_ALLOW_ORIGIN", "PORT", "HOST",
	"ADVANCED_PROMETHEUS_MAX_SAMPLES", "MODE", "READONLY", "BULK_MAX_SIZE_BYTES", "BULK_MAX_AGE_MS", "OMIT_CREATE_TABLES"}

func runCase(c *Case) {
	if !envGenerated {
		c.Panic = "portEnv not generated: build the harness through checks/c20.py"
		return
	}
	for _, k := range vars {
		os.Unsetenv(k)
	}
	for _, kv := range c.Env {
		os.Setenv(kv.K, kv.V)
	}
	var cfg *clconfig.ClokiConfig
	if c.ViaFile {
		doc := map[string]any{
			"auth_settings":   map[string]any{"basic": map[string]any{"username": c.File.User, "password": c.File.Pass}},
			"http_settings":   map[string]any{"cors": map[string]any{"enable": c.File.Cors, "origin": c.File.Origin}},
			"system_settings": map[string]any{"mode": c.File.Mode},
		}
		b, _ := json.Marshal(doc)
		path := filepath.Join(os.TempDir(), fmt.Sprintf("verif-authenv-%d.json", os.Getpid()))
		if err := os.WriteFile(path, b, 0o600); err != nil {
			c.Panic = "cannot write the configuration file: " + err.Error()
			return
		}
		defer os.Remove(path)
		stdout := os.Stdout // ReadConfig prints
		os.Stdout, _ = os.Open(os.DevNull)
		cfg = clconfig.New(clconfig.CLOKI_READER, []string{path}, "", "")
		cfg.ReadConfig()
		os.Stdout = stdout
		c.Read = &AuthCfg{cfg.Setting.AUTH_SETTINGS.BASIC.Username, cfg.Setting.AUTH_SETTINGS.BASIC.Password,
			cfg.Setting.HTTP_SETTINGS.Cors.Enable, cfg.Setting.HTTP_SETTINGS.Cors.Origin, cfg.Setting.SYSTEM_SETTINGS.Mode}
	} else {
		cfg = clconfig.New(clconfig.CLOKI_READER, nil, "", "")
		cfg.Setting.AUTH_SETTINGS.BASIC.Username = c.File.User
		cfg.Setting.AUTH_SETTINGS.BASIC.Password = c.File.Pass
		cfg.Setting.HTTP_SETTINGS.Cors.Enable = c.File.Cors
		cfg.Setting.HTTP_SETTINGS.Cors.Origin = c.File.Origin
		cfg.Setting.SYSTEM_SETTINGS.Mode = c.File.Mode
	}
	if c.Preset {
		cfg.Setting.DATABASE_DATA = []config.ClokiBaseDataBase{{Name: "qryn", Host: "localhost", Port: 9000, TTLDays: 7}}
	}
	c.Panic = hx.Catch(func() {
		err := portEnv(cfg)
		c.Err = err != nil
	})
	for _, k := range vars {
		os.Unsetenv(k)
	}
	c.Out = AuthCfg{cfg.Setting.AUTH_SETTINGS.BASIC.Username, cfg.Setting.AUTH_SETTINGS.BASIC.Password,
		cfg.Setting.HTTP_SETTINGS.Cors.Enable, cfg.Setting.HTTP_SETTINGS.Cors.Origin, cfg.Setting.SYSTEM_SETTINGS.Mode}
	if c.Env == nil {
		c.Env = []KV{}
	}
}

var texts = []string{"admin", "s3cr:et", "a", " ", "user name", "pässword", "x\"y", "0"}
// credentials as a configuration file may spell them: blanks around and inside, quotes, backslashes, colon, non-ASCII,
// texts that look like other JSON types, a long one
var fileTexts = []string{"", "admin", "s3cr:et", " ", " lead", "trail ", "  both  ", "user name", "pässword", "x\"y", "'quoted'",
	"\"dq\"", "back\\slash", "tab\there", "line\nbreak", "0", "true", "null", "1e3", "${HOME}", "%20", "a,b", "[x]", "{y}",
	"0123456789012345678901234567890123456789012345678901234567890123456789"}
var ints = []string{"3100", "0", "-1", "+8080", "31oo", "", " 80", "1_000", "9223372036854775807", "9223372036854775808",
	"4611686018427387903", "4611686018427387904", "-4611686018427387904", "-4611686018427387905", "100", "1e3"}
var modes = []string{"all", "writer", "reader", "init_only", "", "ALL", "Writer", "bogus"}
var keys = []string{"true", "1", "yes", "y", "false", "0", "no", "n", "maybe", "TRUE"}

func pick(r *rand.Rand, l []string) string { return l[r.Intn(len(l))] }

func gen(r *rand.Rand, id int) Case {
	c := Case{ID: id, Class: "env"}
	m := map[string]string{}
	set := func(p int, k string, l []string) {
		if r.Intn(100) < p {
			m[k] = pick(r, l)
		}
	}
	set(45, "QRYN_LOGIN", texts)
	set(25, "CLOKI_LOGIN", texts)
	set(45, "QRYN_PASSWORD", texts)
	set(25, "CLOKI_PASSWORD", texts)
	set(30, "CORS_ALLOW_ORIGIN", []string{"*", "https://a.example", " "})
	set(40, "MODE", modes)
	set(25, "READONLY", keys)
	set(25, "key", keys)
	set(15, "PORT", ints)
	set(10, "ADVANCED_PROMETHEUS_MAX_SAMPLES", ints)
	set(15, "BULK_MAX_SIZE_BYTES", ints)
	set(15, "BULK_MAX_AGE_MS", ints)
	set(10, "SAMPLES_DAYS", ints)
	set(8, "CLICKHOUSE_PORT", []string{"9000", "abc", "70000", "4294967296"})
	set(8, "SELF_SIGNED_CERT", []string{"true", "x"})
	set(10, "HOST", []string{"127.0.0.1", "::"})
	set(5, "OMIT_CREATE_TABLES", keys)
	ks := []string{}
	for k := range m {
		ks = append(ks, k)
	}
	sort.Strings(ks) // sorted before any further random choice: the cases depend on the seed only
	c.Env = []KV{}
	for _, k := range ks {
		// an empty value is the same as unset for os.Getenv(...) != "": keep some
		if m[k] == "" && r.Intn(2) == 0 {
			continue
		}
		c.Env = append(c.Env, KV{k, m[k]})
	}
	if r.Intn(4) == 0 {
		c.Class = "env+file"
		c.File = AuthCfg{User: pick(r, []string{"", "fileuser"}), Pass: pick(r, []string{"", "filepass"}),
			Cors: r.Intn(3) == 0, Origin: pick(r, []string{"", "https://file.example"}), Mode: pick(r, modes)}
	}
	c.Preset = r.Intn(6) == 0
	if r.Intn(5) == 0 { // a real configuration file, read the way main reads it
		c.Class = "env+real-file"
		c.Preset = false
		c.ViaFile = true
		c.File = AuthCfg{User: pick(r, fileTexts), Pass: pick(r, fileTexts), Cors: r.Intn(3) == 0,
			Origin: pick(r, []string{"", "https://file.example", "*"}), Mode: pick(r, modes)}
	}
	return c
}

func main() {
	f := hx.ParseFlags()
	out := hx.OpenOut(f.Out)
	defer out.Close()
	if f.Cases != "" {
		hx.ReadLines(f.Cases, func(b []byte) {
			var c Case
			if err := json.Unmarshal(b, &c); err != nil {
				panic(err)
			}
			runCase(&c)
			out.Put(c)
		})
		return
	}
	r := hx.Rand(f.Seed)
	for i := 0; i < f.N; i++ {
		c := gen(r, i)
		runCase(&c)
		out.Put(c)
	}
	_ = fmt.Sprint
}
