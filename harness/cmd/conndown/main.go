// conndown: push requests against the real writer while the ClickHouse CONNECTION misbehaves -- dials refused, INSERTs failing or
// running into the write timeout, the watchdog ping failing, Close returning an error -- with requests in flight.
// Property C05: "... the server returns an HTTP response in bounded time ... never leaves a goroutine spinning or blocked forever".
//
// Everything between the HTTP handler and the connection is the repository's code: router, middleware, decoders, doParse / doPush
// (retry.Do), InsertServiceV2Multimodal -> RoundRobin -> InsertServiceV2 (Request, Run, fetchLoopIteration, swapBuffers, ping).  Only
// ch_wrapper.IChClientFactory / IChClient are replaced: every case owns a NODE (selected with the X-CH-DSN header) with its own six insert
// services, and every service kind of the node owns a scripted back-end: the k-th dial / the k-th INSERT / the k-th ping of that service
// does what the script's k-th entry says (beyond the script: success).  The scripts are keyed by CALLS, not by time, so a case does the same on
// a loaded machine.  The asynchronous half of every multimodal service (never given a request by doPush: INSERT_MODE_SYNC) is stopped, so each
// kind has exactly one InsertServiceV2 dialling.
//
// Per case: every promise handed out by a service is watched (issued / completed), every request has a deadline, and -- when cases run one at a
// time (--serial, replays) -- the goroutines are counted against the baseline.  The cases of a run execute concurrently, each on its own node.
package main

import (
	"bytes"
	"context"
	"encoding/json"
	"errors"
	"flag"
	"fmt"
	"io"
	"math/rand"
	"net/http/httptest"
	"os"
	"regexp"
	"runtime"
	"sort"
	"strings"
	"sync"
	"sync/atomic"
	"time"
	"unsafe"

	"github.com/ClickHouse/ch-go"
	"github.com/ClickHouse/clickhouse-go/v2/lib/driver"
	"github.com/golang/snappy"
	pprofile "github.com/google/pprof/profile"
	"github.com/gorilla/mux"
	clconfig "github.com/metrico/cloki-config"
	cfgbase "github.com/metrico/cloki-config/config"
	"github.com/metrico/qryn/writer/ch_wrapper"
	"github.com/metrico/qryn/writer/config"
	controllerv1 "github.com/metrico/qryn/writer/controller"
	"github.com/metrico/qryn/writer/model"
	apirouterv1 "github.com/metrico/qryn/writer/router"
	"github.com/metrico/qryn/writer/service"
	"github.com/metrico/qryn/writer/service/impl"
	"github.com/metrico/qryn/writer/service/registry"
	"github.com/metrico/qryn/writer/utils/helpers"
	"github.com/metrico/qryn/writer/utils/logger"
	"github.com/metrico/qryn/writer/utils/numbercache"
	"github.com/metrico/qryn/writer/utils/promise"
	"github.com/metrico/qryn/writer/utils/proto/prompb"
	"google.golang.org/protobuf/proto"

	"verif/harness/hx"
)

// ------------------------------------------------------------------ case format

// Case: one scenario on one node.
//
//	kind     lokijson | prom (time-series + samples services) | pprof (profile service) | zipkin (spans + attributes services)
//	pushes   number of client requests sent together (several only with an all-success do script: they may or may not share a batch)
//	rows     log lines / samples / spans per request
//	warm     a warm-up push with the database up comes first: the services hold an open connection when the scripts start
//	dial     script of the dials of each service kind after the start: 0 accepted, 1 refused
//	do       script of the INSERTs: 0 ok, 1 fails, 2 blocks until the write timeout (1 s in such a case), then fails
//	ping     script of the watchdog pings: 0 ok, 1 fails, 2 blocks until the timeout, then fails
//	hold     "" | "ping-first": the harness waits for the first scripted ping failure BEFORE it sends the pushes (client closed by the watchdog,
//	         requests meet a service without a connection) | "ping-waiting": the pushes are appended first and the harness holds the flush
//	         until a scripted ping has failed (the watchdog closes the connection with requests waiting)
//	close_err  Close() of a connection returns an error
//	bulk     the node's insert services are created with MaxQueueSize = bulk (what writer/plugin passes from SYSTEM_SETTINGS.DBBulk, environment
//	         BULK_MAX_SIZE_BYTES; shipped default 0 = no size-triggered flush): a Request that brings the accounted size of the waiting rows above it
//	         asks for the flush itself (svc.insertCancel() under svc.mtx) instead of waiting for the timer
type Case struct {
	ID       int    `json:"id"`
	Class    string `json:"class"`
	Kind     string `json:"kind"`
	Pushes   int    `json:"pushes"`
	Rows     int    `json:"rows"`
	Warm     bool   `json:"warm"`
	Dial     []int  `json:"dial"`
	Do       []int  `json:"do"`
	Ping     []int  `json:"ping"`
	Hold     string `json:"hold,omitempty"`
	CloseErr bool   `json:"close_err,omitempty"`
	Bulk     int64  `json:"bulk,omitempty"`
	Attempts int    `json:"attempts"` // RetryAttempts the harness ran with (RetryTimeoutS = 1, as shipped)
	Obs      *Obs   `json:"obs,omitempty"`
}

type Obs struct {
	Status   []int `json:"status"` // per push; 0: no answer within the deadline
	MaxMs    int64 `json:"max_ms"`
	Issued   int64 `json:"issued"`    // promises handed out by the node's services to doPush
	Complete int64 `json:"completed"` // ... of which completed when the case ended
	// per main service kind of the route (samples / profile / spans): calls seen by the scripted back-end after the start
	DialOK         int `json:"dial_ok"`
	DialRefused    int `json:"dial_refused"`
	RefusedWaiting int `json:"refused_waiting"` // refused dials while a promise of that service was pending
	DoOK           int `json:"do_ok"`
	DoFail         int `json:"do_fail"`
	PingFail       int `json:"ping_fail"`
	PingFailWait   int `json:"ping_fail_waiting"` // failed pings while a promise of that service was pending
	RowsSent       int `json:"rows_sent"`         // rows of the main table in all pushes
	RowsStored     int `json:"rows_stored"`       // rows of the main table in accepted INSERTs
	Goroutines     int `json:"goroutines_left"`   // --serial only: goroutines in repository code beyond the baseline, -1 = not measured
	OverBulk       int `json:"over_bulk"`         // Request calls whose own accounted size (GetSize) was above the node's bulk size
	MaxReqSize     int64 `json:"max_req_size"`    // largest accounted size of one Request
	FlushStuck     int `json:"flush_stuck"`       // PlanFlush calls of the harness that had not returned when the case ended (service mutex never released)
	Stacks   []string `json:"stacks,omitempty"`
	WarmFail bool     `json:"warm_fail,omitempty"`
}

// ------------------------------------------------------------------ the scripted back-end

type backend struct { // one per (node, service kind)
	mu             sync.Mutex
	kind           string
	armed          bool
	c              *Case
	nd             *node
	dials, dos, pings int
	dialOK, dialRefused, refusedWaiting, doOK, doFail, pingFail, pingFailWait, rowsStored int
}

func at(s []int, i int) int {
	if i < len(s) {
		return s[i]
	}
	return 0
}

type node struct {
	name     string
	be       map[string]*backend
	svcs     map[string]service.IInsertServiceV2
	pending  map[string]*int64 // per kind: promises issued - completed
	issued   int64
	complete int64
	bulk     int64
	overBulk, maxReq int64
	flushing map[string]*int32 // per kind: a PlanFlush of the harness is under way
}

func (b *backend) waiting() bool { return atomic.LoadInt64(b.nd.pending[b.kind]) > 0 }

func (b *backend) dial() (ch_wrapper.IChClient, error) {
	b.mu.Lock()
	defer b.mu.Unlock()
	if !b.armed {
		return &fakeClient{b: b}, nil
	}
	v := at(b.c.Dial, b.dials)
	b.dials++
	if v == 1 {
		b.dialRefused++
		if b.waiting() {
			b.refusedWaiting++
		}
		return nil, errors.New("dial tcp 127.0.0.1:9000: connect: connection refused")
	}
	b.dialOK++
	return &fakeClient{b: b}, nil
}

type fakeClient struct {
	b      *backend
	closed int32 // Close was called: a later Ping / Do on this connection fails like a closed socket
}

func (f *fakeClient) Ping(ctx context.Context) error {
	b := f.b
	b.mu.Lock()
	if !b.armed {
		b.mu.Unlock()
		return nil
	}
	v := at(b.c.Ping, b.pings)
	b.pings++
	if atomic.LoadInt32(&f.closed) != 0 {
		v = 1
	}
	if v != 0 {
		b.pingFail++
		if b.waiting() {
			b.pingFailWait++
		}
	}
	b.mu.Unlock()
	switch v {
	case 1:
		return errors.New("ping: read tcp 127.0.0.1:9000: connection reset by peer")
	case 2:
		<-ctx.Done()
		return ctx.Err()
	}
	return nil
}

func (f *fakeClient) Do(ctx context.Context, q ch.Query) error {
	b := f.b
	if len(q.Input) == 0 {
		return nil
	}
	rows := q.Input[0].Data.Rows()
	b.mu.Lock()
	v := 0
	if b.armed {
		v = at(b.c.Do, b.dos)
		b.dos++
		if atomic.LoadInt32(&f.closed) != 0 {
			v = 1
		}
		if v == 0 {
			b.doOK++
			b.rowsStored += rows
		} else {
			b.doFail++
		}
	}
	b.mu.Unlock()
	switch v {
	case 1:
		return errors.New("write tcp 127.0.0.1:9000: broken pipe")
	case 2:
		<-ctx.Done()
		return ctx.Err()
	}
	return nil
}
func (f *fakeClient) Close() error {
	atomic.StoreInt32(&f.closed, 1)
	if f.b.c != nil && f.b.c.CloseErr {
		return errors.New("close tcp 127.0.0.1:9000: use of closed network connection")
	}
	return nil
}
func (*fakeClient) Exec(ctx context.Context, query string, args ...any) error { return nil }
func (*fakeClient) Scan(ctx context.Context, req string, args []any, dest ...interface{}) error {
	return nil
}
func (*fakeClient) DropIfEmpty(ctx context.Context, name string) error { return nil }
func (*fakeClient) TableExists(ctx context.Context, name string) (bool, error) {
	return true, nil
}
func (*fakeClient) GetDBExec(env map[string]string) func(ctx context.Context, query string, args ...[]interface{}) error {
	return nil
}
func (*fakeClient) GetVersion(ctx context.Context, k uint64) (uint64, error) { return 0, nil }
func (*fakeClient) GetSetting(ctx context.Context, tp string, name string) (string, error) {
	return "", nil
}
func (*fakeClient) PutSetting(ctx context.Context, tp string, name string, value string) error {
	return nil
}
func (*fakeClient) GetFirst(req string, first ...interface{}) error { return nil }
func (*fakeClient) GetList(req string) ([]string, error)            { return nil, nil }
func (*fakeClient) Query(ctx context.Context, query string, args ...interface{}) (driver.Rows, error) {
	return nil, fmt.Errorf("not implemented")
}
func (*fakeClient) QueryRow(ctx context.Context, query string, args ...interface{}) driver.Row {
	return nil
}

// ------------------------------------------------------------------ the insert services of a node, every promise watched

type tracked struct {
	service.IInsertServiceV2
	nd   *node
	kind string
}

func (t tracked) Request(req helpers.SizeGetter, insertMode int) *promise.Promise[uint32] {
	pend := t.nd.pending[t.kind]
	atomic.AddInt64(pend, 1)
	atomic.AddInt64(&t.nd.issued, 1)
	sz := req.GetSize()
	if t.nd.bulk > 0 && sz > t.nd.bulk {
		atomic.AddInt64(&t.nd.overBulk, 1)
	}
	for {
		m := atomic.LoadInt64(&t.nd.maxReq)
		if sz <= m || atomic.CompareAndSwapInt64(&t.nd.maxReq, m, sz) {
			break
		}
	}
	p := t.IInsertServiceV2.Request(req, insertMode)
	go func() {
		p.Get()
		atomic.AddInt64(pend, -1)
		atomic.AddInt64(&t.nd.complete, 1)
	}()
	return p
}

var kinds = []string{"ts", "spl", "mtr", "tsp", "ttg", "prf"}

func mainKind(k string) string {
	switch k {
	case "pprof":
		return "prf"
	case "zipkin":
		return "tsp"
	}
	return "spl"
}

func setup(cases []*Case, attempts int) (*mux.Router, []*node) {
	logger.Logger.SetOutput(io.Discard)
	helpers.SetGlobalLimit(256 << 20)
	config.Cloki = clconfig.New(clconfig.CLOKI_WRITER, nil, "", "")
	config.Cloki.Setting.SYSTEM_SETTINGS.RetryAttempts = attempts
	config.Cloki.Setting.SYSTEM_SETTINGS.RetryTimeoutS = 1
	service.CreateColPools(8)
	ctors := map[string]func(model.InsertServiceOpts) service.IInsertServiceV2{
		"ts": impl.NewTimeSeriesInsertService, "spl": impl.NewSamplesInsertService, "mtr": impl.NewMetricsInsertService,
		"tsp": impl.NewTempoSamplesInsertService, "ttg": impl.NewTempoTagsInsertService, "prf": impl.NewProfileSamplesInsertService}
	maps := map[string]map[string]service.IInsertServiceV2{}
	for _, k := range kinds {
		maps[k] = map[string]service.IInsertServiceV2{}
	}
	dbmap := map[string]*model.DataDatabasesMap{}
	var nodes []*node
	for _, c := range cases {
		nd := &node{name: fmt.Sprintf("node%d", c.ID), be: map[string]*backend{}, svcs: map[string]service.IInsertServiceV2{}, pending: map[string]*int64{},
			bulk: c.Bulk, flushing: map[string]*int32{}}
		wt := 5
		for _, v := range append(append([]int{}, c.Do...), c.Ping...) {
			if v == 2 {
				wt = 1
			}
		}
		db := &model.DataDatabasesMap{ClokiBaseDataBase: cfgbase.ClokiBaseDataBase{Node: nd.name, Name: "qryn", WriteTimeout: uint32(wt)}}
		dbmap[nd.name] = db
		for _, k := range kinds {
			b := &backend{kind: k, c: c, nd: nd}
			nd.be[k] = b
			nd.pending[k] = new(int64)
			nd.flushing[k] = new(int32)
			s := ctors[k](model.InsertServiceOpts{Session: ch_wrapper.IChClientFactory(b.dial), Node: db, Interval: time.Hour, ParallelNum: 1,
				MaxQueueSize: c.Bulk})
			s.Init()
			go s.Run()
			if mm, ok := s.(*service.InsertServiceV2Multimodal); ok && mm.AsyncService != nil {
				mm.AsyncService.Stop() // never given a request (doPush: INSERT_MODE_SYNC); stopped so that one InsertServiceV2 per kind dials
			}
			nd.svcs[k] = s
			maps[k][nd.name] = tracked{s, nd, k}
		}
		nodes = append(nodes, nd)
	}
	controllerv1.Registry = registry.NewStaticServiceRegistry(maps["ts"], maps["spl"], maps["mtr"], maps["tsp"], maps["ttg"], maps["prf"])
	controllerv1.FPCache = numbercache.NewCache[uint64](time.Minute*30, func(val uint64) []byte {
		return unsafe.Slice((*byte)(unsafe.Pointer(&val)), 8)
	}, dbmap)
	r := mux.NewRouter()
	cfg := controllerv1.NewMiddlewareConfig(controllerv1.WithExtraMiddlewareDefault...)
	apirouterv1.RouteInsertDataApis(r, cfg)
	apirouterv1.RoutePromDataApis(r, cfg)
	apirouterv1.RouteProfileDataApis(r, cfg)
	apirouterv1.RouteInsertTempoApis(r, controllerv1.NewMiddlewareConfig(controllerv1.WithExtraMiddlewareTempo...))
	apirouterv1.RouteMiscApis(r, cfg)
	return r, nodes
}

// ------------------------------------------------------------------ bodies

const baseSec = 1700000000

type wire struct {
	path, ct string
	body     []byte
}

func validPprof(v int64) []byte {
	fn := &pprofile.Function{ID: 1, Name: "main.work", SystemName: "main.work", Filename: "main.go"}
	l1 := &pprofile.Location{ID: 1, Line: []pprofile.Line{{Function: fn, Line: 10}}}
	p := &pprofile.Profile{
		SampleType: []*pprofile.ValueType{{Type: "samples", Unit: "count"}, {Type: "cpu", Unit: "nanoseconds"}},
		PeriodType: &pprofile.ValueType{Type: "cpu", Unit: "nanoseconds"},
		Period:     10000000,
		Sample:     []*pprofile.Sample{{Location: []*pprofile.Location{l1}, Value: []int64{1 + v%9, 10000000 * (1 + v%9)}}},
		Location:   []*pprofile.Location{l1},
		Function:   []*pprofile.Function{fn},
	}
	var b bytes.Buffer
	if err := p.Write(&b); err != nil {
		panic(err)
	}
	return b.Bytes()
}

// build renders push number j of a case (j = -1: the warm-up push); label sets are distinct per case and push
func build(c *Case, j int) (wire, int) {
	who := fmt.Sprintf("c%dp%d", c.ID, j+1)
	n := c.Rows
	if n < 1 || j < 0 {
		n = 1
	}
	switch c.Kind {
	case "zipkin":
		var b bytes.Buffer
		b.WriteByte('[')
		for i := 0; i < n; i++ {
			if i > 0 {
				b.WriteByte(',')
			}
			fmt.Fprintf(&b, `{"traceId":"d6e9329d67b6146c%016x","id":"%016x","name":"down-%s","timestamp":%d,"duration":1000,"localEndpoint":{"serviceName":"down_%s"},"tags":{"k":"v"}}`,
				uint64(c.ID)<<8|uint64(j+1), uint64(c.ID)<<24|uint64(j+1)<<16|uint64(i)+1, who, int64(baseSec)*1000000+int64(i), who)
		}
		b.WriteByte(']')
		return wire{"/tempo/spans", "application/json", b.Bytes()}, n
	case "pprof":
		return wire{fmt.Sprintf("/ingest?from=%d&until=%d&name=down_%s", baseSec, baseSec+10, who), "binary/octet-stream", validPprof(int64(c.ID))}, 1
	case "prom":
		wr := &prompb.WriteRequest{}
		ts := &prompb.TimeSeries{Labels: []*prompb.Label{{Name: "__name__", Value: "down_" + who}}}
		for i := 0; i < n; i++ {
			ts.Samples = append(ts.Samples, &prompb.Sample{Value: float64(i), Timestamp: int64(baseSec)*1000 + int64(i)})
		}
		wr.Timeseries = append(wr.Timeseries, ts)
		raw, err := proto.Marshal(wr)
		if err != nil {
			panic(err)
		}
		return wire{"/api/v1/prom/remote/write", "application/x-protobuf", snappy.Encode(nil, raw)}, n
	}
	var b bytes.Buffer
	fmt.Fprintf(&b, `{"streams":[{"stream":{"app":"down_%s"},"values":[`, who)
	for i := 0; i < n; i++ {
		if i > 0 {
			b.WriteByte(',')
		}
		fmt.Fprintf(&b, `["%d","%s line %d"]`, int64(baseSec)*1000000000+int64(i), who, i)
	}
	b.WriteString(`]}]}`)
	return wire{"/loki/api/v1/push", "application/json", b.Bytes()}, n
}

func send(router *mux.Router, nd *node, w wire) chan int {
	out := make(chan int, 1)
	go func() {
		req := httptest.NewRequest("POST", w.path, bytes.NewReader(w.body))
		req.Header.Set("Content-Type", w.ct)
		req.Header.Set("X-CH-DSN", nd.name)
		rec := httptest.NewRecorder()
		defer func() {
			if p := recover(); p != nil {
				out <- -1
			}
		}()
		router.ServeHTTP(rec, req)
		out <- rec.Code
	}()
	return out
}

// ------------------------------------------------------------------ running a case

// flushPending plays the services' timer.  PlanFlush takes the service mutex: it runs on its own goroutine (one at a time per service), so a
// service whose mutex is never released again shows as unanswered pushes + flush_stuck and cannot hang the harness
func (nd *node) flushPending() {
	for _, k := range kinds {
		if atomic.LoadInt64(nd.pending[k]) > 0 && atomic.CompareAndSwapInt32(nd.flushing[k], 0, 1) {
			go func(k string) {
				nd.svcs[k].PlanFlush()
				atomic.StoreInt32(nd.flushing[k], 0)
			}(k)
		}
	}
}

func (nd *node) flushStuck() int {
	time.Sleep(20 * time.Millisecond)
	n := 0
	for _, k := range kinds {
		n += int(atomic.LoadInt32(nd.flushing[k]))
	}
	return n
}

func runCase(router *mux.Router, nd *node, c *Case, deadline time.Duration) {
	o := &Obs{Goroutines: -1}
	c.Obs = o
	mk := mainKind(c.Kind)
	be := nd.be[mk]
	if c.Warm {
		w, _ := build(c, -1)
		ch := send(router, nd, w)
		end := time.Now().Add(deadline)
		code := 0
		for code == 0 && time.Now().Before(end) {
			nd.flushPending()
			select {
			case code = <-ch:
			case <-time.After(5 * time.Millisecond):
			}
		}
		if code/100 != 2 {
			o.WarmFail = true
			o.Status = make([]int, c.Pushes) // the warm-up push itself was not answered: nothing else is sent
			o.Issued, o.Complete = atomic.LoadInt64(&nd.issued), atomic.LoadInt64(&nd.complete)
			o.OverBulk, o.MaxReqSize = int(atomic.LoadInt64(&nd.overBulk)), atomic.LoadInt64(&nd.maxReq)
			o.FlushStuck = nd.flushStuck()
			return
		}
	}
	for _, k := range kinds {
		b := nd.be[k]
		b.mu.Lock()
		b.armed = true
		b.mu.Unlock()
	}
	start := time.Now()
	end := start.Add(deadline)
	pingFailed := func() bool {
		be.mu.Lock()
		defer be.mu.Unlock()
		return be.pingFail > 0
	}
	if c.Hold == "ping-first" {
		for !pingFailed() && time.Now().Before(end) {
			time.Sleep(5 * time.Millisecond)
		}
	}
	chans := make([]chan int, c.Pushes)
	o.Status = make([]int, c.Pushes)
	for j := 0; j < c.Pushes; j++ {
		w, n := build(c, j)
		o.RowsSent += n
		chans[j] = send(router, nd, w)
	}
	if c.Hold == "ping-waiting" {
		for !pingFailed() && time.Now().Before(end) {
			time.Sleep(5 * time.Millisecond)
		}
	}
	left := c.Pushes
	for left > 0 && time.Now().Before(end) {
		nd.flushPending()
		time.Sleep(4 * time.Millisecond)
		for j, ch := range chans {
			if o.Status[j] == 0 {
				select {
				case code := <-ch:
					o.Status[j] = code
					left--
					if ms := time.Since(start).Milliseconds(); ms > o.MaxMs {
						o.MaxMs = ms
					}
				default:
				}
			}
		}
	}
	// the handler may have answered on the first error while the doPush goroutine of the request's other service still retries (it sleeps
	// RetryTimeoutS = 1 s between two attempts, with no promise pending meanwhile): the case ends when every promise is completed and no new
	// Request has arrived for 1.5 s -- only scenarios with a failing INSERT have retries
	retries := false
	for _, v := range c.Do {
		retries = retries || v != 0
	}
	settle := time.Now().Add(time.Duration(c.Attempts+2) * 1500 * time.Millisecond)
	if left > 0 {
		settle = time.Now().Add(300 * time.Millisecond)
	}
	lastIssued, quietSince := atomic.LoadInt64(&nd.issued), time.Now()
	for time.Now().Before(settle) {
		is, co := atomic.LoadInt64(&nd.issued), atomic.LoadInt64(&nd.complete)
		if is != lastIssued || is != co {
			lastIssued, quietSince = is, time.Now()
		}
		if is == co && (!retries || left > 0 || time.Since(quietSince) > 1500*time.Millisecond) {
			break
		}
		nd.flushPending()
		time.Sleep(4 * time.Millisecond)
	}
	o.Issued, o.Complete = atomic.LoadInt64(&nd.issued), atomic.LoadInt64(&nd.complete)
	o.OverBulk, o.MaxReqSize = int(atomic.LoadInt64(&nd.overBulk)), atomic.LoadInt64(&nd.maxReq)
	if left > 0 {
		o.FlushStuck = nd.flushStuck()
	}
	be.mu.Lock()
	o.DialOK, o.DialRefused, o.RefusedWaiting, o.DoOK, o.DoFail, o.PingFail, o.PingFailWait, o.RowsStored =
		be.dialOK, be.dialRefused, be.refusedWaiting, be.doOK, be.doFail, be.pingFail, be.pingFailWait, be.rowsStored
	be.mu.Unlock()
}

var repoFrame = regexp.MustCompile(`github\.com/metrico/qryn/writer/(controller|utils/unmarshal|utils/promise)[./]`)

// requestGoroutines: goroutines whose stack is in the request path of the repository (handler, doPush, parser goroutines, promise.Get)
func requestGoroutines() []string {
	buf := make([]byte, 8<<20)
	buf = buf[:runtime.Stack(buf, true)]
	var out []string
	for _, g := range strings.Split(string(buf), "\n\n") {
		if repoFrame.MatchString(g) && !strings.Contains(g, "main.requestGoroutines") && !strings.Contains(g, "main.tracked.Request") {
			lines := strings.Split(g, "\n")
			if len(lines) > 9 {
				lines = lines[:9]
			}
			out = append(out, strings.Join(lines, "\n"))
		}
	}
	return out
}

// ------------------------------------------------------------------ generator

func rep(v, n int) []int {
	s := make([]int, n)
	for i := range s {
		s[i] = v
	}
	return s
}

func gen(r *rand.Rand, id, attempts int) *Case {
	c := &Case{ID: id, Pushes: 1, Rows: 1 + r.Intn(5), Attempts: attempts, Dial: []int{}, Do: []int{}, Ping: []int{}}
	c.Kind = []string{"lokijson", "lokijson", "prom", "pprof", "zipkin"}[r.Intn(5)]
	c.Warm = r.Intn(2) == 0
	switch r.Intn(9) {
	case 0: // the service has no connection yet and the first dials are refused with the request waiting
		c.Warm = false
		c.Dial = rep(1, 1+r.Intn(2))
		c.Class = "fresh/dial-refused"
	case 1: // a failed INSERT closes the connection, the re-dial is refused while doPush retries
		c.Do = []int{1}
		c.Dial = rep(1, 1+r.Intn(2))
		if !c.Warm {
			c.Dial = append([]int{0}, c.Dial...)
		}
		c.Class = "insert-fails/redial-refused"
	case 2: // INSERT fails, the re-dial is accepted
		c.Do = rep(1, 1+r.Intn(attempts-1))
		c.Class = "insert-fails/redial-ok"
	case 3: // every attempt fails: the request is answered 5xx after the configured attempts
		c.Do = rep(1, attempts)
		if r.Intn(2) == 0 {
			c.Dial = []int{0, 1}
		}
		c.Class = "insert-fails-every-attempt"
	case 4: // the INSERT runs into the write timeout
		c.Do = []int{2}
		if r.Intn(2) == 0 {
			c.Dial = []int{0, 1}
			if c.Warm {
				c.Dial = []int{1}
			}
		}
		c.Class = "insert-times-out"
	case 5: // the watchdog ping fails before the pushes arrive; the re-dial is refused or accepted
		c.Warm = true
		c.Ping = []int{1 + r.Intn(2)}
		c.Hold = "ping-first"
		c.Dial = rep(1, r.Intn(3))
		c.Class = "ping-fails-first"
	case 6: // the watchdog ping fails with requests waiting in the service
		c.Warm = true
		c.Ping = []int{1 + r.Intn(2)}
		c.Hold = "ping-waiting"
		c.Dial = rep(1, r.Intn(3))
		c.Class = "ping-fails-with-requests-waiting"
	case 7: // several requests meet the refused dials together
		c.Pushes = 2 + r.Intn(2)
		c.Dial = rep(1, 1+r.Intn(2))
		if c.Warm {
			c.Ping = []int{1}
			c.Hold = "ping-waiting"
		}
		c.Class = "several-pushes/dial-refused"
	default: // mixed: failed INSERT, refused dials, failed INSERT again
		c.Do = []int{1, 0}
		if attempts > 2 && r.Intn(2) == 0 {
			c.Do = []int{1, 1, 0}
		}
		c.Dial = []int{r.Intn(2), 1, r.Intn(2)}
		c.Class = "mixed"
	}
	c.CloseErr = r.Intn(4) == 0
	if c.CloseErr {
		c.Class += "/close-error"
	}
	if c.Warm {
		c.Class = "warm/" + c.Class
	}
	return c
}

// genBulk: the operator configured a bulk size (BULK_MAX_SIZE_BYTES > 0); the pushes' accounted size (line lengths + 26 per sample) is above
// it at once (bulk 1), after a few rows / pushes (bulk 150, 2000) or never (bulk 1 MiB).  Own random stream: the other classes keep their cases
func genBulk(r *rand.Rand, id, attempts int) *Case {
	c := &Case{ID: id, Pushes: 1 + r.Intn(3), Rows: 1 + r.Intn(60), Attempts: attempts, Dial: []int{}, Do: []int{}, Ping: []int{}}
	c.Kind = []string{"lokijson", "prom", "pprof", "zipkin"}[r.Intn(4)]
	c.Bulk = []int64{1, 1, 150, 2000, 1 << 20}[r.Intn(5)]
	c.Warm = r.Intn(2) == 0
	c.Class = "bulk-size/database-up"
	if !c.Warm && r.Intn(3) == 0 { // the size-triggered flush meets a refused dial
		c.Dial = rep(1, 1+r.Intn(2))
		c.Class = "bulk-size/dial-refused"
	}
	if c.Warm {
		c.Class = "warm/" + c.Class
	}
	return c
}

func main() {
	deadlineMs := flag.Int("deadline-ms", 15000, "per-case deadline for the answers")
	genOnly := flag.Bool("gen-only", false, "print the generated cases without running them")
	serial := flag.Bool("serial", false, "run the cases one at a time and count the goroutines left by each")
	attempts := flag.Int("attempts", 3, "RetryAttempts (shipped default 10; RetryTimeoutS stays 1)")
	f := hx.ParseFlags()
	var cases []*Case
	if f.Cases != "" {
		hx.ReadLines(f.Cases, func(line []byte) {
			c := &Case{}
			if err := json.Unmarshal(line, c); err != nil {
				panic(err)
			}
			c.Obs = nil
			if c.Attempts == 0 {
				c.Attempts = *attempts
			}
			cases = append(cases, c)
		})
		if len(cases) > 0 {
			*attempts = cases[0].Attempts
		}
	} else {
		r := hx.Rand(f.Seed)
		for i := 0; i < f.N; i++ {
			cases = append(cases, gen(r, i, *attempts))
		}
		rb := hx.Rand(f.Seed + 5)
		for i := 0; i < (f.N+2)/3; i++ {
			cases = append(cases, genBulk(rb, f.N+i, *attempts))
		}
	}
	of := os.Stdout
	if f.Out != "-" && f.Out != "" {
		var err error
		if of, err = os.Create(f.Out); err != nil {
			panic(err)
		}
	}
	var omu sync.Mutex
	put := func(v interface{}) {
		b, err := json.Marshal(v)
		if err != nil {
			panic(err)
		}
		omu.Lock()
		of.Write(append(b, '\n'))
		omu.Unlock()
	}
	if *genOnly {
		for _, c := range cases {
			put(c)
		}
		return
	}
	devnull, _ := os.OpenFile(os.DevNull, os.O_WRONLY, 0)
	os.Stdout = devnull
	router, nodes := setup(cases, *attempts)
	time.Sleep(50 * time.Millisecond)
	base := len(requestGoroutines())
	dl := time.Duration(*deadlineMs) * time.Millisecond
	census := func() []string {
		var gs []string
		for i := 0; i < 40; i++ {
			gs = requestGoroutines()
			if len(gs) <= base {
				break
			}
			time.Sleep(25 * time.Millisecond)
		}
		return gs
	}
	done := make([]int32, len(cases))
	go func() {
		for {
			for i, nd := range nodes {
				if atomic.LoadInt32(&done[i]) != 0 {
					nd.flushPending() // the case has ended: what a late retry appends is still flushed (the services' own interval is an hour)
				}
			}
			time.Sleep(10 * time.Millisecond)
		}
	}()
	if *serial {
		for i, c := range cases {
			runCase(router, nodes[i], c, dl)
			atomic.StoreInt32(&done[i], 1)
			gs := census()
			c.Obs.Goroutines = len(gs) - base
			if c.Obs.Goroutines > 0 {
				sort.Strings(gs)
				if len(gs) > 6 {
					gs = gs[:6]
				}
				c.Obs.Stacks = gs
			}
			base = len(requestGoroutines())
			put(c)
		}
		return
	}
	var wg sync.WaitGroup
	for i, c := range cases {
		wg.Add(1)
		go func(i int, c *Case) {
			defer wg.Done()
			runCase(router, nodes[i], c, dl)
			atomic.StoreInt32(&done[i], 1)
			put(c)
		}(i, c)
	}
	wg.Wait()
	gs := census()
	sort.Strings(gs)
	left := len(gs) - base
	if len(gs) > 6 {
		gs = gs[:6]
	}
	if left <= 0 {
		gs = nil
	}
	put(map[string]interface{}{"census": map[string]interface{}{"goroutines_left": left, "stacks": gs}})
}
