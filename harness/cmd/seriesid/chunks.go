package main

// --mode chunks: the size rule of the mid-request flush, observed at the parser: Loki JSON bodies whose log lines have
// chosen lengths are parsed by the exported parser against a cache that has seen nothing; every ParserResponse (= one
// chunk handed to the controller) is recorded with its series rows and samples.

import (
	"bytes"
	"context"
	"encoding/json"
	"io"
	"math/rand"
	"strconv"
	"strings"

	wmodel "github.com/metrico/qryn/writer/model"
	"github.com/metrico/qryn/writer/utils/unmarshal"

	"verif/harness/hx"
)

type ZEntry struct {
	Ts  int64 `json:"ts"`
	T   int   `json:"t"`   // 1 log, 2 metric, 0 both
	Len int   `json:"len"` // length of the log line (0 for a pure metric entry)
}
type ZStream struct {
	Ls      int      `json:"ls"` // index into the label-set pool
	Fp      string   `json:"fp"`
	DocLen  int      `json:"doclen"` // len(encodeLabels(sanitizeLabels(labels)))
	Entries []ZEntry `json:"entries"`
}
type ZChunk struct {
	Rows    [][3]string `json:"rows"`    // date (days), fingerprint, type
	Samples [][3]string `json:"samples"` // fingerprint, timestamp_ns, type
}
type ZCase struct {
	ID      int       `json:"id"`
	Class   string    `json:"class"`
	Streams []ZStream `json:"streams"`
	Chunks  []ZChunk  `json:"chunks"`
	Err     string    `json:"err,omitempty"`
	Panic   string    `json:"panic,omitempty"`
}

func zbody(c *ZCase) []byte {
	var ss []string
	for _, s := range c.Streams {
		var m []string
		for _, kv := range pool[s.Ls] {
			m = append(m, jsonStr(kv[0])+":"+jsonStr(kv[1]))
		}
		var es []string
		for _, e := range s.Entries {
			o := `{"ts":"` + strconv.FormatInt(e.Ts, 10) + `"`
			if e.T == 1 || e.T == 0 {
				o += `,"line":"` + strings.Repeat("x", e.Len) + `"`
			}
			if e.T == 2 || e.T == 0 {
				o += `,"value":1.5`
			}
			es = append(es, o+"}")
		}
		ss = append(ss, `{"stream":{`+strings.Join(m, ",")+`},"entries":[`+strings.Join(es, ",")+`]}`)
	}
	return []byte(`{"streams":[` + strings.Join(ss, ",") + `]}`)
}

func observeChunks(c *ZCase) {
	c.Chunks = nil
	c.Panic = hx.Catch(func() {
		for i := range c.Streams {
			s := &c.Streams[i]
			san := unmarshal.VerifC04SanitizeLabels(copyLabels(pool[s.Ls]))
			s.Fp = strconv.FormatUint(unmarshal.VerifC04FingerprintLabels(copyLabels(san)), 10)
			s.DocLen = len(unmarshal.VerifC04EncodeLabels(copyLabels(san)))
			for j := range s.Entries {
				if s.Entries[j].T == 2 {
					s.Entries[j].Len = 0
				}
			}
		}
		ch := unmarshal.DecodePushRequestStringV2(context.Background(), io.Reader(bytes.NewReader(zbody(c))), freshCache{})
		for resp := range ch {
			if resp.Error != nil {
				c.Err = resp.Error.Error()
				continue
			}
			zc := ZChunk{Rows: [][3]string{}, Samples: [][3]string{}}
			if ts, ok := resp.TimeSeriesRequest.(*wmodel.TimeSeriesData); ok && ts != nil {
				for k := range ts.MDate {
					zc.Rows = append(zc.Rows, [3]string{strconv.FormatInt(ts.MDate[k].Unix()/86400, 10), strconv.FormatUint(ts.MFingerprint[k], 10), strconv.Itoa(int(ts.MType[k]))})
				}
			}
			if spl, ok := resp.SamplesRequest.(*wmodel.TimeSamplesData); ok && spl != nil {
				for k := range spl.MTimestampNS {
					zc.Samples = append(zc.Samples, [3]string{strconv.FormatUint(spl.MFingerprint[k], 10), strconv.FormatInt(spl.MTimestampNS[k], 10), strconv.Itoa(int(spl.MType[k]))})
				}
			}
			c.Chunks = append(c.Chunks, zc)
		}
	})
}

const flushLimit = 1 << 20

func genChunks(r *rand.Rand, id int) ZCase {
	c := ZCase{ID: id}
	lens := []int{1, 1, 1000, 200000, 400000, 700000, 1100000}
	switch id % 4 {
	case 0:
		// one stream, one log line, the chunk size exactly at / one below / one above the limit: the label text length is
		// part of the sum (14 + len per series row), so the line length is fixed up after the document length is known
		c.Class = "boundary"
		ls := r.Intn(len(pool))
		san := unmarshal.VerifC04SanitizeLabels(copyLabels(pool[ls]))
		doc := len(unmarshal.VerifC04EncodeLabels(copyLabels(san)))
		delta := []int{-1, 0, 1, 2}[r.Intn(4)]
		c.Streams = []ZStream{{Ls: ls, Entries: []ZEntry{{Ts: genTs(r), T: 1, Len: flushLimit - 26 - 14 - doc + delta}}},
			{Ls: r.Intn(len(pool)), Entries: []ZEntry{{Ts: genTs(r), T: 1, Len: 1}}}}
	case 1:
		// the limit is crossed by the sum of several streams; the series of a later chunk was announced in an earlier one
		c.Class = "cumulative"
		n := 2 + r.Intn(5)
		for i := 0; i < n; i++ {
			s := ZStream{Ls: r.Intn(2)}
			m := 1 + r.Intn(2)
			for j := 0; j < m; j++ {
				s.Entries = append(s.Entries, ZEntry{Ts: genTs(r), T: []int{1, 1, 0}[r.Intn(3)], Len: lens[2+r.Intn(4)]})
			}
			c.Streams = append(c.Streams, s)
		}
	case 2:
		c.Class = "small"
		n := 1 + r.Intn(4)
		for i := 0; i < n; i++ {
			s := ZStream{Ls: r.Intn(len(pool))}
			m := 1 + r.Intn(3)
			for j := 0; j < m; j++ {
				s.Entries = append(s.Entries, ZEntry{Ts: genTs(r), T: r.Intn(3), Len: lens[r.Intn(3)]})
			}
			c.Streams = append(c.Streams, s)
		}
	default:
		c.Class = "mixed"
		n := 1 + r.Intn(6)
		for i := 0; i < n; i++ {
			s := ZStream{Ls: r.Intn(len(pool))}
			m := 1 + r.Intn(3)
			for j := 0; j < m; j++ {
				s.Entries = append(s.Entries, ZEntry{Ts: genTs(r), T: r.Intn(3), Len: lens[r.Intn(len(lens))]})
			}
			c.Streams = append(c.Streams, s)
		}
	}
	return c
}

func runChunks(f *hx.Flags, out *hx.Out) {
	if f.Cases != "" {
		hx.ReadLines(f.Cases, func(b []byte) {
			var in ZCase
			if err := json.Unmarshal(b, &in); err != nil {
				panic(err)
			}
			c := ZCase{ID: in.ID, Class: in.Class, Streams: in.Streams}
			observeChunks(&c)
			out.Put(c)
		})
		return
	}
	rnd := hx.Rand(f.Seed)
	for i := 0; i < f.N; i++ {
		c := genChunks(rnd, i)
		observeChunks(&c)
		out.Put(c)
	}
}
