// seriesid drives the real series-identity code of the writer (property C04):
//
//	--mode labels  sanitizeLabels / fingerprintLabels / encodeLabels (hooks VerifC04*) and the
//	               exported parsers (Loki JSON stream / labels forms, Loki protobuf, Prometheus
//	               remote write) on generated label sets;
//	--mode hist    request histories through the in-process writer router with one shared
//	               (day, fingerprint) cache and a fake ClickHouse client with scripted outcomes;
//	--mode dates   the same router under time.Local = FixedZone(offset): the dates that reach
//	               the client's proto.ColDate;
//	--mode protos  the label lists built by the Datadog / Elasticsearch / OTLP-logs / InfluxDB-metric decoders,
//	               in several wire orders and under FingerPrintType = Bernstein;
//	--mode chunks  the size rule of the mid-request flush at the parser: bodies with log lines of chosen lengths, every
//	               ParserResponse (chunk) with its series rows and samples;
//	--mode djb     pairs of label sets under both fingerprint types (--mode djbsearch: birthday search for two label
//	               sets whose 32-bit Bernstein fingerprints collide);
//	--mode keys    the key serializer of the production announcement cache on pairs of 64-bit keys.
//
// Every random choice derives from --seed. Output: JSON lines.
package main

import (
	"flag"
	"fmt"
	"os"

	clconfig "github.com/metrico/cloki-config"
	"github.com/metrico/qryn/writer/config"
	"verif/harness/hx"
)

func main() {
	mode := flag.String("mode", "labels", "labels | hist | dates | keys | protos | chunks | djb | djbsearch")
	f := hx.ParseFlags()
	config.Cloki = clconfig.New(clconfig.CLOKI_WRITER, nil, "", "")
	out := hx.OpenOut(f.Out)
	defer out.Close()
	switch *mode {
	case "labels":
		runLabels(f, out)
	case "hist":
		runHist(f, out)
	case "dates":
		runDates(f, out)
	case "keys":
		runKeys(f, out)
	case "protos":
		runProtos(f, out)
	case "chunks":
		runChunks(f, out)
	case "djb":
		runDjb(f, out, false)
	case "djbsearch":
		runDjb(f, out, true)
	default:
		fmt.Fprintln(os.Stderr, "unknown mode", *mode)
		os.Exit(2)
	}
}
