package main

// --mode djb: pairs of label sets fingerprinted under both fingerprint types (FingerPrintType = CityHash, the default,
// and Bernstein, whose result has 32 bits). With --search it looks for two one-label sets {app="s<i>"} whose Bernstein
// fingerprints collide (birthday search over --n candidates) and prints the pair as a case.

import (
	"encoding/json"
	"strconv"

	"github.com/go-faster/city"
	clc_writer "github.com/metrico/cloki-config/config/writer"
	"github.com/metrico/qryn/writer/config"
	"github.com/metrico/qryn/writer/utils/unmarshal"

	"verif/harness/hx"
)

type JCase struct {
	ID    int         `json:"id"`
	Class string      `json:"class"`
	A     [][2]string `json:"a"` // label set (hex pairs), as it reaches fingerprintLabels
	B     [][2]string `json:"b"`
	Ch    [][2]string `json:"ch,omitempty"`
	CityA string      `json:"city_a,omitempty"`
	CityB string      `json:"city_b,omitempty"`
	DjbA  string      `json:"djb_a,omitempty"`
	DjbB  string      `json:"djb_b,omitempty"`
	Panic string      `json:"panic,omitempty"`
}

func fpUnder(tp uint, ls [][]string) uint64 {
	old := config.Cloki.Setting.FingerPrintType
	config.Cloki.Setting.FingerPrintType = tp
	defer func() { config.Cloki.Setting.FingerPrintType = old }()
	return unmarshal.VerifC04FingerprintLabels(copyLabels(ls))
}

func observeDjb(c *JCase) {
	c.Panic = hx.Catch(func() {
		a, b := unhexPairs(c.A), unhexPairs(c.B)
		c.CityA = strconv.FormatUint(fpUnder(clc_writer.FINGERPRINT_CityHash, a), 10)
		c.CityB = strconv.FormatUint(fpUnder(clc_writer.FINGERPRINT_CityHash, b), 10)
		c.DjbA = strconv.FormatUint(fpUnder(clc_writer.FINGERPRINT_Bernstein, a), 10)
		c.DjbB = strconv.FormatUint(fpUnder(clc_writer.FINGERPRINT_Bernstein, b), 10)
		seen := map[string]bool{}
		for _, ls := range [][][]string{a, b} {
			for _, kv := range ls {
				for _, s := range kv {
					if !seen[s] {
						seen[s] = true
						c.Ch = append(c.Ch, [2]string{hx.Hex(s), strconv.FormatUint(city.CH64([]byte(s)), 10)})
					}
				}
			}
		}
	})
}

func runDjb(f *hx.Flags, out *hx.Out, search bool) {
	if search {
		seen := map[uint64]int{}
		for i := 0; i < f.N; i++ {
			fp := fpUnder(clc_writer.FINGERPRINT_Bernstein, [][]string{{"app", "s" + strconv.Itoa(i)}})
			if j, ok := seen[fp]; ok {
				c := JCase{ID: 0, Class: "bernstein-collision",
					A: [][2]string{{hx.Hex("app"), hx.Hex("s" + strconv.Itoa(j))}}, B: [][2]string{{hx.Hex("app"), hx.Hex("s" + strconv.Itoa(i))}}}
				observeDjb(&c)
				out.Put(c)
				return
			}
			seen[fp] = i
		}
		return
	}
	hx.ReadLines(f.Cases, func(b []byte) {
		var in JCase
		if err := json.Unmarshal(b, &in); err != nil {
			panic(err)
		}
		c := JCase{ID: in.ID, Class: in.Class, A: in.A, B: in.B}
		observeDjb(&c)
		out.Put(c)
	})
}
