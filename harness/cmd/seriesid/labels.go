package main

import (
	"bytes"
	"context"
	"encoding/json"
	"fmt"
	"io"
	"math/rand"
	"regexp"
	"sort"
	"strconv"
	"strings"
	"time"
	"unicode/utf8"

	"github.com/go-faster/city"
	rservice "github.com/metrico/qryn/reader/service"
	wmodel "github.com/metrico/qryn/writer/model"
	"github.com/metrico/qryn/writer/utils/numbercache"
	"github.com/metrico/qryn/writer/utils/proto/logproto"
	"github.com/metrico/qryn/writer/utils/proto/prompb"
	"github.com/metrico/qryn/writer/utils/unmarshal"
	"google.golang.org/protobuf/proto"

	"verif/harness/hx"
)

// LCase: one label set and what the implementation made of it. Byte strings travel as hex.
type LCase struct {
	ID    int         `json:"id"`
	Class string      `json:"class"`
	Grp   int         `json:"grp"` // >= 0: member of a group of deliberately confusable sets
	Raw   [][2]string `json:"raw"`

	San      [][2]string       `json:"san"`
	Fp       string            `json:"fp"`
	Fps      []string          `json:"fps"`
	FpSrc    []string          `json:"fp_src"`
	Skipped  map[string]string `json:"skipped,omitempty"`
	Doc      string            `json:"doc"`
	ParserOK bool              `json:"parser_doc_ok"` // every parser's stored document = encodeLabels(sanitizeLabels(labels as sent))
	Ch       [][2]string       `json:"ch"`            // (hex string, CH64 decimal)
	Print    [][2]int64        `json:"print"`         // (rune, 0/1) for runes > 0xFF
	Influx   string            `json:"influx"` // "" not applicable | "ok" | description of the disagreement
	GoValid  bool              `json:"go_valid"`      // json.Valid(doc) && utf8.Valid(doc)
	QuoteJSON bool             `json:"quote_json"` // would the document strconv.Quote wrote before the fix (value only cut at 100 bytes) have been JSON for the set
	GoEqual  bool              `json:"go_equal"`      // ... and its members, in order, are exactly the sanitized pairs
	Reader   string            `json:"reader"`         // the READER's decoder of stored label documents (storedLabels, used by /series) on the document: "ok" = exactly the sanitized label set
	NamesDistinct bool         `json:"names_distinct"` // the sanitized names are pairwise distinct (the property's quantifier)
	Panic    string            `json:"panic,omitempty"`
}

// readerView runs the reader's own decoder of stored label documents (reader/service storedLabels, hook
// VerifC15StoredLabels: the function /series decodes time_series.labels with) and compares its map with the label
// list; for duplicate names a Go map keeps the last value.
func readerView(doc string, labels [][]string) (string, bool) {
	want := map[string]string{}
	for _, kv := range labels {
		want[kv[0]] = kv[1]
	}
	distinct := len(want) == len(labels)
	m, err := rservice.VerifC15StoredLabels(doc)
	if err != nil {
		return "error: " + err.Error(), distinct
	}
	if len(m) != len(want) {
		return fmt.Sprintf("the reader decodes %d labels, the set has %d", len(m), len(want)), distinct
	}
	for k, v := range want {
		if got, ok := m[k]; !ok || got != v {
			return fmt.Sprintf("label %q: the reader decodes %q (present %v), the set has %q", k, got, ok, v), distinct
		}
	}
	return "ok", distinct
}

// a cache that has never seen anything: every (day, fingerprint) pair is new
type freshCache struct{}

func (freshCache) CheckAndSet(uint64) bool              { return false }
func (freshCache) Has(uint64) bool                      { return false }
func (freshCache) DB(string) numbercache.ICache[uint64] { return freshCache{} }

var identRe = regexp.MustCompile(`^[a-zA-Z_][a-zA-Z0-9_]*$`)
var influxValRe = regexp.MustCompile(`^[A-Za-z0-9_./:%-]+$`)

// influxOK: tags travel through a Go map (random order); the fingerprint must be that of
// sanitizeLabels(("measurement", m) :: tags) whatever the order
func influxCheck(raw [][]string) string {
	for _, kv := range raw {
		if !identRe.MatchString(kv[0]) || kv[0] == "measurement" || !influxValRe.MatchString(kv[1]) {
			return ""
		}
	}
	line := "m"
	for _, kv := range raw {
		line += "," + kv[0] + "=" + kv[1]
	}
	line += " message=\"x\" 1704888000000000000\n"
	want := unmarshal.VerifC04FingerprintLabels(unmarshal.VerifC04SanitizeLabels(append([][]string{{"measurement", "m"}}, copyLabels(raw)...)))
	for k := 0; k < 3; k++ {
		ctx := context.WithValue(context.Background(), "precision", time.Nanosecond)
		ch := unmarshal.UnmarshalInfluxDBLogsV2(ctx, io.Reader(bytes.NewReader([]byte(line))), freshCache{})
		got, seen := uint64(0), false
		var perr error
		for resp := range ch {
			if resp.Error != nil {
				perr = resp.Error
				continue
			}
			if spl, ok := resp.SamplesRequest.(*wmodel.TimeSamplesData); ok && spl != nil && len(spl.MFingerprint) > 0 {
				got, seen = spl.MFingerprint[0], true
			}
		}
		if perr != nil {
			return "parser error: " + perr.Error()
		}
		if !seen || got != want {
			return fmt.Sprintf("fingerprint %d through the Influx parser, %d for sanitizeLabels(measurement :: tags)", got, want)
		}
	}
	return "ok"
}

const alpha = "abcdefghijklmnopqrstuvwxyzABCDEFGHIJKLMNOPQRSTUVWXYZ_"
const alnum = alpha + "0123456789"

func genIdent(r *rand.Rand) string {
	n := 1 + r.Intn(8)
	b := []byte{alpha[r.Intn(len(alpha))]}
	for i := 1; i < n; i++ {
		b = append(b, alnum[r.Intn(len(alnum))])
	}
	return string(b)
}

func genName(r *rand.Rand) (string, string) {
	if r.Intn(4) != 0 {
		return genIdent(r), "ident"
	}
	dirt := []string{".", "-", " ", "/", "\u00e9", "\u65e5", "\xff", "\n", "\"", "\\", ":", "\U0001F600", "\xc3"}
	s := genIdent(r)
	switch r.Intn(3) {
	case 0: // leading digit / non-letter
		s = string(rune('0'+r.Intn(10))) + s
	case 1:
		s = dirt[r.Intn(len(dirt))] + s
	}
	k := 1 + r.Intn(2)
	for i := 0; i < k; i++ {
		p := r.Intn(len(s) + 1)
		s = s[:p] + dirt[r.Intn(len(dirt))] + s[p:]
	}
	return s, "dirty-name"
}

func genValue(r *rand.Rand) (string, string) {
	words := []string{"prod", "eu-west-1", "api/v1", "GET", "node_exporter", "a b", "x=1;y=2", "100%", "{}", "[1,2]", "it's", "<tag>&"}
	pick := func(xs []string) string { return xs[r.Intn(len(xs))] }
	base := pick(words)
	ins := func(s, x string) string {
		p := r.Intn(len(s) + 1)
		return s[:p] + x + s[p:]
	}
	switch r.Intn(12) {
	case 0, 1, 2:
		return base, "ascii"
	case 3:
		if r.Intn(4) == 0 {
			return "", "ascii"
		}
		return ins(ins(base, pick([]string{"\"", "\\", "\\\"", "\"\"", "\\n", "\\u0041"})), pick([]string{"\"", "\\", "/"})), "quote"
	case 4:
		return ins(base, pick([]string{"\n", "\t", "\r", "\b", "\f", "\r\n"})), "json-ctl"
	case 5:
		return ins(base, pick([]string{"\x00", "\x01", "\a", "\v", "\x1b", "\x1f", "\x7f", "\x0e"})), "other-ctl"
	case 6:
		return ins(base, pick([]string{"\u00e9", "\u65e5\u672c", "\U0001F600", "\u00df", "\u0416", "\u00a1", "\ufffd"})), "utf8-print"
	case 7:
		return ins(base, pick([]string{"\u0080", "\u200b", "\ufeff", "\ufffe", "\u00ad", "\u2028", "\u00a0", "\u0085"})), "bmp-nonprint"
	case 8:
		return ins(base, pick([]string{"\U000E0001", "\U0010FFFF", "\U0001FFFE", "\U000F0000"})), "astral-nonprint"
	case 9:
		return ins(base, pick([]string{"\xff", "\xc3", "\xc0\x80", "\xed\xa0\x80", "\xf4\x90\x80\x80", "\xe6\x97", "\x80"})), "bad-utf8"
	case 10:
		// longer than 100 bytes; sometimes the cut at byte 100 falls inside a rune
		n := 99 + r.Intn(12)
		s := strings.Repeat("v", n)
		if r.Intn(2) == 0 {
			s = s[:98] + "\u65e5" + s[98:] // bytes 98..100: cut after two of three bytes when len > 100
			return s, "long-cut-rune"
		}
		return s + base, "long"
	default:
		// random bytes
		n := r.Intn(6)
		b := make([]byte, n)
		for i := range b {
			b[i] = byte(r.Intn(256))
		}
		cl := "random-bytes"
		return string(b), cl
	}
}

func copyLabels(l [][]string) [][]string {
	out := make([][]string, len(l))
	for i := range l {
		out[i] = []string{l[i][0], l[i][1]}
	}
	return out
}

func sanNames(l [][]string) []string {
	s := unmarshal.VerifC04SanitizeLabels(copyLabels(l))
	out := make([]string, len(s))
	for i := range s {
		out[i] = s[i][0]
	}
	return out
}

func genLabelSet(r *rand.Rand) ([][]string, string) {
	n := 1 + r.Intn(6)
	if r.Intn(25) == 0 {
		n = 0
	}
	classes := map[string]bool{}
	var ls [][]string
	seen := map[string]bool{}
	for len(ls) < n {
		name, nc := genName(r)
		sn := sanNames([][]string{{name, ""}})[0]
		if seen[sn] || sn == "__ttl_days__" {
			continue
		}
		seen[sn] = true
		v, vc := genValue(r)
		classes[nc] = true
		classes[vc] = true
		ls = append(ls, []string{name, v})
	}
	var cs []string
	for c := range classes {
		if c != "ident" {
			cs = append(cs, c)
		}
	}
	sort.Strings(cs)
	if len(cs) == 0 {
		cs = []string{"ascii"}
	}
	return ls, strings.Join(cs, "+")
}

// groups of label sets that a careless hash would confuse
func genConfusable(r *rand.Rand) [][][]string {
	a, b := genIdent(r), genIdent(r)
	v, w := genIdent(r), genIdent(r)
	for a == b {
		b = genIdent(r)
	}
	for v == w {
		w = genIdent(r)
	}
	switch r.Intn(5) {
	case 0: // name/value boundary shifted: {ab:"c"} {a:"bc"}
		return [][][]string{{{a + "x", v}}, {{a, "x" + v}}}
	case 1: // name and value swapped
		return [][][]string{{{a, b}}, {{b, a}}}
	case 2: // values exchanged between two labels
		return [][][]string{{{a, v}, {b, w}}, {{a, w}, {b, v}}}
	case 3: // a label split in two vs one; duplicated contribution
		return [][][]string{{{a, v}}, {{a, v}, {b, ""}}, {{a, v}, {b, v}}}
	default: // names exchanged against values across labels
		return [][][]string{{{a, v}, {b, w}}, {{v, a}, {w, b}}, {{a, b}, {v, w}}}
	}
}

func hexPairs(l [][]string) [][2]string {
	out := make([][2]string, len(l))
	for i := range l {
		out[i] = [2]string{hx.Hex(l[i][0]), hx.Hex(l[i][1])}
	}
	return out
}

func permuted(r *rand.Rand, l [][]string) [][]string {
	out := copyLabels(l)
	r.Shuffle(len(out), func(i, j int) { out[i], out[j] = out[j], out[i] })
	return out
}

func labelsString(l [][]string) string {
	var parts []string
	for _, kv := range l {
		parts = append(parts, kv[0]+"="+strconv.Quote(kv[1]))
	}
	return "{" + strings.Join(parts, ",") + "}"
}

func allValidUTF8(l [][]string) bool {
	for _, kv := range l {
		if !utf8.ValidString(kv[0]) || !utf8.ValidString(kv[1]) {
			return false
		}
	}
	return true
}

func allIdent(l [][]string) bool {
	for _, kv := range l {
		if !identRe.MatchString(kv[0]) {
			return false
		}
	}
	return true
}

// parse runs an exported parser with a never-seen cache; returns the fingerprint of the first sample
// and the stored label document of the first series row.
func parse(fn unmarshal.ParsingFunction, body []byte) (fp uint64, doc string, err error) {
	ch := fn(context.Background(), io.Reader(bytes.NewReader(body)), freshCache{})
	got := false
	for resp := range ch {
		if resp.Error != nil {
			if err == nil {
				err = resp.Error
			}
			continue
		}
		if spl, ok := resp.SamplesRequest.(*wmodel.TimeSamplesData); ok && spl != nil && len(spl.MFingerprint) > 0 && !got {
			fp = spl.MFingerprint[0]
			got = true
		}
		if ts, ok := resp.TimeSeriesRequest.(*wmodel.TimeSeriesData); ok && ts != nil && len(ts.MLabels) > 0 && doc == "" {
			doc = ts.MLabels[0]
			if got && ts.MFingerprint[0] != fp {
				err = fmt.Errorf("series row fingerprint %d differs from sample fingerprint %d", ts.MFingerprint[0], fp)
			}
		}
	}
	if err == nil && !got {
		err = fmt.Errorf("no sample in parser output")
	}
	return
}

// rawJSONStr: a JSON string literal that keeps every byte >= 0x20 other than the quote and the backslash as it is
// (also bytes that are not UTF-8)
func rawJSONStr(s string) string {
	var b strings.Builder
	b.WriteByte('"')
	for i := 0; i < len(s); i++ {
		ch := s[i]
		switch {
		case ch == '"' || ch == '\\':
			b.WriteByte('\\')
			b.WriteByte(ch)
		case ch < 0x20:
			fmt.Fprintf(&b, "\\u%04x", ch)
		default:
			b.WriteByte(ch)
		}
	}
	b.WriteByte('"')
	return b.String()
}

func jsonStr(s string) string {
	b, _ := json.Marshal(s)
	return string(b)
}

func observe(r *rand.Rand, c *LCase, raw [][]string) {
	c.Raw = hexPairs(raw)
	c.Skipped = map[string]string{}
	c.ParserOK = true
	p := hx.Catch(func() {
		san := unmarshal.VerifC04SanitizeLabels(copyLabels(raw))
		c.San = hexPairs(san)
		fp := unmarshal.VerifC04FingerprintLabels(copyLabels(san))
		c.Fp = strconv.FormatUint(fp, 10)
		c.Doc = hx.Hex(unmarshal.VerifC04EncodeLabels(copyLabels(san)))
		add := func(src string, v uint64) {
			c.Fps = append(c.Fps, strconv.FormatUint(v, 10))
			c.FpSrc = append(c.FpSrc, src)
		}
		// permutations through the hook
		for k := 0; k < 3; k++ {
			add("perm", unmarshal.VerifC04FingerprintLabels(permuted(r, san)))
		}
		add("reversed", func() uint64 {
			rv := copyLabels(san)
			for i, j := 0, len(rv)-1; i < j; i, j = i+1, j-1 {
				rv[i], rv[j] = rv[j], rv[i]
			}
			return unmarshal.VerifC04FingerprintLabels(rv)
		}())
		// every ingest protocol that can carry this label set, each with its own label order
		viaParser := func(src string, fn unmarshal.ParsingFunction, sent [][]string, body []byte) {
			v, doc, err := parse(fn, body)
			if err != nil {
				c.Skipped[src] = "parser error: " + err.Error()
				return
			}
			add(src, v)
			want := unmarshal.VerifC04EncodeLabels(unmarshal.VerifC04SanitizeLabels(copyLabels(sent)))
			if doc != want {
				c.ParserOK = false
				c.Skipped[src+"_doc"] = fmt.Sprintf("stored document %q, encodeLabels(sanitizeLabels(sent)) %q", doc, want)
			}
		}
		if len(raw) == 0 {
			c.Skipped["all"] = "empty label set"
		} else {
			if allValidUTF8(raw) {
				sent := permuted(r, raw)
				var m []string
				for _, kv := range sent {
					m = append(m, jsonStr(kv[0])+":"+jsonStr(kv[1]))
				}
				body := `{"streams":[{"stream":{` + strings.Join(m, ",") + `},"values":[["1704888000000000000","x"]]}]}`
				viaParser("json_stream", unmarshal.DecodePushRequestStringV2, sent, []byte(body))

				sent = permuted(r, raw)
				wr := &prompb.WriteRequest{}
				ts := &prompb.TimeSeries{Samples: []*prompb.Sample{{Value: 1, Timestamp: 1704888000000}}}
				for _, kv := range sent {
					ts.Labels = append(ts.Labels, &prompb.Label{Name: kv[0], Value: kv[1]})
				}
				wr.Timeseries = append(wr.Timeseries, ts)
				if b, err := proto.Marshal(wr); err == nil {
					viaParser("promrw", unmarshal.UnmarshallMetricsWriteProtoV2, sent, b)
				} else {
					c.Skipped["promrw"] = "not encodable: " + err.Error()
				}
			} else {
				// the JSON decoder of the Loki push (jx) does not validate UTF-8: raw ill-formed bytes arrive in the labels
				sent := permuted(r, raw)
				var m []string
				for _, kv := range sent {
					m = append(m, rawJSONStr(kv[0])+":"+rawJSONStr(kv[1]))
				}
				body := `{"streams":[{"stream":{` + strings.Join(m, ",") + `},"values":[["1704888000000000000","x"]]}]}`
				viaParser("json_stream_raw_bytes", unmarshal.DecodePushRequestStringV2, sent, []byte(body))
				c.Skipped["promrw"] = "ill-formed UTF-8 cannot be carried"
			}
			if allIdent(raw) {
				sent := permuted(r, raw)
				ls := labelsString(sent)
				body := `{"streams":[{"labels":` + jsonStr(ls) + `,"entries":[{"ts":"2024-01-10T12:00:00Z","line":"x"}]}]}`
				viaParser("json_labels", unmarshal.DecodePushRequestStringV2, sent, []byte(body))

				sent = permuted(r, raw)
				pr := &logproto.PushRequest{Streams: []*logproto.StreamAdapter{{
					Labels:  labelsString(sent),
					Entries: []*logproto.EntryAdapter{{Timestamp: &logproto.Timestamp{Seconds: 1704888000}, Line: "x"}},
				}}}
				if b, err := proto.Marshal(pr); err == nil {
					viaParser("loki_proto", unmarshal.UnmarshalProtoV2, sent, b)
				} else {
					c.Skipped["loki_proto"] = "not encodable: " + err.Error()
				}
			} else {
				c.Skipped["json_labels"] = "names are not identifiers of the labels syntax"
				c.Skipped["loki_proto"] = "names are not identifiers of the labels syntax"
			}
		}
		if len(raw) > 0 {
			c.Influx = influxCheck(raw)
		}
		// oracle tables
		seen := map[string]bool{}
		runes := map[rune]bool{}
		for _, kv := range san {
			for _, s := range kv {
				if !seen[s] {
					seen[s] = true
					c.Ch = append(c.Ch, [2]string{hx.Hex(s), strconv.FormatUint(city.CH64([]byte(s)), 10)})
				}
				for i := 0; i < len(s); {
					rn, w := utf8.DecodeRuneInString(s[i:])
					if !(rn == utf8.RuneError && w == 1) && rn > 0xFF && !runes[rn] {
						runes[rn] = true
						pv := int64(0)
						if strconv.IsPrint(rn) {
							pv = 1
						}
						c.Print = append(c.Print, [2]int64{int64(rn), pv})
					}
					i += w
				}
			}
		}
		// the stored document read by Go's encoding/json, strictly
		doc := []byte(hx.UnHex(c.Doc))
		c.GoValid = json.Valid(doc) && utf8.Valid(doc)
		if c.GoValid {
			c.GoEqual = membersEqual(doc, san)
		}
		c.Reader, c.NamesDistinct = readerView(string(doc), san)
		var oldPairs [][]string
		var oldParts []string
		for i, kv := range raw {
			v := kv[1]
			if len(v) > 100 {
				v = v[:100] + "..."
			}
			oldPairs = append(oldPairs, []string{san[i][0], v})
			oldParts = append(oldParts, strconv.Quote(san[i][0])+":"+strconv.Quote(v))
		}
		oldDoc := []byte("{" + strings.Join(oldParts, ",") + "}")
		c.QuoteJSON = json.Valid(oldDoc) && utf8.Valid(oldDoc) && membersEqual(oldDoc, oldPairs)
	})
	c.Panic = p
}

// membersEqual: doc is a JSON object whose members, in order, are exactly the given string pairs
func membersEqual(doc []byte, want [][]string) bool {
	dec := json.NewDecoder(bytes.NewReader(doc))
	tok, err := dec.Token()
	if err != nil || tok != json.Delim('{') {
		return false
	}
	i := 0
	for dec.More() {
		k, err := dec.Token()
		if err != nil {
			return false
		}
		v, err := dec.Token()
		if err != nil {
			return false
		}
		ks, ok1 := k.(string)
		vs, ok2 := v.(string)
		if !ok1 || !ok2 || i >= len(want) || ks != want[i][0] || vs != want[i][1] {
			return false
		}
		i++
	}
	tok, err = dec.Token()
	return err == nil && tok == json.Delim('}') && i == len(want)
}

func unhexPairs(h [][2]string) [][]string {
	out := make([][]string, len(h))
	for i := range h {
		out[i] = []string{hx.UnHex(h[i][0]), hx.UnHex(h[i][1])}
	}
	return out
}

func runLabels(f *hx.Flags, out *hx.Out) {
	if f.Cases != "" {
		r := hx.Rand(f.Seed)
		hx.ReadLines(f.Cases, func(b []byte) {
			var c LCase
			if err := json.Unmarshal(b, &c); err != nil {
				panic(err)
			}
			raw := unhexPairs(c.Raw)
			nc := LCase{ID: c.ID, Class: c.Class, Grp: c.Grp}
			observe(r, &nc, raw)
			out.Put(nc)
		})
		return
	}
	r := hx.Rand(f.Seed)
	id := 0
	grp := 0
	for id < f.N {
		if r.Intn(8) == 0 {
			for _, ls := range genConfusable(r) {
				c := LCase{ID: id, Class: "confusable", Grp: grp}
				observe(r, &c, ls)
				out.Put(c)
				id++
			}
			grp++
			continue
		}
		ls, cl := genLabelSet(r)
		c := LCase{ID: id, Class: cl, Grp: -1}
		observe(r, &c, ls)
		out.Put(c)
		id++
	}
}
