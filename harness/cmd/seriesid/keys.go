package main

import (
	"encoding/json"
	"fmt"
	"math/rand"
	"strconv"
	"time"

	cfgbase "github.com/metrico/cloki-config/config"
	wmodel "github.com/metrico/qryn/writer/model"
	"github.com/metrico/qryn/writer/utils/numbercache"
	"github.com/metrico/qryn/writer/utils/unmarshal"

	"verif/harness/hx"
)

// The announcement cache is a set of 64-bit keys: maybeAddFp hashes (day, fingerprint, type) with
// CH64 and hands the hash to numbercache, whose serializer (chosen where the cache is constructed,
// writer/plugin) turns it into the byte key of fastcache. Random series never meet a serializer
// that drops part of the 64 bits (2^-32 per pair), so colliding keys are searched for deliberately.

// keyRecorder captures the key maybeAddFp computes (the real code does the hashing).
type keyRecorder struct{ k uint64 }

func (r *keyRecorder) CheckAndSet(k uint64) bool             { r.k = k; return false }
func (r *keyRecorder) Has(k uint64) bool                     { r.k = k; return false }
func (r *keyRecorder) DB(string) numbercache.ICache[uint64] { return r }

type Cand struct {
	Host string
	Day  int64
	Tp   uint8
	Fp   uint64
	Key  uint64
}

func candLabels(host string) [][]string { return [][]string{{"host", host}} }

func announceKey(day int64, fp uint64, tp uint8) uint64 {
	rec := &keyRecorder{}
	unmarshal.VerifC04MaybeAddFp(time.Unix(day*86400, 0).UTC(), fp, tp, rec)
	return rec.k
}

type Collision struct {
	Window string // which 32 of the 64 key bits agree
	A, B   Cand
}

var windows = []struct {
	name  string
	shift uint
}{{"low32", 0}, {"mid32", 16}, {"high32", 32}}

// findCollisions: birthday search over n candidate (day, series, type) announcements for pairs of
// different keys that agree on 32 aligned bits; up to 4 pairs per window.
func findCollisions(r *rand.Rand, n int) []Collision {
	tag := r.Intn(1000000)
	seen := make([]map[uint32]Cand, len(windows))
	for i := range seen {
		seen[i] = make(map[uint32]Cand, n)
	}
	found := make([]int, len(windows))
	var out []Collision
	for i := 0; i < n; i++ {
		c := Cand{Host: fmt.Sprintf("h%d-%d", tag, i/2), Day: day0 + int64(i%2), Tp: 1}
		if i%7 == 0 {
			c.Tp = 2
		}
		c.Fp = fpOf(candLabels(c.Host))
		c.Key = announceKey(c.Day, c.Fp, c.Tp)
		for w, win := range windows {
			part := uint32(c.Key >> win.shift)
			if o, ok := seen[w][part]; ok && o.Key != c.Key && found[w] < 4 {
				out = append(out, Collision{Window: win.name, A: o, B: c})
				found[w]++
			} else if !ok {
				seen[w][part] = c
			}
		}
	}
	return out
}

func candStream(c Cand) Stream {
	return Stream{Labels: [][2]string{{"host", c.Host}}, Entries: []Entry{{Ts: (c.Day*86400 + 43200) * 1000000000, T: int(c.Tp)}}}
}

func collisionHists(col Collision, id *int) []HCase {
	a, b := candStream(col.A), candStream(col.B)
	mk := func(steps ...Step) HCase {
		c := HCase{ID: *id, Class: "collision:" + col.Window, Steps: steps}
		*id++
		return c
	}
	okPush := func(ss ...Stream) Step { return Step{K: "push", Streams: ss, TsOK: true, SplOK: true} }
	return []HCase{
		mk(okPush(a), okPush(b)),
		mk(okPush(b), okPush(a)),
		mk(okPush(a, b)),
	}
}

// ------------------------------------------------------------------ --mode keys: the serializer of the production cache

type KCase struct {
	ID    int    `json:"id"`
	Class string `json:"class"`
	K1    string `json:"k1"` // decimal uint64
	K2    string `json:"k2"`
	S1    string `json:"s1"` // hex of serializer(k1)
	S2    string `json:"s2"`
}

// clusterCache: what a cache view of a node with a ClusterName answers (Has after CheckAndSet, second CheckAndSet)
// next to the view of a single node, on one shared cache built like the production one.
func clusterCache() map[string]bool {
	c := numbercache.NewCache[uint64](time.Hour, func(v uint64) []byte { return []byte(strconv.FormatUint(v, 16)) },
		map[string]*wmodel.DataDatabasesMap{
			"single":  {ClokiBaseDataBase: cfgbase.ClokiBaseDataBase{Node: "single"}},
			"cluster": {ClokiBaseDataBase: cfgbase.ClokiBaseDataBase{Node: "cluster", ClusterName: "c1"}},
			// round 7: two single servers whose DATABASE has the same name: their views must not share keys
			"twin1": {ClokiBaseDataBase: cfgbase.ClokiBaseDataBase{Node: "twin1", Name: "qryn"}},
			"twin2": {ClokiBaseDataBase: cfgbase.ClokiBaseDataBase{Node: "twin2", Name: "qryn"}},
		})
	defer c.Stop()
	res := map[string]bool{}
	for _, n := range []string{"single", "cluster"} {
		v := c.DB(n)
		res[n+":first_checkandset"] = v.CheckAndSet(42)
		res[n+":has_after_set"] = v.Has(42)
		res[n+":second_checkandset"] = v.CheckAndSet(42)
		res[n+":has_other"] = v.Has(43)
	}
	t1, t2 := c.DB("twin1"), c.DB("twin2")
	res["twin1:first_checkandset"] = t1.CheckAndSet(77)
	res["twin2:has_what_twin1_set"] = t2.Has(77)
	res["twin2:first_checkandset"] = t2.CheckAndSet(77)
	res["twin1:has_after_both"] = t1.Has(77)
	return res
}

func runKeys(f *hx.Flags, out *hx.Out) {
	setup()
	out.Put(map[string]interface{}{"id": -1, "class": "cluster-cache", "k1": "0", "k2": "0", "s1": "", "s2": "", "flags": clusterCache()})
	cache := prodCache()
	ser := func(k uint64) string { return hx.Hex(string(cache.VerifC04Serialize(k))) }
	id := 0
	put := func(class string, k1, k2 uint64) {
		out.Put(KCase{ID: id, Class: class, K1: strconv.FormatUint(k1, 10), K2: strconv.FormatUint(k2, 10), S1: ser(k1), S2: ser(k2)})
		id++
	}
	if f.Cases != "" {
		hx.ReadLines(f.Cases, func(b []byte) {
			var c KCase
			if err := json.Unmarshal(b, &c); err != nil {
				panic(err)
			}
			k1, _ := strconv.ParseUint(c.K1, 10, 64)
			k2, _ := strconv.ParseUint(c.K2, 10, 64)
			put(c.Class, k1, k2)
		})
		return
	}
	r := hx.Rand(f.Seed)
	// real announcement keys that agree on 32 bits
	for _, col := range findCollisions(r, 300000) {
		put("announcement-keys:"+col.Window, col.A.Key, col.B.Key)
	}
	// structured pairs: one differing bit / byte / half; extremes
	for i := 0; i < f.N; i++ {
		x := r.Uint64()
		switch i % 4 {
		case 0:
			put("one-bit", x, x^(uint64(1)<<uint(r.Intn(64))))
		case 1:
			put("one-byte", x, x^(uint64(1+r.Intn(255))<<uint(8*r.Intn(8))))
		case 2:
			put("high-half", x, x&0xFFFFFFFF|uint64(r.Uint32())<<32^(uint64(1)<<32))
		default:
			put("low-half", x, x&^uint64(0xFFFFFFFF)|uint64(uint32(x)+1+uint32(r.Intn(1000))))
		}
	}
	put("extremes", 0, 1<<63)
	put("extremes", 0xFFFFFFFFFFFFFFFF, 0x00000000FFFFFFFF)
	put("extremes", 0xFFFFFFFF00000000, 0)
}
