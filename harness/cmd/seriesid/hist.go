package main

import "verif/harness/hx"

func runHist(f *hx.Flags, out *hx.Out)  {}
func runDates(f *hx.Flags, out *hx.Out) {}
