package main

import (
	"bytes"
	"context"
	"encoding/json"
	"fmt"
	"io"
	"math/rand"
	"net/http/httptest"
	"strconv"
	"strings"
	"sync"
	"time"

	"github.com/ClickHouse/ch-go"
	"github.com/ClickHouse/ch-go/proto"
	"github.com/ClickHouse/clickhouse-go/v2/lib/driver"
	"github.com/gorilla/mux"
	cfgbase "github.com/metrico/cloki-config/config"
	"github.com/metrico/qryn/writer/ch_wrapper"
	"github.com/metrico/qryn/writer/config"
	controllerv1 "github.com/metrico/qryn/writer/controller"
	"github.com/metrico/qryn/writer/model"
	apirouterv1 "github.com/metrico/qryn/writer/router"
	"github.com/metrico/qryn/writer/service"
	"github.com/metrico/qryn/writer/plugin"
	"github.com/metrico/qryn/writer/service/impl"
	"github.com/metrico/qryn/writer/utils/logger"
	"github.com/metrico/qryn/writer/utils/numbercache"
	"github.com/metrico/qryn/writer/utils/unmarshal"

	"verif/harness/hx"
)

// ------------------------------------------------------------------ fake ClickHouse client

// Call: one INSERT that reached the client. Rows: time_series (date as days, fingerprint, type);
// samples (fingerprint, timestamp_ns, type) - numbers as decimal strings.
type Call struct {
	Table string      `json:"table"`
	OK    bool        `json:"ok"`
	Rows  [][3]string `json:"rows"`
	Docs  []string    `json:"docs,omitempty"` // time_series.labels, hex
	Tag   string      `json:"tag,omitempty"`  // group step: "held" = the INSERT that was kept waiting inside the client while the members queued up
	M     int         `json:"m,omitempty"`    // group step: the member that was being sent when the INSERT reached the client
	Node  string      `json:"node,omitempty"` // the ClickHouse node whose connection carried the INSERT ("" = n1)
}

type backend struct {
	mtx   sync.Mutex
	tsOK  bool
	splOK bool
	calls []Call
	nSpl  int
	nRows int // sample rows that reached the client
	// group step (shared.go): the first time_series INSERT that reaches the client is kept waiting until the gate opens
	gate      chan struct{}
	gateTaken bool
	held      bool
	tsOK0     bool // outcome of the INSERT that was kept waiting
	member    int
}

var be = &backend{tsOK: true, splOK: true}

// one connection per configured node (round 7: two nodes n1, n2 whose DATABASE has the same name)
type fakeClient struct{ n string }

func colU8(d proto.ColInput) []uint8 {
	switch c := d.(type) {
	case proto.ColUInt8:
		return c
	case *proto.ColUInt8:
		return *c
	}
	panic(fmt.Sprintf("unexpected uint8 column %T", d))
}
func colU64(d proto.ColInput) []uint64 {
	switch c := d.(type) {
	case proto.ColUInt64:
		return c
	case *proto.ColUInt64:
		return *c
	}
	panic(fmt.Sprintf("unexpected uint64 column %T", d))
}
func colI64(d proto.ColInput) []int64 {
	switch c := d.(type) {
	case proto.ColInt64:
		return c
	case *proto.ColInt64:
		return *c
	}
	panic(fmt.Sprintf("unexpected int64 column %T", d))
}
func colDate(d proto.ColInput) []proto.Date {
	switch c := d.(type) {
	case proto.ColDate:
		return c
	case *proto.ColDate:
		return *c
	}
	panic(fmt.Sprintf("unexpected date column %T", d))
}
func colStr(d proto.ColInput) []string {
	switch c := d.(type) {
	case *proto.ColStr:
		out := make([]string, c.Rows())
		for i := range out {
			out[i] = c.Row(i)
		}
		return out
	case proto.ColStr:
		out := make([]string, c.Rows())
		for i := range out {
			out[i] = c.Row(i)
		}
		return out
	}
	panic(fmt.Sprintf("unexpected string column %T", d))
}

func (fc fakeClient) Do(ctx context.Context, q ch.Query) error {
	if strings.Contains(q.Body, "INSERT INTO time_series") {
		// a slow ClickHouse: while this INSERT waits for its answer the service collects the rows of the requests
		// that arrive in ONE pending buffer (InsertServiceV2.Run is blocked in fetchLoopIteration)
		be.mtx.Lock()
		var gate chan struct{}
		if be.gate != nil && !be.gateTaken {
			be.gateTaken, be.held, gate = true, true, be.gate
		}
		be.mtx.Unlock()
		if gate != nil {
			<-gate
			be.mtx.Lock()
			defer be.mtx.Unlock()
			return be.record(q, true, fc.n)
		}
	}
	be.mtx.Lock()
	defer be.mtx.Unlock()
	return be.record(q, false, fc.n)
}

func (be *backend) record(q ch.Query, held bool, on string) error {
	cols := map[string]proto.ColInput{}
	for _, in := range q.Input {
		cols[in.Name] = in.Data
	}
	c := Call{}
	if on != node.Node {
		c.Node = on
	}
	switch {
	case strings.Contains(q.Body, "INSERT INTO time_series"):
		c.Table = "time_series"
		c.OK = be.tsOK
		if held {
			c.OK, c.Tag = be.tsOK0, "held"
		}
		tp, dt, fp, lb := colU8(cols["type"]), colDate(cols["date"]), colU64(cols["fingerprint"]), colStr(cols["labels"])
		if len(tp) != len(dt) || len(dt) != len(fp) || len(fp) != len(lb) {
			panic(fmt.Sprintf("time_series block with unequal columns %d %d %d %d", len(tp), len(dt), len(fp), len(lb)))
		}
		for i := range dt {
			c.Rows = append(c.Rows, [3]string{strconv.Itoa(int(dt[i])), strconv.FormatUint(fp[i], 10), strconv.Itoa(int(tp[i]))})
			c.Docs = append(c.Docs, hx.Hex(lb[i]))
		}
	case strings.Contains(q.Body, "INSERT INTO samples"):
		c.Table = "samples"
		c.OK = be.splOK
		c.M = be.member
		be.nSpl++
		tp, fp, ts := colU8(cols["type"]), colU64(cols["fingerprint"]), colI64(cols["timestamp_ns"])
		be.nRows += len(ts)
		if len(tp) != len(fp) || len(fp) != len(ts) {
			panic(fmt.Sprintf("samples block with unequal columns %d %d %d", len(tp), len(fp), len(ts)))
		}
		for i := range ts {
			c.Rows = append(c.Rows, [3]string{strconv.FormatUint(fp[i], 10), strconv.FormatInt(ts[i], 10), strconv.Itoa(int(tp[i]))})
		}
	default:
		c.Table = q.Body
		c.OK = true
	}
	be.calls = append(be.calls, c)
	if !c.OK {
		return fmt.Errorf("scripted failure of the %s insert", c.Table)
	}
	return nil
}
func (fakeClient) Ping(ctx context.Context) error                            { return nil }
func (fakeClient) Exec(ctx context.Context, query string, args ...any) error { return nil }
func (fakeClient) Scan(ctx context.Context, req string, args []any, dest ...interface{}) error {
	return nil
}
func (fakeClient) DropIfEmpty(ctx context.Context, name string) error { return nil }
func (fakeClient) TableExists(ctx context.Context, name string) (bool, error) {
	return true, nil
}
func (fakeClient) GetDBExec(env map[string]string) func(ctx context.Context, query string, args ...[]interface{}) error {
	return nil
}
func (fakeClient) GetVersion(ctx context.Context, k uint64) (uint64, error) { return 0, nil }
func (fakeClient) GetSetting(ctx context.Context, tp string, name string) (string, error) {
	return "", nil
}
func (fakeClient) PutSetting(ctx context.Context, tp string, name string, value string) error {
	return nil
}
func (fakeClient) GetFirst(req string, first ...interface{}) error { return nil }
func (fakeClient) GetList(req string) ([]string, error)            { return nil, nil }
func (fakeClient) Query(ctx context.Context, query string, args ...interface{}) (driver.Rows, error) {
	return nil, fmt.Errorf("not implemented")
}
func (fakeClient) QueryRow(ctx context.Context, query string, args ...interface{}) driver.Row {
	return nil
}
func (fakeClient) Close() error { return nil }

// ------------------------------------------------------------------ the writer under test, built by the production wiring
// (writer/plugin CreateStaticServiceRegistry: insert services, OnBeforeInsert links, and GoCache with
// ITS key serializer), then installed as writer/main_dev.go does. Only ClickHouse is replaced.

var node = model.DataDatabasesMap{ClokiBaseDataBase: cfgbase.ClokiBaseDataBase{Node: "n1", Name: "qryn", WriteTimeout: 5}}

// round 7: a second independent server (no cluster) whose database has the SAME name, as in a default configuration with two
// database_data entries. Every request names its node (X-CH-DSN); without the header the registry would pick one at random.
var node2 = model.DataDatabasesMap{ClokiBaseDataBase: cfgbase.ClokiBaseDataBase{Node: "n2", Name: "qryn", WriteTimeout: 5}}

func nodeName(n string) string {
	if n == "" {
		return node.Node
	}
	return n
}

func prodCache() *numbercache.Cache[uint64] {
	c, ok := plugin.GoCache.(*numbercache.Cache[uint64])
	if !ok {
		panic(fmt.Sprintf("plugin.GoCache is a %T", plugin.GoCache))
	}
	return c
}

// what the 30-minute ticker does, now (hook VerifC04Reset)
func resetCache() { prodCache().VerifC04Reset() }

func setup() *mux.Router {
	logger.Logger.SetOutput(io.Discard)
	config.Cloki.Setting.SYSTEM_SETTINGS.RetryAttempts = 1
	config.Cloki.Setting.SYSTEM_SETTINGS.RetryTimeoutS = 0
	config.Cloki.Setting.SYSTEM_SETTINGS.DBTimer = 0.001
	config.Cloki.Setting.SYSTEM_SETTINGS.ChannelsSample = 1
	config.Cloki.Setting.SYSTEM_SETTINGS.ChannelsTimeSeries = 1
	service.CreateColPools(8)
	factory := ch_wrapper.IChClientFactory(func() (ch_wrapper.IChClient, error) { return fakeClient{n: node.Node}, nil })
	factory2 := ch_wrapper.IChClientFactory(func() (ch_wrapper.IChClient, error) { return fakeClient{n: node2.Node}, nil })
	p := &plugin.QrynWriterPlugin{ServicesObject: plugin.ServicesObject{
		DatabaseNodeMap: []model.DataDatabasesMap{node, node2},
		Dbv3Map:         []ch_wrapper.IChClientFactory{factory, factory2},
	}}
	p.CreateStaticServiceRegistry(*config.Cloki.Setting, &impl.DevInsertServiceFactory{})
	// the registry the plugin built, with the time_series service of the node behind a counting pass-through (shared.go)
	controllerv1.Registry = registryWithCountedTs()
	controllerv1.FPCache = plugin.GoCache
	r := mux.NewRouter()
	cfg := controllerv1.NewMiddlewareConfig(controllerv1.WithExtraMiddlewareDefault...)
	apirouterv1.RouteInsertDataApis(r, cfg)
	apirouterv1.RoutePromDataApis(r, cfg)
	return r
}

// push sends one Loki JSON push with the given scripted outcomes and returns the status and the
// INSERTs that reached the client because of it.
func push(r *mux.Router, body string, tsOK, splOK bool) (int, []Call) {
	return pushTo(r, "", body, tsOK, splOK)
}

// pushTo: the push names the node that is to store it (X-CH-DSN; "" = n1)
func pushTo(r *mux.Router, on string, body string, tsOK, splOK bool) (int, []Call) {
	return collect(tsOK, splOK, func() int {
		req := httptest.NewRequest("POST", "/loki/api/v1/push", bytes.NewReader([]byte(body)))
		req.Header.Set("Content-Type", "application/json")
		if on != freeNode {
			req.Header.Set("X-CH-DSN", nodeName(on))
		}
		w := httptest.NewRecorder()
		r.ServeHTTP(w, req)
		return w.Code
	})
}

// round 8: a push WITHOUT X-CH-DSN: the registry picks the node (at random); the check reads the node off the connection the
// samples travelled on and requires the series row (and the cache view) to be that node's too
const freeNode = "-"

// an open request: its body is a pipe the harness writes to piece by piece
type flight struct {
	pw     *io.PipeWriter
	code   chan int
	unsent int  // sample rows parsed and not yet sent (the chunk being filled)
	failed bool // a chunk sent while the body was open had a failing insert
}

// begin starts a push whose body so far is the opening of the streams array and the given streams; returns once
// the parser has consumed all of it (a second write is taken only when the decoder's buffer is exhausted, that is
// after onEntries ran for every complete stream).
func begin(r *mux.Router, st Step) *flight {
	pr, pw := io.Pipe()
	f := &flight{pw: pw, code: make(chan int, 1)}
	req := httptest.NewRequest("POST", "/loki/api/v1/push", pr)
	req.Header.Set("Content-Type", "application/json")
	req.Header.Set("X-CH-DSN", node.Node)
	go func() {
		w := httptest.NewRecorder()
		r.ServeHTTP(w, req)
		f.code <- w.Code
	}()
	full := bodyOf(st)
	pw.Write([]byte(strings.TrimSuffix(full, "]}")))
	pw.Write([]byte(" "))
	f.unsent = nEntries(st)
	return f
}

// more continues the body (which ended after a complete stream) with further streams; returns once the parser has
// consumed them (same synchronisation as begin)
func (f *flight) more(st Step) {
	f.pw.Write([]byte("," + streamsJSON(st)))
	f.pw.Write([]byte(" "))
	f.unsent += nEntries(st)
}

// finish closes the body properly (tail "]}") or continues it with bytes that are not JSON
func (f *flight) finish(tail string, tsOK, splOK bool) (int, []Call) {
	want := f.unsent
	if tail != "]}" {
		want = 0
	}
	return collectRows(tsOK, splOK, want, f.failed && want > 0, func() int {
		f.pw.Write([]byte(tail))
		f.pw.Close()
		return <-f.code
	})
}

// afterFlush: a step that made the parser hand over a chunk while the body stays open has run (collectRows waited
// for the chunk's sample rows and gave its series insert time to arrive): a new chunk begins
func (f *flight) afterFlush(calls []Call, tsOK, splOK bool) {
	got := 0
	for _, c := range calls {
		if c.Table == "samples" {
			got += len(c.Rows)
		}
	}
	if got > 0 {
		f.unsent -= got
		f.failed = f.failed || !tsOK || !splOK
	}
}

func collect(tsOK, splOK bool, do func() int) (int, []Call) {
	return collectRows(tsOK, splOK, 1, false, do)
}

// collectRows runs do with the given scripted outcomes and returns its status and the INSERTs that reached the
// client because of it. It waits for wantRows sample rows (their insert may still be on its way when the handler
// has answered already, or - mid-request flush - there is no answer yet); with settleTs it also gives the series
// insert of the same chunk time to arrive (nothing orders it with the samples insert, and a chunk without series
// rows makes none).
func collectRows(tsOK, splOK bool, wantRows int, settleTs bool, do func() int) (int, []Call) {
	be.mtx.Lock()
	be.tsOK, be.splOK = tsOK, splOK
	be.calls = nil
	n0 := be.nRows
	be.mtx.Unlock()
	code := do()
	// the handler returns at the first failed insert; the samples insert of the same request may
	// still be on its way - wait for it so that it is attributed (and scripted) correctly
	deadline := time.Now().Add(3 * time.Second)
	for wantRows > 0 {
		be.mtx.Lock()
		done := be.nRows-n0 >= wantRows
		be.mtx.Unlock()
		if done || code == 400 || (code >= 200 && code < 300) || time.Now().After(deadline) {
			break
		}
		time.Sleep(200 * time.Microsecond)
	}
	if settleTs && code != 400 && !(code >= 200 && code < 300) {
		grace := time.Now().Add(25 * time.Millisecond)
		for {
			be.mtx.Lock()
			seen := false
			for _, c := range be.calls {
				seen = seen || c.Table == "time_series"
			}
			be.mtx.Unlock()
			if seen || time.Now().After(grace) {
				break
			}
			time.Sleep(200 * time.Microsecond)
		}
	}
	time.Sleep(300 * time.Microsecond)
	be.mtx.Lock()
	calls := append([]Call(nil), be.calls...)
	be.mtx.Unlock()
	return code, calls
}

// ------------------------------------------------------------------ histories

type Entry struct {
	Ts  int64 `json:"ts"`            // ns
	T   int   `json:"t"`             // 1 log, 2 metric, 0 both
	Big bool  `json:"big,omitempty"` // its log line has bigLine bytes: the stream holding it crosses the 1 MiB flush limit of onEntries
}

const bigLine = 1100 * 1000

type Stream struct {
	Ls      int         `json:"ls"`               // index into the label-set pool (when Labels is empty)
	Labels  [][2]string `json:"labels,omitempty"` // explicit label set
	Fp      string      `json:"fp"`               // fingerprintLabels of that set (hook)
	San     [][2]string `json:"san,omitempty"`    // sanitizeLabels of that set (hook), hex
	Entries []Entry `json:"entries"`
}
type Step struct {
	// push | reset | bad (push whose body is malformed after the streams) | begin (the streams arrive, the body stays
	// open) | end (the Idx-th open request: the body is closed, the inserts get the scripted outcomes) | abort (the
	// Idx-th open request: the body continues malformed) | beginf (like begin, the LAST stream has a big entry: the parser
	// sends one chunk while the body stays open; TsOK / SplOK script the inserts of that chunk; Idx = position of the new
	// open request) | more (the Idx-th open request gets further small streams; nothing is sent) | moref (further streams,
	// the last one with a big entry: a chunk is sent with the step's outcomes)
	K       string   `json:"k"`
	Streams []Stream `json:"streams,omitempty"`
	Idx     int      `json:"idx,omitempty"`
	TsOK    bool     `json:"ts_ok"`
	SplOK   bool     `json:"spl_ok"`
	Retry   bool     `json:"retry,omitempty"` // same body as the previous push (a client retry)
	Node    string   `json:"node,omitempty"`  // push: the node named by X-CH-DSN ("" = n1, "n2": the second server, same database name)
	// group (shared.go): the pushes Members[0], Members[1], ... arrive one after the other while ClickHouse is slow to answer the
	// time_series INSERT of Members[0]: the series rows of Members[1..] wait in ONE pending buffer of the insert service and go
	// out in ONE INSERT. TsOK0: outcome of the INSERT of Members[0]; TsOK: outcome of the shared INSERT; samples per member.
	Members []Member `json:"members,omitempty"`
	TsOK0   bool     `json:"ts_ok0,omitempty"`
}
type Member struct {
	Streams []Stream `json:"streams"`
	SplOK   bool     `json:"spl_ok"`
}
type StepObs struct {
	Status   int    `json:"status"`
	Calls    []Call `json:"calls"`
	Statuses []int  `json:"statuses,omitempty"` // group: the answer to every member
	Shared   bool   `json:"shared,omitempty"`   // group: an INSERT was kept waiting while the other members queued up
}
type HCase struct {
	ID    int       `json:"id"`
	Class string    `json:"class"`
	Steps []Step    `json:"steps"`
	Obs   []StepObs `json:"obs"`
	Panic string    `json:"panic,omitempty"`
}

var pool = [][][]string{
	{{"app", "api"}, {"env", "prod"}},
	{{"app", "db"}},
	{{"job", "node"}, {"instance", "10.0.0.1:9100"}, {"env", "prod"}},
	{{"app", "api"}, {"env", "dev"}},
}

func labelsOf(s Stream) [][]string {
	if len(s.Labels) == 0 {
		return pool[s.Ls]
	}
	out := make([][]string, len(s.Labels))
	for i, kv := range s.Labels {
		out[i] = []string{kv[0], kv[1]}
	}
	return out
}

func fpOf(ls [][]string) uint64 {
	return unmarshal.VerifC04FingerprintLabels(unmarshal.VerifC04SanitizeLabels(copyLabels(ls)))
}

func poolFp(i int) string { return strconv.FormatUint(fpOf(pool[i]), 10) }

const day0 = int64(19732) // 2024-01-10

func genTs(r *rand.Rand) int64 {
	d := day0 + int64(r.Intn(2))
	var sec int64
	switch r.Intn(4) {
	case 0:
		sec = 0 // midnight
	case 1:
		sec = 86399
	default:
		sec = int64(r.Intn(86400))
	}
	ns := int64(0)
	if r.Intn(3) == 0 {
		ns = int64(r.Intn(1000000000))
	}
	return (d*86400+sec)*1000000000 + ns
}

func genStream(r *rand.Rand, pref []int) Stream {
	ls := r.Intn(len(pool))
	s := Stream{Ls: ls, Fp: poolFp(ls)}
	n := 1 + r.Intn(3)
	for i := 0; i < n; i++ {
		t := pref[ls]
		if r.Intn(6) == 0 {
			t = r.Intn(3)
		}
		s.Entries = append(s.Entries, Entry{Ts: genTs(r), T: t})
	}
	return s
}

// small copies of streams for "the same series again": no big entries
func smallCopy(ss []Stream) []Stream {
	out := make([]Stream, len(ss))
	for i, s_ := range ss {
		out[i] = s_
		out[i].Entries = append([]Entry(nil), s_.Entries...)
		for j := range out[i].Entries {
			out[i].Entries[j].Big = false
		}
	}
	return out
}

// the last stream gets a big entry (a log line; a metric-only entry becomes a log entry)
func withBig(r *rand.Rand, ss []Stream) []Stream {
	out := smallCopy(ss)
	es := out[len(out)-1].Entries
	e := &es[r.Intn(len(es))]
	e.Big = true
	if e.T == 2 {
		e.T = r.Intn(2)
	}
	return out
}

// genFlushHist: histories with requests larger than 1 MiB: the parser hands over a chunk (series rows + samples so far)
// whenever a stream with a big entry has been parsed, its inserts get their own scripted outcomes, the request goes
// on with further streams (often the same series again), ends or turns out malformed; in between ordinary pushes
// (often the same series again), other long requests, resets; often the whole long request is repeated.
func genFlushHist(r *rand.Rand, id int) HCase {
	c := HCase{ID: id}
	pref := make([]int, len(pool))
	for i := range pref {
		pref[i] = []int{1, 1, 1, 2, 0}[r.Intn(5)]
	}
	faulty := r.Intn(5) != 0
	ok := func(p int) bool { return !faulty || r.Intn(100) < p }
	newStreams := func() []Stream {
		var ss []Stream
		k := 1 + r.Intn(3)
		for j := 0; j < k; j++ {
			ss = append(ss, genStream(r, pref))
		}
		return ss
	}
	type openReq struct{ steps []Step } // the steps that fed the request, for a repetition
	var open []*openReq
	var done [][]Step
	bigs := 0
	var series []Stream // streams of the long requests so far
	pick := func() []Stream {
		if len(series) > 0 && r.Intn(3) != 0 {
			i := r.Intn(len(series))
			return smallCopy(series[i : i+1+r.Intn(len(series)-i)])
		}
		return newStreams()
	}
	add := func(st Step) { c.Steps = append(c.Steps, st) }
	closeReq := func(k int, abort bool) {
		if abort {
			add(Step{K: "abort", Idx: k, TsOK: true, SplOK: true})
		} else {
			add(Step{K: "end", Idx: k, TsOK: ok(75), SplOK: ok(88)})
			done = append(done, open[k].steps)
		}
		open = append(open[:k:k], open[k+1:]...)
	}
	n := 3 + r.Intn(7)
	for i := 0; i < n; i++ {
		x := r.Intn(20)
		switch {
		case (x < 4 || len(open) == 0 && len(done) == 0) && bigs < 3 && len(open) < 2:
			st := Step{K: "beginf", Idx: len(open), Streams: withBig(r, pick()), TsOK: ok(60), SplOK: ok(85)}
			add(st)
			open = append(open, &openReq{steps: []Step{st}})
			series = append(series, st.Streams...)
			bigs++
		case x < 10 && len(open) > 0:
			k := r.Intn(len(open))
			st := Step{K: "more", Idx: k, Streams: pick(), TsOK: true, SplOK: true}
			if r.Intn(3) == 0 && bigs < 3 {
				st = Step{K: "moref", Idx: k, Streams: withBig(r, pick()), TsOK: ok(60), SplOK: ok(85)}
				bigs++
			}
			add(st)
			open[k].steps = append(open[k].steps, st)
		case x < 13 && len(open) > 0:
			closeReq(r.Intn(len(open)), faulty && r.Intn(4) == 0)
		case x < 15 && len(done) > 0:
			// the client sends a long request again, handled alone
			steps := done[r.Intn(len(done))]
			nb := 0
			for _, st := range steps {
				if st.K != "more" {
					nb++
				}
			}
			if bigs+nb > 3 || len(open) >= 2 {
				add(Step{K: "push", TsOK: ok(75), SplOK: ok(88), Streams: smallCopy(steps[0].Streams)})
				continue
			}
			bigs += nb
			k := len(open)
			for _, st := range steps {
				st.Idx = k
				if st.K != "more" {
					st.TsOK, st.SplOK = ok(85), ok(92)
				}
				add(st)
			}
			add(Step{K: "end", Idx: k, TsOK: ok(85), SplOK: ok(92)})
		case x < 16:
			add(Step{K: "reset"})
		default:
			add(Step{K: "push", TsOK: ok(75), SplOK: ok(88), Streams: pick()})
		}
	}
	for len(open) > 0 {
		closeReq(r.Intn(len(open)), false)
	}
	c.Class = "flush"
	if faulty {
		c.Class = "flush+faults"
	}
	return c
}

// ------------------------------------------------------------------ the client's retry of a request sent in several chunks
//
// retryPattern: one request of M chunks (every chunk announces series no other chunk of the request has), the insert
// FailTs / FailSpl of chunk Fail fails (Fail = -1: the series insert of EVERY chunk fails, the samples inserts work), the
// request is answered 5xx; then the client comes again. What doParse enters into the announcement cache after such a
// request decides whether the second attempt still writes the series rows: the histories are enumerated over every
// (number of chunks, failing chunk, failing insert), so that a confirmation that looks at the wrong promise of the
// wrong chunk has a history in which exactly that promise differs from the chunk's own series insert.
type retryPattern struct {
	M       int
	Fail    int
	FailTs  bool
	FailSpl bool
}

func retryPatterns() []retryPattern {
	var ps []retryPattern
	for m := 2; m <= 4; m++ {
		ps = append(ps, retryPattern{M: m, Fail: -1, FailTs: true})
		for j := 0; j < m; j++ {
			ps = append(ps, retryPattern{M: m, Fail: j, FailTs: true}, retryPattern{M: m, Fail: j, FailSpl: true},
				retryPattern{M: m, Fail: j, FailTs: true, FailSpl: true})
		}
	}
	return ps
}

func genRetryHist(r *rand.Rand, id int, p retryPattern) HCase {
	c := HCase{ID: id, Class: "flush+retry"}
	inst := r.Intn(900)
	fresh := func() Stream {
		inst++
		s := Stream{Labels: [][2]string{{"app", "c04"}, {"instance", "i" + strconv.Itoa(inst)}}}
		t := []int{1, 1, 1, 0, 2}[r.Intn(5)]
		for i, n := 0, 1+r.Intn(2); i < n; i++ {
			s.Entries = append(s.Entries, Entry{Ts: genTs(r), T: t})
		}
		return s
	}
	chunks := make([][]Stream, p.M)
	var all []Stream
	for j := range chunks {
		for i, n := 0, 1+r.Intn(3); i < n; i++ {
			chunks[j] = append(chunks[j], fresh())
		}
		if j > 0 && r.Intn(3) == 0 {
			// a series of an earlier chunk again: the request announced it already
			chunks[j] = append(smallCopy(all[r.Intn(len(all)):][:1]), chunks[j]...)
		}
		all = append(all, chunks[j]...)
	}
	// the last chunk goes out when the body ends; sometimes it is empty (the body ends right after a flush)
	lastEmpty := r.Intn(4) == 0 && p.Fail != p.M-1
	request := func(k int, faults bool) {
		for j := 0; j < p.M; j++ {
			tsOK := !(faults && p.FailTs && (p.Fail == j || p.Fail < 0))
			splOK := !(faults && p.FailSpl && p.Fail == j)
			switch {
			case j == 0:
				c.Steps = append(c.Steps, Step{K: "beginf", Idx: k, Streams: withBig(r, chunks[j]), TsOK: tsOK, SplOK: splOK})
			case j < p.M-1 || lastEmpty:
				c.Steps = append(c.Steps, Step{K: "moref", Idx: k, Streams: withBig(r, chunks[j]), TsOK: tsOK, SplOK: splOK})
				if j == p.M-1 {
					c.Steps = append(c.Steps, Step{K: "end", Idx: k, TsOK: true, SplOK: true})
				}
			default:
				c.Steps = append(c.Steps, Step{K: "more", Idx: k, Streams: smallCopy(chunks[j]), TsOK: true, SplOK: true},
					Step{K: "end", Idx: k, TsOK: tsOK, SplOK: splOK})
			}
		}
	}
	request(0, true)
	if r.Intn(4) == 0 {
		// something else happens in between: another client's push of other series
		c.Steps = append(c.Steps, Step{K: "push", TsOK: true, SplOK: true, Streams: []Stream{fresh()}})
	}
	switch r.Intn(3) {
	case 0: // the same long request again
		request(0, false)
	case 1: // the streams of the request, without the big lines, as one push
		c.Steps = append(c.Steps, Step{K: "push", TsOK: true, SplOK: true, Streams: smallCopy(all), Retry: true})
	default: // chunk by chunk, later chunks first
		for j := p.M - 1; j >= 0; j-- {
			c.Steps = append(c.Steps, Step{K: "push", TsOK: true, SplOK: true, Streams: smallCopy(chunks[j])})
		}
	}
	return c
}

func genHist(r *rand.Rand, id int) HCase {
	if r.Intn(6) == 0 {
		return genFlushHist(r, id)
	}
	c := HCase{ID: id}
	pref := make([]int, len(pool))
	for i := range pref {
		pref[i] = []int{1, 1, 1, 2, 0}[r.Intn(5)]
	}
	n := 1 + r.Intn(8)
	faulty := r.Intn(3) != 0
	overlap := r.Intn(3) == 0 // requests whose bodies stay open while others are handled
	nOpen := 0
	used := map[string]bool{}
	var last *Step
	newStreams := func() []Stream {
		var ss []Stream
		k := 1 + r.Intn(3)
		for j := 0; j < k; j++ {
			ss = append(ss, genStream(r, pref))
		}
		return ss
	}
	for i := 0; i < n; i++ {
		ok := func(p int) bool { return !faulty || r.Intn(100) < p }
		x := r.Intn(20)
		switch {
		case x < 3:
			c.Steps = append(c.Steps, Step{K: "reset"})
		case x < 7 && last != nil:
			st := Step{K: "push", Streams: last.Streams, TsOK: ok(85), SplOK: ok(90), Retry: true}
			c.Steps = append(c.Steps, st)
		case x < 9 && faulty:
			// a body that is malformed after some streams, often followed by the corrected body
			st := Step{K: "bad", Streams: newStreams(), TsOK: true, SplOK: true}
			c.Steps = append(c.Steps, st)
			last = &c.Steps[len(c.Steps)-1]
		case x < 13 && overlap && nOpen < 3:
			st := Step{K: "begin", Streams: newStreams(), TsOK: true, SplOK: true}
			if last != nil && r.Intn(2) == 0 {
				st.Streams = last.Streams
			}
			c.Steps = append(c.Steps, st)
			last = &c.Steps[len(c.Steps)-1]
			nOpen++
		case x < 17 && nOpen > 0:
			k := r.Intn(nOpen)
			if faulty && r.Intn(3) == 0 {
				c.Steps = append(c.Steps, Step{K: "abort", Idx: k, TsOK: true, SplOK: true})
			} else {
				c.Steps = append(c.Steps, Step{K: "end", Idx: k, TsOK: ok(70), SplOK: ok(88)})
			}
			nOpen--
		default:
			st := Step{K: "push", TsOK: ok(70), SplOK: ok(88), Streams: newStreams()}
			c.Steps = append(c.Steps, st)
			last = &c.Steps[len(c.Steps)-1]
		}
		used[c.Steps[len(c.Steps)-1].K] = true
	}
	// complete what is still open, in random order
	for nOpen > 0 {
		c.Steps = append(c.Steps, Step{K: "end", Idx: r.Intn(nOpen), TsOK: !faulty || r.Intn(100) < 70, SplOK: !faulty || r.Intn(100) < 88})
		nOpen--
	}
	switch {
	case used["begin"] && faulty:
		c.Class = "overlap+faults"
	case used["begin"]:
		c.Class = "overlap"
	case !faulty:
		c.Class = "no-faults"
	case used["bad"]:
		c.Class = "faults+bad-body"
	default:
		c.Class = "faults"
	}
	return c
}

var bigText = strings.Repeat("x", bigLine)

func streamsJSON(st Step) string {
	var ss []string
	for _, s := range st.Streams {
		var m []string
		for _, kv := range labelsOf(s) {
			m = append(m, jsonStr(kv[0])+":"+jsonStr(kv[1]))
		}
		var es []string
		for _, e := range s.Entries {
			o := `{"ts":"` + strconv.FormatInt(e.Ts, 10) + `"`
			if e.Big && e.T != 2 {
				o += `,"line":"` + bigText + `"`
			} else if e.T == 1 || e.T == 0 {
				o += `,"line":"l"`
			}
			if e.T == 2 || e.T == 0 {
				o += `,"value":1.5`
			}
			es = append(es, o+"}")
		}
		ss = append(ss, `{"stream":{`+strings.Join(m, ",")+`},"entries":[`+strings.Join(es, ",")+`]}`)
	}
	return strings.Join(ss, ",")
}

func bodyOf(st Step) string { return `{"streams":[` + streamsJSON(st) + `]}` }

func nEntries(st Step) int {
	n := 0
	for _, s := range st.Streams {
		n += len(s.Entries)
	}
	return n
}

const badTail = `,{"stream":{"a":"b"},"values":[["12","l"],[`

func runHistCase(r *mux.Router, c *HCase) {
	time.Local = time.UTC
	resetCache()
	c.Obs = nil
	var open []*flight
	c.Panic = hx.Catch(func() {
		for i := range c.Steps {
			st := &c.Steps[i]
			fill := func(ss []Stream) {
				for j := range ss {
					ss[j].Fp = strconv.FormatUint(fpOf(labelsOf(ss[j])), 10)
					ss[j].San = hexPairs(unmarshal.VerifC04SanitizeLabels(copyLabels(labelsOf(ss[j]))))
				}
			}
			fill(st.Streams)
			for m := range st.Members {
				fill(st.Members[m].Streams)
			}
			switch st.K {
			case "group":
				st.Idx = len(open)
				c.Obs = append(c.Obs, runGroup(r, st))
			case "reset":
				resetCache()
				c.Obs = append(c.Obs, StepObs{})
			case "push":
				code, calls := pushTo(r, st.Node, bodyOf(*st), st.TsOK, st.SplOK)
				c.Obs = append(c.Obs, StepObs{Status: code, Calls: calls})
			case "bad":
				code, calls := push(r, strings.TrimSuffix(bodyOf(*st), "]}")+badTail, true, true)
				c.Obs = append(c.Obs, StepObs{Status: code, Calls: calls})
			case "begin":
				code, calls := collect(true, true, func() int { open = append(open, begin(r, *st)); return 400 })
				c.Obs = append(c.Obs, StepObs{Status: 0, Calls: calls})
				_ = code
			case "beginf":
				st.Idx = len(open)
				_, calls := collectRows(st.TsOK, st.SplOK, nEntries(*st), true, func() int { open = append(open, begin(r, *st)); return 0 })
				open[st.Idx].afterFlush(calls, st.TsOK, st.SplOK)
				c.Obs = append(c.Obs, StepObs{Status: 0, Calls: calls})
			case "more", "moref":
				if st.Idx >= len(open) {
					c.Obs = append(c.Obs, StepObs{Status: -1})
					continue
				}
				f := open[st.Idx]
				var calls []Call
				if st.K == "more" {
					_, calls = collect(true, true, func() int { f.more(*st); return 400 })
				} else {
					_, calls = collectRows(st.TsOK, st.SplOK, f.unsent+nEntries(*st), true, func() int { f.more(*st); return 0 })
				}
				f.afterFlush(calls, st.TsOK, st.SplOK)
				c.Obs = append(c.Obs, StepObs{Status: 0, Calls: calls})
			case "end", "abort":
				if st.Idx >= len(open) {
					c.Obs = append(c.Obs, StepObs{Status: -1})
					continue
				}
				f := open[st.Idx]
				open = append(open[:st.Idx:st.Idx], open[st.Idx+1:]...)
				var code int
				var calls []Call
				if st.K == "end" {
					code, calls = f.finish("]}", st.TsOK, st.SplOK)
				} else {
					code, calls = f.finish(badTail, true, true)
				}
				c.Obs = append(c.Obs, StepObs{Status: code, Calls: calls})
			default:
				panic("unknown step kind " + st.K)
			}
		}
	})
	for _, f := range open {
		f.pw.CloseWithError(io.ErrUnexpectedEOF)
		<-f.code
	}
}

func runHist(f *hx.Flags, out *hx.Out) {
	r := setup()
	if f.Cases != "" {
		hx.ReadLines(f.Cases, func(b []byte) {
			var c HCase
			if err := json.Unmarshal(b, &c); err != nil {
				panic(err)
			}
			runHistCase(r, &c)
			out.Put(c)
		})
		return
	}
	rnd := hx.Rand(f.Seed)
	for i := 0; i < f.N; i++ {
		c := genHist(rnd, i)
		runHistCase(r, &c)
		out.Put(c)
	}
	// histories built from announcement keys that collide on part of their 64 bits
	id := f.N
	for _, col := range findCollisions(rnd, 300000) {
		for _, c := range collisionHists(col, &id) {
			runHistCase(r, &c)
			out.Put(c)
		}
	}
	// pushes that announce the same new series into one pending buffer of the time_series insert service
	for k := 0; k < reps(f.N); k++ {
		for _, p := range sharedPatterns() {
			c := genSharedHist(rnd, id, p)
			id++
			runHistCase(r, &c)
			out.Put(c)
		}
	}
	// a request of 2..4 chunks with one failing insert (every position), then the client's second attempt
	for k := 0; k < reps(f.N); k++ {
		for _, p := range retryPatterns() {
			c := genRetryHist(rnd, id, p)
			id++
			runHistCase(r, &c)
			out.Put(c)
		}
	}
	// the same series pushed to two servers whose database has the same name (nodes.go)
	for k := 0; k < reps(f.N); k++ {
		for _, p := range nodePatterns() {
			c := genNodesHist(rnd, id, p)
			id++
			runHistCase(r, &c)
			out.Put(c)
		}
	}
}

func reps(n int) int {
	reps := n / 250
	if reps < 1 {
		reps = 1
	}
	if reps > 20 {
		reps = 20
	}
	return reps
}

// ------------------------------------------------------------------ dates under a process time zone

type DCase struct {
	ID     int    `json:"id"`
	Class  string `json:"class"`
	Offset int    `json:"offset"` // seconds east of UTC of time.Local
	Ts     int64  `json:"ts"`     // ns
	Status int    `json:"status"`
	Date   int    `json:"date"` // days since the epoch in the date column of the series row; -1 none
	Panic  string `json:"panic,omitempty"`
}

func runDateCase(r *mux.Router, c *DCase) {
	time.Local = time.FixedZone("verif", c.Offset)
	defer func() { time.Local = time.UTC }()
	resetCache()
	c.Date = -1
	c.Panic = hx.Catch(func() {
		st := Step{K: "push", TsOK: true, SplOK: true, Streams: []Stream{{Ls: 1, Entries: []Entry{{Ts: c.Ts, T: 1}}}}}
		code, calls := push(r, bodyOf(st), true, true)
		c.Status = code
		for _, cl := range calls {
			if cl.Table == "time_series" && len(cl.Rows) > 0 {
				c.Date, _ = strconv.Atoi(cl.Rows[0][0])
			}
		}
	})
}

func runDates(f *hx.Flags, out *hx.Out) {
	r := setup()
	if f.Cases != "" {
		hx.ReadLines(f.Cases, func(b []byte) {
			var c DCase
			if err := json.Unmarshal(b, &c); err != nil {
				panic(err)
			}
			runDateCase(r, &c)
			out.Put(c)
		})
		return
	}
	rnd := hx.Rand(f.Seed)
	id := 0
	// every whole-hour offset from -12h to +14h, plus the :30 / :45 zones, with instants around UTC and local midnight
	offs := []int{}
	for h := -12; h <= 14; h++ {
		offs = append(offs, h*3600)
	}
	offs = append(offs, -9*3600-1800, -3*3600-1800, 5*3600+1800, 5*3600+2700, 12*3600+2700)
	for _, off := range offs {
		base := (day0 + int64(rnd.Intn(400))) * 86400
		secs := []int64{0, 1, 86399, 43200, int64(rnd.Intn(86400)), int64(rnd.Intn(86400))}
		lm := ((-int64(off))%86400 + 86400) % 86400 // local midnight, as seconds of the UTC day
		secs = append(secs, lm, (lm+86399)%86400, (lm+1)%86400, (lm+1800)%86400, (lm+86400-1800)%86400, (lm+43200)%86400)
		for _, s := range secs {
			if id >= f.N {
				return
			}
			c := DCase{ID: id, Offset: off, Ts: (base + s) * 1000000000, Class: "utc"}
			if off < 0 {
				c.Class = "west"
			} else if off > 0 {
				c.Class = "east"
			}
			runDateCase(r, &c)
			out.Put(c)
			id++
		}
	}
}
