package main

// --mode protos: the label lists the protocols that do NOT go through the Loki / remote-write path build
// (Datadog logs, Datadog Cloudflare logs, Datadog metrics, Elasticsearch document and bulk, OTLP logs,
// InfluxDB metric lines), observed through the exported parsers: fingerprint and stored label document of the
// first series row, the same content in other wire orders, and the same request under
// FingerPrintType = Bernstein.

import (
	"bytes"
	"context"
	"encoding/json"
	"fmt"
	"io"
	"math"
	"math/rand"
	"sort"
	"strconv"
	"strings"
	"time"
	"unicode"
	"unicode/utf8"

	"github.com/go-faster/city"
	clc_writer "github.com/metrico/cloki-config/config/writer"
	rservice "github.com/metrico/qryn/reader/service"
	"github.com/metrico/qryn/writer/config"
	wmodel "github.com/metrico/qryn/writer/model"
	"github.com/metrico/qryn/writer/utils/unmarshal"
	otlpCommon "go.opentelemetry.io/proto/otlp/common/v1"
	otlpLogs "go.opentelemetry.io/proto/otlp/logs/v1"
	otlpResource "go.opentelemetry.io/proto/otlp/resource/v1"
	"google.golang.org/protobuf/proto"

	"verif/harness/hx"
)

type Wire struct {
	Kind string `json:"kind"` // dd_logs | dd_cf | dd_metrics | es_doc | es_bulk | otlp | influx_metric
	// hex strings everywhere
	Tags    [][2]string   `json:"tags,omitempty"`    // dd_logs: ddtags; es_bulk: members of the create object; influx_metric: tags
	Fields  []string      `json:"fields,omitempty"`  // dd_logs: source service hostname source_type; dd_cf: the eight; es_*: target [id]; influx: measurement field
	HasID   bool          `json:"has_id,omitempty"`  // es_doc
	Items   []WItem       `json:"items,omitempty"`   // dd_metrics, in the order sent
	Res     []WAttr       `json:"res,omitempty"`     // otlp resource attributes
	Scope   []WAttr       `json:"scope,omitempty"`   // otlp scope attributes
	Rec     []WAttr       `json:"rec,omitempty"`     // otlp record attributes
	Sev     string        `json:"sev,omitempty"`     // otlp severity text
	DdTags  string        `json:"ddtags,omitempty"`  // dd_logs: the ddtags member as sent (hex)
	Letters [][2]int64    `json:"letters,omitempty"` // dd_logs: unicode.Is(unicode.L, r) for every rune >= 128 of ddtags
}

// an OTLP attribute: key (hex) and its any-value tree
type WAttr struct {
	K string `json:"k"`
	V WVal   `json:"v"`
}

// T: s string (S hex) | b bool (B) | i int (I decimal) | d double (D = IEEE bits, decimal) | y bytes (S hex) |
// a array (A) | kv key-value list (KV) | n no value
type WVal struct {
	T  string  `json:"t"`
	S  string  `json:"s,omitempty"`
	B  bool    `json:"b,omitempty"`
	I  string  `json:"i,omitempty"`
	D  string  `json:"d,omitempty"`
	A  []WVal  `json:"a,omitempty"`
	KV []WAttr `json:"kv,omitempty"`
}
type WItem struct {
	Metric string          `json:"metric,omitempty"` // hex; item is the "metric" member
	Objs   [][][2]string   `json:"objs,omitempty"`   // item is the "resources" member
	IsRes  bool            `json:"is_res"`
}

type PCase struct {
	ID     int         `json:"id"`
	Class  string      `json:"class"`
	Wire   Wire        `json:"wire"`
	Ch     [][2]string `json:"ch"`
	Print  [][2]int64  `json:"print"`
	Fp     string      `json:"fp"`
	Fps    []string    `json:"fps"`
	FpDjb  string      `json:"fp_djb"`
	FpsDjb []string    `json:"fps_djb"`
	Doc    string      `json:"doc"`
	Err    string      `json:"err,omitempty"`
	Panic  string      `json:"panic,omitempty"`
	HasHdr bool        `json:"has_hdr"`          // the request was also sent with a TTL header
	FpHdr  string      `json:"fp_hdr,omitempty"` // its fingerprint then
	Rd     [][2]string `json:"rd"`                // what the READER's decoder of stored label documents (storedLabels) makes of the document, sorted by name, hex
	RdErr  string      `json:"rd_err,omitempty"`
	HasLoki bool       `json:"has_loki"`          // the label list the decoder stored was also pushed as a Loki stream
	FpLoki string      `json:"fp_loki,omitempty"` // the fingerprint Loki stored for it

	hdr *pbody
}

type pbody struct {
	fn   unmarshal.ParsingFunction
	ctx  context.Context
	body []byte
}

func runP(b pbody) (uint64, string, error) {
	ch := b.fn(b.ctx, io.Reader(bytes.NewReader(b.body)), freshCache{})
	var fp uint64
	var doc string
	got := false
	var err error
	for resp := range ch {
		if resp.Error != nil {
			if err == nil {
				err = resp.Error
			}
			continue
		}
		if ts, ok := resp.TimeSeriesRequest.(*wmodel.TimeSeriesData); ok && ts != nil && len(ts.MLabels) > 0 && !got {
			fp, doc, got = ts.MFingerprint[0], ts.MLabels[0], true
		}
	}
	if err == nil && !got {
		err = fmt.Errorf("no series row in parser output")
	}
	return fp, doc, err
}

func hexs(s string) string { return hx.Hex(s) }
func hexPairs2(l [][2]string) [][2]string {
	out := make([][2]string, len(l))
	for i, kv := range l {
		out[i] = [2]string{hexs(kv[0]), hexs(kv[1])}
	}
	return out
}
func shuffled2(r *rand.Rand, l [][2]string) [][2]string {
	out := append([][2]string(nil), l...)
	r.Shuffle(len(out), func(i, j int) { out[i], out[j] = out[j], out[i] })
	return out
}
func shuffledS(r *rand.Rand, l []string) []string {
	out := append([]string(nil), l...)
	r.Shuffle(len(out), func(i, j int) { out[i], out[j] = out[j], out[i] })
	return out
}

var fieldVals = []string{"", "nginx", "api", "web-1", "h1.example.com", "café", "a b", "x\"y", "日本", "tab\there", "bell\x07", "long-" + strings.Repeat("v", 120), "\U000e0001z"}

func genField(r *rand.Rand) string {
	if r.Intn(3) == 0 {
		return ""
	}
	return fieldVals[r.Intn(len(fieldVals))]
}

const tagNameChars = "abcdefghijklmnopqrstuvwxyzABCXYZ_0123456789-./"
const tagValChars = "abcdefghijklmnopqrstuvwxyzABC_0123456789-./:"

func genTag(r *rand.Rand, i int) [2]string {
	// distinct names: a letter, an index, then maybe characters LogQL cannot address
	n := string(rune('a'+r.Intn(26))) + strconv.Itoa(i)
	if r.Intn(3) == 0 {
		k := 1 + r.Intn(3)
		for j := 0; j < k; j++ {
			n += string(tagNameChars[r.Intn(len(tagNameChars))])
		}
	}
	if r.Intn(8) == 0 {
		n = "é" + n
	}
	v := ""
	k := 1 + r.Intn(6)
	for j := 0; j < k; j++ {
		v += string(tagValChars[r.Intn(len(tagValChars))])
	}
	return [2]string{n, v}
}

func genAttrKey(r *rand.Rand, i int) string {
	base := []string{"service.name", "k8s.pod.name", "host", "http.method", "9lives", "", "café", "a-b", "level", "x_y", "\U0001F600k"}
	s := base[r.Intn(len(base))]
	if r.Intn(2) == 0 {
		s += strconv.Itoa(i)
	}
	return s
}

// jsonBytes writes a JSON string literal that keeps ill-formed bytes as they are (encoding/json would replace them)
func jsonBytes(v string) string {
	var b strings.Builder
	b.WriteByte('"')
	for i := 0; i < len(v); i++ {
		ch := v[i]
		switch {
		case ch == '"' || ch == '\\':
			b.WriteByte('\\')
			b.WriteByte(ch)
		case ch < 0x20:
			fmt.Fprintf(&b, "\\u%04x", ch)
		default:
			b.WriteByte(ch)
		}
	}
	b.WriteByte('"')
	return b.String()
}

func obj(members []string) string { return "{" + strings.Join(members, ",") + "}" }

var doubles = []float64{0, math.Copysign(0, -1), 1.5, -2.25, 0.1, 0.30000000000000004, 1e21, 1e20, 1e-7, 123456789.125, 5e-324,
	1.7976931348623157e308, math.NaN(), math.Inf(1), math.Inf(-1), 100, 1234567.0, 3.141592653589793, 2.5e-5}

func genVal(r *rand.Rand, depth int) WVal {
	k := r.Intn(12)
	if depth <= 0 && k >= 9 {
		k = r.Intn(9)
	}
	switch k {
	case 0, 1, 2:
		v := genField(r)
		if !utf8.ValidString(v) {
			v = "v"
		}
		return WVal{T: "s", S: hexs(v)}
	case 3:
		return WVal{T: "b", B: r.Intn(2) == 0}
	case 4:
		return WVal{T: "i", I: []string{"0", "7", "-12", "9223372036854775807", "-9223372036854775808", "1000000"}[r.Intn(6)]}
	case 5, 6:
		d := doubles[r.Intn(len(doubles))]
		if r.Intn(4) == 0 {
			d = math.Float64frombits(r.Uint64())
		}
		return WVal{T: "d", D: strconv.FormatUint(math.Float64bits(d), 10)}
	case 7:
		n := r.Intn(6)
		bs := make([]byte, n)
		for i := range bs {
			bs[i] = byte(r.Intn(256))
		}
		return WVal{T: "y", S: hexs(string(bs))}
	case 8:
		return WVal{T: "n"}
	case 9, 10:
		v := WVal{T: "a", A: []WVal{}}
		n := r.Intn(4)
		for i := 0; i < n; i++ {
			v.A = append(v.A, genVal(r, depth-1))
		}
		return v
	default:
		v := WVal{T: "kv", KV: []WAttr{}}
		n := r.Intn(4)
		for i := 0; i < n; i++ {
			key := genAttrKey(r, i%2)
			if i > 0 && r.Intn(4) == 0 {
				// a key that collides with an earlier one after SanitizeKey: the later value wins
				key = strings.NewReplacer(".", "-", "_", ".").Replace(hx.UnHex(v.KV[r.Intn(len(v.KV))].K))
			}
			v.KV = append(v.KV, WAttr{K: hexs(key), V: genVal(r, depth-1)})
		}
		return v
	}
}

func anyValue(v WVal) *otlpCommon.AnyValue {
	switch v.T {
	case "s":
		return &otlpCommon.AnyValue{Value: &otlpCommon.AnyValue_StringValue{StringValue: hx.UnHex(v.S)}}
	case "b":
		return &otlpCommon.AnyValue{Value: &otlpCommon.AnyValue_BoolValue{BoolValue: v.B}}
	case "i":
		n, _ := strconv.ParseInt(v.I, 10, 64)
		return &otlpCommon.AnyValue{Value: &otlpCommon.AnyValue_IntValue{IntValue: n}}
	case "d":
		bits, _ := strconv.ParseUint(v.D, 10, 64)
		return &otlpCommon.AnyValue{Value: &otlpCommon.AnyValue_DoubleValue{DoubleValue: math.Float64frombits(bits)}}
	case "y":
		return &otlpCommon.AnyValue{Value: &otlpCommon.AnyValue_BytesValue{BytesValue: []byte(hx.UnHex(v.S))}}
	case "a":
		arr := &otlpCommon.ArrayValue{}
		for _, it := range v.A {
			arr.Values = append(arr.Values, anyValue(it))
		}
		return &otlpCommon.AnyValue{Value: &otlpCommon.AnyValue_ArrayValue{ArrayValue: arr}}
	case "kv":
		return &otlpCommon.AnyValue{Value: &otlpCommon.AnyValue_KvlistValue{KvlistValue: &otlpCommon.KeyValueList{Values: kvAttrs(v.KV)}}}
	}
	return &otlpCommon.AnyValue{}
}

func kvAttrs(l []WAttr) []*otlpCommon.KeyValue {
	var out []*otlpCommon.KeyValue
	for _, kv := range l {
		out = append(out, &otlpCommon.KeyValue{Key: hx.UnHex(kv.K), Value: anyValue(kv.V)})
	}
	return out
}

// pieces of a ddtags text that are not well-formed tags (none contains a comma)
var junkTags = []string{"", "novalue", "9x:1", "a b:c", "k:v!", "x:y:z", "k:", ":v", "a:b;c", "tag:\xffz", " lead:1", "trail:1 ", "é:ü", "日本:語", "_u:1", "a\\b:c/d", "A.b-c/d:e", "ǅ:1", "٣:1", "k\u00a0:1", "x:١"}

// genProto builds one case: the wire description and the request bodies (first = the described order)
func unhexPairs2(l [][2]string) [][2]string {
	out := make([][2]string, len(l))
	for i, kv := range l {
		out[i] = [2]string{hx.UnHex(kv[0]), hx.UnHex(kv[1])}
	}
	return out
}

// genProto generates one case: the description of what is sent (Wire); the request bodies are built from the
// description alone by bodiesOf, so that a case read from a file (corpus, replay) is run exactly like a generated one.
func genProto(r *rand.Rand, id int) PCase {
	c := PCase{ID: id}
	switch id % 8 {
	case 0:
		c.Class = "datadog_logs"
		// the ddtags text: well-formed tags and junk, joined by commas; no piece contains a comma, so the matches of the
		// pattern inside one piece do not depend on where the piece stands
		var pieces []string
		n := r.Intn(5)
		for i := 0; i < n; i++ {
			if r.Intn(3) == 0 {
				pieces = append(pieces, junkTags[r.Intn(len(junkTags))])
			} else {
				kv := genTag(r, i)
				pieces = append(pieces, kv[0]+":"+kv[1])
			}
		}
		f := []string{genField(r), genField(r), genField(r), genField(r)}
		if r.Intn(4) == 0 {
			// a label name twice: two tags of one name, or a tag named like one of the fields (agents send service / host both ways);
			// the stored document then has two members of that name
			c.Class = "datadog_logs repeated name"
			v1, v2 := "v"+strconv.Itoa(r.Intn(3)), "v"+strconv.Itoa(r.Intn(3))
			switch r.Intn(4) {
			case 0:
				pieces = append(pieces, "env:"+v1, "env:"+v2)
			case 1:
				pieces = append(pieces, "service:"+v1)
				f[1] = v2
			case 2:
				pieces = append(pieces, "hostname:"+v1)
				f[2] = v2
			default:
				pieces = append(pieces, "ddsource:"+v1, "env:"+v2, "env:"+v1)
				f[0] = v2
			}
			r.Shuffle(len(pieces), func(i, j int) { pieces[i], pieces[j] = pieces[j], pieces[i] })
		}
		c.Wire = Wire{Kind: "dd_logs", DdTags: hexs(strings.Join(pieces, ",")), Fields: []string{hexs(f[0]), hexs(f[1]), hexs(f[2]), hexs(f[3])}}
	case 1:
		c.Class = "datadog_cf"
		f := make([]string, 8)
		for i := range f {
			f[i] = genField(r)
		}
		f[4] = []string{"", "true", "false"}[r.Intn(3)]
		hf := make([]string, 8)
		for i := range f {
			hf[i] = hexs(f[i])
		}
		c.Wire = Wire{Kind: "dd_cf", Fields: hf}
	case 2:
		c.Class = "datadog_metrics"
		var hobjs [][][2]string
		no := r.Intn(3)
		for i := 0; i < no; i++ {
			var o [][2]string
			nk := 1 + r.Intn(2)
			for j := 0; j < nk; j++ {
				o = append(o, [2]string{[]string{"name", "type", "host-id", "café"}[(i+j)%4] + strconv.Itoa(j), genField(r)})
			}
			hobjs = append(hobjs, hexPairs2(o))
		}
		metric := []string{"cpu", "system.load.1", "mem-used", ""}[r.Intn(4)]
		items := []WItem{{Metric: hexs(metric)}, {Objs: hobjs, IsRes: true}}
		if r.Intn(2) == 0 {
			items[0], items[1] = items[1], items[0]
		}
		c.Wire = Wire{Kind: "dd_metrics", Items: items}
	case 3:
		c.Class = "elastic_doc"
		target := []string{"logs", "my-index", "café", "idx.2024"}[r.Intn(4)]
		hasID := r.Intn(2) == 0
		id := []string{"7", "doc-1", "a b"}[r.Intn(3)]
		c.Wire = Wire{Kind: "es_doc", Fields: []string{hexs(target), hexs(id)}, HasID: hasID}
	case 4:
		c.Class = "elastic_bulk"
		target := []string{"", "logs", "my-index"}[r.Intn(3)]
		var ms [][2]string
		n := 1 + r.Intn(4)
		names := []string{"_index", "_id", "type", "routing", "my-key", "pipeline.name", "café"}
		for _, i := range r.Perm(len(names))[:n] {
			ms = append(ms, [2]string{names[i], genField(r)})
		}
		c.Wire = Wire{Kind: "es_bulk", Fields: []string{hexs(target)}, Tags: hexPairs2(ms)}
	case 5:
		c.Class = "otlp_logs"
		gen := func(n int, off int) []WAttr {
			var l []WAttr
			for i := 0; i < n; i++ {
				l = append(l, WAttr{K: hexs(genAttrKey(r, off+i%2)), V: genVal(r, 2)})
			}
			return l
		}
		res, scope, rec := gen(r.Intn(3), 0), gen(r.Intn(2), 1), gen(r.Intn(3), 0)
		// attributes that override each other: a record / scope attribute with the key of a resource attribute
		if len(res) > 0 && r.Intn(2) == 0 {
			rec = append(rec, WAttr{K: res[r.Intn(len(res))].K, V: WVal{T: "s", S: hexs("rec-wins")}})
		}
		if len(res) > 0 && r.Intn(3) == 0 {
			scope = append(scope, WAttr{K: res[r.Intn(len(res))].K, V: WVal{T: "s", S: hexs("scope-wins")}})
		}
		sev := []string{"", "WARN", "info"}[r.Intn(3)]
		c.Wire = Wire{Kind: "otlp", Res: res, Scope: scope, Rec: rec, Sev: hexs(sev)}
	case 7:
		// a Loki push whose stream carries the control label __ttl_days__, without and with a TTL header (X-Ttl-Days)
		c.Class = "loki_ttl_label"
		var ls [][2]string
		n := 1 + r.Intn(3)
		for i := 0; i < n; i++ {
			ls = append(ls, [2]string{[]string{"app", "env", "dc"}[i], genField(r) + "v"})
		}
		ttl := []string{"5", "30", "x", ""}[r.Intn(4)]
		if r.Intn(3) != 0 {
			ls = append(ls, [2]string{"__ttl_days__", ttl})
		} else {
			// no control label: the header must not change the fingerprint
			c.Class = "loki_ttl_header_only"
			ls = append(ls, [2]string{[]string{"ttl_days", "__ttl_days", "x__ttl_days__"}[r.Intn(3)], ttl})
		}
		ls = shuffled2(r, ls)
		c.Wire = Wire{Kind: "loki_ttl", Tags: hexPairs2(ls)}
	default:
		c.Class = "influx_metric"
		var tags [][2]string
		n := r.Intn(4)
		for i := 0; i < n; i++ {
			tags = append(tags, [2]string{[]string{"host", "dc", "rack-id", "9x"}[i] + strconv.Itoa(r.Intn(2)), []string{"a", "b-1", "eu/west", strings.Repeat("w", 110)}[r.Intn(4)]})
		}
		meas := []string{"cpu", "disk-io", "m1"}[r.Intn(3)]
		field := []string{"value", "load-1", "9th", "used_percent"}[r.Intn(4)]
		c.Wire = Wire{Kind: "influx_metric", Tags: hexPairs2(tags), Fields: []string{hexs(meas), hexs(field)}}
	}
	return c
}

// bodiesOf builds the request bodies of a case from its description: first the described order, then the same content
// in other wire orders; it also fills what is derived from the description (the \p{L} table of a ddtags text, the
// request with a TTL header).
func bodiesOf(r *rand.Rand, c *PCase) []pbody {
	bg := context.Background()
	w := &c.Wire
	fld := make([]string, len(w.Fields))
	for i, h := range w.Fields {
		fld[i] = hx.UnHex(h)
	}
	switch w.Kind {
	case "dd_logs":
		dd := hx.UnHex(w.DdTags)
		w.Letters = nil
		seenR := map[rune]bool{}
		for _, rn := range dd {
			if rn >= 128 && !seenR[rn] {
				seenR[rn] = true
				lv := int64(0)
				if unicode.Is(unicode.L, rn) {
					lv = 1
				}
				w.Letters = append(w.Letters, [2]int64{int64(rn), lv})
			}
		}
		var pieces []string
		if dd != "" {
			pieces = strings.Split(dd, ",")
		}
		mk := func(ps []string, shuffle bool) pbody {
			ms := []string{`"ddsource":` + jsonStr(fld[0]), `"service":` + jsonStr(fld[1]), `"hostname":` + jsonStr(fld[2]), `"source_type":` + jsonStr(fld[3]),
				`"ddtags":` + jsonBytes(strings.Join(ps, ",")), `"message":"m"`, `"timestamp":1704888000000`}
			if shuffle {
				ms = shuffledS(r, ms)
			}
			return pbody{unmarshal.UnmarshallDatadogV2JSONV2, bg, []byte("[" + obj(ms) + "]")}
		}
		return []pbody{mk(pieces, false), mk(shuffledS(r, pieces), true), mk(shuffledS(r, pieces), true)}
	case "dd_cf":
		ctx := context.WithValue(bg, "ddsource", fld[0])
		mk := func(shuffle bool) pbody {
			ms := []string{`"ScriptName":` + jsonStr(fld[1]), `"Outcome":` + jsonStr(fld[2]), `"EventType":` + jsonStr(fld[3]),
				`"ActionType":` + jsonStr(fld[5]), `"ActorType":` + jsonStr(fld[6]), `"ResourceType":` + jsonStr(fld[7]), `"EventTimestampMs":1704888000000`}
			if fld[4] != "" {
				ms = append(ms, `"ActionResult":`+fld[4])
			}
			if shuffle {
				ms = shuffledS(r, ms)
			}
			return pbody{unmarshal.UnmarshallDatadogCFJSONV2, ctx, []byte(obj(ms) + "\n")}
		}
		return []pbody{mk(false), mk(true), mk(true)}
	case "dd_metrics":
		metric := ""
		resFirst := len(w.Items) > 0 && w.Items[0].IsRes
		var os []string
		for _, it := range w.Items {
			if !it.IsRes {
				metric = hx.UnHex(it.Metric)
				continue
			}
			for _, o := range it.Objs {
				var ms []string
				for _, kv := range unhexPairs2(o) {
					ms = append(ms, jsonStr(kv[0])+":"+jsonStr(kv[1]))
				}
				os = append(os, obj(ms))
			}
		}
		mMetric := `"metric":` + jsonStr(metric)
		mRes := `"resources":[` + strings.Join(os, ",") + `]`
		mPts := `"points":[{"timestamp":1704888000,"value":1.5}]`
		mk := func(ms []string) pbody {
			return pbody{unmarshal.UnmarshallDatadogMetricsV2JSONV2, bg, []byte(`{"series":[` + obj(ms) + `]}`)}
		}
		first := []string{mMetric, mRes, mPts}
		if resFirst {
			first = []string{mRes, mPts, mMetric}
		}
		return []pbody{mk(first), mk([]string{mPts, mRes, mMetric}), mk([]string{mMetric, mPts, mRes})}
	case "es_doc":
		ctx := context.WithValue(bg, "target", fld[0])
		if w.HasID {
			ctx = context.WithValue(ctx, "id", fld[1])
		}
		return []pbody{{unmarshal.ElasticDocUnmarshalV2, ctx, []byte(`{"message":"hello"}`)}}
	case "es_bulk":
		ms := unhexPairs2(w.Tags)
		ctx := context.WithValue(bg, "target", fld[0])
		mk := func(m [][2]string) pbody {
			var parts []string
			for _, kv := range m {
				parts = append(parts, jsonStr(kv[0])+":"+jsonStr(kv[1]))
			}
			return pbody{unmarshal.ElasticBulkUnmarshalV2, ctx, []byte(`{"create":` + obj(parts) + "}\n" + `{"message":"hello"}` + "\n")}
		}
		return []pbody{mk(ms), mk(shuffled2(r, ms)), mk(shuffled2(r, ms))}
	case "otlp":
		sev := hx.UnHex(w.Sev)
		mk := func() pbody {
			ld := &otlpLogs.LogsData{ResourceLogs: []*otlpLogs.ResourceLogs{{
				Resource: &otlpResource.Resource{Attributes: kvAttrs(w.Res)},
				ScopeLogs: []*otlpLogs.ScopeLogs{{
					Scope: &otlpCommon.InstrumentationScope{Attributes: kvAttrs(w.Scope)},
					LogRecords: []*otlpLogs.LogRecord{{TimeUnixNano: 1704888000000000000, SeverityText: sev,
						Body:       &otlpCommon.AnyValue{Value: &otlpCommon.AnyValue_StringValue{StringValue: "m"}},
						Attributes: kvAttrs(w.Rec)}},
				}},
			}}}
			b, err := proto.Marshal(ld)
			if err != nil {
				panic(err)
			}
			return pbody{unmarshal.UnmarshalOTLPLogsV2, bg, b}
		}
		// the Go map decides the order anew on every run
		return []pbody{mk(), mk(), mk(), mk()}
	case "loki_ttl":
		ls := unhexPairs2(w.Tags)
		mk := func(l [][2]string) []byte {
			var m []string
			for _, kv := range l {
				m = append(m, jsonStr(kv[0])+":"+jsonStr(kv[1]))
			}
			return []byte(`{"streams":[{"stream":{` + strings.Join(m, ",") + `},"values":[["1704888000000000000","x"]]}]}`)
		}
		c.hdr = &pbody{unmarshal.DecodePushRequestStringV2, context.WithValue(bg, "TTL_DAYS", uint16(7)), mk(ls)}
		return []pbody{{unmarshal.DecodePushRequestStringV2, bg, mk(ls)}, {unmarshal.DecodePushRequestStringV2, bg, mk(shuffled2(r, ls))}}
	case "influx_metric":
		tags := unhexPairs2(w.Tags)
		ctx := context.WithValue(bg, "precision", time.Nanosecond)
		mk := func(tg [][2]string) pbody {
			line := fld[0]
			for _, kv := range tg {
				line += "," + kv[0] + "=" + kv[1]
			}
			line += " " + fld[1] + "=1.5 1704888000000000000\n"
			return pbody{unmarshal.UnmarshalInfluxDBLogsV2, ctx, []byte(line)}
		}
		return []pbody{mk(tags), mk(shuffled2(r, tags)), mk(shuffled2(r, tags))}
	}
	panic("unknown wire kind " + w.Kind)
}

func observeProto(c *PCase, bodies []pbody) {
	c.Panic = hx.Catch(func() {
		fp, doc, err := runP(bodies[0])
		if err != nil {
			c.Err = err.Error()
			return
		}
		c.Fp = strconv.FormatUint(fp, 10)
		c.Doc = hx.Hex(doc)
		for _, b := range bodies[1:] {
			f, _, err := runP(b)
			if err != nil {
				c.Err = "reordered request: " + err.Error()
				return
			}
			c.Fps = append(c.Fps, strconv.FormatUint(f, 10))
		}
		old := config.Cloki.Setting.FingerPrintType
		config.Cloki.Setting.FingerPrintType = clc_writer.FINGERPRINT_Bernstein
		f, _, err := runP(bodies[0])
		if err == nil {
			for _, b := range bodies[1:] {
				g, _, e := runP(b)
				if e != nil {
					err = e
					break
				}
				c.FpsDjb = append(c.FpsDjb, strconv.FormatUint(g, 10))
			}
		}
		config.Cloki.Setting.FingerPrintType = old
		if err != nil {
			c.Err = "bernstein: " + err.Error()
			return
		}
		c.FpDjb = strconv.FormatUint(f, 10)
		docs := []string{doc}
		if c.hdr != nil {
			fh, dh, err := runP(*c.hdr)
			if err != nil {
				c.Err = "with TTL header: " + err.Error()
				return
			}
			c.HasHdr = true
			c.FpHdr = strconv.FormatUint(fh, 10)
			docs = append(docs, dh)
		}
		// oracle tables from the stored documents' members
		pairsOf := func(dc string) [][2]string {
			var out [][2]string
			dec := json.NewDecoder(strings.NewReader(dc))
			if tok, err := dec.Token(); err == nil && tok == json.Delim('{') {
				for dec.More() {
					k, e1 := dec.Token()
					v, e2 := dec.Token()
					ks, ok1 := k.(string)
					vs, ok2 := v.(string)
					if e1 != nil || e2 != nil || !ok1 || !ok2 {
						break
					}
					out = append(out, [2]string{ks, vs})
				}
			}
			return out
		}
		var pairs [][2]string
		for _, dc := range docs {
			pairs = append(pairs, pairsOf(dc)...)
		}
		if m, err := rservice.VerifC15StoredLabels(doc); err != nil {
			c.RdErr = err.Error()
		} else {
			c.Rd = [][2]string{}
			for k, v := range m {
				c.Rd = append(c.Rd, [2]string{hx.Hex(k), hx.Hex(v)})
			}
			sort.Slice(c.Rd, func(i, j int) bool { return c.Rd[i][0] < c.Rd[j][0] })
		}
		// the label list the decoder stored, pushed as a Loki stream: the same label set through another protocol
		if own := pairsOf(doc); len(own) > 0 && c.hdr == nil {
			names := map[string]bool{}
			dup := false
			var m []string
			var raw [][]string
			for _, kv := range own {
				dup = dup || names[kv[0]]
				names[kv[0]] = true
				m = append(m, jsonStr(kv[0])+":"+jsonStr(kv[1]))
				raw = append(raw, []string{kv[0], kv[1]})
			}
			if !dup {
				body := []byte(`{"streams":[{"stream":{` + strings.Join(m, ",") + `},"values":[["1704888000000000000","x"]]}]}`)
				fl, dl, err := runP(pbody{unmarshal.DecodePushRequestStringV2, context.Background(), body})
				if err != nil {
					c.Err = "the stored labels through Loki: " + err.Error()
					return
				}
				c.HasLoki = true
				c.FpLoki = strconv.FormatUint(fl, 10)
				pairs = append(pairs, pairsOf(dl)...)
				for _, kv := range unmarshal.VerifC04SanitizeLabels(raw) {
					pairs = append(pairs, [2]string{kv[0], kv[1]})
				}
			}
		}
		seen := map[string]bool{}
		runes := map[rune]bool{}
		for _, kv := range pairs {
			for _, s := range kv {
				if !seen[s] {
					seen[s] = true
					c.Ch = append(c.Ch, [2]string{hx.Hex(s), strconv.FormatUint(city.CH64([]byte(s)), 10)})
				}
				for _, rn := range s {
					if rn > 0xFF && !runes[rn] {
						runes[rn] = true
						pv := int64(0)
						if strconv.IsPrint(rn) {
							pv = 1
						}
						c.Print = append(c.Print, [2]int64{int64(rn), pv})
					}
				}
			}
		}
	})
}

func runProtos(f *hx.Flags, out *hx.Out) {
	rnd := hx.Rand(f.Seed)
	if f.Cases != "" {
		// explicit cases (corpus, replay): only the description of what is sent is read
		hx.ReadLines(f.Cases, func(b []byte) {
			var in PCase
			if err := json.Unmarshal(b, &in); err != nil {
				panic(err)
			}
			c := PCase{ID: in.ID, Class: in.Class, Wire: in.Wire}
			observeProto(&c, bodiesOf(rnd, &c))
			out.Put(c)
		})
		return
	}
	for i := 0; i < f.N; i++ {
		c := genProto(rnd, i)
		observeProto(&c, bodiesOf(rnd, &c))
		out.Put(c)
	}
}
