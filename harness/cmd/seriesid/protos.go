package main

// --mode protos: the label lists the protocols that do NOT go through the Loki / remote-write path build
// (Datadog logs, Datadog Cloudflare logs, Datadog metrics, Elasticsearch document and bulk, OTLP logs,
// InfluxDB metric lines), observed through the exported parsers: fingerprint and stored label document of the
// first series row, the same content in other wire orders, and the same request under
// FingerPrintType = Bernstein.

import (
	"bytes"
	"context"
	"encoding/json"
	"fmt"
	"io"
	"math/rand"
	"strconv"
	"strings"
	"time"
	"unicode/utf8"

	"github.com/go-faster/city"
	clc_writer "github.com/metrico/cloki-config/config/writer"
	"github.com/metrico/qryn/writer/config"
	wmodel "github.com/metrico/qryn/writer/model"
	"github.com/metrico/qryn/writer/utils/unmarshal"
	otlpCommon "go.opentelemetry.io/proto/otlp/common/v1"
	otlpLogs "go.opentelemetry.io/proto/otlp/logs/v1"
	otlpResource "go.opentelemetry.io/proto/otlp/resource/v1"
	"google.golang.org/protobuf/proto"

	"verif/harness/hx"
)

type Wire struct {
	Kind string `json:"kind"` // dd_logs | dd_cf | dd_metrics | es_doc | es_bulk | otlp | influx_metric
	// hex strings everywhere
	Tags    [][2]string   `json:"tags,omitempty"`    // dd_logs: ddtags; es_bulk: members of the create object; influx_metric: tags
	Fields  []string      `json:"fields,omitempty"`  // dd_logs: source service hostname source_type; dd_cf: the eight; es_*: target [id]; influx: measurement field
	HasID   bool          `json:"has_id,omitempty"`  // es_doc
	Items   []WItem       `json:"items,omitempty"`   // dd_metrics, in the order sent
	Res     [][2]string   `json:"res,omitempty"`     // otlp resource attributes
	Scope   [][2]string   `json:"scope,omitempty"`   // otlp scope attributes
	Rec     [][2]string   `json:"rec,omitempty"`     // otlp record attributes
	Sev     string        `json:"sev,omitempty"`     // otlp severity text
}
type WItem struct {
	Metric string          `json:"metric,omitempty"` // hex; item is the "metric" member
	Objs   [][][2]string   `json:"objs,omitempty"`   // item is the "resources" member
	IsRes  bool            `json:"is_res"`
}

type PCase struct {
	ID     int         `json:"id"`
	Class  string      `json:"class"`
	Wire   Wire        `json:"wire"`
	Ch     [][2]string `json:"ch"`
	Print  [][2]int64  `json:"print"`
	Fp     string      `json:"fp"`
	Fps    []string    `json:"fps"`
	FpDjb  string      `json:"fp_djb"`
	FpsDjb []string    `json:"fps_djb"`
	Doc    string      `json:"doc"`
	Err    string      `json:"err,omitempty"`
	Panic  string      `json:"panic,omitempty"`
	HasHdr bool        `json:"has_hdr"`          // the request was also sent with a TTL header
	FpHdr  string      `json:"fp_hdr,omitempty"` // its fingerprint then

	hdr *pbody
}

type pbody struct {
	fn   unmarshal.ParsingFunction
	ctx  context.Context
	body []byte
}

func runP(b pbody) (uint64, string, error) {
	ch := b.fn(b.ctx, io.Reader(bytes.NewReader(b.body)), freshCache{})
	var fp uint64
	var doc string
	got := false
	var err error
	for resp := range ch {
		if resp.Error != nil {
			if err == nil {
				err = resp.Error
			}
			continue
		}
		if ts, ok := resp.TimeSeriesRequest.(*wmodel.TimeSeriesData); ok && ts != nil && len(ts.MLabels) > 0 && !got {
			fp, doc, got = ts.MFingerprint[0], ts.MLabels[0], true
		}
	}
	if err == nil && !got {
		err = fmt.Errorf("no series row in parser output")
	}
	return fp, doc, err
}

func hexs(s string) string { return hx.Hex(s) }
func hexPairs2(l [][2]string) [][2]string {
	out := make([][2]string, len(l))
	for i, kv := range l {
		out[i] = [2]string{hexs(kv[0]), hexs(kv[1])}
	}
	return out
}
func shuffled2(r *rand.Rand, l [][2]string) [][2]string {
	out := append([][2]string(nil), l...)
	r.Shuffle(len(out), func(i, j int) { out[i], out[j] = out[j], out[i] })
	return out
}
func shuffledS(r *rand.Rand, l []string) []string {
	out := append([]string(nil), l...)
	r.Shuffle(len(out), func(i, j int) { out[i], out[j] = out[j], out[i] })
	return out
}

var fieldVals = []string{"", "nginx", "api", "web-1", "h1.example.com", "café", "a b", "x\"y", "日本", "tab\there", "bell\x07", "long-" + strings.Repeat("v", 120), "\U000e0001z"}

func genField(r *rand.Rand) string {
	if r.Intn(3) == 0 {
		return ""
	}
	return fieldVals[r.Intn(len(fieldVals))]
}

const tagNameChars = "abcdefghijklmnopqrstuvwxyzABCXYZ_0123456789-./"
const tagValChars = "abcdefghijklmnopqrstuvwxyzABC_0123456789-./:"

func genTag(r *rand.Rand, i int) [2]string {
	// distinct names: a letter, an index, then maybe characters LogQL cannot address
	n := string(rune('a'+r.Intn(26))) + strconv.Itoa(i)
	if r.Intn(3) == 0 {
		k := 1 + r.Intn(3)
		for j := 0; j < k; j++ {
			n += string(tagNameChars[r.Intn(len(tagNameChars))])
		}
	}
	if r.Intn(8) == 0 {
		n = "é" + n
	}
	v := ""
	k := 1 + r.Intn(6)
	for j := 0; j < k; j++ {
		v += string(tagValChars[r.Intn(len(tagValChars))])
	}
	return [2]string{n, v}
}

func genAttrKey(r *rand.Rand, i int) string {
	base := []string{"service.name", "k8s.pod.name", "host", "http.method", "9lives", "", "café", "a-b", "level", "x_y", "\U0001F600k"}
	s := base[r.Intn(len(base))]
	if r.Intn(2) == 0 {
		s += strconv.Itoa(i)
	}
	return s
}

func obj(members []string) string { return "{" + strings.Join(members, ",") + "}" }

// an attribute value "\x00b:true" / "\x00i:-12" stands for a bool / int value (the wire description keeps the marker)
func attrValue(v string) *otlpCommon.AnyValue {
	if strings.HasPrefix(v, "\x00b:") {
		return &otlpCommon.AnyValue{Value: &otlpCommon.AnyValue_BoolValue{BoolValue: v[3:] == "true"}}
	}
	if strings.HasPrefix(v, "\x00i:") {
		n, _ := strconv.ParseInt(v[3:], 10, 64)
		return &otlpCommon.AnyValue{Value: &otlpCommon.AnyValue_IntValue{IntValue: n}}
	}
	return &otlpCommon.AnyValue{Value: &otlpCommon.AnyValue_StringValue{StringValue: v}}
}

func kvAttrs(l [][2]string) []*otlpCommon.KeyValue {
	var out []*otlpCommon.KeyValue
	for _, kv := range l {
		out = append(out, &otlpCommon.KeyValue{Key: kv[0], Value: attrValue(kv[1])})
	}
	return out
}

// genProto builds one case: the wire description and the request bodies (first = the described order)
func genProto(r *rand.Rand, id int) (PCase, []pbody) {
	c := PCase{ID: id}
	bg := context.Background()
	var bodies []pbody
	switch id % 8 {
	case 0:
		c.Class = "datadog_logs"
		var tags [][2]string
		n := r.Intn(4)
		for i := 0; i < n; i++ {
			tags = append(tags, genTag(r, i))
		}
		f := []string{genField(r), genField(r), genField(r), genField(r)}
		c.Wire = Wire{Kind: "dd_logs", Tags: hexPairs2(tags), Fields: []string{hexs(f[0]), hexs(f[1]), hexs(f[2]), hexs(f[3])}}
		mk := func(tg [][2]string, shuffle bool) pbody {
			var ts []string
			for _, kv := range tg {
				ts = append(ts, kv[0]+":"+kv[1])
			}
			ms := []string{`"ddsource":` + jsonStr(f[0]), `"service":` + jsonStr(f[1]), `"hostname":` + jsonStr(f[2]), `"source_type":` + jsonStr(f[3]),
				`"ddtags":` + jsonStr(strings.Join(ts, ",")), `"message":"m"`, `"timestamp":1704888000000`}
			if shuffle {
				ms = shuffledS(r, ms)
			}
			return pbody{unmarshal.UnmarshallDatadogV2JSONV2, bg, []byte("[" + obj(ms) + "]")}
		}
		bodies = []pbody{mk(tags, false), mk(shuffled2(r, tags), true), mk(shuffled2(r, tags), true)}
	case 1:
		c.Class = "datadog_cf"
		f := make([]string, 8)
		for i := range f {
			f[i] = genField(r)
		}
		f[4] = []string{"", "true", "false"}[r.Intn(3)]
		hf := make([]string, 8)
		for i := range f {
			hf[i] = hexs(f[i])
		}
		c.Wire = Wire{Kind: "dd_cf", Fields: hf}
		ctx := context.WithValue(bg, "ddsource", f[0])
		mk := func(shuffle bool) pbody {
			ms := []string{`"ScriptName":` + jsonStr(f[1]), `"Outcome":` + jsonStr(f[2]), `"EventType":` + jsonStr(f[3]),
				`"ActionType":` + jsonStr(f[5]), `"ActorType":` + jsonStr(f[6]), `"ResourceType":` + jsonStr(f[7]), `"EventTimestampMs":1704888000000`}
			if f[4] != "" {
				ms = append(ms, `"ActionResult":`+f[4])
			}
			if shuffle {
				ms = shuffledS(r, ms)
			}
			return pbody{unmarshal.UnmarshallDatadogCFJSONV2, ctx, []byte(obj(ms) + "\n")}
		}
		bodies = []pbody{mk(false), mk(true), mk(true)}
	case 2:
		c.Class = "datadog_metrics"
		var objs [][][2]string
		no := r.Intn(3)
		for i := 0; i < no; i++ {
			var o [][2]string
			nk := 1 + r.Intn(2)
			for j := 0; j < nk; j++ {
				o = append(o, [2]string{[]string{"name", "type", "host-id", "café"}[(i+j)%4] + strconv.Itoa(j), genField(r)})
			}
			objs = append(objs, o)
		}
		metric := []string{"cpu", "system.load.1", "mem-used", ""}[r.Intn(4)]
		resFirst := r.Intn(2) == 0
		var hobjs [][][2]string
		for _, o := range objs {
			hobjs = append(hobjs, hexPairs2(o))
		}
		items := []WItem{{Metric: hexs(metric)}, {Objs: hobjs, IsRes: true}}
		if resFirst {
			items[0], items[1] = items[1], items[0]
		}
		c.Wire = Wire{Kind: "dd_metrics", Items: items}
		var os []string
		for _, o := range objs {
			var ms []string
			for _, kv := range o {
				ms = append(ms, jsonStr(kv[0])+":"+jsonStr(kv[1]))
			}
			os = append(os, obj(ms))
		}
		mMetric := `"metric":` + jsonStr(metric)
		mRes := `"resources":[` + strings.Join(os, ",") + `]`
		mPts := `"points":[{"timestamp":1704888000,"value":1.5}]`
		mk := func(ms []string) pbody {
			return pbody{unmarshal.UnmarshallDatadogMetricsV2JSONV2, bg, []byte(`{"series":[` + obj(ms) + `]}`)}
		}
		first := []string{mMetric, mRes, mPts}
		if resFirst {
			first = []string{mRes, mPts, mMetric}
		}
		bodies = []pbody{mk(first), mk([]string{mPts, mRes, mMetric}), mk([]string{mMetric, mPts, mRes})}
	case 3:
		c.Class = "elastic_doc"
		target := []string{"logs", "my-index", "café", "idx.2024"}[r.Intn(4)]
		hasID := r.Intn(2) == 0
		id := []string{"7", "doc-1", "a b"}[r.Intn(3)]
		c.Wire = Wire{Kind: "es_doc", Fields: []string{hexs(target), hexs(id)}, HasID: hasID}
		ctx := context.WithValue(bg, "target", target)
		if hasID {
			ctx = context.WithValue(ctx, "id", id)
		}
		bodies = []pbody{{unmarshal.ElasticDocUnmarshalV2, ctx, []byte(`{"message":"hello"}`)}}
	case 4:
		c.Class = "elastic_bulk"
		target := []string{"", "logs", "my-index"}[r.Intn(3)]
		var ms [][2]string
		n := 1 + r.Intn(4)
		names := []string{"_index", "_id", "type", "routing", "my-key", "pipeline.name", "café"}
		for _, i := range r.Perm(len(names))[:n] {
			ms = append(ms, [2]string{names[i], genField(r)})
		}
		c.Wire = Wire{Kind: "es_bulk", Fields: []string{hexs(target)}, Tags: hexPairs2(ms)}
		ctx := context.WithValue(bg, "target", target)
		mk := func(m [][2]string) pbody {
			var parts []string
			for _, kv := range m {
				parts = append(parts, jsonStr(kv[0])+":"+jsonStr(kv[1]))
			}
			return pbody{unmarshal.ElasticBulkUnmarshalV2, ctx, []byte(`{"create":` + obj(parts) + "}\n" + `{"message":"hello"}` + "\n")}
		}
		bodies = []pbody{mk(ms), mk(shuffled2(r, ms)), mk(shuffled2(r, ms))}
	case 5:
		c.Class = "otlp_logs"
		gen := func(n int, off int) [][2]string {
			var l [][2]string
			for i := 0; i < n; i++ {
				v := genField(r)
				if !utf8.ValidString(v) {
					v = "v"
				}
				switch r.Intn(6) {
				case 0:
					v = "\x00b:" + []string{"true", "false"}[r.Intn(2)]
				case 1:
					v = "\x00i:" + []string{"0", "7", "-12", "9223372036854775807", "-9223372036854775808", "1000000"}[r.Intn(6)]
				}
				l = append(l, [2]string{genAttrKey(r, off+i%2), v})
			}
			return l
		}
		res, scope, rec := gen(r.Intn(3), 0), gen(r.Intn(2), 1), gen(r.Intn(3), 0)
		// attributes that override each other: a record / scope attribute with the key of a resource attribute
		if len(res) > 0 && r.Intn(2) == 0 {
			rec = append(rec, [2]string{res[r.Intn(len(res))][0], "rec-wins"})
		}
		if len(res) > 0 && r.Intn(3) == 0 {
			scope = append(scope, [2]string{res[r.Intn(len(res))][0], "scope-wins"})
		}
		sev := []string{"", "WARN", "info"}[r.Intn(3)]
		c.Wire = Wire{Kind: "otlp", Res: hexPairs2(res), Scope: hexPairs2(scope), Rec: hexPairs2(rec), Sev: hexs(sev)}
		mk := func() pbody {
			ld := &otlpLogs.LogsData{ResourceLogs: []*otlpLogs.ResourceLogs{{
				Resource: &otlpResource.Resource{Attributes: kvAttrs(res)},
				ScopeLogs: []*otlpLogs.ScopeLogs{{
					Scope: &otlpCommon.InstrumentationScope{Attributes: kvAttrs(scope)},
					LogRecords: []*otlpLogs.LogRecord{{TimeUnixNano: 1704888000000000000, SeverityText: sev,
						Body:       &otlpCommon.AnyValue{Value: &otlpCommon.AnyValue_StringValue{StringValue: "m"}},
						Attributes: kvAttrs(rec)}},
				}},
			}}}
			b, err := proto.Marshal(ld)
			if err != nil {
				panic(err)
			}
			return pbody{unmarshal.UnmarshalOTLPLogsV2, bg, b}
		}
		// the Go map decides the order anew on every run
		bodies = []pbody{mk(), mk(), mk(), mk()}
	case 7:
		// a Loki push whose stream carries the control label __ttl_days__, without and with a TTL header (X-Ttl-Days)
		c.Class = "loki_ttl_label"
		var ls [][2]string
		n := 1 + r.Intn(3)
		for i := 0; i < n; i++ {
			ls = append(ls, [2]string{[]string{"app", "env", "dc"}[i], genField(r) + "v"})
		}
		ttl := []string{"5", "30", "x", ""}[r.Intn(4)]
		ls = append(ls, [2]string{"__ttl_days__", ttl})
		ls = shuffled2(r, ls)
		c.Wire = Wire{Kind: "loki_ttl", Tags: hexPairs2(ls)}
		mk := func(l [][2]string) []byte {
			var m []string
			for _, kv := range l {
				m = append(m, jsonStr(kv[0])+":"+jsonStr(kv[1]))
			}
			return []byte(`{"streams":[{"stream":{` + strings.Join(m, ",") + `},"values":[["1704888000000000000","x"]]}]}`)
		}
		bodies = []pbody{{unmarshal.DecodePushRequestStringV2, bg, mk(ls)}, {unmarshal.DecodePushRequestStringV2, bg, mk(shuffled2(r, ls))}}
		c.hdr = &pbody{unmarshal.DecodePushRequestStringV2, context.WithValue(bg, "TTL_DAYS", uint16(7)), mk(ls)}
	default:
		c.Class = "influx_metric"
		var tags [][2]string
		n := r.Intn(4)
		for i := 0; i < n; i++ {
			tags = append(tags, [2]string{[]string{"host", "dc", "rack-id", "9x"}[i] + strconv.Itoa(r.Intn(2)), []string{"a", "b-1", "eu/west", strings.Repeat("w", 110)}[r.Intn(4)]})
		}
		meas := []string{"cpu", "disk-io", "m1"}[r.Intn(3)]
		field := []string{"value", "load-1", "9th", "used_percent"}[r.Intn(4)]
		c.Wire = Wire{Kind: "influx_metric", Tags: hexPairs2(tags), Fields: []string{hexs(meas), hexs(field)}}
		ctx := context.WithValue(bg, "precision", time.Nanosecond)
		mk := func(tg [][2]string) pbody {
			line := meas
			for _, kv := range tg {
				line += "," + kv[0] + "=" + kv[1]
			}
			line += " " + field + "=1.5 1704888000000000000\n"
			return pbody{unmarshal.UnmarshalInfluxDBLogsV2, ctx, []byte(line)}
		}
		bodies = []pbody{mk(tags), mk(shuffled2(r, tags)), mk(shuffled2(r, tags))}
	}
	return c, bodies
}

func observeProto(c *PCase, bodies []pbody) {
	c.Panic = hx.Catch(func() {
		fp, doc, err := runP(bodies[0])
		if err != nil {
			c.Err = err.Error()
			return
		}
		c.Fp = strconv.FormatUint(fp, 10)
		c.Doc = hx.Hex(doc)
		for _, b := range bodies[1:] {
			f, _, err := runP(b)
			if err != nil {
				c.Err = "reordered request: " + err.Error()
				return
			}
			c.Fps = append(c.Fps, strconv.FormatUint(f, 10))
		}
		old := config.Cloki.Setting.FingerPrintType
		config.Cloki.Setting.FingerPrintType = clc_writer.FINGERPRINT_Bernstein
		f, _, err := runP(bodies[0])
		if err == nil {
			for _, b := range bodies[1:] {
				g, _, e := runP(b)
				if e != nil {
					err = e
					break
				}
				c.FpsDjb = append(c.FpsDjb, strconv.FormatUint(g, 10))
			}
		}
		config.Cloki.Setting.FingerPrintType = old
		if err != nil {
			c.Err = "bernstein: " + err.Error()
			return
		}
		c.FpDjb = strconv.FormatUint(f, 10)
		docs := []string{doc}
		if c.hdr != nil {
			fh, dh, err := runP(*c.hdr)
			if err != nil {
				c.Err = "with TTL header: " + err.Error()
				return
			}
			c.HasHdr = true
			c.FpHdr = strconv.FormatUint(fh, 10)
			docs = append(docs, dh)
		}
		// oracle tables from the stored documents' members
		var pairs [][2]string
		for _, dc := range docs {
			dec := json.NewDecoder(strings.NewReader(dc))
			if tok, err := dec.Token(); err == nil && tok == json.Delim('{') {
				for dec.More() {
					k, e1 := dec.Token()
					v, e2 := dec.Token()
					ks, ok1 := k.(string)
					vs, ok2 := v.(string)
					if e1 != nil || e2 != nil || !ok1 || !ok2 {
						break
					}
					pairs = append(pairs, [2]string{ks, vs})
				}
			}
		}
		seen := map[string]bool{}
		runes := map[rune]bool{}
		for _, kv := range pairs {
			for _, s := range kv {
				if !seen[s] {
					seen[s] = true
					c.Ch = append(c.Ch, [2]string{hx.Hex(s), strconv.FormatUint(city.CH64([]byte(s)), 10)})
				}
				for _, rn := range s {
					if rn > 0xFF && !runes[rn] {
						runes[rn] = true
						pv := int64(0)
						if strconv.IsPrint(rn) {
							pv = 1
						}
						c.Print = append(c.Print, [2]int64{int64(rn), pv})
					}
				}
			}
		}
	})
}

func runProtos(f *hx.Flags, out *hx.Out) {
	if f.Cases != "" {
		panic("--mode protos regenerates its cases from the seed; use --seed/--n")
	}
	rnd := hx.Rand(f.Seed)
	for i := 0; i < f.N; i++ {
		c, bodies := genProto(rnd, i)
		observeProto(&c, bodies)
		out.Put(c)
	}
}
