package main

import (
	"math/rand"
	"strconv"
	"strings"
)

// Round 7 (seeded C04-g): two independent ClickHouse servers n1, n2 (no cluster) whose DATABASE has the same name - the default
// of a configuration with two database_data entries. The announcement cache of the process is ONE fastcache; what keeps the
// nodes apart is the prefix numbercache.Cache.DB(node) puts in front of every key. A series confirmed on n1 must still be
// announced on n2: the samples of a push to n2 are stored on n2, and only a time_series row ON n2 makes them discoverable there.
//
// A pattern is a sequence of words: "1A" = push of series A to n1, "2AB" = push of A and B to n2, suffix "!" = the
// time_series INSERT of the push fails, "?" = its samples INSERT fails, "R" = cache reset. "*" = 3..6 random words.

func nodePatterns() []string {
	return []string{
		"1A 2A", "2A 1A", "1A 2A 1A", "1A 2A 2A", "1A! 2A 1A", "1A 2A! 2A", "1A R 2A 1A", "1AB 2B 2A", "1A 2B 1B 2A",
		"2A 2A 1A 1A", "1A 2A? 2A", "1A 2AB 1B", "2A! 1A 2A", "1A 2A R 2A 1A", "1A? 2A 1A", "2AB 1A 1B 2A",
		"*", "*", "*", "*",
		// round 8: "0A" = the push names NO node (no X-CH-DSN): the registry chooses
		"0A 0B 0C 0D 0E 0F 0G 0H", "0A 0A 0B 0B 1A 2A 0C 0D 0E 0F", "1A 0A 2B 0B 0C! 0C 0D? 0D 0E 0F", "0AB 0CD R 0AB 0EF 0G 0H 0A 0C",
	}
}

func genNodesHist(r *rand.Rand, id int, pat string) HCase {
	c := HCase{ID: id, Class: "nodes"}
	inst := r.Intn(900)
	day := day0 + int64(r.Intn(2))
	tp := []int{1, 1, 1, 0, 2}[r.Intn(5)]
	labels := map[byte][][2]string{}
	for _, s := range []byte("ABCDEFGH") {
		inst++
		labels[s] = [][2]string{{"app", "c04n"}, {"instance", "k" + strconv.Itoa(inst)}}
	}
	stream := func(s byte) Stream {
		out := Stream{Labels: labels[s]}
		for i, k := 0, 1+r.Intn(2); i < k; i++ {
			out.Entries = append(out.Entries, Entry{Ts: (day*86400+int64(r.Intn(86400)))*1000000000 + int64(r.Intn(1000)), T: tp})
		}
		if r.Intn(5) == 0 {
			out.Entries = append(out.Entries, Entry{Ts: ((day+1)*86400 + int64(r.Intn(86400))) * 1000000000, T: r.Intn(3)})
		}
		return out
	}
	if pat == "*" {
		var ws []string
		for i, k := 0, 3+r.Intn(4); i < k; i++ {
			if r.Intn(8) == 0 {
				ws = append(ws, "R")
				continue
			}
			w := []string{"1", "2"}[r.Intn(2)] + []string{"A", "B", "AB", "A"}[r.Intn(4)]
			switch r.Intn(8) {
			case 0:
				w += "!"
			case 1:
				w += "?"
			}
			ws = append(ws, w)
		}
		pat = strings.Join(ws, " ")
	}
	for _, w := range strings.Fields(pat) {
		if w == "R" {
			c.Steps = append(c.Steps, Step{K: "reset"})
			continue
		}
		st := Step{K: "push", TsOK: true, SplOK: true}
		if w[0] == '2' {
			st.Node = node2.Node
		} else if w[0] == '0' {
			st.Node = freeNode
		}
		for _, ch := range []byte(w[1:]) {
			switch ch {
			case '!':
				st.TsOK = false
			case '?':
				st.SplOK = false
			default:
				st.Streams = append(st.Streams, stream(ch))
			}
		}
		c.Steps = append(c.Steps, st)
	}
	return c
}
