package main

// Requests that share one INSERT of the time_series insert service (property C04, round 6).
//
// The insert services are the real ones (writer/service InsertServiceV2Multimodal -> RoundRobin -> InsertServiceV2 with the
// ProcessRequest of writer/service/impl), built by plugin.CreateStaticServiceRegistry. InsertServiceV2.Run sends the pending
// buffer every PushInterval (1 ms here) from ONE goroutine: while an INSERT waits for the answer of ClickHouse, the rows of
// every request that arrives are appended to the same pending buffer and their promises to the same list; the next INSERT
// carries all of them and its outcome is the outcome of all those promises. The fake client makes this controllable: in a
// "group" step the first time_series INSERT that reaches it (the rows of Members[0]) is kept waiting until the harness has
// seen the time_series Request of every other member RETURN (their rows are in the pending buffer then); then the gate opens.

import (
	"bytes"
	"math/rand"
	"net/http/httptest"
	"strconv"
	"sync"
	"time"

	"github.com/gorilla/mux"
	"github.com/metrico/qryn/writer/model"
	"github.com/metrico/qryn/writer/plugin"
	"github.com/metrico/qryn/writer/service"
	"github.com/metrico/qryn/writer/service/registry"
	"github.com/metrico/qryn/writer/utils/helpers"
	"github.com/metrico/qryn/writer/utils/promise"
)

// countedSvc passes everything through to the real service; it only counts the Requests that have returned (a Request
// returns when ProcessRequest has appended the rows to the pending buffer) and remembers how many rows the last one carried.
type countedSvc struct {
	service.IInsertServiceV2
	mtx  sync.Mutex
	n    int
	last int
}

func (c *countedSvc) Request(req helpers.SizeGetter, insertMode int) *promise.Promise[uint32] {
	p := c.IInsertServiceV2.Request(req, insertMode)
	k := -1
	if ts, ok := req.(*model.TimeSeriesData); ok {
		k = len(ts.MDate)
	}
	c.mtx.Lock()
	c.n++
	c.last = k
	c.mtx.Unlock()
	return p
}

func (c *countedSvc) count() (int, int) {
	c.mtx.Lock()
	defer c.mtx.Unlock()
	return c.n, c.last
}

var tsCounted *countedSvc

func registryWithCountedTs() registry.IServiceRegistry {
	tsCounted = &countedSvc{IInsertServiceV2: plugin.TsSvcs[node.Node]}
	return registry.NewStaticServiceRegistry(map[string]service.IInsertServiceV2{node.Node: tsCounted, node2.Node: plugin.TsSvcs[node2.Node]},
		plugin.SplSvcs, plugin.MtrSvcs, plugin.TempoSamplesSvcs, plugin.TempoTagsSvcs, plugin.ProfileInsertSvcs)
}

func waitUntil(d time.Duration, cond func() bool) bool {
	deadline := time.Now().Add(d)
	for !cond() {
		if time.Now().After(deadline) {
			return false
		}
		time.Sleep(100 * time.Microsecond)
	}
	return true
}

func runGroup(r *mux.Router, st *Step) StepObs {
	n := len(st.Members)
	gate := make(chan struct{})
	be.mtx.Lock()
	be.calls = nil
	be.gate, be.gateTaken, be.held = gate, false, false
	be.tsOK0, be.tsOK = st.TsOK0, st.TsOK
	be.mtx.Unlock()
	opened := false
	open := func() {
		if !opened {
			opened = true
			close(gate)
		}
	}
	defer func() {
		open()
		be.mtx.Lock()
		be.gate, be.member = nil, 0
		be.mtx.Unlock()
	}()
	codes := make([]chan int, n)
	for i := range st.Members {
		m := st.Members[i]
		be.mtx.Lock()
		be.member, be.splOK = i, m.SplOK
		rows0 := be.nRows
		be.mtx.Unlock()
		n0, _ := tsCounted.count()
		codes[i] = make(chan int, 1)
		body := bodyOf(Step{Streams: m.Streams})
		go func(ch chan int) {
			req := httptest.NewRequest("POST", "/loki/api/v1/push", bytes.NewReader([]byte(body)))
			req.Header.Set("Content-Type", "application/json")
			req.Header.Set("X-CH-DSN", node.Node)
			w := httptest.NewRecorder()
			r.ServeHTTP(w, req)
			ch <- w.Code
		}(codes[i])
		// the rows of this member are in the pending buffer of the time_series service ...
		answered := false
		waitUntil(3*time.Second, func() bool {
			if len(codes[i]) > 0 { // answered without reaching the service (malformed, ...)
				answered = true
				return true
			}
			k, _ := tsCounted.count()
			return k > n0
		})
		if answered {
			continue
		}
		// ... and its samples have reached the client (under the outcome scripted for this member)
		want := nEntries(Step{Streams: m.Streams})
		waitUntil(3*time.Second, func() bool {
			be.mtx.Lock()
			defer be.mtx.Unlock()
			return be.nRows-rows0 >= want
		})
		if i == 0 {
			if _, rows := tsCounted.count(); rows > 0 {
				// the INSERT of the first member is on its way: wait until the client holds it
				waitUntil(3*time.Second, func() bool {
					be.mtx.Lock()
					defer be.mtx.Unlock()
					return be.held
				})
			}
		}
	}
	be.mtx.Lock()
	shared := be.held
	be.mtx.Unlock()
	open()
	obs := StepObs{Shared: shared}
	for i := range codes {
		select {
		case code := <-codes[i]:
			obs.Statuses = append(obs.Statuses, code)
		case <-time.After(15 * time.Second):
			obs.Statuses = append(obs.Statuses, -2)
		}
	}
	time.Sleep(300 * time.Microsecond)
	be.mtx.Lock()
	obs.Calls = append([]Call(nil), be.calls...)
	be.mtx.Unlock()
	return obs
}

// ------------------------------------------------------------------ generator
//
// sharedPattern: N pushes arrive while the INSERT of a first push (a series of its own) is waiting; Layout says which new
// series they announce (0: all the same one; 1: a chain, neighbours have one series in common; 2: the first announces two,
// the others one of them each, and the push whose INSERT is waiting announces one of them too; 3: all the same series, every
// push on another day or with another sample type: same fingerprint, different rows); the INSERT of the first push
// and the shared INSERT get the outcomes TsOK0 / TsOK. Enumerated: a change that answers a request from something else than
// the outcome of the INSERT that carries (or should carry) its rows shows where the two differ.
type sharedPattern struct {
	N      int
	Layout int
	TsOK0  bool
	TsOK   bool
}

func sharedPatterns() []sharedPattern {
	var ps []sharedPattern
	for n := 2; n <= 3; n++ {
		for l := 0; l < 4; l++ {
			for _, a0 := range []bool{true, false} {
				for _, a := range []bool{false, true} {
					ps = append(ps, sharedPattern{N: n, Layout: l, TsOK0: a0, TsOK: a})
				}
			}
		}
	}
	return ps
}

func genSharedHist(r *rand.Rand, id int, p sharedPattern) HCase {
	c := HCase{ID: id, Class: "shared-insert"}
	inst := r.Intn(900)
	day := day0 + int64(r.Intn(2))
	tp := []int{1, 1, 1, 0, 2}[r.Intn(5)]
	type series struct{ labels [][2]string }
	fresh := func() series {
		inst++
		return series{labels: [][2]string{{"app", "c04s"}, {"instance", "j" + strconv.Itoa(inst)}}}
	}
	// a stream of the series with 1..2 entries of the history's day and type (so that the rows of two pushes coincide);
	// sometimes one more entry of the next day or of another type (a row the other pushes do not have)
	shift := 0 // layout 3: the day / type of the next stream made
	stream := func(s series) Stream {
		out := Stream{Labels: s.labels}
		d, t := day, tp
		if p.Layout == 3 {
			d, t = day+int64(shift%2), []int{tp, tp, (tp + 1) % 3, (tp + 2) % 3}[shift%4]
			shift++
		}
		for i, k := 0, 1+r.Intn(2); i < k; i++ {
			out.Entries = append(out.Entries, Entry{Ts: (d*86400+int64(r.Intn(86400)))*1000000000 + int64(r.Intn(1000)), T: t})
		}
		if r.Intn(5) == 0 {
			out.Entries = append(out.Entries, Entry{Ts: ((day+1)*86400 + int64(r.Intn(86400))) * 1000000000, T: r.Intn(3)})
		}
		return out
	}
	own := fresh()
	var members [][]series
	switch p.Layout {
	case 0, 3:
		s := fresh()
		for i := 0; i < p.N; i++ {
			members = append(members, []series{s})
		}
	case 1:
		chain := []series{fresh()}
		for i := 0; i < p.N; i++ {
			chain = append(chain, fresh())
			members = append(members, []series{chain[i], chain[i+1]})
		}
	default:
		s, t := fresh(), fresh()
		members = append(members, []series{s, t})
		for i := 1; i < p.N; i++ {
			members = append(members, []series{[]series{t, s}[i%2]})
		}
	}
	mk := func(ss []series) []Stream {
		var out []Stream
		for _, s := range ss {
			out = append(out, stream(s))
		}
		return out
	}
	// before: nothing / the series were announced and the insert failed (still new) / were announced (nothing to announce)
	switch r.Intn(6) {
	case 0:
		c.Steps = append(c.Steps, Step{K: "push", TsOK: false, SplOK: true, Streams: mk(members[0])})
	case 1:
		c.Steps = append(c.Steps, Step{K: "push", TsOK: true, SplOK: true, Streams: mk(members[0])})
	}
	g := Step{K: "group", TsOK0: p.TsOK0, TsOK: p.TsOK, SplOK: true}
	first := []series{own}
	if p.Layout == 2 {
		first = append(first, members[0][0])
	}
	g.Members = append(g.Members, Member{Streams: mk(first), SplOK: r.Intn(8) != 0})
	for _, ss := range members {
		g.Members = append(g.Members, Member{Streams: mk(ss), SplOK: r.Intn(8) != 0})
	}
	c.Steps = append(c.Steps, g)
	// afterwards every client comes again (the ones answered 5xx must; the others send new lines of their streams)
	if r.Intn(4) == 0 {
		c.Steps = append(c.Steps, Step{K: "reset"})
	}
	if r.Intn(3) == 0 {
		g2 := Step{K: "group", TsOK0: true, TsOK: r.Intn(4) != 0, SplOK: true}
		g2.Members = append(g2.Members, Member{Streams: mk([]series{fresh()}), SplOK: true})
		for _, ss := range members {
			g2.Members = append(g2.Members, Member{Streams: mk(ss), SplOK: true})
		}
		c.Steps = append(c.Steps, g2)
	}
	for i := len(members) - 1; i >= 0; i-- {
		c.Steps = append(c.Steps, Step{K: "push", TsOK: true, SplOK: true, Streams: mk(members[i])})
	}
	return c
}
