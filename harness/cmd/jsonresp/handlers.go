package main

// The HTTP handlers around the row encoders: QueryRangeController.QueryRange / Query parse the request,
// call the service and copy its chunks to the response writer. Every second streams / matrix / vector case
// goes through them (the others call the service directly), so the glue is part of what is compared.
// Kind "shortcut": the canned answer of Query for the health probe vector(1)+vector(1), an instance of the
// vector encoder (one sample, no labels, the current second, value "2").

import (
	"net/http/httptest"
	"net/url"
	"regexp"
	"strconv"

	controllerv1 "github.com/metrico/qryn/reader/controller"
	"verif/harness/hx"
)

func viaHandler(c *Case, matrix bool, instant bool) string {
	ctl := &controllerv1.QueryRangeController{QueryRangeService: planSetup(c, matrix)}
	w := newRec()
	q := url.QueryEscape(`rate({a="b"}[1m])`)
	if !matrix {
		q = url.QueryEscape(`{a="b"}`)
	}
	if instant {
		ctl.Query(w, httptest.NewRequest("GET", "/loki/api/v1/query?query="+q+"&time=1700000000000000000&step=1&limit=100", nil))
	} else {
		ctl.QueryRange(w, httptest.NewRequest("GET", "/loki/api/v1/query_range?query="+q+"&start=1700000000&end=1700003600&step=1&limit=100&direction=forward", nil))
	}
	return w.body()
}

var shortcutTs = regexp.MustCompile(`"value":\[(-?\d+),`)

func runShortcut(c *Case) {
	var body string
	c.Panic = hx.Catch(func() {
		ctl := &controllerv1.QueryRangeController{}
		w := newRec()
		ctl.Query(w, httptest.NewRequest("GET", "/loki/api/v1/query?query="+url.QueryEscape("vector(1)+vector(1)"), nil))
		body = w.body()
	})
	// the one input of this response is the clock: read the second back and hand the model the row it stands for
	sec := int64(0)
	if m := shortcutTs.FindStringSubmatch(body); m != nil {
		sec, _ = strconv.ParseInt(m[1], 10, 64)
	}
	c.Batches = [][]Entry{{{Fp: "0", Lbls: [][2]string{}, Ts: sec * 1000000000, Msg: "", Val: "2"}}}
	c.Order = []string{"0"}
	c.Out = hx.Hex(body)
	c.GoValid = jsonValid(body)
	c.GoRows = "skip:shortcut"
}
