package main

// kind "numfmt": the number printers on their own. Every number text of a response is computed by
// model/GoFloat.v (float64(ns)/1e9 and float64(ms)/1000 with IEEE rounding, fmt %f, strconv 'f' -1,
// jsoniter WriteFloat64, %d); this kind feeds the library functions themselves with arbitrary
// float64 bit patterns and int64 values and sends the texts as the strings of one JSON array, so
// the byte-exact comparison covers the printers far beyond the values the encoders happen to see.

import (
	"encoding/json"
	"fmt"
	"math"
	"math/rand"
	"strconv"
	"strings"

	jsoniter "github.com/json-iterator/go"
	"verif/harness/hx"
)

func genBits(r *rand.Rand) float64 {
	// texts of several hundred digits are expensive to evaluate inside Coq: extreme magnitudes one time in four
	far := r.Intn(4) == 0
	switch r.Intn(10) {
	case 0: // any bit pattern: NaNs, denormals, huge and tiny magnitudes
		if far {
			return math.Float64frombits(r.Uint64())
		}
		return math.Float64frombits(r.Uint64()&^(0x7ff<<52) | uint64(1023-70+r.Intn(140))<<52)
	case 1: // powers of two and their neighbours (the asymmetric rounding interval)
		x := math.Ldexp(1, r.Intn(140)-70)
		if far {
			x = math.Ldexp(1, r.Intn(2098)-1074)
		}
		switch r.Intn(3) {
		case 0:
			return math.Nextafter(x, 0)
		case 1:
			return math.Nextafter(x, math.Inf(1))
		}
		return x
	case 2: // short decimals
		return float64(r.Intn(100000)) / []float64{1, 10, 100, 1000, 1e4, 1e5, 1e6, 1e7}[r.Intn(8)]
	case 3: // around the switch points of WriteFloat64 and the sixth decimal of %f
		b := []float64{1e-6, 1e21, 0.0000005, 0.0078125, 1e-7, 999999.9999995, 0.5, 1e15, 1e16, 1e17, 9007199254740993}[r.Intn(11)]
		for k := r.Intn(3); k > 0; k-- {
			b = math.Nextafter(b, []float64{0, math.Inf(1)}[r.Intn(2)])
		}
		if r.Intn(2) == 0 {
			return -b
		}
		return b
	case 4: // denormals
		if far {
			return math.Float64frombits(uint64(r.Int63n(1 << 52)))
		}
		return float64(r.Int63n(1<<53)) / float64(int64(1)<<uint(r.Intn(60)))
	case 5:
		return math.Copysign(0, -1)
	default:
		return genVal(r)
	}
}

func genNumCase(r *rand.Rand, id int) Case {
	c := Case{ID: id, Kind: "numfmt", Class: "numfmt"}
	var b []Entry
	for k := 1 + r.Intn(4); k > 0; k-- {
		ts := genTs(r)
		switch r.Intn(6) {
		case 0:
			ts = int64(r.Intn(4000)) - 2000
		case 1: // beyond 2^53: float64(ts) itself rounds
			ts = (int64(1) << uint(53+r.Intn(10))) + int64(r.Intn(5)) - 2
			if r.Intn(2) == 0 {
				ts = -ts
			}
		}
		b = append(b, Entry{Fp: "0", Ts: ts, Val: strconv.FormatFloat(genBits(r), 'g', -1, 64)})
	}
	c.Batches = [][]Entry{b}
	return c
}

func runNumFmt(c *Case) string {
	js := jsoniter.ConfigFastest
	wf := func(x float64) string {
		st := js.BorrowStream(nil)
		defer js.ReturnStream(st)
		st.WriteFloat64(x)
		return string(st.Buffer())
	}
	var parts []string
	for _, b := range c.Batches {
		for _, e := range b {
			v, _ := strconv.ParseFloat(e.Val, 64)
			for _, t := range []string{
				fmt.Sprintf("%f", v), strconv.FormatFloat(v, 'f', -1, 64), wf(v),
				fmt.Sprintf("%f", float64(e.Ts)/1e9), wf(float64(e.Ts) / 1000),
				fmt.Sprintf("%d", e.Ts), strconv.FormatInt(e.Ts/1000000000, 10),
			} {
				parts = append(parts, `"`+t+`"`)
			}
			// "rendered without loss", Go side: the shortest text reads back as the same float64
			if back, err := strconv.ParseFloat(strconv.FormatFloat(v, 'f', -1, 64), 64); err != nil || (back != v && !(math.IsNaN(back) && math.IsNaN(v))) {
				c.NumLoss = fmt.Sprintf("value %v does not read back", v)
			}
		}
	}
	return "[" + strings.Join(parts, ",") + "]"
}

func runNum(c *Case) {
	var body string
	c.NumLoss = ""
	c.Panic = hx.Catch(func() { body = runNumFmt(c) })
	c.Out = hx.Hex(body)
	c.GoValid = json.Valid([]byte(body))
	c.GoRows = "skip:numfmt"
}
