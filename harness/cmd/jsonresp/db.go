package main

// Scripted database/sql driver + fake IDBRegistry for the C15 harness. The reader code receives
// *sql.Rows produced by the real database/sql package; only what ClickHouse would answer is
// scripted. Every sql.DB carries its own script (looked up by DSN), so cases can run concurrently.

import (
	"context"
	"database/sql"
	"database/sql/driver"
	"errors"
	"fmt"
	"io"
	"strings"
	"sync"
	"sync/atomic"
	"time"

	clconfig "github.com/metrico/cloki-config/config"
	"github.com/metrico/qryn/reader/model"
)

// one scripted result set: single-column string rows (label names, label values, stored label documents)
type script struct {
	rows []string
}

var scripts sync.Map // dsn -> *script
var dsnSeq int64

type drv struct{}
type conn struct{ dsn string }
type rowsT struct {
	cols int
	rows []string
	i    int
}

func (drv) Open(dsn string) (driver.Conn, error) { return &conn{dsn: dsn}, nil }
func (*conn) Prepare(string) (driver.Stmt, error) {
	return nil, errors.New("prepare not supported by the scripted driver")
}
func (*conn) Close() error                             { return nil }
func (*conn) Begin() (driver.Tx, error)                { return nil, errors.New("no tx") }
func (*conn) CheckNamedValue(*driver.NamedValue) error { return nil }
func (c *conn) QueryContext(ctx context.Context, q string, args []driver.NamedValue) (driver.Rows, error) {
	if strings.Contains(q, "type='update'") {
		return &rowsT{cols: 2}, nil
	}
	if strings.Contains(q, "SHOW TABLES") {
		return &rowsT{cols: 1}, nil
	}
	if s, ok := scripts.Load(c.dsn); ok {
		return &rowsT{cols: 1, rows: s.(*script).rows}, nil
	}
	return &rowsT{cols: 1}, nil
}
func (*conn) ExecContext(ctx context.Context, q string, args []driver.NamedValue) (driver.Result, error) {
	return driver.RowsAffected(0), nil
}
func (r *rowsT) Columns() []string {
	res := make([]string, r.cols)
	for i := range res {
		res[i] = "c" + string(rune('a'+i%26))
	}
	return res
}
func (r *rowsT) Close() error { return nil }
func (r *rowsT) Next(dest []driver.Value) error {
	if r.i >= len(r.rows) {
		return io.EOF
	}
	dest[0] = r.rows[r.i]
	for i := 1; i < len(dest); i++ {
		dest[i] = nil
	}
	r.i++
	return nil
}

type fakeDB struct {
	db   *sql.DB
	name string
}

func (f *fakeDB) GetName() string { return f.name }
func (f *fakeDB) QueryCtx(ctx context.Context, query string, args ...any) (*sql.Rows, error) {
	return f.db.QueryContext(ctx, query, args...)
}
func (f *fakeDB) ExecCtx(ctx context.Context, query string, args ...any) error {
	_, err := f.db.ExecContext(ctx, query, args...)
	return err
}
func (f *fakeDB) Conn(ctx context.Context) (*sql.Conn, error) { return f.db.Conn(ctx) }
func (f *fakeDB) Begin() (*sql.Tx, error)                     { return f.db.Begin() }
func (f *fakeDB) Close()                                      {}

type fakeRegistry struct {
	m *model.DataDatabasesMap
}

func (r *fakeRegistry) GetDB(ctx context.Context) (*model.DataDatabasesMap, error) { return r.m, nil }
func (r *fakeRegistry) Run()                                                       {}
func (r *fakeRegistry) Stop()                                                      {}
func (r *fakeRegistry) Ping() error                                                { return nil }

var registerOnce sync.Once

// newRegistry: a registry whose only database answers every statement with the given rows.
func newRegistry(rows []string) *fakeRegistry {
	registerOnce.Do(func() { sql.Register("verifc15", drv{}) })
	dsn := fmt.Sprintf("c15-%d", atomic.AddInt64(&dsnSeq, 1))
	scripts.Store(dsn, &script{rows: rows})
	db, err := sql.Open("verifc15", dsn)
	if err != nil {
		panic(err)
	}
	db.SetMaxOpenConns(8)
	db.SetConnMaxLifetime(time.Hour)
	return &fakeRegistry{m: &model.DataDatabasesMap{
		Config:  &clconfig.ClokiBaseDataBase{Name: "verif", Node: "n1"},
		Session: &fakeDB{db: db, name: "verifc15"},
	}}
}

func dropRegistry(r *fakeRegistry) {
	r.m.Session.(*fakeDB).db.Close()
}
