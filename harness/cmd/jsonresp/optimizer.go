// kind optstreams: the pipeline ResponseOptimizerPlanner -> exportStreamsValue (C15).
//
// The scripted processor feeds the REAL internal_planner.ResponseOptimizerPlanner, a recorder notes the fingerprint of
// every batch the stage sends (the order in which it visited its Go map), QueryRangeService.QueryRange encodes them.
// The rows are laid out from run lengths (the model builds the same rows from the same description, so thousands of
// rows cost nothing to transport): row number n of the case (from 1) in a run of stream s has Fingerprint fps[s],
// Labels {"s": decimal s}, TimestampNS n, Message ""; a run with err = 1 is that many io.EOF markers (fingerprint 0).
package main

import (
	"context"
	"encoding/json"
	"fmt"
	"io"
	"math/rand"
	"strconv"

	"github.com/metrico/qryn/reader/logql/logql_transpiler_v2/internal_planner"
	"github.com/metrico/qryn/reader/logql/logql_transpiler_v2/shared"
	"verif/harness/hx"
)

type recProc struct {
	main shared.RequestProcessor
	fps  *[]string
}

func (p *recProc) IsMatrix() bool { return false }
func (p *recProc) Process(ctx *shared.PlannerContext, in chan []shared.LogEntry) (chan []shared.LogEntry, error) {
	ch, err := p.main.Process(ctx, in)
	if err != nil {
		return nil, err
	}
	out := make(chan []shared.LogEntry)
	go func() {
		defer close(out)
		for b := range ch {
			if len(b) == 0 {
				*p.fps = append(*p.fps, "empty")
			} else {
				*p.fps = append(*p.fps, strconv.FormatUint(b[0].Fingerprint, 10))
			}
			out <- b
		}
	}()
	return out, nil
}

var curChain shared.RequestProcessor

func optBatches(c *Case) [][]shared.LogEntry {
	fps := make([]uint64, len(c.Fps))
	for i, f := range c.Fps {
		fps[i], _ = strconv.ParseUint(f, 10, 64)
	}
	n := int64(1)
	var bs [][]shared.LogEntry
	for _, runs := range c.Runs {
		b := []shared.LogEntry{}
		for _, r := range runs {
			for k := 0; k < r[1]; k++ {
				if r[2] != 0 {
					b = append(b, shared.LogEntry{Err: io.EOF})
				} else {
					b = append(b, shared.LogEntry{Fingerprint: fps[r[0]], Labels: map[string]string{"s": strconv.Itoa(r[0])}, TimestampNS: n})
				}
				n++
			}
		}
		bs = append(bs, b)
	}
	return bs
}

func runOpt(c *Case) {
	var body string
	c.Order = nil
	c.Panic = hx.Catch(func() {
		svc := planSetup(&Case{}, false)
		src := &scriptedProc{batches: optBatches(c)}
		var seen []string
		curChain = &recProc{main: &internal_planner.ResponseOptimizerPlanner{GenericPlanner: internal_planner.GenericPlanner{Main: src}}, fps: &seen}
		defer func() { curChain = nil }()
		ch, err := svc.QueryRange(context.Background(), `{a="b"}`, 0, 1e18, 1000, 100, true)
		if err != nil {
			panic(err)
		}
		body = drain(ch)
		c.Order = seen
	})
	c.Out = hx.Hex(body)
	c.GoValid = json.Valid([]byte(body))
	c.GoRows = goOpt(c, body)
}

// encoding/json reading of the body against the rows: per stream, the values of all its objects in document order are
// its rows in input order; "ok+split" when some stream has more than one object
func goOpt(c *Case, body string) string {
	var resp struct {
		Status string `json:"status"`
		Data   struct {
			ResultType string `json:"resultType"`
			Result     []struct {
				Stream map[string]string `json:"stream"`
				Values [][2]string       `json:"values"`
			} `json:"result"`
		} `json:"data"`
	}
	if err := json.Unmarshal([]byte(body), &resp); err != nil {
		return "diff:not json: " + err.Error()
	}
	if resp.Status != "success" || resp.Data.ResultType != "streams" {
		return "diff:envelope"
	}
	want := map[string][]string{}
	n := 1
	for _, runs := range c.Runs {
		for _, r := range runs {
			for k := 0; k < r[1]; k++ {
				if r[2] == 0 {
					want[strconv.Itoa(r[0])] = append(want[strconv.Itoa(r[0])], strconv.Itoa(n))
				}
				n++
			}
		}
	}
	got := map[string][]string{}
	objs := map[string]int{}
	for _, o := range resp.Data.Result {
		if len(o.Stream) != 1 {
			return "diff:labels"
		}
		s := o.Stream["s"]
		objs[s]++
		for _, v := range o.Values {
			if v[1] != "" {
				return "diff:message"
			}
			got[s] = append(got[s], v[0])
		}
	}
	if len(got) != len(want) {
		return fmt.Sprintf("diff:%d streams listed, %d expected", len(got), len(want))
	}
	for s, w := range want {
		g := got[s]
		if len(g) != len(w) {
			return fmt.Sprintf("diff:stream %s lists %d rows, %d expected", s, len(g), len(w))
		}
		for i := range w {
			if g[i] != w[i] {
				return fmt.Sprintf("diff:stream %s row %d is %s, expected %s", s, i, g[i], w[i])
			}
		}
	}
	for _, k := range objs {
		if k > 1 {
			return "ok+split"
		}
	}
	return "ok"
}

func optRuns(r *rand.Rand, nstreams, total int, maxBatch, maxRun int, eof bool) [][][3]int {
	var bs [][][3]int
	left := total
	for left > 0 {
		sz := 1 + r.Intn(maxBatch)
		if sz > left {
			sz = left
		}
		left -= sz
		var runs [][3]int
		for sz > 0 {
			k := 1 + r.Intn(maxRun)
			if k > sz {
				k = sz
			}
			runs = append(runs, [3]int{r.Intn(nstreams), k, 0})
			sz -= k
			if eof && r.Intn(12) == 0 {
				runs = append(runs, [3]int{0, 1, 1})
			}
		}
		bs = append(bs, runs)
		if r.Intn(10) == 0 {
			bs = append(bs, [][3]int{}) // an empty channel batch
		}
	}
	return bs
}

func optFps(r *rand.Rand, n int) []string {
	seen := map[uint64]bool{}
	var out []string
	for len(out) < n {
		f := genFp(r)
		if seen[f] {
			f = r.Uint64()
		}
		if seen[f] {
			continue
		}
		seen[f] = true
		out = append(out, strconv.FormatUint(f, 10))
	}
	return out
}

// small cases regroup without closing a window; the big ones reach the threshold of the stage (3000 rows)
func genOptCases(r *rand.Rand, nsmall, nbig int) []Case {
	var cs []Case
	id := 20000000
	add := func(class string, fps []string, runs [][][3]int) {
		cs = append(cs, Case{ID: id, Kind: "optstreams", Class: class, Fps: fps, Runs: runs})
		id++
	}
	// one row: all that is left for the final flush
	add("opt:single-row", optFps(r, 1), [][][3]int{{{0, 1, 0}}})
	add("opt:single-row-after-empty-batches", optFps(r, 2), [][][3]int{{}, {{1, 1, 0}}, {}})
	for i := 0; i < nsmall; i++ {
		ns := 1 + r.Intn(4)
		add("opt:small", optFps(r, ns), optRuns(r, ns, r.Intn(40), 12, 4, true))
	}
	fixed := []func(){
		// two streams, the window closes with the first channel batch, both have rows after it (the witness of the refutation)
		func() {
			add("opt:window-closes-two-streams", optFps(r, 2), [][][3]int{{{0, 2999, 0}, {1, 1, 0}}, {{0, 1, 0}, {1, 1, 0}}})
		},
		// one stream of 3500 rows in batches of 700: a batch boundary and a window boundary inside a stream
		func() {
			add("opt:one-stream-3500", optFps(r, 1), [][][3]int{{{0, 700, 0}}, {{0, 700, 0}}, {{0, 700, 0}}, {{0, 700, 0}}, {{0, 200, 0}}, {{0, 500, 0}}})
		},
		// exactly 3000 rows: the window closes at the end of the last batch, nothing is left for the final flush
		func() { add("opt:exactly-3000", optFps(r, 3), optRunsExact(r, 3, 3000)) },
		// 2999 rows: no window closes
		func() { add("opt:2999", optFps(r, 3), optRunsExact(r, 3, 2999)) },
	}
	for i := 0; i < nbig; i++ {
		if i < len(fixed) {
			fixed[i]()
			continue
		}
		ns := 1 + r.Intn(4)
		total := 3000 + r.Intn(400)
		if i%5 == 0 { // thorough tier only (the quick tier has 5 big cases): two windows close
			total = 6000 + r.Intn(600)
		}
		add("opt:random-windows", optFps(r, ns), optRuns(r, ns, total, 1500, 400, true))
	}
	return cs
}

func optRunsExact(r *rand.Rand, ns, total int) [][][3]int {
	return optRuns(r, ns, total, 1200, 300, false)
}
