// bigtrace: TempoController.Trace (JSON branch) on traces whose size crosses every size or count that
// appears as an integer constant in the source of the controller (C15, round 8).
//
// The small trace cases (0..6 spans) go through the Coq model byte for byte. A body of several hundred
// KiB cannot travel through Coq, so these cases are judged on the Go side and again, independently, by the
// check (Python json parser over the body file):
//
//	exact   body = frame header ++ join "," (json.Marshal (SpanToJSONSpan span_i)) ++ frame footer, where the frame
//	        is what the same handler answers for the trace without spans (the document the model proves)
//	valid   encoding/json.Valid(body)
//	gorows  encoding/json parse: one envelope, the spans array holds the marshalled spans one by one, in order
//
// A case is a recipe (BigSpec): the spans are drawn by genSpan from the recipe's seed (all byte classes,
// attributes of every kind, events, status), the span id is the position (1-based), names are padded.
// The recipe is what a replay file carries.
//
// mode: VERIF_BIGTRACE_SRC=<tempoController.go> jsonresp --seed S --out F   generates and runs the cases;
// VERIF_BIGTRACE_DIR=<dir>: bodies are written to <dir>/<id>.body instead of travelling hex-encoded.
package main

import (
	"encoding/json"
	"fmt"
	"go/ast"
	"go/constant"
	"go/parser"
	"go/token"
	"math/rand"
	"net/http/httptest"
	"os"
	"path/filepath"
	"sort"
	"strings"

	"github.com/gorilla/mux"
	controllerv1 "github.com/metrico/qryn/reader/controller"
	"github.com/metrico/qryn/reader/utils/unmarshal"
	"verif/harness/hx"
)

type BigSpec struct {
	Seed   int64 `json:"seed"`
	Target int   `json:"target"` // bytes; 0: count-based
	Conv   int   `json:"conv"`   // what is counted: 0 the span texts, 1 + the separating commas, 2 + the frame header
	Delta  int   `json:"delta"`  // the counted size right after the boundary span is target+delta
	After  int   `json:"after"`  // spans after the boundary span
	Size   int   `json:"size"`   // >0: every span text is padded (name) to at least this many bytes
	Count  int   `json:"count"`  // count-based: exactly this many spans
}

type BigOut struct {
	N         int    `json:"n"`          // spans
	ItemBytes int    `json:"item_bytes"` // sum of the span texts
	Boundary  int    `json:"boundary"`   // index of the boundary span (-1 none), counted size after it
	Counted   int    `json:"counted"`
	BodyLen   int    `json:"body_len"`
	Code      int    `json:"code"`
	Exact     bool   `json:"exact"`
	DiffAt    int    `json:"diff_at"`
	Got       string `json:"got,omitempty"`  // hex: 48 bytes either side of the first difference
	Want      string `json:"want,omitempty"` // hex
	BodyFile  string `json:"body_file,omitempty"`
	Frame     string `json:"frame"` // hex: the body of the trace without spans
}

func spanText(sp SpanSpec) []byte {
	b, err := json.Marshal(unmarshal.SpanToJSONSpan(toSpan(sp)))
	if err != nil {
		panic(err)
	}
	return b
}

func padSpan(sp *SpanSpec, k int) {
	if k > 0 {
		sp.Name += hx.Hex(strings.Repeat("x", k))
	}
}

const traceFooter = "]}]}]}"

func traceFrame() string {
	c := &Case{Kind: "trace"}
	return runTempo(c)
}

// expandBig: the spans of a recipe, the index of the boundary span and the counted size right after it
func expandBig(b BigSpec, hdrLen int) ([]SpanSpec, int, int) {
	r := hx.Rand(b.Seed)
	mk := func(i int) SpanSpec {
		sp := genSpan(r)
		sp.SpanID = fmt.Sprintf("%016x", i+1)
		if b.Size > 0 {
			padSpan(&sp, b.Size-len(spanText(sp)))
		}
		return sp
	}
	mkMin := func(i int) SpanSpec {
		return SpanSpec{TraceID: "000102030405060708090a0b0c0d0e0f", SpanID: fmt.Sprintf("%016x", i+1), Name: hx.Hex("m"), Start: 1, End: 2}
	}
	var spans []SpanSpec
	if b.Target == 0 {
		for i := 0; i < b.Count; i++ {
			spans = append(spans, mk(i))
		}
		return spans, -1, 0
	}
	counted := 0
	if b.Conv == 2 {
		counted = hdrLen
	}
	goal := b.Target + b.Delta
	minAdd := len(spanText(mkMin(0))) + 1
	boundary := -1
	for i := 0; boundary < 0 && i < 100000; i++ {
		sep := 0
		if b.Conv >= 1 && i > 0 {
			sep = 1
		}
		gap := goal - counted
		sp := mk(i)
		add := len(spanText(sp)) + sep
		if add > gap {
			sp = mkMin(i)
			add = len(spanText(sp)) + sep
		}
		rest := gap - add
		if rest < minAdd+64 { // no further span fits: this one is the boundary span
			if rest > 0 {
				padSpan(&sp, rest)
				add += rest
			}
			boundary = i
		}
		spans = append(spans, sp)
		counted += add
	}
	for k := 0; k < b.After; k++ {
		spans = append(spans, mk(len(spans)))
	}
	return spans, boundary, counted
}

func runBig(c *Case) {
	frame := traceFrame()
	o := &BigOut{Frame: hx.Hex(frame), DiffAt: -1}
	c.BigOut = o
	if !strings.HasSuffix(frame, traceFooter) {
		c.GoRows = "diff:frame of the empty trace does not end with " + traceFooter
		return
	}
	hdr := frame[:len(frame)-len(traceFooter)]
	spans, boundary, counted := expandBig(*c.Big, len(hdr))
	o.N, o.Boundary, o.Counted = len(spans), boundary, counted
	var want strings.Builder
	want.WriteString(hdr)
	items := make([]string, len(spans))
	for i, sp := range spans {
		t := spanText(sp)
		items[i] = string(t)
		o.ItemBytes += len(t)
		if i > 0 {
			want.WriteByte(',')
		}
		want.Write(t)
	}
	want.WriteString(traceFooter)
	d := &Case{Kind: "trace", Spans: spans}
	ctl := &controllerv1.TempoController{Service: &fakeTempoT{c: d}}
	w := newRec()
	c.Panic = hx.Catch(func() {
		r := httptest.NewRequest("GET", "/api/traces/x", nil)
		r = mux.SetURLVars(r, map[string]string{"traceId": "0123456789abcdef0123456789abcdef"})
		ctl.Trace(w, r)
	})
	body := w.body()
	o.BodyLen, o.Code = len(body), w.code
	ws := want.String()
	o.Exact = body == ws
	if !o.Exact {
		k := 0
		for k < len(body) && k < len(ws) && body[k] == ws[k] {
			k++
		}
		o.DiffAt = k
		cut := func(s string) string {
			lo, hi := k-48, k+48
			if lo < 0 {
				lo = 0
			}
			if hi > len(s) {
				hi = len(s)
			}
			if lo > hi {
				lo = hi
			}
			return hx.Hex(s[lo:hi])
		}
		o.Got, o.Want = cut(body), cut(ws)
	}
	c.GoValid = json.Valid([]byte(body))
	d.Items = make([]string, len(items))
	for i, it := range items {
		d.Items[i] = hx.Hex(it)
	}
	c.GoRows = goTempo(d, body)
	if dir := os.Getenv("VERIF_BIGTRACE_DIR"); dir != "" {
		o.BodyFile = filepath.Join(dir, fmt.Sprintf("%d.body", c.ID))
		if err := os.WriteFile(o.BodyFile, []byte(body), 0o644); err != nil {
			panic(err)
		}
	} else {
		c.Out = hx.Hex(body)
	}
}

// ---------------------------------------------------------------------------------- thresholds from the source

// sourceInts: the value of every integer constant expression in the file (literals, named constants of the file,
// + - * / << >> of those, at every nesting level), so that a size or count a change introduces is driven without
// touching the harness.
func sourceInts(path string) []int {
	fs := token.NewFileSet()
	f, err := parser.ParseFile(fs, path, nil, 0)
	if err != nil {
		panic(err)
	}
	env := map[string]constant.Value{}
	var eval func(e ast.Expr) constant.Value
	eval = func(e ast.Expr) constant.Value {
		switch x := e.(type) {
		case *ast.BasicLit:
			if x.Kind == token.INT {
				return constant.MakeFromLiteral(x.Value, token.INT, 0)
			}
		case *ast.ParenExpr:
			return eval(x.X)
		case *ast.Ident:
			if v, ok := env[x.Name]; ok {
				return v
			}
		case *ast.BinaryExpr:
			a, b := eval(x.X), eval(x.Y)
			if a == nil || b == nil {
				return nil
			}
			switch x.Op {
			case token.ADD, token.SUB, token.MUL:
				return constant.BinaryOp(a, x.Op, b)
			case token.QUO:
				if constant.Sign(b) == 0 {
					return nil
				}
				return constant.BinaryOp(a, token.QUO_ASSIGN, b) // integer division
			case token.SHL, token.SHR:
				if s, ok := constant.Uint64Val(b); ok && s < 40 {
					return constant.Shift(a, x.Op, uint(s))
				}
			}
		}
		return nil
	}
	for pass := 0; pass < 3; pass++ { // named constants (a few levels of dependency)
		ast.Inspect(f, func(n ast.Node) bool {
			if vs, ok := n.(*ast.ValueSpec); ok {
				for i, nm := range vs.Names {
					if i < len(vs.Values) {
						if v := eval(vs.Values[i]); v != nil {
							env[nm.Name] = v
						}
					}
				}
			}
			return true
		})
	}
	seen := map[int]bool{}
	ast.Inspect(f, func(n ast.Node) bool {
		if e, ok := n.(ast.Expr); ok {
			if v := eval(e); v != nil {
				if k, ok := constant.Int64Val(v); ok && k >= 2 && k <= 4<<20 {
					seen[int(k)] = true
				}
			}
		}
		return true
	})
	var res []int
	for k := range seen {
		res = append(res, k)
	}
	sort.Ints(res)
	return res
}

// the sizes and counts driven whatever the source says: the bufio.Writer of net/http (4 KiB), 64 KiB, 256 KiB;
// 2000 = the LIMIT of the trace statement
var bigDefaultsBytes = []int{4096, 65536, 262144}
var bigDefaultsCount = []int{2000}

func genBigCases(seed int64, src string) []Case {
	fromSrc := sourceInts(src)
	bytesT := map[int]string{}
	countT := map[int]string{}
	for _, t := range bigDefaultsBytes {
		bytesT[t] = "default"
	}
	for _, t := range bigDefaultsCount {
		countT[t] = "default"
	}
	for _, t := range fromSrc {
		if t >= 64 {
			bytesT[t] = "source"
		}
		if t <= 2500 {
			countT[t] = "source"
		}
	}
	r := rand.New(rand.NewSource(seed + 4711))
	var cases []Case
	id := 30000000
	add := func(class string, b BigSpec) {
		b.Seed = r.Int63n(1 << 40)
		cases = append(cases, Case{ID: id, Kind: "bigtrace", Class: class, Big: &b})
		id++
	}
	hdrLen := len(traceFrame()) - len(traceFooter)
	var bs, cs []int
	for t := range bytesT {
		bs = append(bs, t)
	}
	for t := range countT {
		cs = append(cs, t)
	}
	sort.Ints(bs)
	sort.Ints(cs)
	for _, t := range bs {
		size := 0
		if t >= 32768 {
			size = 300 + r.Intn(500)
		}
		tag := fmt.Sprintf("bytes %d (%s)", t, bytesT[t])
		for conv := 0; conv < 3; conv++ {
			for _, delta := range []int{-1, 0, 1} {
				add(tag+" exact", BigSpec{Target: t, Conv: conv, Delta: delta, After: 1 + r.Intn(3), Size: size})
			}
		}
		// random spans, the threshold crossed about three times
		b := BigSpec{Target: t, Conv: 1, Delta: r.Intn(400), Seed: 1}
		sp, _, _ := expandBig(b, hdrLen)
		add(tag+" three times", BigSpec{Target: t, Conv: 1, Delta: b.Delta, After: 2*len(sp) + 3})
		// every span alone is larger than the threshold
		add(tag+" every span larger", BigSpec{Count: 3, Size: t + 1 + r.Intn(64)})
	}
	for _, t := range cs {
		tag := fmt.Sprintf("count %d (%s)", t, countT[t])
		for _, n := range []int{t - 1, t, t + 1, 2*t + 1} {
			size := 0
			if r.Intn(2) == 0 && t >= 100 {
				size = 200 + r.Intn(400)
			}
			add(tag, BigSpec{Count: n, Size: size})
		}
	}
	return cases
}

func mainBig(seed int64, src string, out *hx.Out) {
	for _, c := range genBigCases(seed, src) {
		c := c
		runBig(&c)
		out.Put(c)
	}
}
