// jsonresp drives the hand-written streaming JSON encoders of the reader with scripted result
// rows and prints, per case, the rows and the exact bytes the implementation sent (C15).
//
// kinds:
//
//	streams  QueryRangeService.exportStreamsValue over a scripted chan []shared.LogEntry (hook)
//	matrix   QueryRangeService.QueryRange, matrix branch    } the exported service methods; the rows come from a
//	vector   QueryRangeService.QueryInstant, vector branch  } scripted shared.RequestProcessor handed out by a
//	tail     first frame of QueryRangeService.Tail          } registered LogQL planner plugin (no hook)
//	prommatrix / promvector / promscalar   writeResponse of the Prometheus query controller (hook); batch = series,
//	                   entry = point; the series labels (a slice, order fixed) are in Blbls
//	promerror          PromError(500, items[0])
//	trace / search / searchql   TempoController.Trace (JSON branch) / Search over a fake ITempoService; the pieces
//	                   json.Marshal produces for every span / trace are computed by the harness (Items) and
//	                   spliced by the model exactly as the controller does
//	tags / tagvalues   TempoController.Tags / Values over a fake ITempoService
//	labels / series    QueryLabelsService.GenericLabelReq / Series over scripted database/sql rows
//
// Every byte string travels hex-encoded. Besides the body, each case carries what the Coq model
// cannot know: the order in which the Go runtime iterated each label map (read back from the
// body, accepted only if it is a permutation of the input keys) and the texts produced by the
// float printers (fmt %f, strconv.FormatFloat), which the model treats as given.
package main

import (
	"context"
	"encoding/json"
	"fmt"
	"io"
	"math"
	"math/rand"
	"net/http"
	"net/http/httptest"
	"os"
	"runtime"
	"sort"
	"strconv"
	"strings"
	"time"
	"unicode/utf8"

	"github.com/gorilla/mux"
	jsoniter "github.com/json-iterator/go"
	"github.com/metrico/qryn/reader/utils/unmarshal"
	commonv1 "go.opentelemetry.io/proto/otlp/common/v1"
	tracev1 "go.opentelemetry.io/proto/otlp/trace/v1"
	"github.com/prometheus/prometheus/model/labels"
	"github.com/prometheus/prometheus/promql"
	controllerv1 "github.com/metrico/qryn/reader/controller"
	"github.com/metrico/qryn/reader/logql/logql_parser"
	"github.com/metrico/qryn/reader/logql/logql_transpiler_v2/shared"
	"github.com/metrico/qryn/reader/model"
	"github.com/metrico/qryn/reader/plugins"
	"github.com/metrico/qryn/reader/service"
	"verif/harness/hx"
)

type Entry struct {
	Fp   string      `json:"fp"`   // decimal uint64
	Lbls [][2]string `json:"lbls"` // hex key, hex value; input: sorted by key; output: observed order
	Ts   int64       `json:"ts"`
	Msg  string      `json:"msg"` // hex
	Val  string      `json:"v"`   // float64, strconv 'g' -1 (exact round trip)
	Err  int         `json:"err"` // 0 none, 1 io.EOF, 2 other error
	Tsf  string      `json:"tsf"` // fmt.Sprintf("%f", float64(ts)/1e9)
	Valt string      `json:"valt"`
}

type Case struct {
	ID      int       `json:"id"`
	Kind    string    `json:"kind"`
	Class   string    `json:"class"`
	Batches [][]Entry `json:"batches"`
	Items   []string  `json:"items"` // list kinds: hex strings (tag names, label values, stored label documents)
	Spans   []SpanSpec    `json:"spans,omitempty"`  // trace: the spans the fake service returns
	Traces  [][]TraceSpec `json:"traces,omitempty"` // search / searchql: batches of traces
	JSpans  []JSpan       `json:"jspans,omitempty"` // trace: observed JSONSpan values (output)
	Fps     []string      `json:"fps,omitempty"`    // optstreams: fingerprint of every stream (decimal)
	Runs    [][][3]int    `json:"runs,omitempty"`   // optstreams: per channel batch the runs (stream, count, 1 = io.EOF markers)
	Blbls   [][][2]string `json:"blbls"` // Prometheus kinds: label slice of every batch (= series), hex
	Order   []string  `json:"order"` // vector: fingerprints in the order of the result array (read back through the "id" label)
	Out     string    `json:"out"`   // hex of the concatenated chunks
	GoValid bool      `json:"valid"` // encoding/json.Valid(out)
	GoRows  string    `json:"gorows"` // "ok" | "skip:<why>" | "diff:<what>"  (encoding/json parse compared with the rows)
	NumLoss string    `json:"numloss,omitempty"`
	Panic   string    `json:"panic,omitempty"`
	With    *Case     `json:"with,omitempty"` // overlapping requests: the request served inside every write of this one
	Skip    string    `json:"skip,omitempty"` // the case could not be observed (no Tail frame within the time limit on a loaded machine)
	Big     *BigSpec  `json:"big,omitempty"`     // bigtrace: the recipe of the spans (bigtrace.go)
	BigOut  *BigOut   `json:"big_out,omitempty"` // bigtrace: what was observed
}

// ---------------------------------------------------------------------------------- overlapping requests

// A response writer (and the consumer of a chunk channel) may take arbitrarily long before it has
// consumed the bytes it was handed: a slow client. While it is blocked other requests are served.
// interleave, when set, is that "other request": it runs to completion inside every Write of the
// observed request (and before every received chunk is copied), on the same goroutine, so with
// GOMAXPROCS(1) it borrows exactly the pooled stream the observed request may have given back
// too early. Only then are the bytes copied. The io.Writer contract allows this (p is valid until
// Write returns); an encoder that hands over memory it no longer owns gets its body overwritten.
var interleave func()

func duringWrite() {
	if f := interleave; f != nil {
		interleave = nil // the other request's own writes are plain
		f()
		interleave = f
	}
}

type rec struct {
	hdr  http.Header
	buf  []byte
	code int
}

func newRec() *rec                    { return &rec{hdr: http.Header{}} }
func (r *rec) Header() http.Header    { return r.hdr }
func (r *rec) WriteHeader(c int)      { r.code = c }
func (r *rec) body() string           { return string(r.buf) }
func (r *rec) Write(p []byte) (int, error) {
	duringWrite()
	r.buf = append(r.buf, p...)
	return len(p), nil
}

// ---------------------------------------------------------------------------------- generators

var pieces = []string{
	"", "a", "b", "job", "level", "x y", "\"", "\\", "\"\\\"", "\n", "\r\n", "\t", "\x00", "\x01", "\x1f", "\x7f",
	"<", ">", "&", "/", "é", "日本", "😀", " ", " ", "\xff", "\xc3", "\xe2\x82", "\xed\xa0\x80", "\xc0\xaf",
	"{\"stream\":{", "]},", "\\u0041", "\\n", "%d", "%s", "'", "`", ":", ",", "[", "}",
}

func genBytes(r *rand.Rand) string {
	switch r.Intn(10) {
	case 0:
		return ""
	case 1, 2, 3:
		return pieces[r.Intn(len(pieces))]
	case 4, 5:
		n := 1 + r.Intn(8)
		b := make([]byte, n)
		for i := range b {
			b[i] = byte(32 + r.Intn(95))
		}
		return string(b)
	case 6:
		n := 1 + r.Intn(6)
		b := make([]byte, n)
		for i := range b {
			b[i] = byte(r.Intn(256))
		}
		return string(b)
	default:
		var sb strings.Builder
		for k := 1 + r.Intn(4); k > 0; k-- {
			sb.WriteString(pieces[r.Intn(len(pieces))])
		}
		return sb.String()
	}
}

func genKey(r *rand.Rand) string {
	if r.Intn(4) == 0 {
		return genBytes(r)
	}
	return []string{"job", "level", "app", "host", "__name__", "le", "a", "b"}[r.Intn(8)]
}

func genLabels(r *rand.Rand) map[string]string {
	m := map[string]string{}
	n := 0
	switch r.Intn(6) {
	case 0:
		n = 0
	case 1, 2:
		n = 1
	case 3, 4:
		n = 2
	default:
		n = 3 + r.Intn(3)
	}
	for i := 0; i < n; i++ {
		if r.Intn(3) == 0 {
			m[genKey(r)] = genBytes(r)
		} else {
			m[genKey(r)] = []string{"x", "y", "info", "nginx", "0.5", ""}[r.Intn(6)]
		}
	}
	return m
}

func genFp(r *rand.Rand) uint64 {
	switch r.Intn(8) {
	case 0:
		return 0
	case 1:
		return 1
	case 2:
		return math.MaxUint64
	case 3:
		return uint64(r.Intn(4))
	default:
		return r.Uint64()
	}
}

func genTs(r *rand.Rand) int64 {
	switch r.Intn(12) {
	case 0:
		return 0
	case 1:
		return -1 - r.Int63n(1000)
	case 2:
		return math.MaxInt64
	case 3:
		return math.MinInt64
	case 4:
		return r.Int63()
	default: // realistic: 2001..2100, ms aligned half of the time
		ms := int64(1e12) + r.Int63n(3e12)
		if r.Intn(2) == 0 {
			return ms * 1e6
		}
		return ms*1e6 + r.Int63n(1e6)
	}
}

func genVal(r *rand.Rand) float64 {
	switch r.Intn(12) {
	case 0:
		return 0
	case 1:
		return float64(r.Intn(1000))
	case 2:
		return -float64(r.Intn(1000)) / 8
	case 3:
		return 1e21 * (1 + r.Float64())
	case 4, 6: // the longest texts FormatFloat can produce: rare, they dominate the size of a case
		if r.Intn(8) == 0 {
			return []float64{5e-324, math.MaxFloat64}[r.Intn(2)]
		}
		return float64(r.Intn(100)) / 4
	case 5:
		return 1e-7 * r.Float64()
	case 7:
		return float64(int64(1) << uint(r.Intn(63)))
	case 8:
		return []float64{math.NaN(), math.Inf(1), math.Inf(-1)}[r.Intn(3)]
	default:
		return r.NormFloat64() * 100
	}
}

func sortedLbls(m map[string]string) [][2]string {
	ks := make([]string, 0, len(m))
	for k := range m {
		ks = append(ks, k)
	}
	sort.Strings(ks)
	out := make([][2]string, 0, len(ks))
	for _, k := range ks {
		out = append(out, [2]string{hx.Hex(k), hx.Hex(m[k])})
	}
	return out
}

// genRows: a flat list of entries (series runs), then a distribution over batches.
func genCase(r *rand.Rand, id int, kind string) Case {
	c := Case{ID: id, Kind: kind}
	var flat []Entry
	nser := 0
	cls := ""
	switch r.Intn(10) {
	case 0:
		nser, cls = 0, "empty"
	case 1, 2:
		nser, cls = 1, "one-series"
	default:
		nser, cls = 2+r.Intn(4), "multi"
	}
	type ser struct {
		fp uint64
		l  map[string]string
	}
	var pool []ser
	for i := 0; i < nser; i++ {
		s := ser{genFp(r), genLabels(r)}
		if kind == "vector" { // lets the harness recognise the series in the (map-ordered) result array
			s.l["id"] = strconv.FormatUint(s.fp, 10)
			for _, o := range pool {
				if o.fp == s.fp {
					s = o
				}
			}
		}
		if len(pool) > 0 && r.Intn(6) == 0 { // the same series again, in a separate run
			s = pool[r.Intn(len(pool))]
			cls += "+rerun"
		}
		pool = append(pool, s)
		if i == 0 && s.fp == 0 {
			cls += "+fp0first"
		}
		n := 1 + r.Intn(4)
		if r.Intn(8) == 0 {
			n = 1
		}
		for k := 0; k < n; k++ {
			flat = append(flat, Entry{Fp: strconv.FormatUint(s.fp, 10), Lbls: sortedLbls(s.l), Ts: genTs(r),
				Msg: hx.Hex(genBytes(r)), Val: strconv.FormatFloat(genVal(r), 'g', -1, 64)})
		}
	}
	// io.EOF markers: usually one at the very end (what the planners send), sometimes elsewhere
	eofEnd := r.Intn(2) == 0
	if r.Intn(10) == 0 && len(flat) > 0 {
		p := r.Intn(len(flat) + 1)
		flat = append(flat[:p], append([]Entry{{Fp: "0", Err: 1, Val: "0"}}, flat[p:]...)...)
		cls += "+eof-mid"
	}
	if r.Intn(40) == 0 && len(flat) > 0 {
		p := r.Intn(len(flat) + 1)
		flat = append(flat[:p], append([]Entry{{Fp: "0", Err: 2, Val: "0"}}, flat[p:]...)...)
		cls += "+fail"
	}
	if eofEnd {
		flat = append(flat, Entry{Fp: "0", Err: 1, Val: "0"})
	}
	// batches
	for len(flat) > 0 {
		if r.Intn(5) == 0 {
			c.Batches = append(c.Batches, []Entry{})
		}
		n := 1 + r.Intn(4)
		if n > len(flat) {
			n = len(flat)
		}
		c.Batches = append(c.Batches, flat[:n])
		flat = flat[n:]
	}
	if r.Intn(4) == 0 {
		c.Batches = append(c.Batches, []Entry{})
	}
	c.Class = cls
	return c
}

// ---------------------------------------------------------------------------------- running

func toLogEntry(e Entry) shared.LogEntry {
	fp, _ := strconv.ParseUint(e.Fp, 10, 64)
	v, _ := strconv.ParseFloat(e.Val, 64)
	le := shared.LogEntry{TimestampNS: e.Ts, Fingerprint: fp, Message: hx.UnHex(e.Msg), Value: v}
	le.Labels = map[string]string{}
	for _, kv := range e.Lbls {
		le.Labels[hx.UnHex(kv[0])] = hx.UnHex(kv[1])
	}
	switch e.Err {
	case 1:
		le.Err = io.EOF
	case 2:
		le.Err = fmt.Errorf("scripted failure")
	}
	return le
}

func runStreams(c *Case) string {
	if c.ID%2 == 1 { // through the HTTP handlers: query_range, and (every fourth) the instant query of a log selector
		return viaHandler(c, false, c.ID%4 == 3)
	}
	out := make(chan []shared.LogEntry)
	res := make(chan model.QueryRangeOutput)
	go func() {
		defer close(out)
		for _, b := range c.Batches {
			lb := make([]shared.LogEntry, 0, len(b))
			for _, e := range b {
				lb = append(lb, toLogEntry(e))
			}
			out <- lb
		}
	}()
	go service.VerifC15ExportStreamsValue(out, res)
	var sb strings.Builder
	for o := range res {
		duringWrite()
		sb.WriteString(o.Str)
	}
	// the producer may still be blocked when the encoder returned early (error entry): drain
	go func() {
		for range out {
		}
	}()
	return sb.String()
}

// ---------------------------------------------------------------------------------- planner plugin kinds

// scriptedProc is the shared.RequestProcessor the plugin hands to the service: every Process call
// replays the batches of its case (Tail calls Process once per tick; only the first frame is read).
type scriptedProc struct {
	batches [][]shared.LogEntry
	matrix  bool
}

func (p *scriptedProc) IsMatrix() bool { return p.matrix }
func (p *scriptedProc) Process(ctx *shared.PlannerContext, in chan []shared.LogEntry) (chan []shared.LogEntry, error) {
	out := make(chan []shared.LogEntry)
	go func() {
		defer close(out)
		for _, b := range p.batches {
			select {
			case out <- b:
			case <-time.After(5 * time.Second): // the consumer returned early (error entry)
				return
			}
		}
	}()
	return out, nil
}

type planPlugin struct{}

var curProc *scriptedProc

func (planPlugin) Plan(script *logql_parser.LogQLScript) (shared.RequestProcessorChain, error) {
	if curChain != nil { // optstreams: the real ResponseOptimizerPlanner between the scripted source and the encoder
		return shared.RequestProcessorChain{curChain}, nil
	}
	if curProc == nil {
		return nil, fmt.Errorf("no scripted processor")
	}
	return shared.RequestProcessorChain{curProc}, nil
}

var pluginOnce bool
var planReg *fakeRegistry

func planSetup(c *Case, matrix bool) *service.QueryRangeService {
	if !pluginOnce {
		pluginOnce = true
		plugins.RegisterLogQLPlannerPlugin("c15", planPlugin{})
		planReg = newRegistry(nil)
	}
	p := &scriptedProc{matrix: matrix}
	for _, b := range c.Batches {
		lb := make([]shared.LogEntry, 0, len(b))
		for _, e := range b {
			lb = append(lb, toLogEntry(e))
		}
		p.batches = append(p.batches, lb)
	}
	curProc = p
	return service.NewQueryRangeService(&model.ServiceData{Session: planReg})
}

func drain(ch chan model.QueryRangeOutput) string {
	var sb strings.Builder
	for o := range ch {
		duringWrite()
		sb.WriteString(o.Str)
	}
	return sb.String()
}

func jsonValid(body string) bool { return json.Valid([]byte(body)) }

func runMatrix(c *Case) string {
	if c.ID%2 == 1 {
		return viaHandler(c, true, false)
	}
	svc := planSetup(c, true)
	ch, err := svc.QueryRange(context.Background(), `rate({a="b"}[1m])`, 0, 1e18, 1000, 100, true)
	if err != nil {
		panic(err)
	}
	return drain(ch)
}

func runVector(c *Case) string {
	if c.ID%2 == 1 {
		return viaHandler(c, true, true)
	}
	svc := planSetup(c, true)
	ch, err := svc.QueryInstant(context.Background(), `rate({a="b"}[1m])`, 1e18, 1000, 100)
	if err != nil {
		panic(err)
	}
	return drain(ch)
}

// startTail launches the watcher (the plugin binds the case's processor synchronously inside Tail);
// the returned function waits for the first frame and closes the watcher.
func startTail(c *Case) func() string {
	svc := planSetup(c, false)
	w, err := svc.Tail(context.Background(), `{a="b"}`)
	if err != nil {
		panic(err)
	}
	return func() string {
		var body string
		select {
		case o := <-w.GetRes():
			body = o.Str
		case <-time.After(30 * time.Second):
			c.Skip = "no Tail frame within 30s"
		}
		w.Close()
		go func() {
			for range w.GetRes() {
			}
		}()
		return body
	}
}

// vectorOrder: the fingerprints in result-array order, read through the "id" label every series of a vector case carries
func vectorOrder(body string) []string {
	var resp struct {
		Data struct {
			Result []struct {
				Metric map[string]string `json:"metric"`
			} `json:"result"`
		} `json:"data"`
	}
	if json.Unmarshal([]byte(body), &resp) != nil {
		return nil
	}
	var ord []string
	for _, r := range resp.Data.Result {
		ord = append(ord, r.Metric["id"])
	}
	return ord
}

// goVector: encoding/json parse compared with the latest sample per fingerprint (written independently of the Coq model)
func goVector(c *Case, body string) string {
	rows := liveRows(c, true)
	for _, b := range c.Batches {
		for _, e := range b {
			if e.Err == 2 {
				return "skip:error entry"
			}
		}
	}
	if !allUTF8(rows) {
		return "skip:not utf8"
	}
	last := map[string]*Entry{}
	for _, e := range rows {
		if o, ok := last[e.Fp]; !ok || o.Ts < e.Ts {
			last[e.Fp] = e
		}
	}
	var resp struct {
		Status string `json:"status"`
		Data   struct {
			ResultType string `json:"resultType"`
			Result     []struct {
				Metric map[string]string `json:"metric"`
				Value  []interface{}     `json:"value"`
			} `json:"result"`
		} `json:"data"`
	}
	dec := json.NewDecoder(strings.NewReader(body))
	dec.UseNumber()
	if err := dec.Decode(&resp); err != nil {
		return "diff:decode: " + err.Error()
	}
	if resp.Status != "success" || resp.Data.ResultType != "vector" {
		return "diff:envelope"
	}
	if len(resp.Data.Result) != len(last) {
		return fmt.Sprintf("diff:%d series, want %d", len(resp.Data.Result), len(last))
	}
	seen := map[string]bool{}
	for _, r := range resp.Data.Result {
		e, ok := last[r.Metric["id"]]
		if !ok || seen[e.Fp] {
			return "diff:unknown or repeated series " + r.Metric["id"]
		}
		seen[e.Fp] = true
		if len(r.Metric) != len(e.Lbls) {
			return "diff:labels of series " + e.Fp
		}
		for _, kv := range e.Lbls {
			if v, ok := r.Metric[hx.UnHex(kv[0])]; !ok || v != hx.UnHex(kv[1]) {
				return "diff:label of series " + e.Fp
			}
		}
		if len(r.Value) != 2 {
			return "diff:value of series " + e.Fp
		}
		n, ok1 := r.Value[0].(json.Number)
		v, ok2 := r.Value[1].(string)
		if !ok1 || !ok2 || n.String() != strconv.FormatInt(e.Ts/1000000000, 10) || v != e.Valt {
			return "diff:value of series " + e.Fp
		}
	}
	return "ok"
}

// ---------------------------------------------------------------------------------- Prometheus kinds

var promKinds = map[string]bool{"prommatrix": true, "promvector": true, "promscalar": true, "promerror": true}

func genPromCase(r *rand.Rand, id int, kind string) Case {
	c := Case{ID: id, Kind: kind}
	if kind == "promerror" {
		c.Items = []string{hx.Hex(genBytes(r))}
		c.Class = "msg"
		return c
	}
	nser := 1
	if kind != "promscalar" {
		nser = []int{0, 1, 1, 2, 3, 5}[r.Intn(6)]
	}
	c.Class = fmt.Sprintf("%d-series", nser)
	for i := 0; i < nser; i++ {
		var ls [][2]string
		for k := r.Intn(4); k > 0; k-- { // a slice: order as generated, duplicate names possible
			ls = append(ls, [2]string{hx.Hex(genKey(r)), hx.Hex(genBytes(r))})
		}
		np := 1
		if kind == "prommatrix" {
			np = []int{0, 1, 2, 4}[r.Intn(4)]
		}
		var b []Entry
		for k := 0; k < np; k++ {
			t := genTs(r) / 1000000 // milliseconds
			if r.Intn(6) == 0 {
				t = int64(r.Intn(3)) - 1
			}
			b = append(b, Entry{Fp: "0", Ts: t, Val: strconv.FormatFloat(genVal(r), 'g', -1, 64)})
		}
		c.Batches = append(c.Batches, b)
		c.Blbls = append(c.Blbls, ls)
	}
	return c
}

func runProm(c *Case) string {
	w := newRec()
	if c.Kind == "promerror" {
		controllerv1.PromError(500, hx.UnHex(c.Items[0]), w)
		return w.body()
	}
	lbls := func(i int) labels.Labels {
		var l labels.Labels
		for _, kv := range c.Blbls[i] {
			l = append(l, labels.Label{Name: hx.UnHex(kv[0]), Value: hx.UnHex(kv[1])})
		}
		return l
	}
	js := jsoniter.ConfigFastest
	var res promql.Result
	switch c.Kind {
	case "prommatrix":
		m := promql.Matrix{}
		for i, b := range c.Batches {
			s := promql.Series{Metric: lbls(i)}
			for _, e := range b {
				v, _ := strconv.ParseFloat(e.Val, 64)
				s.Points = append(s.Points, promql.Point{T: e.Ts, V: v})
			}
			m = append(m, s)
		}
		res.Value = m
	case "promvector":
		vv := promql.Vector{}
		for i, b := range c.Batches {
			v, _ := strconv.ParseFloat(b[0].Val, 64)
			vv = append(vv, promql.Sample{Point: promql.Point{T: b[0].Ts, V: v}, Metric: lbls(i)})
		}
		res.Value = vv
	case "promscalar":
		v, _ := strconv.ParseFloat(c.Batches[0][0].Val, 64)
		res.Value = promql.Scalar{T: c.Batches[0][0].Ts, V: v}
	}
	// the number texts the model takes as given
	for bi := range c.Batches {
		for ei := range c.Batches[bi] {
			e := &c.Batches[bi][ei]
			v, _ := strconv.ParseFloat(e.Val, 64)
			if c.Kind == "promscalar" {
				e.Tsf = fmt.Sprintf("%f", float64(e.Ts)/1000)
				e.Valt = fmt.Sprintf("%f", v)
			} else {
				st := js.BorrowStream(nil)
				st.WriteFloat64(float64(e.Ts) / 1000)
				e.Tsf = string(st.Buffer())
				js.ReturnStream(st)
				e.Valt = strconv.FormatFloat(v, 'f', -1, 64)
			}
			if back, err := strconv.ParseFloat(e.Valt, 64); c.Kind != "promscalar" && (err != nil || (back != v && !(math.IsNaN(back) && math.IsNaN(v)))) {
				c.NumLoss = fmt.Sprintf("value %v printed as %s", v, e.Valt)
			}
			if sec, err := strconv.ParseFloat(e.Tsf, 64); err != nil || int64(math.Round(sec*1000)) != e.Ts {
				c.NumLoss = fmt.Sprintf("timestamp %d ms printed as %s", e.Ts, e.Tsf)
			}
		}
	}
	if err := controllerv1.VerifC15WriteResponse(&res, w); err != nil {
		panic(err)
	}
	return w.body()
}

// goProm: encoding/json parse compared with the series
func goProm(c *Case, body string) string {
	if c.Kind == "promerror" {
		var v struct{ Status, ErrorType, Error string }
		if err := json.Unmarshal([]byte(body), &v); err != nil {
			return "diff:decode: " + err.Error()
		}
		msg := hx.UnHex(c.Items[0])
		if !utf8.ValidString(msg) {
			return "skip:not utf8"
		}
		if v.Status != "error" || v.ErrorType != "error" || v.Error != msg {
			return "diff:fields"
		}
		return "ok"
	}
	var resp struct {
		Status string `json:"status"`
		Data   struct {
			ResultType string            `json:"resultType"`
			Result     []json.RawMessage `json:"result"`
		} `json:"data"`
	}
	if err := json.Unmarshal([]byte(body), &resp); err != nil {
		return "diff:decode: " + err.Error()
	}
	want := strings.TrimPrefix(c.Kind, "prom")
	if resp.Status != "success" || resp.Data.ResultType != want {
		return "diff:envelope"
	}
	if c.Kind == "promscalar" {
		if len(resp.Data.Result) != 2 || string(resp.Data.Result[0]) != c.Batches[0][0].Tsf || string(resp.Data.Result[1]) != `"`+c.Batches[0][0].Valt+`"` {
			return "diff:scalar"
		}
		return "ok"
	}
	if len(resp.Data.Result) != len(c.Batches) {
		return fmt.Sprintf("diff:%d series, want %d", len(resp.Data.Result), len(c.Batches))
	}
	for i, raw := range resp.Data.Result {
		var sr struct {
			Metric map[string]string `json:"metric"`
			Values [][]interface{}   `json:"values"`
			Value  []interface{}     `json:"value"`
		}
		dec := json.NewDecoder(strings.NewReader(string(raw)))
		dec.UseNumber()
		if err := dec.Decode(&sr); err != nil {
			return "diff:decode series: " + err.Error()
		}
		vals := sr.Values
		if c.Kind == "promvector" {
			vals = [][]interface{}{sr.Value}
		}
		if len(vals) != len(c.Batches[i]) {
			return fmt.Sprintf("diff:series %d has %d points", i, len(vals))
		}
		for k, e := range c.Batches[i] {
			if len(vals[k]) != 2 {
				return "diff:point shape"
			}
			n, ok1 := vals[k][0].(json.Number)
			v, ok2 := vals[k][1].(string)
			if !ok1 || !ok2 || n.String() != e.Tsf || v != e.Valt {
				return fmt.Sprintf("diff:point %d of series %d", k, i)
			}
		}
		lastOf := map[string]string{} // duplicate names: a JSON object reader keeps the last
		utf := true
		for _, kv := range c.Blbls[i] {
			k, v := hx.UnHex(kv[0]), hx.UnHex(kv[1])
			utf = utf && utf8.ValidString(k) && utf8.ValidString(v)
			lastOf[k] = v
		}
		if !utf {
			continue
		}
		if len(lastOf) != len(sr.Metric) {
			return fmt.Sprintf("diff:labels of series %d", i)
		}
		for k, v := range lastOf {
			if sr.Metric[k] != v {
				return fmt.Sprintf("diff:label %q of series %d", k, i)
			}
		}
	}
	return "ok"
}

// ---------------------------------------------------------------------------------- tempo trace / search

type SpanSpec struct {
	TraceID string      `json:"tid"` // hex
	SpanID  string      `json:"sid"`
	Parent  string      `json:"pid"`
	Name    string      `json:"name"` // hex
	Start   uint64      `json:"start"`
	End     uint64      `json:"end"`
	Attrs   [][3]string `json:"attrs"` // hex key, kind (s,b,i,d,y), hex/decimal value; kinds u a k (n: no value at all) see genNested
	Events  [][2]string `json:"events"`
	Status  int         `json:"status"` // 0 none, 1 ok, 2 error with message
}
type TraceSpec struct {
	TraceID string `json:"tid"`
	Svc     string `json:"svc"`  // hex
	Name    string `json:"name"` // hex
	Start   int64  `json:"start"`
	Dur     int64  `json:"dur"`
	Flags   int    `json:"fl"` // searchql: bit 0 Attributes nil, bit 1 Spans nil, bit 2 SpanSets nil
}

// JSpan: the field values of the model.JSONSpan that SpanToJSONSpan produced (what json.Marshal walks)
type JSpan struct {
	F      []string    `json:"f"`      // hex: traceID traceId spanID spanId name, decimal start end, hex parent service
	Attrs  [][2]string `json:"attrs"`  // hex key, hex stringValue
	Events [][2]string `json:"events"` // decimal time, hex name
	Status []string    `json:"status"` // empty: nil; else decimal code, hex message
}

// Nested attribute values (array, key-value list, no oneof) travel as a flat list of tokens, every token hex, in the
// grammar take_oval of model/JsonStream.v decodes:
//
//	V ::= kind payload        kind s, y: the bytes; b: true / false; i: decimal; d: decimal math.Float64bits; u (oneof not
//	                          set), n (no AnyValue at all: only as the value of a pair): empty payload
//	    | "a" count V*        AnyValue_ArrayValue
//	    | "k" count (key V)*  AnyValue_KvlistValue
//
// An attribute [3]string of such a kind holds the first token (unhexed) in [1] and the others, joined by spaces, in [2].
type tokw struct{ toks []string }

func (w *tokw) put(s ...string) {
	for _, x := range s {
		w.toks = append(w.toks, hx.Hex(x))
	}
}

var nestedDoubles = []float64{math.Copysign(0, -1), 1e-6, 9.999999999999999e-7, 1e21, 9.999999999999999e20, 1e-7, 2.5e-9, 1e-9, 1.5e300, 123456789.125, 0.1,
	math.NaN(), math.Inf(1), math.Inf(-1)} // the last three make json.Marshal fail

// genNested: depth 1 is the attribute value itself (only the forms of the default: branch), below it every kind
func genNested(r *rand.Rand, w *tokw, depth int, pairValue bool) {
	k := 5 + r.Intn(4) // u a k, and n: a KeyValue without value (read like the unset oneof since the repair of SpanToJSONSpan)
	if depth > 1 {
		k = r.Intn(9)
		if k == 8 {
			k = 4
		}
		if pairValue && r.Intn(5) == 0 {
			k = 8
		}
	}
	if (k == 6 || k == 7) && (depth > 3 || (depth == 3 && r.Intn(2) == 0)) { // lists down to depth 3, leaves below
		k = r.Intn(6)
	}
	switch k {
	case 0:
		w.put("s", genBytes(r))
	case 1:
		w.put("y", genBytes(r))
	case 2:
		w.put("b", []string{"true", "false"}[r.Intn(2)])
	case 3:
		w.put("i", strconv.FormatInt(genTs(r), 10))
	case 4:
		f := genVal(r)
		switch r.Intn(6) {
		case 0, 1:
			f = nestedDoubles[r.Intn(len(nestedDoubles))]
		case 2:
			f = nestedDoubles[len(nestedDoubles)-1-r.Intn(3)]
		}
		w.put("d", strconv.FormatUint(math.Float64bits(f), 10))
	case 5:
		w.put("u", "")
	case 6:
		n := r.Intn(4)
		if depth >= 3 {
			n = r.Intn(3)
		}
		w.put("a", strconv.Itoa(n))
		for ; n > 0; n-- {
			genNested(r, w, depth+1, false)
		}
	case 7:
		n := r.Intn(4)
		if depth >= 3 {
			n = r.Intn(3)
		}
		w.put("k", strconv.Itoa(n))
		for ; n > 0; n-- {
			key := genKey(r)
			if r.Intn(6) == 0 {
				key = ""
			}
			w.put(key)
			genNested(r, w, depth+1, true)
		}
	case 8:
		w.put("n", "")
	}
}

// parseAny builds the OTLP value of a token list (nil: kind n) and returns the unread tokens
func parseAny(toks []string) (*commonv1.AnyValue, []string) {
	if len(toks) < 2 {
		panic("nested value: truncated token list")
	}
	kind, pay, rest := hx.UnHex(toks[0]), hx.UnHex(toks[1]), toks[2:]
	v := &commonv1.AnyValue{}
	switch kind {
	case "s":
		v.Value = &commonv1.AnyValue_StringValue{StringValue: pay}
	case "y":
		v.Value = &commonv1.AnyValue_BytesValue{BytesValue: append([]byte{}, pay...)} // as decoded from the wire: never nil
	case "b":
		v.Value = &commonv1.AnyValue_BoolValue{BoolValue: pay == "true"}
	case "i":
		n, _ := strconv.ParseInt(pay, 10, 64)
		v.Value = &commonv1.AnyValue_IntValue{IntValue: n}
	case "d":
		n, _ := strconv.ParseUint(pay, 10, 64)
		v.Value = &commonv1.AnyValue_DoubleValue{DoubleValue: math.Float64frombits(n)}
	case "u":
	case "n":
		return nil, rest
	case "a":
		n, _ := strconv.Atoi(pay)
		av := &commonv1.ArrayValue{}
		for ; n > 0; n-- {
			var x *commonv1.AnyValue
			x, rest = parseAny(rest)
			av.Values = append(av.Values, x)
		}
		v.Value = &commonv1.AnyValue_ArrayValue{ArrayValue: av}
	case "k":
		n, _ := strconv.Atoi(pay)
		kl := &commonv1.KeyValueList{}
		for ; n > 0; n-- {
			p := &commonv1.KeyValue{Key: hx.UnHex(rest[0])}
			p.Value, rest = parseAny(rest[1:])
			kl.Values = append(kl.Values, p)
		}
		v.Value = &commonv1.AnyValue_KvlistValue{KvlistValue: kl}
	default:
		panic("nested value: kind " + kind)
	}
	return v, rest
}

// nestedClass: what the attribute values of the spans exercise beyond the five scalar kinds
func nestedClass(spans []SpanSpec) string {
	var arr, kvl, unset, deep, nonfinite, novalue bool
	var walk func(v *commonv1.AnyValue, depth int)
	walk = func(v *commonv1.AnyValue, depth int) {
		if v == nil {
			novalue = true
			return
		}
		switch x := v.Value.(type) {
		case *commonv1.AnyValue_DoubleValue:
			nonfinite = nonfinite || math.IsNaN(x.DoubleValue) || math.IsInf(x.DoubleValue, 0)
		case *commonv1.AnyValue_ArrayValue:
			deep = deep || depth > 1
			for _, e := range x.ArrayValue.Values {
				walk(e, depth+1)
			}
		case *commonv1.AnyValue_KvlistValue:
			deep = deep || depth > 1
			for _, e := range x.KvlistValue.Values {
				walk(e.Value, depth+1)
			}
		}
	}
	for _, sp := range spans {
		for _, a := range sp.Attrs {
			if !strings.Contains("aku", a[1]) {
				continue
			}
			arr, kvl, unset = arr || a[1] == "a", kvl || a[1] == "k", unset || a[1] == "u"
			v, _ := parseAny(append([]string{hx.Hex(a[1])}, strings.Split(a[2], " ")...))
			walk(v, 1)
		}
	}
	s := ""
	for _, x := range []struct {
		on bool
		nm string
	}{{arr, "array"}, {kvl, "kvlist"}, {unset, "unset"}, {deep, "nested"}, {novalue, "pair-without-value"}, {nonfinite, "nonfinite-inside"}} {
		if x.on {
			s += "+" + x.nm
		}
	}
	return s
}

func genSpan(r *rand.Rand) SpanSpec {
	hexn := func(n int) string {
		b := make([]byte, n)
		r.Read(b)
		return hx.Hex(string(b))
	}
	sp := SpanSpec{TraceID: hexn(16), SpanID: hexn(8), Name: hx.Hex(genBytes(r)), Start: uint64(genTs(r)), End: r.Uint64()}
	subSeed, _ := strconv.ParseUint(sp.TraceID[:15], 16, 64)
	sub := hx.Rand(int64(subSeed))
	switch r.Intn(3) {
	case 0:
		sp.Parent = hexn(8)
	case 1:
		sp.Parent = "0000000000000000"
	}
	for k := r.Intn(4); k > 0; k-- {
		kind := "sbidy"[r.Intn(5)]
		v := ""
		switch kind {
		case 's', 'y':
			v = hx.Hex(genBytes(r))
		case 'b':
			v = []string{"true", "false"}[r.Intn(2)]
		case 'i':
			v = strconv.FormatInt(genTs(r), 10)
		case 'd':
			v = strconv.FormatFloat(genVal(r), 'g', -1, 64)
		}
		key := genKey(r)
		if r.Intn(5) == 0 {
			key = "service.name"
		}
		at := [3]string{hx.Hex(key), string(kind), v}
		// the default: branch of SpanToJSONSpan: one attribute in three carries an array, a key-value list or an AnyValue
		// without oneof. Drawn from a generator of their own (seeded by the trace id), the main stream is consumed as before
		if sub.Intn(3) == 0 {
			w := &tokw{}
			genNested(sub, w, 1, false)
			at[1], at[2] = hx.UnHex(w.toks[0]), strings.Join(w.toks[1:], " ")
		}
		sp.Attrs = append(sp.Attrs, at)
	}
	for k := r.Intn(3); k > 0; k-- {
		sp.Events = append(sp.Events, [2]string{strconv.FormatUint(r.Uint64(), 10), hx.Hex(genBytes(r))})
	}
	sp.Status = r.Intn(3)
	return sp
}

func toSpan(sp SpanSpec) *tracev1.Span {
	res := &tracev1.Span{TraceId: []byte(hx.UnHex(sp.TraceID)), SpanId: []byte(hx.UnHex(sp.SpanID)), Name: hx.UnHex(sp.Name),
		StartTimeUnixNano: sp.Start, EndTimeUnixNano: sp.End}
	if sp.Parent != "" {
		res.ParentSpanId = []byte(hx.UnHex(sp.Parent))
	}
	for _, a := range sp.Attrs {
		kv := &commonv1.KeyValue{Key: hx.UnHex(a[0]), Value: &commonv1.AnyValue{}}
		switch a[1] {
		case "s":
			kv.Value.Value = &commonv1.AnyValue_StringValue{StringValue: hx.UnHex(a[2])}
		case "y":
			kv.Value.Value = &commonv1.AnyValue_BytesValue{BytesValue: []byte(hx.UnHex(a[2]))}
		case "b":
			kv.Value.Value = &commonv1.AnyValue_BoolValue{BoolValue: a[2] == "true"}
		case "i":
			n, _ := strconv.ParseInt(a[2], 10, 64)
			kv.Value.Value = &commonv1.AnyValue_IntValue{IntValue: n}
		case "d":
			f, _ := strconv.ParseFloat(a[2], 64)
			kv.Value.Value = &commonv1.AnyValue_DoubleValue{DoubleValue: f}
		default: // u a k: the default: branch; n: a KeyValue without value (replays only: SpanToJSONSpan dereferences it)
			kv.Value, _ = parseAny(append([]string{hx.Hex(a[1])}, strings.Split(a[2], " ")...))
		}
		res.Attributes = append(res.Attributes, kv)
	}
	for _, e := range sp.Events {
		t, _ := strconv.ParseUint(e[0], 10, 64)
		res.Events = append(res.Events, &tracev1.Span_Event{TimeUnixNano: t, Name: hx.UnHex(e[1])})
	}
	switch sp.Status {
	case 1:
		res.Status = &tracev1.Status{Code: tracev1.Status_STATUS_CODE_OK}
	case 2:
		res.Status = &tracev1.Status{Code: tracev1.Status_STATUS_CODE_ERROR, Message: "boom \"x\""}
	}
	return res
}

func genTempoCase(r *rand.Rand, id int, kind string) Case {
	c := Case{ID: id, Kind: kind}
	n := []int{0, 1, 1, 2, 3, 6}[r.Intn(6)]
	c.Class = fmt.Sprintf("%d-items", n)
	if kind == "trace" {
		for i := 0; i < n; i++ {
			c.Spans = append(c.Spans, genSpan(r))
		}
		c.Class += nestedClass(c.Spans)
		return c
	}
	var flat []TraceSpec
	for i := 0; i < n; i++ {
		b := make([]byte, 16)
		r.Read(b)
		ts := TraceSpec{TraceID: hx.Hex(string(b)), Svc: hx.Hex(genBytes(r)), Name: hx.Hex(genBytes(r)), Start: genTs(r), Dur: r.Int63n(100000)}
		if kind == "searchql" {
			if r.Intn(3) == 0 {
				ts.Flags = r.Intn(8)
			}
			switch r.Intn(6) {
			case 0: // durations json.Marshal prints in the 'e' layout, or with many digits
				ts.Dur = []int64{0, 1, 7, 1 << 62, 123456789012345678}[r.Intn(5)]
			}
		}
		flat = append(flat, ts)
	}
	if kind == "search" {
		c.Traces = [][]TraceSpec{flat}
		return c
	}
	for len(flat) > 0 { // searchql: batches, some empty
		if r.Intn(4) == 0 {
			c.Traces = append(c.Traces, []TraceSpec{})
		}
		k := 1 + r.Intn(3)
		if k > len(flat) {
			k = len(flat)
		}
		c.Traces = append(c.Traces, flat[:k])
		flat = flat[k:]
	}
	if r.Intn(3) == 0 {
		c.Traces = append(c.Traces, []TraceSpec{})
	}
	return c
}

type fakeTempoT struct {
	fakeTempo
	c *Case
}

func (f *fakeTempoT) Query(ctx context.Context, startNS int64, endNS int64, traceId []byte, binIds bool) (chan *model.SpanResponse, error) {
	ch := make(chan *model.SpanResponse)
	go func() {
		defer close(ch)
		for _, sp := range f.c.Spans {
			ch <- &model.SpanResponse{Span: toSpan(sp), ServiceName: "svc"}
		}
	}()
	return ch, nil
}
func toTraceResponse(t TraceSpec) *model.TraceResponse {
	return &model.TraceResponse{TraceID: t.TraceID, RootServiceName: hx.UnHex(t.Svc), RootTraceName: hx.UnHex(t.Name),
		StartTimeUnixNano: t.Start, DurationMs: t.Dur}
}
// traceDur: DurationMs of the TraceInfo; small and huge values reach the 'e' layout of encoding/json
func traceDur(t TraceSpec) float64 {
	switch {
	case t.Dur == 1:
		return 1e-7
	case t.Dur == 7:
		return 2.5e-9
	case t.Dur >= 1<<62:
		return 1.5e21
	}
	return float64(t.Dur) / 8
}

func toTraceInfo(t TraceSpec) model.TraceInfo {
	ti := model.TraceInfo{TraceID: t.TraceID, RootServiceName: hx.UnHex(t.Svc), RootTraceName: hx.UnHex(t.Name),
		StartTimeUnixNano: strconv.FormatInt(t.Start, 10), DurationMs: traceDur(t)}
	si := model.SpanInfo{SpanID: t.TraceID[:16], StartTimeUnixNano: strconv.FormatInt(t.Start, 10), DurationNanos: strconv.FormatInt(t.Dur, 10)}
	var a model.SpanAttr
	a.Key = hx.UnHex(t.Name)
	a.Value.StringValue = hx.UnHex(t.Svc)
	if t.Flags&1 == 0 {
		si.Attributes = []model.SpanAttr{a}
	}
	ti.SpanSet = model.SpanSet{Matched: 1}
	if t.Flags&2 == 0 {
		ti.SpanSet.Spans = []model.SpanInfo{si}
	}
	if t.Flags&4 == 0 {
		ti.SpanSets = []model.SpanSet{ti.SpanSet}
	}
	return ti
}
func (f *fakeTempoT) Search(ctx context.Context, tags string, minDurationNS int64, maxDurationNS int64, limit int, fromNS int64, toNS int64) (chan *model.TraceResponse, error) {
	ch := make(chan *model.TraceResponse)
	go func() {
		defer close(ch)
		for _, b := range f.c.Traces {
			for _, t := range b {
				ch <- toTraceResponse(t)
			}
		}
	}()
	return ch, nil
}
func (f *fakeTempoT) SearchTraceQL(ctx context.Context, q string, limit int, from time.Time, to time.Time) (chan []model.TraceInfo, error) {
	ch := make(chan []model.TraceInfo)
	go func() {
		defer close(ch)
		for _, b := range f.c.Traces {
			var tb []model.TraceInfo
			for _, t := range b {
				tb = append(tb, toTraceInfo(t))
			}
			ch <- tb
		}
	}()
	return ch, nil
}

func runTempo(c *Case) string {
	ctl := &controllerv1.TempoController{Service: &fakeTempoT{c: c}}
	w := newRec()
	c.Items = nil
	switch c.Kind {
	case "trace":
		c.JSpans = nil
		for _, sp := range c.Spans {
			js := unmarshal.SpanToJSONSpan(toSpan(sp))
			b, err := json.Marshal(js)
			if err != nil {
				panic(err)
			}
			c.Items = append(c.Items, hx.Hex(string(b)))
			o := JSpan{F: []string{hx.Hex(js.TraceID), hx.Hex(js.TraceId), hx.Hex(js.SpanID), hx.Hex(js.SpanId), hx.Hex(js.Name),
				strconv.FormatUint(js.StartTimeUnixNano, 10), strconv.FormatUint(js.EndTimeUnixNano, 10), hx.Hex(js.ParentSpanId), hx.Hex(js.ServiceName)},
				Attrs: [][2]string{}, Events: [][2]string{}, Status: []string{}}
			for _, a := range js.Attributes {
				o.Attrs = append(o.Attrs, [2]string{hx.Hex(a.Key), hx.Hex(a.Value.StringValue)})
			}
			for _, e := range js.Events {
				o.Events = append(o.Events, [2]string{strconv.FormatUint(e.TimeUnixNano, 10), hx.Hex(e.Name)})
			}
			if js.Status != nil {
				o.Status = []string{strconv.Itoa(int(js.Status.Code)), hx.Hex(js.Status.Message)}
			}
			c.JSpans = append(c.JSpans, o)
		}
		r := httptest.NewRequest("GET", "/api/traces/x", nil)
		r = mux.SetURLVars(r, map[string]string{"traceId": "0123456789abcdef0123456789abcdef"})
		ctl.Trace(w, r)
	case "search":
		for _, b := range c.Traces {
			for _, t := range b {
				p, _ := json.Marshal(toTraceResponse(t))
				c.Items = append(c.Items, hx.Hex(string(p)))
			}
		}
		ctl.Search(w, httptest.NewRequest("GET", "/api/search?tags=a%3Db", nil))
	case "searchql":
		for _, b := range c.Traces {
			for _, t := range b {
				p, _ := json.Marshal(toTraceInfo(t))
				c.Items = append(c.Items, hx.Hex(string(p)))
			}
		}
		ctl.Search(w, httptest.NewRequest("GET", "/api/search?q=%7B%7D", nil))
	}
	return w.body()
}

// goTempo: encoding/json parse: the spliced pieces, in order
func goTempo(c *Case, body string) string {
	var got []json.RawMessage
	if c.Kind == "trace" {
		var v struct {
			ResourceSpans []struct {
				Resource json.RawMessage `json:"resource"`
				ILS      []struct {
					Spans []json.RawMessage `json:"spans"`
				} `json:"instrumentationLibrarySpans"`
			} `json:"resourceSpans"`
		}
		if err := json.Unmarshal([]byte(body), &v); err != nil {
			return "diff:decode: " + err.Error()
		}
		if len(v.ResourceSpans) != 1 || len(v.ResourceSpans[0].ILS) != 1 {
			return "diff:envelope"
		}
		got = v.ResourceSpans[0].ILS[0].Spans
	} else {
		var v struct {
			Traces []json.RawMessage `json:"traces"`
		}
		if err := json.Unmarshal([]byte(body), &v); err != nil {
			return "diff:decode: " + err.Error()
		}
		got = v.Traces
	}
	if len(got) != len(c.Items) {
		return fmt.Sprintf("diff:%d elements, want %d", len(got), len(c.Items))
	}
	for i, it := range c.Items {
		if string(got[i]) != hx.UnHex(it) {
			return fmt.Sprintf("diff:element %d", i)
		}
	}
	return "ok"
}

var tempoKinds = map[string]bool{"trace": true, "search": true, "searchql": true}

// ---------------------------------------------------------------------------------- list kinds

var listKinds = map[string]bool{"tags": true, "tagvalues": true, "labels": true, "series": true, "tagsv2": true, "valuesv2": true}

func genStoredDoc(r *rand.Rand) (string, bool) {
	m := genLabels(r)
	switch r.Intn(12) {
	case 0: // what the writer's encodeLabels stores (strconv.Quote): not JSON when a byte needs \x
		ks := make([]string, 0, len(m))
		for k := range m {
			ks = append(ks, k)
		}
		sort.Strings(ks)
		var parts []string
		for _, k := range ks {
			parts = append(parts, strconv.Quote(k)+":"+strconv.Quote(m[k]))
		}
		return "{" + strings.Join(parts, ",") + "}", true
	case 1:
		return []string{"", "{", "nul", "{\"a\":1}{}", "[1,2]", " {\"a\" : \"b\"} ", "null", "{\"a\":1}", "{\"a\":\"x\",\"a\":\"y\"}", "{\"a\":null}", "\"s\""}[r.Intn(11)], true
	}
	for k, v := range m { // stored documents are valid UTF-8 JSON in the good case
		if !utf8.ValidString(k) || !utf8.ValidString(v) {
			delete(m, k)
		}
	}
	b, _ := json.Marshal(m)
	return string(b), false
}

func genListCase(r *rand.Rand, id int, kind string) Case {
	c := Case{ID: id, Kind: kind}
	n := 0
	switch r.Intn(8) {
	case 0:
		n, c.Class = 0, "empty"
	case 1, 2:
		n, c.Class = 1, "one"
	default:
		n, c.Class = 2+r.Intn(6), "many"
	}
	odd := false
	for i := 0; i < n; i++ {
		if kind == "series" {
			d, o := genStoredDoc(r)
			odd = odd || o
			c.Items = append(c.Items, hx.Hex(d))
		} else if r.Intn(3) == 0 {
			c.Items = append(c.Items, hx.Hex(genKey(r)))
		} else {
			c.Items = append(c.Items, hx.Hex(genBytes(r)))
		}
	}
	if odd {
		c.Class += "+oddstored"
	}
	return c
}

type fakeTempo struct{ items []string }

func (f *fakeTempo) feed() (chan string, error) {
	ch := make(chan string)
	go func() {
		defer close(ch)
		for _, it := range f.items {
			ch <- it
		}
	}()
	return ch, nil
}
func (f *fakeTempo) Query(ctx context.Context, startNS int64, endNS int64, traceId []byte, binIds bool) (chan *model.SpanResponse, error) {
	return nil, fmt.Errorf("not scripted")
}
func (f *fakeTempo) Tags(ctx context.Context) (chan string, error)               { return f.feed() }
func (f *fakeTempo) Values(ctx context.Context, tag string) (chan string, error) { return f.feed() }
func (f *fakeTempo) ValuesV2(ctx context.Context, key string, query string, from time.Time, to time.Time, limit int) (chan string, error) {
	return f.feed()
}
func (f *fakeTempo) Search(ctx context.Context, tags string, minDurationNS int64, maxDurationNS int64, limit int, fromNS int64, toNS int64) (chan *model.TraceResponse, error) {
	return nil, fmt.Errorf("not scripted")
}
func (f *fakeTempo) SearchTraceQL(ctx context.Context, q string, limit int, from time.Time, to time.Time) (chan []model.TraceInfo, error) {
	return nil, fmt.Errorf("not scripted")
}
func (f *fakeTempo) TagsV2(ctx context.Context, query string, from time.Time, to time.Time, limit int) (chan string, error) {
	return f.feed()
}

func runList(c *Case) string {
	items := make([]string, len(c.Items))
	for i, it := range c.Items {
		items[i] = hx.UnHex(it)
	}
	switch c.Kind {
	case "tags", "tagvalues":
		ctl := &controllerv1.TempoController{Service: &fakeTempo{items: items}}
		w := newRec()
		if c.Kind == "tags" {
			ctl.Tags(w, httptest.NewRequest("GET", "/api/search/tags", nil))
		} else {
			ctl.Values(w, httptest.NewRequest("GET", "/api/search/tag/x/values", nil))
		}
		return w.body()
	case "tagsv2", "valuesv2":
		// without start= the V1 service call feeds the V2 handler, with start= the V2 call: same encoder
		ctl := &controllerv1.TempoController{Service: &fakeTempo{items: items}}
		w := newRec()
		q := ""
		if len(items)%2 == 1 {
			q = "?start=1700000000&end=1700003600&limit=5000"
		}
		if c.Kind == "tagsv2" {
			ctl.TagsV2(w, httptest.NewRequest("GET", "/api/v2/search/tags"+q, nil))
		} else {
			r := mux.SetURLVars(httptest.NewRequest("GET", "/api/v2/search/tag/x/values"+q, nil), map[string]string{"tag": "x"})
			ctl.ValuesV2(w, r)
		}
		return w.body()
	case "labels", "series":
		reg := newRegistry(items)
		defer dropRegistry(reg)
		svc := service.NewQueryLabelsService(&model.ServiceData{Session: reg})
		var ch chan string
		var err error
		if c.Kind == "labels" {
			ch, err = svc.GenericLabelReq(context.Background(), "SELECT DISTINCT key FROM time_series_gin")
		} else {
			ch, err = svc.Series(context.Background(), []string{`{job="a"}`}, 0, 1700000000000, 1)
		}
		if err != nil {
			panic(err)
		}
		var sb strings.Builder
		for str := range ch {
			sb.WriteString(str)
		}
		return sb.String()
	}
	panic("unknown list kind " + c.Kind)
}

// seriesDecoded: what storedLabels (the decoder Series uses since the repair) makes of every stored text:
// c.Order[i] = "1" (listed) / "0" (skipped), c.Blbls = the decoded label sets of the listed ones, sorted by name
func seriesDecoded(c *Case) {
	c.Order, c.Blbls, c.Batches = nil, nil, nil
	for _, it := range c.Items {
		m, err := service.VerifC15StoredLabels(hx.UnHex(it))
		if err != nil {
			c.Order = append(c.Order, "0")
			continue
		}
		c.Order = append(c.Order, "1")
		ls := sortedLbls(m)
		if ls == nil {
			ls = [][2]string{}
		}
		c.Blbls = append(c.Blbls, ls)
		c.Batches = append(c.Batches, []Entry{})
	}
}

// goList: parse the body with encoding/json and compare with the items
func goList(c *Case, body string) string {
	var items []string
	for _, it := range c.Items {
		items = append(items, hx.UnHex(it))
	}
	var got []interface{}
	switch c.Kind {
	case "tags":
		var v struct {
			TagNames []interface{} `json:"tagNames"`
		}
		if err := json.Unmarshal([]byte(body), &v); err != nil {
			return "diff:decode: " + err.Error()
		}
		got = v.TagNames
	case "tagsv2", "valuesv2":
		var v struct {
			Scopes []struct {
				Name string        `json:"name"`
				Tags []interface{} `json:"tags"`
			} `json:"scopes"`
			TagValues []struct {
				Type  string      `json:"type"`
				Value interface{} `json:"value"`
			} `json:"tagValues"`
		}
		if err := json.Unmarshal([]byte(body), &v); err != nil {
			return "diff:decode: " + err.Error()
		}
		if c.Kind == "tagsv2" {
			if len(v.Scopes) != 1 || v.Scopes[0].Name != "unscoped" {
				return "diff:scopes"
			}
			got = v.Scopes[0].Tags
		} else {
			for _, tv := range v.TagValues {
				if tv.Type != "string" {
					return "diff:type"
				}
				got = append(got, tv.Value)
			}
		}
	case "tagvalues":
		var v struct {
			TagValues []interface{} `json:"tagValues"`
		}
		if err := json.Unmarshal([]byte(body), &v); err != nil {
			return "diff:decode: " + err.Error()
		}
		got = v.TagValues
	default:
		var v struct {
			Status string        `json:"status"`
			Data   []interface{} `json:"data"`
		}
		if err := json.Unmarshal([]byte(body), &v); err != nil {
			return "diff:decode: " + err.Error()
		}
		if v.Status != "success" {
			return "diff:status"
		}
		got = v.Data
	}
	if c.Kind == "series" {
		// every stored text that is a JSON object of strings must be listed, with its labels (Go-side reading
		// of the stored text: a generic map); the others (strconv.Quote escapes, garbage) may be listed or skipped
		k := 0
		for i, it := range items {
			var want map[string]string
			isObj := json.Unmarshal([]byte(it), &want) == nil && want != nil
			listed := i < len(c.Order) && c.Order[i] == "1"
			if isObj && !listed {
				return fmt.Sprintf("diff:stored document %d is JSON but was not listed", i)
			}
			if !listed {
				continue
			}
			if k >= len(got) {
				return fmt.Sprintf("diff:%d elements, document %d missing", len(got), i)
			}
			if isObj {
				a, _ := json.Marshal(want)
				b, _ := json.Marshal(got[k])
				if string(a) != string(b) {
					return fmt.Sprintf("diff:element %d", k)
				}
			}
			k++
		}
		if k != len(got) {
			return fmt.Sprintf("diff:%d elements, want %d", len(got), k)
		}
		return "ok"
	}
	if len(got) != len(items) {
		return fmt.Sprintf("diff:%d elements, want %d", len(got), len(items))
	}
	for i, it := range items {
		s, ok := got[i].(string)
		if !ok || s != strings.ToValidUTF8(it, "\uFFFD") && utf8.ValidString(it) {
			return fmt.Sprintf("diff:element %d", i)
		}
	}
	return "ok"
}

// ---------------------------------------------------------------------------------- observations

// unescape the body of a JSON string literal (bytes >= 0x80 are kept as they are)
func unescape(s string) (string, bool) {
	var b []byte
	for i := 0; i < len(s); i++ {
		if s[i] != '\\' {
			b = append(b, s[i])
			continue
		}
		i++
		if i >= len(s) {
			return "", false
		}
		switch s[i] {
		case '"', '\\', '/':
			b = append(b, s[i])
		case 'n':
			b = append(b, '\n')
		case 'r':
			b = append(b, '\r')
		case 't':
			b = append(b, '\t')
		case 'b':
			b = append(b, 8)
		case 'f':
			b = append(b, 12)
		case 'u':
			if i+5 > len(s) {
				return "", false
			}
			n, err := strconv.ParseUint(s[i+1:i+5], 16, 32)
			if err != nil {
				return "", false
			}
			b = utf8.AppendRune(b, rune(n))
			i += 4
		default:
			return "", false
		}
	}
	return string(b), true
}

// readLit: s[p] == '"'; returns the literal's body and the index after the closing quote
func readLit(s string, p int) (string, int, bool) {
	if p >= len(s) || s[p] != '"' {
		return "", p, false
	}
	q := p + 1
	for q < len(s) {
		if s[q] == '\\' {
			q += 2
			continue
		}
		if s[q] == '"' {
			return s[p+1 : q], q + 1, true
		}
		q++
	}
	return "", p, false
}

// headerOrders: for every `{"<key>":{` that starts outside a string literal, the member keys of
// the label object in the order they were written (nil if it cannot be read).
func headerOrders(body, key string) [][]string {
	pat := `{"` + key + `":{`
	var res [][]string
	in := false
	for p := 0; p < len(body); p++ {
		ch := body[p]
		if in {
			if ch == '\\' {
				p++
			} else if ch == '"' {
				in = false
			}
			continue
		}
		if ch == '{' && strings.HasPrefix(body[p:], pat) {
			q := p + len(pat)
			var keys []string
			ok := true
			if q < len(body) && body[q] == '}' {
				res = append(res, []string{})
				p = q
				continue
			}
			for {
				k, q2, o := readLit(body, q)
				if !o || q2 >= len(body) || body[q2] != ':' {
					ok = false
					break
				}
				_, q3, o := readLit(body, q2+1)
				if !o || q3 >= len(body) {
					ok = false
					break
				}
				kk, o := unescape(k)
				if !o {
					ok = false
					break
				}
				keys = append(keys, kk)
				if body[q3] == ',' {
					q = q3 + 1
					continue
				}
				if body[q3] == '}' {
					q = q3
					break
				}
				ok = false
				break
			}
			if ok {
				res = append(res, keys)
				p = q
			} else {
				res = append(res, nil)
			}
			continue
		}
		if ch == '"' {
			in = true
		}
	}
	return res
}

// liveRows: the rows the encoder is meant to output (specification side, written independently
// of the Coq model): EOF entries are skipped (continue) or end their batch (break).
func liveRows(c *Case, eofBreaks bool) []*Entry {
	var rows []*Entry
	for bi := range c.Batches {
		for ei := range c.Batches[bi] {
			e := &c.Batches[bi][ei]
			if e.Err == 1 {
				if eofBreaks {
					break
				}
				continue
			}
			if e.Err == 2 {
				return rows
			}
			rows = append(rows, e)
		}
	}
	return rows
}

func applyOrders(rows []*Entry, orders [][]string) {
	k := 0
	for i, e := range rows {
		if i > 0 && rows[i-1].Fp == e.Fp {
			continue
		}
		if k >= len(orders) {
			return
		}
		ord := orders[k]
		k++
		if ord == nil || len(ord) != len(e.Lbls) {
			continue
		}
		m := map[string]string{}
		for _, kv := range e.Lbls {
			m[hx.UnHex(kv[0])] = kv[1]
		}
		seen := map[string]bool{}
		ok := true
		for _, key := range ord {
			if _, has := m[key]; !has || seen[key] {
				ok = false
			}
			seen[key] = true
		}
		if !ok {
			continue
		}
		nl := make([][2]string, 0, len(ord))
		for _, key := range ord {
			nl = append(nl, [2]string{hx.Hex(key), m[key]})
		}
		e.Lbls = nl
	}
}

type goStream struct {
	Stream map[string]string `json:"stream"`
	Metric map[string]string `json:"metric"`
	Values [][]interface{}   `json:"values"`
}
type goResp struct {
	Status string `json:"status"`
	Data   struct {
		ResultType string     `json:"resultType"`
		Result     []goStream `json:"result"`
	} `json:"data"`
	Streams []goStream `json:"streams"`
}

func allUTF8(rows []*Entry) bool {
	for _, e := range rows {
		if !utf8.ValidString(hx.UnHex(e.Msg)) {
			return false
		}
		for _, kv := range e.Lbls {
			if !utf8.ValidString(hx.UnHex(kv[0])) || !utf8.ValidString(hx.UnHex(kv[1])) {
				return false
			}
		}
	}
	return true
}

// goRows: parse the body with encoding/json and compare with the rows, grouped by contiguous fingerprint.
func goRows(c *Case, body string, rows []*Entry, matrix bool) string {
	for _, b := range c.Batches {
		for _, e := range b {
			if e.Err == 2 {
				return "skip:error entry"
			}
		}
	}
	if !allUTF8(rows) {
		return "skip:not utf8"
	}
	var resp goResp
	dec := json.NewDecoder(strings.NewReader(body))
	dec.UseNumber()
	if err := dec.Decode(&resp); err != nil {
		return "diff:decode: " + err.Error()
	}
	if dec.More() {
		return "diff:trailing data"
	}
	got := resp.Data.Result
	if c.Kind == "tail" {
		got = resp.Streams
	} else {
		want := "streams"
		if matrix {
			want = "matrix"
		}
		if resp.Status != "success" || resp.Data.ResultType != want {
			return "diff:envelope"
		}
	}
	gi := -1
	vi := 0
	for i, e := range rows {
		if i == 0 || rows[i-1].Fp != e.Fp {
			if gi >= 0 && vi != len(got[gi].Values) {
				return fmt.Sprintf("diff:series %d has %d values, want %d", gi, len(got[gi].Values), vi)
			}
			gi++
			vi = 0
			if gi >= len(got) {
				return "diff:too few series"
			}
			lm := got[gi].Stream
			if matrix {
				lm = got[gi].Metric
			}
			if len(lm) != len(e.Lbls) {
				return fmt.Sprintf("diff:labels of series %d", gi)
			}
			for _, kv := range e.Lbls {
				if v, ok := lm[hx.UnHex(kv[0])]; !ok || v != hx.UnHex(kv[1]) {
					return fmt.Sprintf("diff:label %q of series %d", hx.UnHex(kv[0]), gi)
				}
			}
		}
		if vi >= len(got[gi].Values) || len(got[gi].Values[vi]) != 2 {
			return fmt.Sprintf("diff:value %d of series %d missing", vi, gi)
		}
		v := got[gi].Values[vi]
		if matrix {
			n, ok := v[0].(json.Number)
			s, ok2 := v[1].(string)
			if !ok || !ok2 || n.String() != e.Tsf || s != e.Valt {
				return fmt.Sprintf("diff:value %d of series %d", vi, gi)
			}
		} else {
			ts, ok := v[0].(string)
			s, ok2 := v[1].(string)
			if !ok || !ok2 || ts != strconv.FormatInt(e.Ts, 10) || s != hx.UnHex(e.Msg) {
				return fmt.Sprintf("diff:value %d of series %d", vi, gi)
			}
		}
		vi++
	}
	if gi >= 0 && vi != len(got[gi].Values) {
		return fmt.Sprintf("diff:series %d has %d values, want %d", gi, len(got[gi].Values), vi)
	}
	if gi+1 != len(got) {
		return "diff:too many series"
	}
	return "ok"
}

// the float texts the encoders print (the model takes them as given) and whether they lose anything
func fillFloatTexts(c *Case) {
	for bi := range c.Batches {
		for ei := range c.Batches[bi] {
			e := &c.Batches[bi][ei]
			e.Tsf = fmt.Sprintf("%f", float64(e.Ts)/1e9)
			v, _ := strconv.ParseFloat(e.Val, 64)
			val := strconv.FormatFloat(v, 'f', -1, 64)
			if strings.Contains(val, ".") {
				val = strings.TrimSuffix(val, "0")
				val = strings.TrimSuffix(val, ".")
			}
			e.Valt = val
			if e.Err != 0 {
				continue
			}
			back, err := strconv.ParseFloat(val, 64)
			if err != nil || (back != v && !(math.IsNaN(back) && math.IsNaN(v))) {
				c.NumLoss = fmt.Sprintf("value %v printed as %s", v, val)
			}
			if c.Kind == "matrix" && e.Ts%1000000 == 0 && e.Ts > 0 && e.Ts < 5e18 {
				sec, err := strconv.ParseFloat(e.Tsf, 64)
				if err != nil || int64(math.Round(sec*1000)) != e.Ts/1000000 {
					c.NumLoss = fmt.Sprintf("timestamp %d ns printed as %s", e.Ts, e.Tsf)
				}
			}
		}
	}
}

func run(c *Case) {
	if c.Kind == "shortcut" {
		runShortcut(c)
		return
	}
	if c.Kind == "numfmt" {
		runNum(c)
		return
	}
	if c.Kind == "optstreams" {
		runOpt(c)
		return
	}
	if c.Kind == "bigtrace" {
		runBig(c)
		return
	}
	if tempoKinds[c.Kind] {
		var body string
		c.Panic = hx.Catch(func() { body = runTempo(c) })
		c.Out = hx.Hex(body)
		c.GoValid = json.Valid([]byte(body))
		c.GoRows = goTempo(c, body)
		return
	}
	if promKinds[c.Kind] {
		var body string
		c.NumLoss = ""
		c.Panic = hx.Catch(func() { body = runProm(c) })
		c.Out = hx.Hex(body)
		c.GoValid = json.Valid([]byte(body))
		c.GoRows = goProm(c, body)
		return
	}
	if listKinds[c.Kind] {
		var body string
		if c.Kind == "series" {
			seriesDecoded(c)
		}
		c.Panic = hx.Catch(func() { body = runList(c) })
		c.Out = hx.Hex(body)
		c.GoValid = json.Valid([]byte(body))
		c.GoRows = goList(c, body)
		return
	}
	prepRows(c)
	if c.Kind == "vector" { // QueryInstant prints the seconds with WriteInt64: the model takes that text as given
		for bi := range c.Batches {
			for ei := range c.Batches[bi] {
				c.Batches[bi][ei].Tsf = strconv.FormatInt(c.Batches[bi][ei].Ts/1000000000, 10)
			}
		}
	}
	var body string
	c.Panic = hx.Catch(func() {
		switch c.Kind {
		case "streams":
			body = runStreams(c)
		case "matrix":
			body = runMatrix(c)
		case "vector":
			body = runVector(c)
		case "tail":
			body = startTail(c)()
		default:
			panic("unknown kind " + c.Kind)
		}
	})
	finishRows(c, body)
}

func prepRows(c *Case) {
	// inputs arrive with sorted labels; normalise in case a replay file carries observed orders
	for bi := range c.Batches {
		for ei := range c.Batches[bi] {
			l := c.Batches[bi][ei].Lbls
			sort.Slice(l, func(i, j int) bool { return hx.UnHex(l[i][0]) < hx.UnHex(l[j][0]) })
		}
	}
	c.NumLoss = ""
	fillFloatTexts(c)
}

func finishRows(c *Case, body string) {
	c.Out = hx.Hex(body)
	c.GoValid = json.Valid([]byte(body))
	matrix := c.Kind == "matrix"
	if c.Kind == "vector" {
		rows := liveRows(c, true)
		last := map[string]*Entry{}
		for _, e := range rows {
			if o, ok := last[e.Fp]; !ok || o.Ts < e.Ts {
				last[e.Fp] = e
			}
		}
		c.Order = vectorOrder(body)
		// label orders: the k-th "metric" object belongs to the series c.Order[k]
		ords := headerOrders(body, "metric")
		for k, fp := range c.Order {
			if e, ok := last[fp]; ok && k < len(ords) {
				applyOrders([]*Entry{e}, ords[k:k+1])
			}
		}
		c.GoRows = goVector(c, body)
		return
	}
	rows := liveRows(c, matrix)
	key := "stream"
	if matrix {
		key = "metric"
	}
	applyOrders(rows, headerOrders(body, key))
	c.GoRows = goRows(c, body, rows, matrix)
}

func main() {
	runtime.GOMAXPROCS(1) // one P: a stream returned to jsoniter's sync.Pool is the next one borrowed
	f := hx.ParseFlags()
	out := hx.OpenOut(f.Out)
	defer out.Close()
	if f.Cases != "" {
		hx.ReadLines(f.Cases, func(b []byte) {
			var c Case
			if err := json.Unmarshal(b, &c); err != nil {
				panic(err)
			}
			runOverlapped(&c)
			out.Put(c)
		})
		return
	}
	if src := os.Getenv("VERIF_BIGTRACE_SRC"); src != "" {
		mainBig(f.Seed, src, out)
		return
	}
	r := hx.Rand(f.Seed)
	mix := []string{"streams", "matrix", "tags", "prommatrix", "vector", "labels", "shortcut", "tail", "series", "promvector",
		"streams", "tagvalues", "matrix", "vector", "labels", "prommatrix", "tail", "series", "promscalar", "promerror",
		"streams", "matrix", "tags", "prommatrix", "numfmt", "tagvalues", "streams", "tail", "promvector", "matrix",
		"trace", "search", "searchql", "tagsv2", "trace", "matrix", "vector", "valuesv2", "series", "numfmt"}
	cases := make([]Case, f.N)
	var waits []func()
	for i := 0; i < f.N; i++ {
		kind := mix[i%len(mix)]
		if kind == "shortcut" {
			cases[i] = Case{ID: i, Kind: kind, Class: "shortcut"}
		} else if kind == "numfmt" {
			cases[i] = genNumCase(r, i)
		} else if tempoKinds[kind] {
			cases[i] = genTempoCase(r, i, kind)
		} else if promKinds[kind] {
			cases[i] = genPromCase(r, i, kind)
		} else if listKinds[kind] {
			cases[i] = genListCase(r, i, kind)
		} else {
			cases[i] = genCase(r, i, kind)
		}
		c := &cases[i]
		if kind != "tail" {
			run(c)
			continue
		}
		// Tail frames arrive on a one-second ticker: start all watchers, collect the frames afterwards
		prepRows(c)
		var wait func() string
		c.Panic = hx.Catch(func() { wait = startTail(c) })
		if wait != nil {
			waits = append(waits, func() { finishRows(c, wait()) })
		}
	}
	for _, w := range waits {
		w()
	}
	for i := range cases {
		out.Put(cases[i])
	}
	// the stage in front of the streams encoder: small regrouping cases and a few that reach its 3000-row window
	nbig := 5
	if f.N >= 10000 {
		nbig = 25
	}
	for _, oc := range genOptCases(hx.Rand(f.Seed+977), 10+f.N/50, nbig) {
		oc := oc
		run(&oc)
		out.Put(oc)
	}
	// overlapping requests: every case of these kinds is observed a second time while another request
	// of the same family is served inside each of its writes; the body must still be its own document
	var prev = map[string]*Case{}
	for i := range cases {
		c := &cases[i]
		fam := family(c.Kind)
		if fam == "" || c.Panic != "" || c.Skip != "" {
			continue
		}
		other := prev[fam]
		prev[fam] = c
		if other == nil || (fam == "rows" && i%4 != 0) || (fam == "tempo" && i%2 != 0) {
			continue
		}
		d := cloneCase(c)
		d.ID = c.ID + 10000000
		d.Class = c.Class + "+overlapped"
		o := cloneCase(other)
		o.Out, o.With = "", nil
		d.With = &o
		runOverlapped(&d)
		out.Put(d)
	}
}

func runOverlapped(d *Case) {
	if d.With == nil {
		run(d)
		return
	}
	interleave = func() { oc := cloneCase(d.With); run(&oc) }
	run(d)
	interleave = nil
}

func family(kind string) string {
	switch kind {
	case "prommatrix", "promvector", "promscalar", "promerror":
		return "prom"
	case "tags", "tagvalues", "trace", "search", "searchql", "tagsv2", "valuesv2":
		return "tempo"
	case "streams", "matrix", "vector":
		return "rows"
	}
	return ""
}

func cloneCase(c *Case) Case {
	b, _ := json.Marshal(c)
	var d Case
	json.Unmarshal(b, &d)
	return d
}
