// sharedbatch: two clients push at the same time so that their rows land in ONE insert batch of the real samples /
// time-series insert services; client A sends a small well-formed push, client B a request of a chosen SHAPE (remote
// write with many samples in one series, 999 one-sample series and a two-sample series, Loki protobuf / JSON streams with
// many entries, Datadog series with many points, bodies the decoder refuses, ...).  Property C05: "never ... corrupts the
// batch shared with other clients' rows" -- no request makes another client's well-formed push fail.
//
// Everything between the HTTP handler and the ClickHouse connection is the repository's code (router, middleware,
// decoders, parserDoer.onEntries, doParse / doPush, InsertServiceV2 with its shared columns).  The connection is replaced by
// a client whose Do runs ch-go's own proto.Block.EncodeBlock over the input (that is where a real INSERT refuses columns of
// unequal length) and records the row count of every column.  The insert services run with a one-hour interval and are
// flushed by the harness (IInsertServiceV2.PlanFlush) once the requests of both clients have been appended, so sharing the
// batch does not depend on timing.
//
// Each case is printed before it runs ({"begin":id}): if the process dies, the case in progress is the failing input.
package main

import (
	"bytes"
	"context"
	"encoding/json"
	"flag"
	"fmt"
	"io"
	"math/rand"
	"net/http/httptest"
	"os"
	"strings"
	"sync"
	"sync/atomic"
	"time"
	"unsafe"

	"github.com/ClickHouse/ch-go"
	chproto "github.com/ClickHouse/ch-go/proto"
	"github.com/ClickHouse/clickhouse-go/v2/lib/driver"
	"github.com/golang/snappy"
	pprofile "github.com/google/pprof/profile"
	"github.com/gorilla/mux"
	clconfig "github.com/metrico/cloki-config"
	cfgbase "github.com/metrico/cloki-config/config"
	"github.com/metrico/qryn/writer/ch_wrapper"
	"github.com/metrico/qryn/writer/config"
	controllerv1 "github.com/metrico/qryn/writer/controller"
	"github.com/metrico/qryn/writer/model"
	apirouterv1 "github.com/metrico/qryn/writer/router"
	"github.com/metrico/qryn/writer/service"
	"github.com/metrico/qryn/writer/service/impl"
	"github.com/metrico/qryn/writer/service/registry"
	"github.com/metrico/qryn/writer/utils/helpers"
	"github.com/metrico/qryn/writer/utils/logger"
	"github.com/metrico/qryn/writer/utils/numbercache"
	"github.com/metrico/qryn/writer/utils/promise"
	"github.com/metrico/qryn/writer/utils/proto/logproto"
	"github.com/metrico/qryn/writer/utils/proto/prompb"
	"google.golang.org/protobuf/proto"

	"verif/harness/hx"
)

// ------------------------------------------------------------------ case format

// Client: one HTTP request described by its shape.
//
//	kind   prom | lokiproto | lokijson | ddmetrics | pprof (a pprof profile on /ingest: rows of the profile insert service; shape unused)
//	       | zipkin (Zipkin JSON on /tempo/spans: shape [[k, t]] = k spans with t tags each; rows of the two span insert services)
//	shape  run-length list [[k, n], ..]: k series / streams with n samples / entries / points each, in this order
//	bad    "" (well-formed) | "snappy" (corrupt block) | "cut" (wire message cut in the middle) | "ts" (Loki JSON: unparsable timestamp
//	       in the last entry)
type Client struct {
	Kind  string   `json:"kind"`
	Shape [][2]int `json:"shape"`
	Bad   string   `json:"bad,omitempty"`
}

type Case struct {
	ID    int    `json:"id"`
	Class string `json:"class"`
	A     Client `json:"a"`
	B     Client `json:"b"`
	Order string `json:"order"` // a-first | b-first | concurrent
	Obs   *Obs   `json:"obs,omitempty"`
}

type Block struct {
	Table   string `json:"table"`
	Cols    []int  `json:"cols"` // rows of every input column, in the order of the INSERT
	Refused bool   `json:"refused"`
	Err     string `json:"err,omitempty"`
}

type Obs struct {
	AStatus int     `json:"a_status"` // 0: no answer within the deadline
	BStatus int     `json:"b_status"`
	ABody   string  `json:"a_body,omitempty"`
	BBody   string  `json:"b_body,omitempty"`
	Blocks  []Block `json:"blocks"`
	// A's log lines found in the `string` column of accepted samples blocks (A kind lokijson only)
	ALinesStored int `json:"a_lines_stored"`
	// Request calls the samples service had received when the harness flushed
	SplRequests int `json:"spl_requests"`
}

func total(c Client) (series, samples int) {
	for _, s := range c.Shape {
		series += s[0]
		samples += s[0] * s[1]
	}
	return
}

// ------------------------------------------------------------------ the back-end: ch-go's block encoder

type fakeClient struct{}

var (
	blocksMu sync.Mutex
	blocks   []Block
	aMarker  string
	aFound   int
)

func (fakeClient) Ping(ctx context.Context) error { return nil }
func (fakeClient) Do(ctx context.Context, q ch.Query) error {
	if len(q.Input) == 0 {
		return nil
	}
	tbl := "?"
	if f := strings.Fields(q.Body); len(f) >= 3 && strings.EqualFold(f[0], "INSERT") {
		tbl = strings.Trim(f[2], "`(")
	}
	bl := Block{Table: tbl}
	for _, c := range q.Input {
		bl.Cols = append(bl.Cols, c.Data.Rows())
	}
	// what ch-go does with the input before the block goes on the wire (client.go encodeBlock: Rows of the first column)
	b := chproto.Block{Columns: len(q.Input), Rows: q.Input[0].Data.Rows()}
	err := b.EncodeBlock(&chproto.Buffer{}, 54460, q.Input)
	found := 0
	if err != nil {
		bl.Refused = true
		bl.Err = err.Error()
	} else if aMarker != "" {
		for _, c := range q.Input {
			if col, ok := c.Data.(*chproto.ColStr); ok && c.Name == "string" {
				for i := 0; i < col.Rows(); i++ {
					if strings.HasPrefix(col.Row(i), aMarker) {
						found++
					}
				}
			}
		}
	}
	blocksMu.Lock()
	blocks = append(blocks, bl)
	aFound += found
	blocksMu.Unlock()
	return err
}
func (fakeClient) Exec(ctx context.Context, query string, args ...any) error { return nil }
func (fakeClient) Scan(ctx context.Context, req string, args []any, dest ...interface{}) error {
	return nil
}
func (fakeClient) DropIfEmpty(ctx context.Context, name string) error { return nil }
func (fakeClient) TableExists(ctx context.Context, name string) (bool, error) {
	return true, nil
}
func (fakeClient) GetDBExec(env map[string]string) func(ctx context.Context, query string, args ...[]interface{}) error {
	return nil
}
func (fakeClient) GetVersion(ctx context.Context, k uint64) (uint64, error) { return 0, nil }
func (fakeClient) GetSetting(ctx context.Context, tp string, name string) (string, error) {
	return "", nil
}
func (fakeClient) PutSetting(ctx context.Context, tp string, name string, value string) error {
	return nil
}
func (fakeClient) GetFirst(req string, first ...interface{}) error { return nil }
func (fakeClient) GetList(req string) ([]string, error)            { return nil, nil }
func (fakeClient) Close() error                                    { return nil }

func (fakeClient) Query(ctx context.Context, query string, args ...interface{}) (driver.Rows, error) {
	return nil, fmt.Errorf("not implemented")
}
func (fakeClient) QueryRow(ctx context.Context, query string, args ...interface{}) driver.Row {
	return nil
}

// ------------------------------------------------------------------ the insert services, counted and flushed on demand

type counted struct {
	service.IInsertServiceV2
	n *int64
}

func (c counted) Request(req helpers.SizeGetter, insertMode int) *promise.Promise[uint32] {
	p := c.IInsertServiceV2.Request(req, insertMode)
	atomic.AddInt64(c.n, 1) // the rows of req are in the shared columns now
	return p
}

var (
	splRequests int64
	tsRequests  int64
	allServices []service.IInsertServiceV2
)

func setup() *mux.Router {
	logger.Logger.SetOutput(io.Discard)
	helpers.SetGlobalLimit(256 << 20)
	config.Cloki = clconfig.New(clconfig.CLOKI_WRITER, nil, "", "")
	config.Cloki.Setting.SYSTEM_SETTINGS.RetryAttempts = 1
	config.Cloki.Setting.SYSTEM_SETTINGS.RetryTimeoutS = 0
	service.CreateColPools(8)
	node := &model.DataDatabasesMap{ClokiBaseDataBase: cfgbase.ClokiBaseDataBase{Node: "n1", Name: "qryn", WriteTimeout: 5}}
	factory := ch_wrapper.IChClientFactory(func() (ch_wrapper.IChClient, error) { return fakeClient{}, nil })
	mk := func(f func(model.InsertServiceOpts) service.IInsertServiceV2, n *int64) map[string]service.IInsertServiceV2 {
		s := f(model.InsertServiceOpts{Session: factory, Node: node, Interval: time.Hour, ParallelNum: 1})
		s.Init()
		go s.Run()
		allServices = append(allServices, s)
		var w service.IInsertServiceV2 = s
		if n != nil {
			w = counted{s, n}
		}
		return map[string]service.IInsertServiceV2{"n1": w}
	}
	ts := mk(impl.NewTimeSeriesInsertService, &tsRequests)
	spl := mk(impl.NewSamplesInsertService, &splRequests)
	mtr := mk(impl.NewMetricsInsertService, nil)
	tsp := mk(impl.NewTempoSamplesInsertService, &splRequests) // a span pair shares the span batches: counted like samples requests
	ttg := mk(impl.NewTempoTagsInsertService, nil)
	prf := mk(impl.NewProfileSamplesInsertService, &splRequests) // a profile pair shares the profile batch: counted like samples requests
	controllerv1.Registry = registry.NewStaticServiceRegistry(ts, spl, mtr, tsp, ttg, prf)
	controllerv1.FPCache = numbercache.NewCache[uint64](time.Minute*30, func(val uint64) []byte {
		return unsafe.Slice((*byte)(unsafe.Pointer(&val)), 8)
	}, map[string]*model.DataDatabasesMap{"n1": node})
	r := mux.NewRouter()
	cfg := controllerv1.NewMiddlewareConfig(controllerv1.WithExtraMiddlewareDefault...)
	apirouterv1.RouteInsertDataApis(r, cfg)
	apirouterv1.RoutePromDataApis(r, cfg)
	apirouterv1.RouteProfileDataApis(r, cfg)
	apirouterv1.RouteInsertTempoApis(r, controllerv1.NewMiddlewareConfig(controllerv1.WithExtraMiddlewareTempo...))
	apirouterv1.RouteMiscApis(r, cfg)
	return r
}

func flushAll() {
	for _, s := range allServices {
		s.PlanFlush()
	}
}

// ------------------------------------------------------------------ bodies

const baseSec = 1700000000 // 2023-11-14 22:13:20 UTC: 45 000 samples one ms apart stay within the day

type wire struct {
	path, ct string
	body     []byte
}

func validPprof(v int64) []byte {
	fn := &pprofile.Function{ID: 1, Name: "main.work", SystemName: "main.work", Filename: "main.go"}
	fn2 := &pprofile.Function{ID: 2, Name: "main.main", SystemName: "main.main", Filename: "main.go"}
	l1 := &pprofile.Location{ID: 1, Line: []pprofile.Line{{Function: fn, Line: 10}}}
	l2 := &pprofile.Location{ID: 2, Line: []pprofile.Line{{Function: fn2, Line: 20}}}
	p := &pprofile.Profile{
		SampleType: []*pprofile.ValueType{{Type: "samples", Unit: "count"}, {Type: "cpu", Unit: "nanoseconds"}},
		PeriodType: &pprofile.ValueType{Type: "cpu", Unit: "nanoseconds"},
		Period:     10000000,
		Sample: []*pprofile.Sample{
			{Location: []*pprofile.Location{l1, l2}, Value: []int64{1 + v%9, 10000000 * (1 + v%9)}},
			{Location: []*pprofile.Location{l2}, Value: []int64{1, 10000000}},
		},
		Location: []*pprofile.Location{l1, l2},
		Function: []*pprofile.Function{fn, fn2},
	}
	var b bytes.Buffer
	if err := p.Write(&b); err != nil {
		panic(err)
	}
	return b.Bytes()
}

func cut(b []byte) []byte {
	if len(b) < 4 {
		return []byte{0x0a}
	}
	return b[:len(b)/2]
}

// cutProto cuts a wire message so that it no longer parses (half of it may end exactly between two fields)
func cutProto(raw []byte, mk func() proto.Message) []byte {
	for n := len(raw) / 2; n > 0; n-- {
		if proto.Unmarshal(raw[:n], mk()) != nil {
			return raw[:n]
		}
	}
	return []byte{0x0a} // a length-delimited field without its length
}

// build renders a client's request; who distinguishes the label sets of the two clients, id those of different cases
// (the announcement cache of the writer is keyed by the label set: every case announces its own series)
func build(c Client, who string, id int) wire {
	switch c.Kind {
	case "zipkin":
		var b bytes.Buffer
		b.WriteByte('[')
		si := 0
		for _, sh := range c.Shape {
			for k := 0; k < sh[0]; k++ {
				if si > 0 {
					b.WriteByte(',')
				}
				sid := fmt.Sprintf("%016x", uint64(id)<<24|uint64(si)+1)
				if c.Bad == "id" && si == 0 {
					sid = "not-hex-digits!!" // the whole request is refused (a shorter hex id would be padded)
				}
				fmt.Fprintf(&b, `{"traceId":"d6e9329d67b6146c%016x","id":"%s","name":"shared-%s","timestamp":%d,"duration":1000,"localEndpoint":{"serviceName":"shared_%s"},"tags":{`,
					uint64(id)+1, sid, who, int64(baseSec)*1000000+int64(si), who)
				for t := 0; t < sh[1]; t++ {
					if t > 0 {
						b.WriteByte(',')
					}
					fmt.Fprintf(&b, `"k%d":"v%d"`, t, t)
				}
				b.WriteString(`}}`)
				si++
			}
		}
		b.WriteByte(']')
		body := b.Bytes()
		if c.Bad == "cut" {
			body = cut(body)
		}
		return wire{"/tempo/spans", "application/json", body}
	case "pprof":
		body := validPprof(int64(id))
		if c.Bad == "cut" {
			body = cut(body)
		}
		return wire{fmt.Sprintf("/ingest?from=%d&until=%d&name=shared_%s_c%d", baseSec, baseSec+10, who, id), "binary/octet-stream", body}
	case "prom":
		wr := &prompb.WriteRequest{}
		si := 0
		for _, sh := range c.Shape {
			for k := 0; k < sh[0]; k++ {
				ts := &prompb.TimeSeries{Labels: []*prompb.Label{
					{Name: "__name__", Value: "shared_" + who}, {Name: "case", Value: fmt.Sprint("c", id)}, {Name: "s", Value: fmt.Sprint(si)}}}
				for i := 0; i < sh[1]; i++ {
					ts.Samples = append(ts.Samples, &prompb.Sample{Value: float64(i), Timestamp: int64(baseSec)*1000 + int64(i)})
				}
				wr.Timeseries = append(wr.Timeseries, ts)
				si++
			}
		}
		raw, err := proto.Marshal(wr)
		if err != nil {
			panic(err)
		}
		if c.Bad == "cut" {
			raw = cutProto(raw, func() proto.Message { return &prompb.WriteRequest{} })
		}
		body := snappy.Encode(nil, raw)
		if c.Bad == "snappy" {
			body = append([]byte{0xff, 0xff, 0xff, 0x0f}, body[:len(body)/2]...)
		}
		return wire{"/api/v1/prom/remote/write", "application/x-protobuf", body}
	case "lokiproto":
		pr := &logproto.PushRequest{}
		si := 0
		for _, sh := range c.Shape {
			for k := 0; k < sh[0]; k++ {
				st := &logproto.StreamAdapter{Labels: fmt.Sprintf(`{app="shared_%s",case="c%d",s="%d"}`, who, id, si)}
				for i := 0; i < sh[1]; i++ {
					st.Entries = append(st.Entries, &logproto.EntryAdapter{Timestamp: &logproto.Timestamp{Seconds: baseSec, Nanos: int32(i)}, Line: fmt.Sprintf("%s-%d-line %d", who, id, i)})
				}
				pr.Streams = append(pr.Streams, st)
				si++
			}
		}
		raw, err := proto.Marshal(pr)
		if err != nil {
			panic(err)
		}
		if c.Bad == "cut" {
			raw = cutProto(raw, func() proto.Message { return &logproto.PushRequest{} })
		}
		body := snappy.Encode(nil, raw)
		if c.Bad == "snappy" {
			body = append([]byte{0xff, 0xff, 0xff, 0x0f}, body[:len(body)/2]...)
		}
		return wire{"/loki/api/v1/push", "application/x-protobuf", body}
	case "lokijson":
		var b bytes.Buffer
		b.WriteString(`{"streams":[`)
		si := 0
		for _, sh := range c.Shape {
			for k := 0; k < sh[0]; k++ {
				if si > 0 {
					b.WriteByte(',')
				}
				fmt.Fprintf(&b, `{"stream":{"app":"shared_%s","case":"c%d","s":"%d"},"values":[`, who, id, si)
				for i := 0; i < sh[1]; i++ {
					if i > 0 {
						b.WriteByte(',')
					}
					tsv := fmt.Sprint(int64(baseSec)*1000000000 + int64(i))
					if c.Bad == "ts" && i == sh[1]-1 {
						tsv = "17x"
					}
					fmt.Fprintf(&b, `["%s","%s-%d-line %d"]`, tsv, who, id, i)
				}
				b.WriteString(`]}`)
				si++
			}
		}
		b.WriteString(`]}`)
		body := b.Bytes()
		if c.Bad == "cut" {
			body = cut(body)
		}
		return wire{"/loki/api/v1/push", "application/json", body}
	case "ddmetrics":
		var b bytes.Buffer
		b.WriteString(`{"series":[`)
		si := 0
		for _, sh := range c.Shape {
			for k := 0; k < sh[0]; k++ {
				if si > 0 {
					b.WriteByte(',')
				}
				fmt.Fprintf(&b, `{"metric":"shared_%s_c%d_s%d","points":[`, who, id, si)
				for i := 0; i < sh[1]; i++ {
					if i > 0 {
						b.WriteByte(',')
					}
					// whole seconds: the points of a series stay within 12.5 h
					fmt.Fprintf(&b, `{"timestamp":%d,"value":%d}`, baseSec-40000+i%40000, i)
				}
				b.WriteString(`]}`)
				si++
			}
		}
		b.WriteString(`]}`)
		body := b.Bytes()
		if c.Bad == "cut" {
			body = cut(body)
		}
		return wire{"/api/v2/series", "application/json", body}
	}
	panic("unknown client kind " + c.Kind)
}

// ------------------------------------------------------------------ running a case

type answer struct {
	code int
	body string
}

func firstN(s string, n int) string {
	if len(s) > n {
		return s[:n]
	}
	return s
}

func send(router *mux.Router, w wire) chan answer {
	out := make(chan answer, 1)
	go func() {
		req := httptest.NewRequest("POST", w.path, bytes.NewReader(w.body))
		req.Header.Set("Content-Type", w.ct)
		rec := httptest.NewRecorder()
		defer func() {
			if p := recover(); p != nil {
				out <- answer{-1, fmt.Sprint("handler panic: ", p)}
			}
		}()
		router.ServeHTTP(rec, req)
		out <- answer{rec.Code, strings.TrimSpace(firstN(rec.Body.String(), 200))}
	}()
	return out
}

func runCase(router *mux.Router, c *Case, deadline time.Duration) {
	blocksMu.Lock()
	blocks = nil
	aFound = 0
	aMarker = ""
	if c.A.Kind == "lokijson" || c.A.Kind == "lokiproto" {
		aMarker = fmt.Sprintf("a-%d-line", c.ID)
	}
	blocksMu.Unlock()
	wa, wb := build(c.A, "a", c.ID), build(c.B, "b", c.ID)
	base := atomic.LoadInt64(&splRequests)
	var ansA, ansB *answer
	var chA, chB chan answer
	poll := func() {
		select {
		case x := <-chA:
			ansA = &x
		default:
		}
		select {
		case x := <-chB:
			ansB = &x
		default:
		}
	}
	in := func() int64 { return atomic.LoadInt64(&splRequests) - base }
	end := time.Now().Add(deadline)
	waitFor := func(cond func() bool) {
		for !cond() && time.Now().Before(end) {
			time.Sleep(200 * time.Microsecond)
			poll()
		}
	}
	switch c.Order {
	case "a-first":
		chA = send(router, wa)
		waitFor(func() bool { return in() >= 1 || ansA != nil })
		chB = send(router, wb)
	case "b-first":
		chB = send(router, wb)
		waitFor(func() bool { return in() >= 1 || ansB != nil })
		chA = send(router, wa)
	default:
		chA = send(router, wa)
		chB = send(router, wb)
	}
	// both clients' rows are in the shared columns (or the client was answered without a push) ...
	waitFor(func() bool { return (in() >= 2 || ansA != nil || ansB != nil) && (in() >= 1 || (ansA != nil && ansB != nil)) })
	// ... and no further request arrives for 15 ms (a body accounted with more than 1 MiB is pushed in several requests)
	last, since := in(), time.Now()
	for time.Since(since) < 15*time.Millisecond && time.Now().Before(end) {
		time.Sleep(500 * time.Microsecond)
		poll()
		if n := in(); n != last {
			last, since = n, time.Now()
		}
	}
	nreq := int(in())
	for (ansA == nil || ansB == nil) && time.Now().Before(end) {
		flushAll()
		t := time.Now().Add(10 * time.Millisecond)
		for (ansA == nil || ansB == nil) && time.Now().Before(t) {
			time.Sleep(200 * time.Microsecond)
			poll()
		}
	}
	o := &Obs{SplRequests: nreq}
	if ansA != nil {
		o.AStatus, o.ABody = ansA.code, ansA.body
	}
	if ansB != nil {
		o.BStatus, o.BBody = ansB.code, ansB.body
	}
	blocksMu.Lock()
	o.Blocks = append([]Block{}, blocks...)
	o.ALinesStored = aFound
	blocksMu.Unlock()
	c.Obs = o
}

// ------------------------------------------------------------------ generator

func pick(r *rand.Rand, xs ...int) int { return xs[r.Intn(len(xs))] }

func genShape(r *rand.Rand, kind string) ([][2]int, string) {
	// the remote-write decoder hands its samples over every 1000 points, counted across series: shapes around that limit
	switch r.Intn(12) {
	case 0:
		return [][2]int{{1, 1000 + 1 + r.Intn(1500)}}, "one-series-over-1000"
	case 1:
		return [][2]int{{999, 1}, {1, 2}}, "999x1+2"
	case 2:
		k := 1 + r.Intn(998)
		return [][2]int{{k, 1}, {1, 1000 - k + 1 + r.Intn(40)}}, "k-ones-then-crossing"
	case 3:
		return [][2]int{{1, pick(r, 999, 1000, 1001, 1999, 2000, 2001, 3000)}}, "one-series-at-a-multiple"
	case 4:
		return [][2]int{{2 + r.Intn(3), 400 + r.Intn(900)}}, "few-series-crossing"
	case 5:
		n := 1 + r.Intn(4)
		var s [][2]int
		for i := 0; i < n; i++ {
			s = append(s, [2]int{1 + r.Intn(3), r.Intn(1300)})
		}
		return s, "mixed"
	case 6:
		return [][2]int{{1 + r.Intn(2000), 1}}, "ordinary-one-sample-series"
	case 7:
		return [][2]int{{1, 0}, {1, 1 + r.Intn(5)}, {2, 0}}, "empty-series"
	case 8:
		if r.Intn(3) == 0 {
			return [][2]int{{1, 41000 + r.Intn(6000)}}, "over-1MiB"
		}
		return [][2]int{{1 + r.Intn(3), 1001 + r.Intn(3000)}}, "series-over-1000"
	case 9:
		return [][2]int{{1 + r.Intn(3), 1 + r.Intn(30)}}, "small"
	case 10:
		return [][2]int{{500 + r.Intn(400), 1}, {1, 700 + r.Intn(700)}, {r.Intn(300), 1}}, "ones-crossing-ones"
	}
	return [][2]int{{1, 1 + r.Intn(999)}}, "one-series-under-1000"
}

func gen(r *rand.Rand, id int) Case {
	c := Case{ID: id}
	if r.Intn(9) == 1 {
		// two span pushes in one batch of the span / attribute insert services
		c.A = Client{Kind: "zipkin", Shape: [][2]int{{1 + r.Intn(3), r.Intn(4)}}}
		c.B = Client{Kind: "zipkin", Shape: [][2]int{{1 + r.Intn(400), r.Intn(12)}}}
		cls := "spans"
		switch r.Intn(5) {
		case 0:
			c.B.Bad = "cut"
			cls += "/bad-cut"
		case 1:
			c.B.Bad = "id"
			cls += "/bad-id"
		case 2:
			c.B.Shape = [][2]int{{3000 + r.Intn(3000), 8}} // more than 1 MiB accounted: several requests
			cls += "/over-1MiB"
		}
		c.Order = []string{"a-first", "b-first", "concurrent"}[r.Intn(3)]
		c.Class = "zipkin/" + cls + "/" + c.Order
		return c
	}
	if r.Intn(9) == 0 {
		// two profile pushes in one batch of the profile insert service
		c.A = Client{Kind: "pprof", Shape: [][2]int{{1, 1}}}
		c.B = Client{Kind: "pprof", Shape: [][2]int{{1, 1}}}
		cls := "one-profile"
		if r.Intn(3) == 0 {
			c.B.Bad = "cut"
			cls += "/bad-cut"
		}
		c.Order = []string{"a-first", "b-first", "concurrent"}[r.Intn(3)]
		c.Class = "pprof/" + cls + "/" + c.Order
		return c
	}
	c.A = Client{Kind: "lokijson", Shape: [][2]int{{1, 1 + r.Intn(3)}}}
	if r.Intn(4) == 0 {
		c.A = Client{Kind: "prom", Shape: [][2]int{{1 + r.Intn(3), 1}}}
	}
	kind := "prom"
	switch r.Intn(10) {
	case 0:
		kind = "lokiproto"
	case 1:
		kind = "lokijson"
	case 2:
		kind = "ddmetrics"
	}
	shape, cls := genShape(r, kind)
	if kind != "prom" && cls == "over-1MiB" {
		shape, cls = [][2]int{{1, 1000 + r.Intn(3000)}}, "one-series-over-1000"
	}
	c.B = Client{Kind: kind, Shape: shape}
	if r.Intn(8) == 0 {
		switch kind {
		case "prom", "lokiproto":
			c.B.Bad = []string{"snappy", "cut"}[r.Intn(2)]
		case "lokijson":
			c.B.Bad = []string{"ts", "cut"}[r.Intn(2)]
			if _, n := total(c.B); n == 0 {
				c.B.Bad = "cut"
			}
		default:
			c.B.Bad = "cut"
		}
		cls += "/bad-" + c.B.Bad
	}
	c.Order = []string{"a-first", "b-first", "concurrent"}[r.Intn(3)]
	c.Class = kind + "/" + cls + "/" + c.Order
	return c
}

func main() {
	deadlineMs := flag.Int("deadline-ms", 20000, "per-case deadline")
	genOnly := flag.Bool("gen-only", false, "print the generated cases without running them")
	f := hx.ParseFlags()
	var cases []Case
	if f.Cases != "" {
		hx.ReadLines(f.Cases, func(line []byte) {
			var c Case
			if err := json.Unmarshal(line, &c); err != nil {
				panic(err)
			}
			c.Obs = nil
			cases = append(cases, c)
		})
	} else {
		r := hx.Rand(f.Seed)
		// the two shapes of the catch-up send come first, whatever the seed
		fixed := [][][2]int{{{1, 1500}}, {{999, 1}, {1, 2}}, {{1, 1000}}, {{1, 1001}}, {{2000, 1}}}
		for i, sh := range fixed {
			if i >= f.N {
				break
			}
			cases = append(cases, Case{ID: i, Class: "prom/fixed/a-first", A: Client{Kind: "lokijson", Shape: [][2]int{{1, 1}}},
				B: Client{Kind: "prom", Shape: sh}, Order: "a-first"})
		}
		for i := len(cases); i < f.N; i++ {
			cases = append(cases, gen(r, i))
		}
	}
	of := os.Stdout
	if f.Out != "-" && f.Out != "" {
		var err error
		if of, err = os.Create(f.Out); err != nil {
			panic(err)
		}
	}
	put := func(v interface{}) {
		b, err := json.Marshal(v)
		if err != nil {
			panic(err)
		}
		of.Write(append(b, '\n'))
	}
	if *genOnly {
		for i := range cases {
			put(&cases[i])
		}
		return
	}
	devnull, _ := os.OpenFile(os.DevNull, os.O_WRONLY, 0)
	os.Stdout = devnull // the repository prints from some decoders
	router := setup()
	for i := range cases {
		put(map[string]int{"begin": cases[i].ID})
		runCase(router, &cases[i], time.Duration(*deadlineMs)*time.Millisecond)
		put(&cases[i])
	}
}
