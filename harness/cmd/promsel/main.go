// promsel: Prometheus / Pyroscope selection (property C17, part 2).
//
//	kind "sql"      transpiler.TranspileLabelMatchers / TranspileLabelMatchersDownsample called directly
//	                with generated hints x planner context x matchers: the SQL text;
//	kind "prof"     prof/transpiler.StreamSelectorPlanner on generated (and parsed) selectors: the SQL text;
//	kind "querier"  CLokiQueriable.Querier(..).Select(..) over a scripted database/sql driver: the SQL text
//	                it sends (main + labels request), and the series it assembles from generated rows;
//	                plus a generated small database and regex oracle tables on which the check evaluates
//	                the SQL with the reference interpreter (coq/model/PromSem.v).
//
// Inputs and observations travel as JSON; checks/promsel.py turns them into terms of the Coq models.
package main

import (
	"context"
	"database/sql/driver"
	"encoding/json"
	"fmt"
	"math/rand"
	"regexp"
	"sort"
	"strings"
	"time"

	"github.com/metrico/cloki-config/config"
	"github.com/metrico/qryn/reader/logql/logql_transpiler_v2/shared"
	"github.com/metrico/qryn/reader/model"
	profparser "github.com/metrico/qryn/reader/prof/parser"
	proftr "github.com/metrico/qryn/reader/prof/transpiler"
	"github.com/metrico/qryn/reader/promql/transpiler"
	"github.com/metrico/qryn/reader/service"
	sql "github.com/metrico/qryn/reader/utils/sql_select"
	"github.com/metrico/qryn/reader/utils/tables"
	"github.com/prometheus/prometheus/model/labels"
	"github.com/prometheus/prometheus/storage"
	"verif/harness/hx"
)

type Hints struct {
	Start int64  `json:"start"`
	End   int64  `json:"end"`
	Step  int64  `json:"step"`
	Func  string `json:"func"`
	Range int64  `json:"range"`
}
type Matcher struct {
	Name string `json:"n"`
	Op   string `json:"op"`
	Val  string `json:"v"`
	E    bool   `json:"e"` // observation: labels.Matcher.Matches(""), the oracle value the planner model needs for a regex matcher
}
type Ctx struct {
	FromNs  int64 `json:"from_ns"`
	ToNs    int64 `json:"to_ns"`
	Limit   int64 `json:"limit"`
	Type    uint8 `json:"type"`
	Cluster bool  `json:"cluster"`
}
type Row struct {
	Fp  uint64 `json:"fp"`
	Val int64  `json:"val"`
	Ts  int64  `json:"ts"`
}
type LabelsRow struct {
	Fp     uint64      `json:"fp"`
	Labels [][2]string `json:"labels"`
}
type OutSeries struct {
	Labels  [][2]string `json:"labels"`
	Fp      uint64      `json:"fp"`
	Samples [][2]int64  `json:"samples"` // (ts, value)
}

// the small database of the reference interpreter
type DBSeries struct {
	Fp     uint64      `json:"fp"`
	Type   int64       `json:"type"`
	Labels [][2]string `json:"labels"`
	Days   []int64     `json:"days"` // days (since epoch) on which index / series rows exist
}
type DBSample struct {
	Fp    uint64 `json:"fp"`
	Type  int64  `json:"type"`
	TsNs  int64  `json:"ts_ns"`
	Value int64  `json:"value"`
}
type DB struct {
	Series  []DBSeries `json:"series"`
	Samples []DBSample `json:"samples"`
}
type ReEntry struct {
	P      string `json:"p"`
	V      string `json:"v"`
	Search bool   `json:"search"` // regexp.MatchString(p, v): RE2 search, what ClickHouse match() computes
	Full   bool   `json:"full"`   // labels.Matcher.Matches(v): Prometheus (anchored)
	Anch   bool   `json:"anch"`   // p is "^(?:" + value + ")$" of a matcher: only Search is meaningful
}

type Tables struct {
	Gin     string `json:"gin"`
	Samples string `json:"samples"`
	Ts      string `json:"ts"`
	TsDist  string `json:"ts_dist"`
	M15     string `json:"m15"`
	ProfGin string `json:"prof_gin"`
}

func tablesOf(pc *shared.PlannerContext) *Tables {
	return &Tables{pc.TimeSeriesGinTableName, pc.SamplesTableName, pc.TimeSeriesTableName, pc.TimeSeriesDistTableName,
		pc.Metrics15sTableName, pc.ProfilesSeriesGinTable}
}

// a stored profile series on one day (rows of profiles_series_gin are derived from it: one per label)
type PSeries struct {
	Fp      uint64      `json:"fp"`
	Day     int64       `json:"day"`
	TypeID  string      `json:"type_id"`
	Service string      `json:"service"`
	Stu     [][2]string `json:"stu"`
	Labels  [][2]string `json:"labels"`
}

type Selector struct {
	Name string `json:"n"`
	Op   string `json:"op"`
	Val  string `json:"v"` // unquoted
	E    bool   `json:"e"` // observation: the Prometheus matcher of this selector matches "" (the oracle value the planner model asks)
}

// a series announced on some days (rows of time_series): what the labels request can find
type LSeries struct {
	Fp     uint64      `json:"fp"`
	Labels [][2]string `json:"labels"`
	Days   []int64     `json:"days"`
	Log    bool        `json:"log,omitempty"` // a LOG stream (rows of type 1): PromQL must not read its label set
}

// one Select of a multi-Select run on ONE querier object
type Call struct {
	Hints     *Hints      `json:"hints"`
	Ms        []Matcher   `json:"ms"`
	Rows      []Row       `json:"rows"`
	SQL       string      `json:"sql,omitempty"`
	SQLLabels []string    `json:"sql_labels,omitempty"`
	Obs       []OutSeries `json:"obs,omitempty"`
	Err       string      `json:"err,omitempty"`
}

type Case struct {
	ID    int      `json:"id"`
	Kind  string   `json:"kind"`
	Sub   string   `json:"sub,omitempty"`
	Class []string `json:"class"`
	// inputs
	Hints   *Hints      `json:"hints,omitempty"`
	Ctx     *Ctx        `json:"ctx,omitempty"`
	Ms      []Matcher   `json:"ms,omitempty"`
	Sels    []Selector  `json:"sels,omitempty"`
	Query   string      `json:"query,omitempty"` // profile selector text given to the real parser
	Rows    []Row       `json:"rows,omitempty"`
	Fetch   []LabelsRow `json:"fetch,omitempty"`
	DB      *DB         `json:"db,omitempty"`
	PDB     []PSeries   `json:"pdb,omitempty"`
	LDB     []LSeries   `json:"ldb,omitempty"`
	Calls   []Call      `json:"calls,omitempty"`
	Oracle  []ReEntry   `json:"oracle,omitempty"`
	Sorted  bool        `json:"sort_series,omitempty"`
	// kind "prof": further matchers of a Series request (/querier.v1.QuerierService/Series with several matchers);
	// members[0] is Query itself. Observations: each member's own selector statement, and the statement PlanSeries builds
	Members   []Member `json:"members,omitempty"`
	SeriesSQL string   `json:"series_sql,omitempty"`
	// observations
	SQL       string      `json:"sql,omitempty"`
	SQLLabels string      `json:"sql_labels,omitempty"`
	MapResult bool        `json:"map_result"`
	Obs       []OutSeries `json:"obs,omitempty"`
	Err       string      `json:"err,omitempty"`
	ErrText   string      `json:"err_text,omitempty"`
	// table names the planner context was populated with
	Tables *Tables `json:"tables,omitempty"`
}

// one matcher of a multi-matcher Series request
type Member struct {
	Query  string     `json:"query"`
	Sels   []Selector `json:"sels,omitempty"`
	SQL    string     `json:"sql,omitempty"` // StreamSelectorPlanner.Process of this matcher alone
	Oracle []ReEntry  `json:"oracle,omitempty"`
	Err    string     `json:"err,omitempty"`
}

var opCtor = map[string]string{"=": "MEq", "!=": "MNeq", "=~": "MRe", "!~": "MNre"}

// ---------------------------------------------------------------- generators

var instantFns = []string{"abs", "absent", "ceil", "exp", "floor", "ln", "log2", "log10", "round", "scalar", "sgn", "sort", "sqrt",
	"timestamp", "atan", "cos", "cosh", "sin", "sinh", "tan", "tanh", "deg", "rad"}
var rangeFns = []string{"absent_over_time", "deriv", "idelta", "irate", "rate", "resets", "min_over_time", "max_over_time", "sum_over_time",
	"count_over_time", "stddev_over_time", "stdvar_over_time", "last_over_time", "present_over_time", "delta", "increase", "avg_over_time",
	"quantile_over_time", "changes", "holt_winters", "predict_linear"}
var otherFns = []string{"sum", "min", "max", "group", "avg", "count", "topk", "bottomk", "stddev", "quantile", "histogram_quantile",
	"label_replace", "clamp", "vector", "time", "Rate", "rate ", "foo"}

func pick(r *rand.Rand, xs []string) string { return xs[r.Intn(len(xs))] }

func genHints(r *rand.Rand) (*Hints, []string) {
	h := &Hints{}
	var class []string
	switch r.Intn(10) {
	case 0, 1, 2:
		h.Func = ""
		class = append(class, "fn-none")
	case 3, 4:
		h.Func = pick(r, instantFns)
		class = append(class, "fn-instant")
	case 5, 6, 7:
		h.Func = pick(r, rangeFns)
		class = append(class, "fn-range")
	default:
		h.Func = pick(r, otherFns)
		class = append(class, "fn-other")
	}
	base := int64(1700000000000) + int64(r.Intn(4*86400))*1000
	switch r.Intn(4) {
	case 0:
		h.Start = base - base%15000
	case 1:
		h.Start = base - base%15000 + int64(r.Intn(15000))
	case 2: // next to midnight: the FormatFromDate margin
		h.Start = (int64(19700+r.Intn(30))*86400 + int64(r.Intn(3600))) * 1000
	default:
		h.Start = base + int64(r.Intn(1000))
	}
	h.End = h.Start + int64(1+r.Intn(7200))*1000
	if r.Intn(5) == 0 {
		h.End = h.Start + int64(r.Intn(3))*86400000 + int64(r.Intn(1000))
	}
	if r.Intn(8) == 0 { // window ending in the first half hour of a UTC day: the upper date bounds
		h.End = (int64(19700+r.Intn(30))*86400 + int64(r.Intn(1800))) * 1000
		h.Start = h.End - int64(1+r.Intn(7200))*1000
		class = append(class, "to-after-midnight")
	}
	h.Step = []int64{0, 0, 1, 1000, 5000, 7000, 14999, 15000, 30000, 60000, 300000}[r.Intn(11)]
	h.Range = []int64{0, 0, 1000, 5000, 14999, 15000, 60000, 300000, 3600000}[r.Intn(9)]
	if r.Intn(14) == 0 { // the down-sampled count_over_time: the only request that installs MapResult
		h.Func = "count_over_time"
		h.Start -= h.Start % 15000
		h.End = h.Start + int64(1+r.Intn(240))*15000
		h.Step = []int64{15000, 30000, 60000, 300000}[r.Intn(4)]
		h.Range = []int64{0, 15000, 60000, 300000}[r.Intn(4)]
		class = append(class, "map-result")
	}
	if strings.HasSuffix(h.Func, "_over_time") || h.Func == "rate" || h.Func == "irate" {
		if h.Range == 0 && r.Intn(4) != 0 {
			h.Range = []int64{5000, 60000, 300000}[r.Intn(3)]
		}
	}
	return h, class
}

var labelNames = []string{"__name__", "job", "instance", "env", "le", "code", "service_name", "a_b"}
var labelValues = []string{"up", "http_requests_total", "cpu", "api", "api-gw", "db", "prod", "dev", "200", "500", "0.5", "+Inf",
	"it's", `a\b`, "x%y_z", "h:9090", "é", "a b=c", ""}
var regexes = []string{"api", "api.*", ".*", ".+", "up|cpu", "^api$", "[a-z]+", "", "db\\d*", "a|", "5..", ".*gw", "(api|db)", "h:90.0",
	"it's", "pr.d", "[^a]*", "\\+Inf", "x%y_z", "http_.+_total", "c"}

func genMatchers(r *rand.Rand) ([]Matcher, []string) {
	n := []int{0, 1, 1, 2, 2, 2, 3, 3, 4, 5}[r.Intn(10)]
	var class []string
	if r.Intn(40) == 0 {
		n = 9 + r.Intn(3)
		class = append(class, "many-matchers")
	}
	var ms []Matcher
	for i := 0; i < n; i++ {
		m := Matcher{Name: pick(r, labelNames), Op: []string{"=", "=", "!=", "=~", "=~", "!~"}[r.Intn(6)]}
		if i == 0 && r.Intn(2) == 0 {
			m.Name = "__name__"
		}
		if m.Op == "=~" || m.Op == "!~" {
			m.Val = pick(r, regexes)
		} else {
			m.Val = pick(r, labelValues)
		}
		ms = append(ms, m)
	}
	return ms, class
}

func promMatchers(ms []Matcher) ([]*labels.Matcher, error) {
	var res []*labels.Matcher
	for i, m := range ms {
		t := map[string]labels.MatchType{"=": labels.MatchEqual, "!=": labels.MatchNotEqual, "=~": labels.MatchRegexp, "!~": labels.MatchNotRegexp}[m.Op]
		pm, err := labels.NewMatcher(t, m.Name, m.Val)
		if err != nil {
			return nil, err
		}
		ms[i].E = pm.Matches("")
		res = append(res, pm)
	}
	return res, nil
}

func storageHints(h *Hints) *storage.SelectHints {
	return &storage.SelectHints{Start: h.Start, End: h.End, Step: h.Step, Func: h.Func, Range: h.Range}
}

func mkPlannerCtx(c *Ctx) *shared.PlannerContext {
	pc := &shared.PlannerContext{IsCluster: c.Cluster, From: time.Unix(0, c.FromNs), To: time.Unix(0, c.ToNs), Limit: c.Limit, Type: c.Type}
	db := &model.DataDatabasesMap{Config: &config.ClokiBaseDataBase{Name: "qryn"}}
	if c.Cluster {
		db.Config.ClusterName = "cl1"
	}
	tables.PopulateTableNames(pc, db)
	return pc
}

func render(q sql.ISelect, cluster bool) (string, error) {
	var opts []int
	if cluster {
		opts = []int{sql.STRING_OPT_INLINE_WITH}
	}
	return q.String(&sql.Ctx{Params: map[string]sql.SQLObject{}, Result: map[string]sql.SQLObject{}}, opts...)
}

// ---------------------------------------------------------------- kind "sql"

func runSQL(c *Case) {
	c.SQL, c.Err, c.ErrText = "", "", ""
	pc := mkPlannerCtx(c.Ctx)
	c.Tables = tablesOf(pc)
	pms, err := promMatchers(c.Ms)
	if err != nil {
		c.Err, c.ErrText = "matcher", err.Error()
		return
	}
	p := hx.Catch(func() {
		var resp *transpiler.TranspileResponse
		if c.Sub == "raw" {
			resp, err = transpiler.TranspileLabelMatchers(storageHints(c.Hints), pc, pms...)
		} else {
			resp, err = transpiler.TranspileLabelMatchersDownsample(storageHints(c.Hints), pc, pms...)
		}
		if err != nil {
			return
		}
		c.MapResult = resp.MapResult != nil
		c.SQL, err = render(resp.Query, c.Ctx.Cluster)
	})
	if p != "" {
		c.Err, c.ErrText = "panic", p
		return
	}
	if err != nil {
		c.Err, c.ErrText = "process", err.Error()
	}
}

// ---------------------------------------------------------------- kind "prof"

var profNames = []string{"__name__", "__period_type__", "__period_unit__", "__sample_type__", "__sample_unit__", "__profile_type__",
	"service_name", "pod", "region", "a_b", "__name", "service_name_"}
var profValues = []string{"process_cpu", "cpu", "nanoseconds", "samples", "count", "memory", "alloc_objects", "bytes",
	"process_cpu:cpu:nanoseconds:cpu:nanoseconds", "my-svc", "eu-west", "it's", "a b", "x%y", ""}
var profRegexes = []string{"cpu", "process_.*", ".*", ".+", "cpu|memory", "^my-svc$", "[a-z_]+", "", "eu-.*", "(a|b)", "it's"}

func quoteSel(r *rand.Rand, v string) string {
	if !strings.Contains(v, "`") && r.Intn(3) == 0 {
		// Unquote trims every leading and trailing back-tick: an empty ticked string `` is unquoted to ""
		return "`" + v + "`"
	}
	return fmt.Sprintf("%q", v)
}

func genProf(r *rand.Rand) ([]Selector, string) {
	n := []int{0, 1, 1, 2, 2, 3, 3, 4, 5, 7}[r.Intn(10)]
	var sels []Selector
	var parts []string
	for i := 0; i < n; i++ {
		s := Selector{Name: pick(r, profNames), Op: []string{"=", "=", "!=", "=~", "!~"}[r.Intn(5)]}
		if s.Op == "=~" || s.Op == "!~" {
			s.Val = pick(r, profRegexes)
		} else {
			s.Val = pick(r, profValues)
		}
		sels = append(sels, s)
		parts = append(parts, s.Name+s.Op+quoteSel(r, s.Val))
	}
	return sels, "{" + strings.Join(parts, ", ") + "}"
}

// class "absent-multi" for profile selectors: several selectors on stored labels that accept "" (each must exclude on its
// own), values drawn from the case's stored series
func genProfAbsentMulti(r *rand.Rand, pdb []PSeries) string {
	tl := map[string]string{}
	var parts []string
	if len(pdb) > 0 {
		t := pdb[r.Intn(len(pdb))]
		for _, kv := range t.Labels {
			tl[kv[0]] = kv[1]
		}
		switch r.Intn(4) {
		case 0:
			parts = append(parts, "service_name="+quoteSel(r, t.Service))
		case 1:
			parts = append(parts, "__profile_type__=~"+quoteSel(r, ".*"))
		}
	}
	k := 2 + r.Intn(2)
	for j := 0; j < k; j++ {
		p := profLabelPool[r.Intn(len(profLabelPool))]
		v := p[1+r.Intn(len(p)-1)]
		if own, ok := tl[p[0]]; ok && r.Intn(2) == 0 {
			v = own
		}
		other := p[1+r.Intn(len(p)-1)]
		var op, val string
		switch r.Intn(8) {
		case 0, 1, 2:
			op, val = "!=", v
		case 3:
			op, val = "!~", regexp.QuoteMeta(v)
		case 4:
			op, val = "!~", regexp.QuoteMeta(v)+"|"+regexp.QuoteMeta(other)
		case 5:
			op, val = "=", ""
		case 6:
			op, val = "=~", regexp.QuoteMeta(v)+"|"
		default:
			op, val = []string{"!~", "=~"}[r.Intn(2)], ".+"
			if op == "=~" {
				val = ".*"
			}
		}
		parts = append(parts, p[0]+op+quoteSel(r, val))
	}
	r.Shuffle(len(parts), func(i, j int) { parts[i], parts[j] = parts[j], parts[i] })
	return "{" + strings.Join(parts, ", ") + "}"
}

// class "self-anchored" for profile selectors (see genSelfAnchored): on a stored label or on service_name
func genProfSelfAnchored(r *rand.Rand, pdb *[]PSeries) (string, string) {
	if len(*pdb) == 0 {
		return `{service_name=~"^api|canary$"}`, "prefix-branch"
	}
	ti := r.Intn(len(*pdb))
	t := (*pdb)[ti]
	name, v := "service_name", t.Service
	if len(t.Labels) > 0 && (r.Intn(3) != 0 || len([]rune(v)) < 2) {
		kv := t.Labels[r.Intn(len(t.Labels))]
		name, v = kv[0], kv[1]
	}
	others := []string{"canary", "zz", "p-2", "api", "9"}
	val, form := selfAnchoredValue(r, v, others[r.Intn(len(others))])
	if strings.HasPrefix(form, "escaped-dollar") {
		pre, _ := regexpLiteralBefore(val)
		for _, tail := range []string{"$" + strings.TrimPrefix(v, pre), "$"} {
			cl := t
			cl.Fp = t.Fp + 7919*uint64(len(tail))
			cl.Labels = nil
			if name == "service_name" {
				cl.Service = pre + tail
			}
			for _, x := range t.Labels {
				if x[0] == name {
					x[1] = pre + tail
				}
				cl.Labels = append(cl.Labels, x)
			}
			*pdb = append(*pdb, cl)
		}
	}
	op := []string{"=~", "=~", "!~"}[r.Intn(3)]
	parts := []string{name + op + quoteSel(r, val)}
	switch r.Intn(4) {
	case 0:
		parts = append(parts, "__profile_type__=~"+quoteSel(r, ".*"))
	case 1:
		parts = append([]string{"service_name=~" + quoteSel(r, ".*")}, parts...)
	}
	return "{" + strings.Join(parts, ", ") + "}", form
}

// the literal in front of the final \$ of a value built by selfAnchoredValue, QuoteMeta undone
func regexpLiteralBefore(val string) (string, bool) {
	pre := strings.TrimSuffix(val[strings.LastIndex(val, "|")+1:], `\$`)
	pre = strings.TrimPrefix(pre, "^")
	raw := ""
	for i := 0; i < len(pre); i++ {
		if pre[i] == '\\' && i+1 < len(pre) {
			i++
		}
		raw += string(pre[i])
	}
	return raw, true
}

// measured for the evidence: a selector value that begins with ^ or ends with $ and a stored series inside the date bounds on
// whose value (stored label, or service name) the value searched as it is and the anchored match disagree
func profSelfAnchoredDiffers(sels []Selector, c *Ctx, pdb []PSeries) bool {
	for _, s := range sels {
		if (s.Op != "=~" && s.Op != "!~") || !(strings.HasPrefix(s.Val, "^") || strings.HasSuffix(s.Val, "$")) {
			continue
		}
		re, err := regexp.Compile(s.Val)
		are, aerr := regexp.Compile("^(?:" + s.Val + ")$")
		if err != nil || aerr != nil || (profPseudo[s.Name] && s.Name != "service_name") {
			continue
		}
		for _, p := range pdb {
			if p.Day < c.FromNs/86400000000000-1 || p.Day > c.ToNs/86400000000000 {
				continue
			}
			v := ""
			if s.Name == "service_name" {
				v = p.Service
			}
			for _, kv := range p.Labels {
				if kv[0] == s.Name && s.Name != "service_name" {
					v = kv[1]
				}
			}
			if re.MatchString(v) != are.MatchString(v) {
				return true
			}
		}
	}
	return false
}

var profPseudo = map[string]bool{"__name__": true, "__period_type__": true, "__period_unit__": true, "__sample_type__": true,
	"__sample_unit__": true, "__profile_type__": true, "service_name": true}

// measured for the evidence: a stored series inside the date bounds is rejected by some but not all of the (at least two)
// selectors on stored labels that accept ""
func profSomeNotAll(sels []Selector, c *Ctx, pdb []PSeries) bool {
	var absent []*labels.Matcher
	for _, s := range sels {
		if profPseudo[s.Name] || !s.E {
			continue
		}
		mt := map[string]labels.MatchType{"=": labels.MatchEqual, "!=": labels.MatchNotEqual, "=~": labels.MatchRegexp, "!~": labels.MatchNotRegexp}[s.Op]
		if m, err := labels.NewMatcher(mt, s.Name, s.Val); err == nil {
			absent = append(absent, m)
		}
	}
	if len(absent) < 2 {
		return false
	}
	for _, s := range pdb {
		if s.Day < c.FromNs/86400000000000-1 || s.Day > c.ToNs/86400000000000 {
			continue
		}
		rej := 0
		for _, m := range absent {
			v := ""
			for _, kv := range s.Labels {
				if kv[0] == m.Name {
					v = kv[1]
				}
			}
			if !m.Matches(v) {
				rej++
			}
		}
		if rej > 0 && rej < len(absent) {
			return true
		}
	}
	return false
}

var typeIDs = []string{"process_cpu:cpu:nanoseconds", "memory:alloc_objects:count", "memory:inuse_space:bytes", "goroutine:goroutine:count", "process_cpu", ""}
var stus = [][][2]string{
	{{"cpu", "nanoseconds"}, {"samples", "count"}},
	{{"alloc_objects", "count"}, {"alloc_space", "bytes"}},
	{{"goroutine", "count"}},
	{{"cpu", "bytes"}},
	{},
}
var profLabelPool = [][]string{{"pod", "p-1", "p-2", "my-svc"}, {"region", "eu-west", "us-east"}, {"a_b", "it's", "a b", "x%y"}}

func genPDB(r *rand.Rand, c *Ctx) []PSeries {
	var res []PSeries
	n := 2 + r.Intn(4)
	dayFrom, dayTo := c.FromNs/86400000000000, c.ToNs/86400000000000
	if dayTo < dayFrom { // an inverted window (the planner accepts it): series around both bounds
		dayFrom, dayTo = dayTo, dayFrom
	}
	for i := 0; i < n; i++ {
		s := PSeries{Fp: r.Uint64(), TypeID: pick(r, typeIDs), Service: []string{"my-svc", "api", "api-gw", ""}[r.Intn(4)],
			Stu: stus[r.Intn(len(stus))]}
		if r.Intn(3) == 0 {
			s.Fp = uint64(1 + r.Intn(30))
		}
		for _, p := range profLabelPool {
			if r.Intn(2) == 0 {
				s.Labels = append(s.Labels, [2]string{p[0], p[1+r.Intn(len(p)-1)]})
			}
		}
		if len(s.Labels) == 0 {
			s.Labels = append(s.Labels, [2]string{"pod", "p-1"})
		}
		s.Day = dayFrom + int64(r.Intn(int(dayTo-dayFrom)+1))
		switch r.Intn(8) {
		case 0:
			s.Day = dayFrom - 1
		case 1:
			s.Day = dayTo + 1
		}
		res = append(res, s)
		if r.Intn(4) == 0 { // the same labels (same fingerprint) under another profile type
			t := s
			t.TypeID = pick(r, typeIDs)
			t.Stu = stus[r.Intn(len(stus))]
			res = append(res, t)
		}
	}
	return res
}

func partOf(parts []string, k int) string {
	if k < len(parts) {
		return parts[k]
	}
	return ""
}

func genProfOracle(sels []Selector, pdb []PSeries) []ReEntry {
	vals := map[string]bool{"": true}
	for _, s := range pdb {
		parts := strings.Split(s.TypeID, ":")
		for _, p := range parts {
			vals[p] = true
		}
		vals[s.Service] = true
		for _, ab := range s.Stu {
			vals[ab[0]], vals[ab[1]] = true, true
			vals[partOf(parts, 0)+":"+ab[0]+":"+ab[1]+":"+partOf(parts, 1)+":"+partOf(parts, 2)] = true
		}
		for _, kv := range s.Labels {
			vals[kv[1]] = true
		}
	}
	var vs []string
	for v := range vals {
		vs = append(vs, v)
	}
	sort.Strings(vs)
	var res []ReEntry
	done := map[string]bool{}
	for _, m := range sels {
		if (m.Op != "=~" && m.Op != "!~") || done[m.Val] {
			continue
		}
		done[m.Val] = true
		re, err := regexp.Compile(m.Val)
		are, aerr := regexp.Compile("^(?:" + m.Val + ")$")
		for _, v := range vs {
			e := ReEntry{P: m.Val, V: v}
			if err == nil {
				e.Search = re.MatchString(v)
			}
			a := ReEntry{P: "^(?:" + m.Val + ")$", V: v, Anch: true}
			if aerr == nil {
				a.Search = are.MatchString(v)
			}
			e.Full = a.Search // Pyroscope selectors are Prometheus matchers: anchored
			res = append(res, e, a)
		}
	}
	return res
}

// the Series request with several matchers: PlanSeries over all members (fix c94f1fe gave every member of the UNION ALL its own
// fingerprints alias fp_0, fp_1, ..); each member's own selector statement is recorded beside it
func runSeries(c *Case, pc *shared.PlannerContext) {
	c.SeriesSQL = ""
	if len(c.Members) < 2 || c.Ctx.Cluster {
		return
	}
	var scripts []*profparser.Script
	for i := range c.Members {
		m := &c.Members[i]
		m.Sels, m.SQL, m.Oracle, m.Err = nil, "", nil, ""
		script, err := profparser.Parse(m.Query)
		if err != nil {
			m.Err = "parse"
			return
		}
		for _, s := range script.Selectors {
			v, err := s.Val.Unquote()
			if err != nil {
				m.Err = "unquote"
				return
			}
			m.Sels = append(m.Sels, mkSelector(s.Name, s.Op, v))
		}
		if c.PDB != nil {
			m.Oracle = genProfOracle(m.Sels, c.PDB)
		}
		var err2 error
		if p := hx.Catch(func() {
			var q sql.ISelect
			q, err2 = (&proftr.StreamSelectorPlanner{Selectors: script.Selectors}).Process(pc)
			if err2 == nil {
				m.SQL, err2 = render(q, false)
			}
		}); p != "" || err2 != nil {
			m.Err = "process"
			return
		}
		scripts = append(scripts, script)
	}
	var err error
	if p := hx.Catch(func() {
		var planner shared.SQLRequestPlanner
		planner, err = proftr.PlanSeries(scripts, nil)
		if err != nil {
			return
		}
		var q sql.ISelect
		q, err = planner.Process(pc)
		if err == nil {
			c.SeriesSQL, err = render(q, false)
		}
	}); p != "" || err != nil {
		c.SeriesSQL = "!error"
	}
}

func mkSelector(name, op, v string) Selector {
	sel := Selector{Name: name, Op: op, Val: v}
	if mt, ok := map[string]labels.MatchType{"=": labels.MatchEqual, "!=": labels.MatchNotEqual, "=~": labels.MatchRegexp, "!~": labels.MatchNotRegexp}[op]; ok {
		if pm, merr := labels.NewMatcher(mt, name, v); merr == nil {
			sel.E = pm.Matches("")
		}
	}
	return sel
}

func runProf(c *Case) {
	c.SQL, c.Err, c.ErrText = "", "", ""
	script, err := profparser.Parse(c.Query)
	if err != nil {
		c.Err, c.ErrText = "parse", err.Error()
		return
	}
	// the selectors as the real parser delivered them (unquoted by the real Unquote)
	var sels []Selector
	for _, s := range script.Selectors {
		v, err := s.Val.Unquote()
		if err != nil {
			c.Err, c.ErrText = "unquote", err.Error()
			return
		}
		sels = append(sels, mkSelector(s.Name, s.Op, v))
	}
	c.Sels = sels
	if c.PDB != nil {
		c.Oracle = genProfOracle(sels, c.PDB)
		if profSomeNotAll(sels, c.Ctx, c.PDB) {
			addClass(c, "absent-some-not-all")
		}
		if profSelfAnchoredDiffers(sels, c.Ctx, c.PDB) {
			addClass(c, "self-anchored-search-differs")
		}
	}
	pc := mkPlannerCtx(c.Ctx)
	c.Tables = tablesOf(pc)
	p := hx.Catch(func() {
		var q sql.ISelect
		q, err = (&proftr.StreamSelectorPlanner{Selectors: script.Selectors}).Process(pc)
		if err != nil {
			return
		}
		c.SQL, err = render(q, c.Ctx.Cluster)
	})
	if p != "" {
		c.Err, c.ErrText = "panic", p
		return
	}
	if err != nil {
		c.Err, c.ErrText = "process", err.Error()
		return
	}
	runSeries(c, pc)
}

// ---------------------------------------------------------------- kind "querier"

var seriesLabelPool = [][]string{
	{"__name__", "up", "http_requests_total", "cpu"},
	{"job", "api", "api-gw", "db", "it's"},
	{"instance", "h:9090", "h:9091"},
	{"env", "prod", "dev"},
	{"code", "200", "500"},
	{"a_b", "x%y_z", `a\b`, "a b=c", "é"},
}

func genLabels(r *rand.Rand) [][2]string {
	var l [][2]string
	l = append(l, [2]string{"__name__", seriesLabelPool[0][1+r.Intn(3)]})
	for _, p := range seriesLabelPool[1:] {
		if r.Intn(2) == 0 {
			l = append(l, [2]string{p[0], p[1+r.Intn(len(p)-1)]})
		}
	}
	r.Shuffle(len(l), func(i, j int) { l[i], l[j] = l[j], l[i] })
	return l
}

func labelsKey(l [][2]string) string {
	s := append([][2]string(nil), l...)
	sort.Slice(s, func(i, j int) bool { return s[i][0] < s[j][0] })
	return fmt.Sprint(s)
}

func genDB(r *rand.Rand, h *Hints) *DB {
	db := &DB{}
	n := 2 + r.Intn(5)
	seen := map[string]bool{}
	fromNs, toNs := h.Start*1000000, h.End*1000000
	for i := 0; i < n; i++ {
		l := genLabels(r)
		if seen[labelsKey(l)] {
			continue
		}
		seen[labelsKey(l)] = true
		s := DBSeries{Fp: r.Uint64(), Type: []int64{2, 2, 2, 2, 0, 1}[r.Intn(6)], Labels: l}
		if r.Intn(3) == 0 {
			s.Fp = uint64(1 + r.Intn(50))
		}
		days := map[int64]bool{}
		k := r.Intn(6)
		for j := 0; j < k; j++ {
			var ts int64
			switch r.Intn(8) {
			case 0:
				ts = fromNs
			case 1:
				ts = fromNs + 1
			case 2:
				ts = toNs
			case 3:
				ts = toNs + 1
			case 4:
				ts = fromNs - int64(r.Intn(5000))*1000000
			default:
				ts = fromNs + r.Int63n(toNs-fromNs+1)
			}
			if r.Intn(3) != 0 {
				ts -= ts % 1000000
			}
			tp := s.Type
			if s.Type == 2 && r.Intn(6) == 0 { // a log stream with the same label set shares the fingerprint: its rows are of type 1
				tp = 1
			}
			db.Samples = append(db.Samples, DBSample{Fp: s.Fp, Type: tp, TsNs: ts, Value: int64(r.Intn(100))})
			days[ts/86400000000000] = true
		}
		if len(days) == 0 { // a series written before the window only
			days[fromNs/86400000000000-int64(1+r.Intn(3))] = true
		}
		for d := range days {
			s.Days = append(s.Days, d)
		}
		sort.Slice(s.Days, func(i, j int) bool { return s.Days[i] < s.Days[j] })
		db.Series = append(db.Series, s)
	}
	r.Shuffle(len(db.Samples), func(i, j int) { db.Samples[i], db.Samples[j] = db.Samples[j], db.Samples[i] })
	return db
}

// ---------------------------------------------------------------- class "absent-multi"

// matcher sets with SEVERAL matchers that accept the empty string (!=, !~, ="", =~"v|"), drawn from the label values of
// the case's own database so that a stored series is rejected by some of them and accepted by the others: each such
// matcher must exclude on its own (fingerprintsQuery plans one exclusion sub-query per matcher; a single sub-query for
// all of them would only exclude the series rejected by every one of them at once)
func genAbsentMulti(r *rand.Rand, db *DB) []Matcher {
	var ms []Matcher
	if len(db.Series) == 0 {
		return []Matcher{{Name: "__name__", Op: "=", Val: "up"}, {Name: "job", Op: "!=", Val: "api"}, {Name: "env", Op: "!=", Val: "prod"}}
	}
	t := db.Series[r.Intn(len(db.Series))]
	tl := map[string]string{}
	for _, kv := range t.Labels {
		tl[kv[0]] = kv[1]
	}
	switch r.Intn(4) {
	case 0:
		ms = append(ms, Matcher{Name: "__name__", Op: "=~", Val: ".+"})
	case 1:
		ms = append(ms, Matcher{Name: "__name__", Op: "=~", Val: tl["__name__"] + "|cpu"})
	default:
		ms = append(ms, Matcher{Name: "__name__", Op: "=", Val: tl["__name__"]})
	}
	k := 2 + r.Intn(2)
	for j := 0; j < k; j++ {
		p := seriesLabelPool[1+r.Intn(len(seriesLabelPool)-1)]
		v := p[1+r.Intn(len(p)-1)]
		if own, ok := tl[p[0]]; ok && r.Intn(2) == 0 {
			v = own
		}
		other := p[1+r.Intn(len(p)-1)]
		m := Matcher{Name: p[0]}
		switch r.Intn(8) {
		case 0, 1, 2:
			m.Op, m.Val = "!=", v
		case 3:
			m.Op, m.Val = "!~", regexp.QuoteMeta(v)
		case 4:
			m.Op, m.Val = "!~", regexp.QuoteMeta(v)+"|"+regexp.QuoteMeta(other)
		case 5:
			m.Op, m.Val = "=", ""
		case 6:
			m.Op, m.Val = "=~", regexp.QuoteMeta(v)+"|"
		default:
			m.Op, m.Val = []string{"!~", "=~"}[r.Intn(2)], []string{".+", ".*"}[r.Intn(2)]
			if m.Op == "=~" {
				m.Val = ".*"
			}
		}
		ms = append(ms, m)
	}
	if r.Intn(2) == 0 { // the selective matcher need not come first
		i := r.Intn(len(ms))
		ms[0], ms[i] = ms[i], ms[0]
	}
	return ms
}

// measured for the evidence: the database holds a metric series with a metric sample in the window that satisfies every
// matcher rejecting "" and is rejected by some but not all of the (at least two) matchers accepting ""
func someNotAll(pms []*labels.Matcher, h *Hints, db *DB) bool {
	var absent, sel []*labels.Matcher
	for _, m := range pms {
		if m.Matches("") {
			absent = append(absent, m)
		} else {
			sel = append(sel, m)
		}
	}
	if len(absent) < 2 || len(sel) == 0 || db == nil {
		return false
	}
	for _, s := range db.Series {
		if s.Type != 2 && s.Type != 0 {
			continue
		}
		val := func(n string) string {
			for _, kv := range s.Labels {
				if kv[0] == n {
					return kv[1]
				}
			}
			return ""
		}
		ok := true
		for _, m := range sel {
			ok = ok && m.Matches(val(m.Name))
		}
		rej := 0
		for _, m := range absent {
			if !m.Matches(val(m.Name)) {
				rej++
			}
		}
		if !ok || rej == 0 || rej == len(absent) {
			continue
		}
		for _, x := range db.Samples {
			if x.Fp == s.Fp && (x.Type == 2 || x.Type == 0) && x.TsNs/1000000 >= h.Start && x.TsNs/1000000 <= h.End {
				return true
			}
		}
	}
	return false
}

// ---------------------------------------------------------------- class "self-anchored"

// regex matcher values that carry their OWN anchors: they begin with ^ and end with $ but the anchors do not enclose the whole
// expression -- a top-level alternation (^ binds to the first branch only, $ to the last only), or a final escaped \$ (no end
// anchor at all). Prometheus compiles ^(?:v)$ whatever v looks like; ClickHouse match() searches, so the planner may not hand v
// over as it is ("already anchored"): job=~"^api|canary$" would select api-gateway and web-canary. The values are built from a
// label value of a stored series of the case's database so that this series matches one branch only as a prefix / suffix;
// controls (whole value as a branch, group inside the anchors) ride along. The database gets a sample of that series inside
// the window (own PRNG stream: the other cases of a seed are unchanged).
func cutRunes(r *rand.Rand, v string) (string, string) {
	rs := []rune(v)
	if len(rs) < 2 {
		return v, v
	}
	k := 1 + r.Intn(len(rs)-1)
	return string(rs[:k]), string(rs[k:])
}

func selfAnchoredValue(r *rand.Rand, v, other string) (string, string) {
	pre, suf := cutRunes(r, v)
	q := regexp.QuoteMeta
	switch r.Intn(11) {
	case 9: // one anchor only: a shortcut keyed on either end alone
		return "^" + q(pre) + "|" + q(other), "leading-anchor-only"
	case 10:
		return q(other) + "|" + q(suf) + "$", "trailing-anchor-only"
	case 0, 1:
		return "^" + q(pre) + "|" + q(other) + "$", "prefix-branch"
	case 2, 3:
		return "^" + q(other) + "|" + q(suf) + "$", "suffix-branch"
	case 4:
		return "^" + q(pre) + "|" + q(other) + "|" + q(suf) + "$", "prefix-and-suffix-branch"
	case 5:
		return "^" + q(v) + "|" + q(other) + "$", "whole-value-branch"
	case 6:
		return "^(" + q(pre) + "|" + q(other) + ")$", "group-inside-anchors"
	case 7:
		return "^" + q(pre) + `\$`, "escaped-dollar"
	default:
		return "^" + q(other) + "|" + q(pre) + `\$`, "escaped-dollar-branch"
	}
}

func genSelfAnchored(r *rand.Rand, db *DB, h *Hints) ([]Matcher, string) {
	if len(db.Series) == 0 {
		return []Matcher{{Name: "job", Op: "=~", Val: "^api|canary$"}}, "prefix-branch"
	}
	ti := r.Intn(len(db.Series))
	for k := 0; k < len(db.Series); k++ { // prefer a metric series
		if tp := db.Series[(ti+k)%len(db.Series)].Type; tp == 2 || tp == 0 {
			ti = (ti + k) % len(db.Series)
			break
		}
	}
	t := &db.Series[ti]
	name := ""
	for _, kv := range t.Labels {
		if kv[0] == "__name__" {
			name = kv[1]
		}
	}
	kv := t.Labels[r.Intn(len(t.Labels))]
	others := []string{"canary", "zz", "db", "prod", "9", "up"}
	other := others[r.Intn(len(others))]
	val, form := selfAnchoredValue(r, kv[1], other)
	if strings.HasPrefix(form, "escaped-dollar") {
		// a stored value that continues after the dollar sign, and one that ends with it
		raw, _ := regexpLiteralBefore(val)
		for j, tail := range []string{"$" + strings.TrimPrefix(kv[1], raw), "$"} {
			cl := DBSeries{Fp: t.Fp + uint64(j+1)*7919, Type: t.Type}
			for _, x := range t.Labels {
				if x[0] == kv[0] {
					x[1] = raw + tail
				}
				cl.Labels = append(cl.Labels, x)
			}
			dup := false
			for _, s := range db.Series {
				dup = dup || s.Fp == cl.Fp || labelsKey(s.Labels) == labelsKey(cl.Labels)
			}
			if !dup {
				db.Series = append(db.Series, cl)
			}
		}
	}
	// every series of the family (the target and its clones) gets a metric sample inside the window
	t = &db.Series[ti]
	fromNs, toNs := h.Start*1000000, h.End*1000000
	for i := range db.Series {
		s := &db.Series[i]
		if i != ti && len(s.Days) > 0 {
			continue
		}
		ts := fromNs + r.Int63n(toNs-fromNs+1)
		ts -= ts % 1000000
		if ts < fromNs {
			ts = fromNs
		}
		db.Samples = append(db.Samples, DBSample{Fp: s.Fp, Type: s.Type, TsNs: ts, Value: int64(r.Intn(100))})
		day := ts / 86400000000000
		has := false
		for _, d := range s.Days {
			has = has || d == day
		}
		if !has {
			s.Days = append(s.Days, day)
			sort.Slice(s.Days, func(a, b int) bool { return s.Days[a] < s.Days[b] })
		}
	}
	op := []string{"=~", "=~", "!~"}[r.Intn(3)]
	ms := []Matcher{{Name: kv[0], Op: op, Val: val}}
	if op == "!~" || r.Intn(2) == 0 {
		sel := Matcher{Name: "__name__", Op: "=", Val: name}
		if kv[0] == "__name__" || r.Intn(3) == 0 {
			sel = Matcher{Name: "__name__", Op: "=~", Val: ".+"}
		}
		if r.Intn(2) == 0 {
			ms = append(ms, sel)
		} else {
			ms = append([]Matcher{sel}, ms...)
		}
	}
	if r.Intn(2) == 0 { // the statement untouched by processHints: judged against the Prometheus meaning directly
		h.Step = 0
	}
	return ms, form
}

// measured for the evidence: a matcher value that begins with ^ or ends with $, and a stored metric series with a metric sample
// in the window that satisfies every OTHER matcher, on whose label value the value searched as it is (regexp.MatchString, what
// ClickHouse match() would answer for the unwrapped value) and Prometheus' anchored match disagree
func selfAnchoredDiffers(ms []Matcher, pms []*labels.Matcher, h *Hints, db *DB) bool {
	if db == nil {
		return false
	}
	for i, m := range ms {
		if (m.Op != "=~" && m.Op != "!~") || !(strings.HasPrefix(m.Val, "^") || strings.HasSuffix(m.Val, "$")) {
			continue
		}
		re, err := regexp.Compile(m.Val)
		if err != nil {
			continue
		}
		for _, s := range db.Series {
			if s.Type != 2 && s.Type != 0 {
				continue
			}
			val := func(n string) string {
				for _, kv := range s.Labels {
					if kv[0] == n {
						return kv[1]
					}
				}
				return ""
			}
			ok := true
			for j, o := range pms {
				if j != i {
					ok = ok && o.Matches(val(o.Name))
				}
			}
			pos := pms[i].Matches(val(m.Name)) == (m.Op == "=~")
			if !ok || pos == re.MatchString(val(m.Name)) {
				continue
			}
			for _, x := range db.Samples {
				if x.Fp == s.Fp && (x.Type == 2 || x.Type == 0) && x.TsNs/1000000 >= h.Start && x.TsNs/1000000 <= h.End {
					return true
				}
			}
		}
	}
	return false
}

func addClass(c *Case, cl string) {
	for _, x := range c.Class {
		if x == cl {
			return
		}
	}
	c.Class = append(c.Class, cl)
}

func genOracle(ms []Matcher, pms []*labels.Matcher, db *DB) []ReEntry {
	vals := map[string]bool{"": true}
	for _, s := range db.Series {
		for _, kv := range s.Labels {
			vals[kv[1]] = true
		}
	}
	var vs []string
	for v := range vals {
		vs = append(vs, v)
	}
	sort.Strings(vs)
	var res []ReEntry
	done := map[string]bool{}
	for i, m := range ms {
		if m.Op != "=~" && m.Op != "!~" {
			continue
		}
		if done[m.Val] {
			continue
		}
		done[m.Val] = true
		re, err := regexp.Compile(m.Val)
		are, aerr := regexp.Compile("^(?:" + m.Val + ")$")
		pos := pms[i]
		if pos.Type == labels.MatchNotRegexp {
			pos, _ = pos.Inverse()
		}
		for _, v := range vs {
			e := ReEntry{P: m.Val, V: v, Full: pos.Matches(v)}
			if err == nil {
				e.Search = re.MatchString(v)
			}
			res = append(res, e)
			a := ReEntry{P: "^(?:" + m.Val + ")$", V: v, Anch: true}
			if aerr == nil {
				a.Search = are.MatchString(v)
			}
			res = append(res, a)
		}
	}
	return res
}

// rows handed to Select: fingerprint-sorted groups, ascending timestamps; malformed classes on purpose
func genRows(r *rand.Rand, c *Case) {
	n := r.Intn(6)
	class := "rows-sorted"
	type ser struct {
		fp uint64
		l  [][2]string
	}
	var sers []ser
	seen := map[string]bool{}
	for i := 0; i < n; i++ {
		l := genLabels(r)
		if seen[labelsKey(l)] {
			if r.Intn(3) != 0 {
				continue
			}
			class = "dup-labels"
		}
		seen[labelsKey(l)] = true
		fp := r.Uint64()
		if r.Intn(3) == 0 {
			fp = uint64(r.Intn(20))
		}
		sers = append(sers, ser{fp, l})
	}
	if len(sers) >= 2 && r.Intn(12) == 0 { // two fingerprints, one label set
		sers[1].l = append([][2]string(nil), sers[0].l...)
		class = "dup-labels"
	}
	sort.Slice(sers, func(i, j int) bool { return sers[i].fp < sers[j].fp })
	for i := 1; i < len(sers); i++ {
		if sers[i].fp == sers[i-1].fp {
			sers[i].l = sers[i-1].l
		}
	}
	ts0 := c.Hints.Start
	for _, s := range sers {
		k := 1 + r.Intn(5)
		ts := ts0
		for j := 0; j < k; j++ {
			ts += int64(r.Intn(3)) * 1000 * int64(1+r.Intn(20))
			c.Rows = append(c.Rows, Row{Fp: s.fp, Val: int64(r.Intn(6)), Ts: ts})
		}
		if r.Intn(6) != 0 {
			days := 1 + r.Intn(2)
			for d := 0; d < days; d++ { // one answered row per stored day; the last one wins
				l := append([][2]string(nil), s.l...)
				r.Shuffle(len(l), func(i, j int) { l[i], l[j] = l[j], l[i] })
				c.Fetch = append(c.Fetch, LabelsRow{Fp: s.fp, Labels: l})
			}
		} else if class == "rows-sorted" {
			class = "labels-missing"
		}
	}
	if len(c.Rows) >= 3 && r.Intn(10) == 0 { // not fingerprint-contiguous: outside the SQL's ORDER BY guarantee
		i, j := r.Intn(len(c.Rows)), r.Intn(len(c.Rows))
		c.Rows[i], c.Rows[j] = c.Rows[j], c.Rows[i]
		class = "rows-shuffled"
	}
	c.Class = append(c.Class, class)
}

// class "dup-labels-apart" (round 7, seed C17-g): one label set stored under TWO fingerprints that are NOT neighbours in the
// ORDER BY fingerprint row stream - at least one other selected series, with its own label set and its own samples, lies
// between them (and often another one behind the second).  ReshuffleSeries appends the second fingerprint's samples to the
// first one's slice and sorts it in place: whatever shares memory behind that slice is overwritten.  Every sample is
// recognisable (timestamp offset = position of its series), every fingerprint has its labels row, the two rows of the shared
// label set come in different key orders.
func genRowsDupApart(r *rand.Rand, c *Case) {
	n := 3 + r.Intn(3)
	fps := map[uint64]bool{}
	for len(fps) < n {
		fp := r.Uint64()
		if r.Intn(2) == 0 {
			fp = uint64(1 + r.Intn(40))
		}
		fps[fp] = true
	}
	var order []uint64
	for fp := range fps {
		order = append(order, fp)
	}
	sort.Slice(order, func(i, j int) bool { return order[i] < order[j] })
	var ls [][][2]string
	seen := map[string]bool{}
	for len(ls) < n {
		l := genLabels(r)
		if !seen[labelsKey(l)] {
			seen[labelsKey(l)] = true
			ls = append(ls, l)
		}
	}
	a := r.Intn(n - 2)
	b := a + 2 + r.Intn(n-a-2)
	ls[b] = append([][2]string(nil), ls[a]...)
	r.Shuffle(len(ls[b]), func(i, j int) { ls[b][i], ls[b][j] = ls[b][j], ls[b][i] })
	for i, fp := range order {
		k := 1 + r.Intn(4)
		ts := c.Hints.Start + int64(i)*7
		for j := 0; j < k; j++ {
			ts += int64(1+r.Intn(20)) * 1000
			c.Rows = append(c.Rows, Row{Fp: fp, Val: int64(r.Intn(6)), Ts: ts})
		}
		c.Fetch = append(c.Fetch, LabelsRow{Fp: fp, Labels: ls[i]})
	}
	c.Class = append(c.Class, "dup-labels", "dup-labels-apart")
}

func runQuerier(c *Case) {
	c.SQL, c.SQLLabels, c.Err, c.ErrText, c.Obs = "", "", "", "", nil
	pms, err := promMatchers(c.Ms)
	if err != nil {
		c.Err, c.ErrText = "matcher", err.Error()
		return
	}
	if c.DB != nil {
		c.Oracle = genOracle(c.Ms, pms, c.DB)
		if someNotAll(pms, c.Hints, c.DB) {
			addClass(c, "absent-some-not-all")
		}
		if selfAnchoredDiffers(c.Ms, pms, c.Hints, c.DB) {
			addClass(c, "self-anchored-search-differs")
		}
	}
	sc := &script{}
	for _, r := range c.Rows {
		sc.mainRows = append(sc.mainRows, []driver.Value{r.Fp, float64(r.Val), r.Ts})
	}
	for _, f := range c.Fetch {
		var l [][]interface{}
		for _, kv := range f.Labels {
			l = append(l, []interface{}{kv[0], kv[1]})
		}
		sc.labelRows = append(sc.labelRows, []driver.Value{f.Fp, l})
	}
	curMtx.Lock()
	cur = sc
	curMtx.Unlock()
	reg := newRegistry(c.Ctx.Cluster)
	var ss storage.SeriesSet
	p := hx.Catch(func() {
		q := &service.CLokiQueriable{ServiceData: model.ServiceData{Session: reg}, Ctx: context.Background()}
		qr, err := q.Querier(context.Background(), c.Hints.Start, c.Hints.End)
		if err != nil {
			panic(err)
		}
		ss = qr.Select(c.Sorted, storageHints(c.Hints), pms...)
	})
	curMtx.Lock()
	cur = nil
	curMtx.Unlock()
	if len(sc.mainSQL) > 0 {
		c.SQL = sc.mainSQL[0]
	}
	if len(sc.labelsSQL) > 0 {
		c.SQLLabels = sc.labelsSQL[0]
	}
	c.Tables = tablesOf(mkPlannerCtx(c.Ctx))
	if p != "" {
		c.Err, c.ErrText = "panic", p
		return
	}
	if ss.Err() != nil {
		c.Err, c.ErrText = "select", ss.Err().Error()
		return
	}
	if len(sc.mainSQL) != 1 || len(sc.labelsSQL) > 1 || len(sc.otherSQL) != 0 {
		c.Err, c.ErrText = "statements", fmt.Sprintf("main %d labels %d other %v", len(sc.mainSQL), len(sc.labelsSQL), sc.otherSQL)
		return
	}
	// read the result the way the PromQL engine does: through storage.SeriesSet (Next/At), storage.Series (Labels,
	// Iterator) and chunkenc.Iterator (Next/At); after the end every further call has to report the end
	p = hx.Catch(func() {
		for ss.Next() {
			s := ss.At().(*model.Series)
			o := OutSeries{Fp: s.Fp, Labels: [][2]string{}, Samples: [][2]int64{}}
			for _, l := range s.Labels() {
				o.Labels = append(o.Labels, [2]string{l.Name, l.Value})
			}
			it := s.Iterator()
			for it.Next() {
				t, v := it.At()
				if v != float64(int64(v)) {
					panic("non-integral sample value")
				}
				o.Samples = append(o.Samples, [2]int64{t, int64(v)})
			}
			if it.Next() || it.Seek(0) || it.Next() {
				panic("sample cursor: a call after the end returned true")
			}
			c.Obs = append(c.Obs, o)
		}
		if ss.Next() || ss.Next() {
			panic("SeriesSet.Next returned true after the end")
		}
	})
	if p != "" {
		c.Err, c.ErrText = "panic", p
		return
	}
	// whether MapResult was installed is visible only through its effect; the decision is re-derived by the model
}

// ---------------------------------------------------------------- kind "multi"

// several Selects on ONE querier, as the PromQL engine issues them for a query with several selectors / offsets:
// windows on the same and on other UTC days, series announced only on some days
func genMulti(r *rand.Rand, c *Case) {
	logTwin := false
	day := int64(19700 + r.Intn(30))
	c.Ctx = &Ctx{Type: 2, Cluster: r.Intn(5) == 0}
	n := 2 + r.Intn(4)
	seen := map[string]bool{}
	for i := 0; i < n; i++ {
		l := genLabels(r)
		if seen[labelsKey(l)] {
			continue
		}
		seen[labelsKey(l)] = true
		s := LSeries{Fp: r.Uint64(), Labels: l}
		switch r.Intn(4) {
		case 0:
			s.Days = []int64{day} // born today
		case 1:
			s.Days = []int64{day - 1} // ended yesterday
		case 2:
			s.Days = []int64{day - 2, day - 1}
		default:
			s.Days = []int64{day - 2, day - 1, day}
		}
		c.LDB = append(c.LDB, s)
	}
	sort.Slice(c.LDB, func(i, j int) bool { return c.LDB[i].Fp < c.LDB[j].Fp })
	if rs := hx.Rand(int64(day)*7919 + int64(len(c.LDB))*104729 + int64(c.ID)); rs.Intn(3) == 0 && len(c.LDB) > 0 {
		// a log stream whose fingerprint collides with a metric series' (32-bit Bernstein fingerprints make that ordinary):
		// its series rows carry another label set and come after the metric series' rows in the reply
		i := rs.Intn(len(c.LDB))
		twin := LSeries{Fp: c.LDB[i].Fp, Days: c.LDB[i].Days, Log: true,
			Labels: [][2]string{{"job", "logs-" + pick(rs, []string{"a", "b"})}, {"stream", "stdout"}}}
		c.LDB = append(c.LDB[:i+1], append([]LSeries{twin}, c.LDB[i+1:]...)...)
		logTwin = true
	}
	k := 2 + r.Intn(3)
	class := "multi-same-day"
	sameDay := r.Intn(3) == 0
	ms, _ := genMatchers(r)
	for j := 0; j < k; j++ {
		d := day
		if j > 0 && !sameDay {
			switch r.Intn(3) {
			case 0:
				d = day - 1
				class = "multi-other-days"
			case 1:
				d = day - 2
				class = "multi-other-days"
			}
		}
		if j == 1 && !sameDay && r.Intn(2) == 0 {
			d = day - 1
			class = "multi-other-days"
		}
		start := d*86400000 + int64(3600+r.Intn(72000))*1000
		h := &Hints{Start: start, End: start + int64(60+r.Intn(3000))*1000, Func: []string{"", "sum", "rate"}[r.Intn(3)]}
		if h.Func == "rate" {
			h.Range = 300000
		}
		call := Call{Hints: h, Ms: ms}
		if r.Intn(3) == 0 {
			call.Ms, _ = genMatchers(r)
		}
		for _, s := range c.LDB { // rows of the series announced on the day of this window
			if s.Log {
				continue // the samples query is typed: no rows of a log stream
			}
			on := false
			for _, sd := range s.Days {
				on = on || sd == d
			}
			if !on || r.Intn(5) == 0 {
				continue
			}
			ts := h.Start
			for q := 1 + r.Intn(4); q > 0; q-- {
				ts += int64(1+r.Intn(20)) * 1000
				call.Rows = append(call.Rows, Row{Fp: s.Fp, Val: int64(r.Intn(9)), Ts: ts})
			}
		}
		c.Calls = append(c.Calls, call)
	}
	c.Class = []string{class}
	if logTwin {
		c.Class = append(c.Class, "log-twin-fingerprint")
	}
}

func runMulti(c *Case) {
	c.Err, c.ErrText = "", ""
	c.Tables = tablesOf(mkPlannerCtx(c.Ctx))
	sc := &script{ldb: []labelDay{}}
	for _, s := range c.LDB {
		for _, d := range s.Days {
			sc.ldb = append(sc.ldb, labelDay{s.Fp, d, s.Labels, s.Log})
		}
	}
	reg := newRegistry(c.Ctx.Cluster)
	q := &service.CLokiQueriable{ServiceData: model.ServiceData{Session: reg}, Ctx: context.Background()}
	qr, err := q.Querier(context.Background(), 0, 0) // ONE querier object for every call
	if err != nil {
		c.Err, c.ErrText = "querier", err.Error()
		return
	}
	for j := range c.Calls {
		call := &c.Calls[j]
		call.SQL, call.SQLLabels, call.Obs, call.Err = "", nil, nil, ""
		pms, err := promMatchers(call.Ms)
		if err != nil {
			call.Err = "matcher: " + err.Error()
			continue
		}
		sc.mainRows, sc.mainSQL, sc.labelsSQL, sc.otherSQL = nil, nil, nil, nil
		for _, r := range call.Rows {
			sc.mainRows = append(sc.mainRows, []driver.Value{r.Fp, float64(r.Val), r.Ts})
		}
		curMtx.Lock()
		cur = sc
		curMtx.Unlock()
		var ss storage.SeriesSet
		p := hx.Catch(func() { ss = qr.Select(false, storageHints(call.Hints), pms...) })
		curMtx.Lock()
		cur = nil
		curMtx.Unlock()
		if len(sc.mainSQL) > 0 {
			call.SQL = sc.mainSQL[0]
		}
		call.SQLLabels = append([]string{}, sc.labelsSQL...)
		if p != "" {
			call.Err = "panic: " + p
			continue
		}
		if ss.Err() != nil {
			call.Err = "select: " + ss.Err().Error()
			continue
		}
		call.Obs = []OutSeries{}
		p = hx.Catch(func() {
			for _, s := range ss.(*model.SeriesSet).Series {
				o := OutSeries{Fp: s.Fp, Labels: [][2]string{}, Samples: [][2]int64{}}
				for _, l := range s.Labels() {
					o.Labels = append(o.Labels, [2]string{l.Name, l.Value})
				}
				for _, sm := range s.Samples {
					o.Samples = append(o.Samples, [2]int64{sm.TimestampMs, int64(sm.Value)})
				}
				call.Obs = append(call.Obs, o)
			}
		})
		if p != "" {
			call.Err = "panic: " + p
		}
	}
}

// ---------------------------------------------------------------- main

func runCase(c *Case) {
	switch c.Kind {
	case "sql":
		runSQL(c)
	case "prof":
		runProf(c)
	case "querier":
		runQuerier(c)
	case "multi":
		runMulti(c)
	}
}

func genCtx(r *rand.Rand, h *Hints) *Ctx {
	c := &Ctx{FromNs: h.Start * 1000000, ToNs: h.End * 1000000, Type: 2, Cluster: r.Intn(4) == 0}
	if r.Intn(4) == 0 { // contexts the querier never builds, but the exported planners accept
		c.Limit = []int64{0, 1, 100, -3}[r.Intn(4)]
		c.Type = []uint8{0, 1, 2, 2}[r.Intn(4)]
		c.FromNs += int64(r.Intn(1000000))
	}
	return c
}

func main() {
	f := hx.ParseFlags()
	out := hx.OpenOut(f.Out)
	defer out.Close()
	if f.Cases != "" {
		hx.ReadLines(f.Cases, func(b []byte) {
			var c Case
			if err := json.Unmarshal(b, &c); err != nil {
				panic(err)
			}
			runCase(&c)
			out.Put(c)
		})
		return
	}
	r := hx.Rand(f.Seed)
	for i := 0; i < f.N; i++ {
		c := Case{ID: i}
		switch k := r.Intn(11); {
		case k == 10:
			c.Kind = "multi"
			genMulti(r, &c)
		case k < 4:
			c.Kind = "sql"
			c.Sub = []string{"raw", "down"}[r.Intn(2)]
			h, class := genHints(r)
			ms, class2 := genMatchers(r)
			c.Hints, c.Ms, c.Class = h, ms, append(class, class2...)
			c.Ctx = genCtx(r, h)
		case k < 6:
			c.Kind = "prof"
			h, _ := genHints(r)
			c.Ctx = genCtx(r, h)
			c.Ctx.FromNs += int64(r.Intn(2)) * int64(r.Intn(1800)) * 1000000000
			_, c.Query = genProf(r)
			c.Class = []string{"prof"}
			c.PDB = genPDB(r, c.Ctx)
			if rs := hx.Rand(f.Seed*1299709 + int64(i)); rs.Intn(4) == 0 { // own stream
				c.Query = genProfAbsentMulti(rs, c.PDB)
				c.Class = append(c.Class, "absent-multi")
			} else if rs := hx.Rand(f.Seed*49979687 + int64(i)); rs.Intn(5) == 0 { // own stream
				var form string
				c.Query, form = genProfSelfAnchored(rs, &c.PDB)
				c.Class = append(c.Class, "self-anchored", "self-anchored/"+form)
			}
			if rs := hx.Rand(f.Seed*7919 + int64(i)); rs.Intn(3) == 0 { // a Series request with two or three matchers
				c.Members = []Member{{Query: c.Query}}
				for k := 1 + rs.Intn(2); k > 0; k-- {
					_, q := genProf(rs)
					c.Members = append(c.Members, Member{Query: q})
				}
				c.Class = append(c.Class, "prof-series")
			}
		default:
			c.Kind = "querier"
			h, class := genHints(r)
			ms, class2 := genMatchers(r)
			c.Hints, c.Ms, c.Class = h, ms, append(class, class2...)
			c.Ctx = &Ctx{FromNs: h.Start * 1000000, ToNs: h.End * 1000000, Type: 2, Cluster: r.Intn(4) == 0}
			c.Sorted = r.Intn(2) == 0
			downDB := false
			if rs := hx.Rand(f.Seed*15485863 + int64(i)); rs.Intn(6) == 0 { // own stream: hints of the down-sampled path, matchers that select
				h.Start -= h.Start % 15000
				h.End = h.Start + int64(1+rs.Intn(40))*15000 + int64(rs.Intn(2)*rs.Intn(15000))
				h.Step = []int64{15000, 30000, 60000, 300000}[rs.Intn(4)]
				h.Range = []int64{0, 15000, 30000, 60000, 300000}[rs.Intn(5)]
				h.Func = []string{"", "sum", "avg", "rate", "increase", "avg_over_time", "min_over_time", "max_over_time", "sum_over_time",
					"count_over_time", "last_over_time", "present_over_time", "absent_over_time", "abs", "delta"}[rs.Intn(15)]
				c.Ctx.FromNs, c.Ctx.ToNs = h.Start*1000000, h.End*1000000
				c.Class = append(c.Class, "down-db")
				downDB = true
			}
			genRows(r, &c)
			if rs := hx.Rand(f.Seed*86028121 + int64(i)); rs.Intn(8) == 0 { // own stream (round 7, seed C17-g)
				c.Class, c.Rows, c.Fetch = c.Class[:len(c.Class)-1], nil, nil
				genRowsDupApart(rs, &c)
			}
			c.DB = genDB(r, h)
			if downDB && len(c.DB.Series) > 0 {
				rs := hx.Rand(f.Seed*32452843 + int64(i))
				t := c.DB.Series[rs.Intn(len(c.DB.Series))]
				for _, kv := range t.Labels {
					if kv[0] == "__name__" {
						c.Ms = []Matcher{{Name: "__name__", Op: []string{"=", "=~"}[rs.Intn(2)], Val: kv[1]}}
					}
				}
				if rs.Intn(2) == 0 {
					c.Ms = append(c.Ms, genAbsentMulti(rs, c.DB)[1:]...)
				}
			}
			if rs := hx.Rand(f.Seed*104729 + int64(i)); rs.Intn(4) == 0 { // own stream: the other cases of the seed stay as they were
				c.Ms = genAbsentMulti(rs, c.DB)
				c.Class = append(c.Class, "absent-multi")
			} else if rs := hx.Rand(f.Seed*49979687 + int64(i)); !downDB && rs.Intn(5) == 0 { // own stream
				var form string
				c.Ms, form = genSelfAnchored(rs, c.DB, h)
				c.Class = append(c.Class, "self-anchored", "self-anchored/"+form)
			}
		}
		runCase(&c)
		out.Put(c)
	}
}
