package main

// Scripted database/sql driver + fake IDBRegistry for CLokiQuerier.Select: the reader receives
// *sql.Rows produced by the real database/sql package; what ClickHouse would answer is scripted,
// and every statement text is recorded.

import (
	"context"
	"database/sql"
	"database/sql/driver"
	"errors"
	"io"
	"regexp"
	"strconv"
	"strings"
	"sync"
	"time"

	clconfig "github.com/metrico/cloki-config/config"
	"github.com/metrico/qryn/reader/model"
)

// one row of time_series as the labels request sees it: a series announced on a day
type labelDay struct {
	fp     uint64
	day    int64
	labels [][2]string
	log    bool // a row of type 1 (log stream)
}

type script struct {
	mainRows   [][]driver.Value // (uint64 fingerprint, float64 value, int64 timestamp_ms)
	labelRows  [][]driver.Value // (uint64 fingerprint, [][]interface{} labels)
	ldb        []labelDay       // when set: the labels request is answered from it, honouring the statement's IN list and date bounds
	mainSQL    []string
	labelsSQL  []string
	otherSQL   []string
	failLabels bool
}

var (
	cur    *script
	curMtx sync.Mutex
)

type drv struct{}
type conn struct{}
type rowsT struct {
	cols int
	rows [][]driver.Value
	i    int
}

func (drv) Open(string) (driver.Conn, error) { return &conn{}, nil }
func (*conn) Prepare(string) (driver.Stmt, error) {
	return nil, errors.New("prepare not supported by the scripted driver")
}
func (*conn) Close() error                             { return nil }
func (*conn) Begin() (driver.Tx, error)                { return nil, errors.New("no tx") }
func (*conn) CheckNamedValue(*driver.NamedValue) error { return nil }
func (*conn) QueryContext(ctx context.Context, q string, args []driver.NamedValue) (driver.Rows, error) {
	curMtx.Lock()
	defer curMtx.Unlock()
	if strings.Contains(q, "type='update'") {
		return &rowsT{cols: 2}, nil
	}
	if strings.Contains(q, "SHOW TABLES") {
		return &rowsT{cols: 1}, nil
	}
	if cur == nil {
		return &rowsT{cols: 1}, nil
	}
	if strings.Contains(q, "JSONExtractKeysAndValues(labels") {
		cur.labelsSQL = append(cur.labelsSQL, q)
		if cur.failLabels {
			return nil, errors.New("scripted: labels request failed")
		}
		if cur.ldb != nil {
			return &rowsT{cols: 2, rows: answerLabels(q, cur.ldb)}, nil
		}
		return &rowsT{cols: 2, rows: cur.labelRows}, nil
	}
	if strings.Contains(q, "fp_sel") {
		cur.mainSQL = append(cur.mainSQL, q)
		return &rowsT{cols: 3, rows: cur.mainRows}, nil
	}
	cur.otherSQL = append(cur.otherSQL, q)
	return &rowsT{cols: 1}, nil
}
var reIn = regexp.MustCompile(`\(fingerprint IN \(([0-9,]*)\)\)`)
var reDates = regexp.MustCompile(`\(\(date\) >= \('(\d{4}-\d{2}-\d{2})'\)\) and \(\(date\) <= \('(\d{4}-\d{2}-\d{2})'\)\)`)

// the reading of the labels request (coq/model/PromSem.v fetch_rows): rows of the series table for the listed
// fingerprints, dated between the two bounds of THIS statement
func answerLabels(q string, ldb []labelDay) [][]driver.Value {
	want := map[uint64]bool{}
	if m := reIn.FindStringSubmatch(q); m != nil {
		for _, x := range strings.Split(m[1], ",") {
			if v, err := strconv.ParseUint(x, 10, 64); err == nil {
				want[v] = true
			}
		}
	}
	d1, d2 := int64(-1<<40), int64(1<<40)
	if m := reDates.FindStringSubmatch(q); m != nil {
		if t, err := time.Parse("2006-01-02", m[1]); err == nil {
			d1 = t.Unix() / 86400
		}
		if t, err := time.Parse("2006-01-02", m[2]); err == nil {
			d2 = t.Unix() / 86400
		}
	}
	typed := strings.Contains(q, "(type IN (2,0))") // the statement's own type conjunct decides whether log rows are read
	var rows [][]driver.Value
	for _, s := range ldb {
		if !want[s.fp] || s.day < d1 || s.day > d2 || (typed && s.log) {
			continue
		}
		var l [][]interface{}
		for _, kv := range s.labels {
			l = append(l, []interface{}{kv[0], kv[1]})
		}
		rows = append(rows, []driver.Value{s.fp, l})
	}
	return rows
}

func (*conn) ExecContext(ctx context.Context, q string, args []driver.NamedValue) (driver.Result, error) {
	return driver.RowsAffected(0), nil
}

func (r *rowsT) Columns() []string {
	res := make([]string, r.cols)
	for i := range res {
		res[i] = "c" + string(rune('a'+i%26))
	}
	return res
}
func (r *rowsT) Close() error { return nil }
func (r *rowsT) Next(dest []driver.Value) error {
	if r.i >= len(r.rows) {
		return io.EOF
	}
	row := r.rows[r.i]
	r.i++
	for i := range dest {
		if i < len(row) {
			dest[i] = row[i]
		} else {
			dest[i] = nil
		}
	}
	return nil
}

type fakeDB struct{ db *sql.DB }

func (f *fakeDB) GetName() string { return "verif" }
func (f *fakeDB) QueryCtx(ctx context.Context, query string, args ...any) (*sql.Rows, error) {
	return f.db.QueryContext(ctx, query, args...)
}
func (f *fakeDB) ExecCtx(ctx context.Context, query string, args ...any) error {
	_, err := f.db.ExecContext(ctx, query, args...)
	return err
}
func (f *fakeDB) Conn(ctx context.Context) (*sql.Conn, error) { return f.db.Conn(ctx) }
func (f *fakeDB) Begin() (*sql.Tx, error)                     { return f.db.Begin() }
func (f *fakeDB) Close()                                      {}

type fakeRegistry struct{ m *model.DataDatabasesMap }

func (r *fakeRegistry) GetDB(ctx context.Context) (*model.DataDatabasesMap, error) { return r.m, nil }
func (r *fakeRegistry) Run()                                                        {}
func (r *fakeRegistry) Stop()                                                       {}
func (r *fakeRegistry) Ping() error                                                 { return nil }

var theDB *sql.DB

func newRegistry(cluster bool) *fakeRegistry {
	if theDB == nil {
		sql.Register("verifpromsel", drv{})
		db, err := sql.Open("verifpromsel", "")
		if err != nil {
			panic(err)
		}
		db.SetMaxOpenConns(64)
		db.SetConnMaxLifetime(time.Hour)
		theDB = db
	}
	cfg := &clconfig.ClokiBaseDataBase{Name: "qryn", Node: "n1"}
	if cluster {
		cfg.ClusterName = "cl1"
	}
	return &fakeRegistry{m: &model.DataDatabasesMap{Config: cfg, Session: &fakeDB{db: theDB}}}
}
