// readscan runs EVERY read endpoint of the in-process reader router (apirouterv1.Route* over a fake
// IDBRegistry whose ISqlxDB records every SQL string; the rows come from a scripted database/sql
// driver) under a sweep of process time zones (time.Local), request windows (crossing midnight,
// month/year ends, the first half hour of a day, sub-second, seeded random ones) and both table
// layouts (single node / cluster). It prints one JSON line per request (kind "req") followed by one
// line per statement that reached the database (kind "stmt") with the endpoint, the requested window,
// the allowed widening, the zone, the SQL text and its parse (harness/sqlparse) in Coq and OCaml syntax.
//
// --cases <file>: re-run the requests of a JSON-lines file (fields ep, zone, cluster, from_ns, to_ns, schema).
package main

import (
	"bytes"
	"context"
	"database/sql"
	"database/sql/driver"
	"encoding/json"
	"errors"
	"flag"
	"fmt"
	"io"
	"math/rand"
	"net/http"
	"net/http/httptest"
	"net/url"
	"os"
	"regexp"
	"sort"
	"strconv"
	"strings"
	"sync"
	"time"

	"github.com/gorilla/mux"
	"github.com/gorilla/websocket"
	clconfig "github.com/metrico/cloki-config"
	clcfg "github.com/metrico/cloki-config/config"
	"github.com/metrico/qryn/reader/config"
	"github.com/metrico/qryn/reader/model"
	"github.com/metrico/qryn/reader/prof"
	v1 "github.com/metrico/qryn/reader/prof/types/v1"
	apirouterv1 "github.com/metrico/qryn/reader/router"
	"github.com/metrico/qryn/reader/utils/logger"
	"github.com/sirupsen/logrus"
	"google.golang.org/protobuf/proto"
	"verif/harness/hx"
	"verif/harness/sqlparse"
)

// ---------------------------------------------------------------- recording database

type rec struct {
	mtx   sync.Mutex
	stmts []string
}

var recorder rec

func (r *rec) add(q string) {
	r.mtx.Lock()
	r.stmts = append(r.stmts, q)
	r.mtx.Unlock()
}
func (r *rec) take() []string {
	r.mtx.Lock()
	defer r.mtx.Unlock()
	s := r.stmts
	r.stmts = nil
	return s
}

var bigComplexity = false // the TraceQL complexity statement answers 25e6 (portioned processing)
var portionRe = regexp.MustCompile(`cityHash64\(trace_id\) % \d+\) == \((\d+)\)`)

// GenPortions: a portioned TraceQL search whose portions RETURN rows: the complexity estimate the database answers, the
// limit of the request and, per portion, the start times (ns) of the traces its search statement returns (newest first)
type GenPortions struct {
	Complexity int64     `json:"complexity"`
	Limit      int       `json:"limit"`
	Rows       [][]int64 `json:"rows"`
}

var curPort *GenPortions

// genPortions simulates a store: every portion holds some traces of the window; a portion returns the `limit` newest of
// (what the previous portion kept, re-read by id) and (its own traces inside the window it is sent with); once a portion
// fills the limit the window of the next one starts at the oldest trace kept
func genPortions(r *rand.Rand, w Window) *GenPortions {
	from, to := w.FromNs/1e9*1e9, w.ToNs/1e9*1e9
	n := 2 + r.Intn(3)
	g := &GenPortions{Complexity: int64(n)*10000000 - int64(r.Intn(1000000)), Limit: []int{1, 2, 3, 5}[r.Intn(4)]}
	cur := from
	var kept []int64
	for k := 0; k < n; k++ {
		cand := append([]int64{}, kept...)
		for i, m := 0, r.Intn(g.Limit+2); i < m; i++ {
			st := cur + r.Int63n(to-cur)
			switch r.Intn(3) {
			case 0:
				st = st / 1e9 * 1e9 // a whole second: time.Time.Nanosecond() == 0
			case 1:
				st = st / 1e6 * 1e6
			}
			if st < cur {
				st = cur
			}
			cand = append(cand, st)
		}
		sort.Slice(cand, func(i, j int) bool { return cand[i] > cand[j] })
		if len(cand) > g.Limit {
			cand = cand[:g.Limit]
		}
		g.Rows = append(g.Rows, cand)
		kept = cand
		if len(cand) == g.Limit {
			cur = cand[len(cand)-1]
		}
	}
	return g
}

// needFrom: the latest lower bound portion k may be sent with: the requested From until a portion fills the limit, from
// then on the oldest trace the last full portion kept
func (g *GenPortions) needFrom(reqFrom int64, k int) int64 {
	need := reqFrom
	for i := 0; i < k && i < len(g.Rows); i++ {
		if len(g.Rows[i]) == g.Limit && g.Limit > 0 {
			need = g.Rows[i][len(g.Rows[i])-1]
			for _, st := range g.Rows[i] {
				if st < need {
					need = st
				}
			}
		}
	}
	return need
}

var schemaNew = true // answers of the two dbVersion statements: current schema (tempo_v2, v5) or an old one

type drv struct{}
type conn struct{}
type rowsT struct {
	cols int
	rows [][]driver.Value
	i    int
}

func (drv) Open(string) (driver.Conn, error) { return &conn{}, nil }
func (*conn) Prepare(string) (driver.Stmt, error) {
	return nil, errors.New("prepare not supported by the scripted driver")
}
func (*conn) Close() error                             { return nil }
func (*conn) Begin() (driver.Tx, error)                { return nil, errors.New("no tx") }
func (*conn) CheckNamedValue(*driver.NamedValue) error { return nil }

// the wire side: rows that make the reader go on to its follow-up statements
func (*conn) QueryContext(ctx context.Context, q string, args []driver.NamedValue) (driver.Rows, error) {
	switch {
	case strings.Contains(q, "type='update'"):
		if schemaNew {
			return &rowsT{cols: 2, rows: [][]driver.Value{{"tempo_v2", "0"}, {"v3_1", "0"}}}, nil
		}
		return &rowsT{cols: 2}, nil
	case strings.Contains(q, "SHOW TABLES"):
		if schemaNew {
			return &rowsT{cols: 1, rows: [][]driver.Value{{"samples_v3"}, {"time_series"}}}, nil
		}
		return &rowsT{cols: 1, rows: [][]driver.Value{{"metrics_15s"}}}, nil
	case strings.Contains(q, "timestamp_ms") && strings.Contains(q, "fingerprint") && !strings.Contains(q, "labels"):
		// CLokiQuerier.Select: (fingerprint, value, timestamp_ms) -> triggers labelsGetter.Fetch
		if strings.Contains(q, "('c')") {
			// the second selector of a multi-selector query: other series, so that its label fetch is recognisable
			return &rowsT{cols: 3, rows: [][]driver.Value{{uint64(17), float64(1), int64(1704888000000)}, {uint64(19), float64(2), int64(1704888015000)}}}, nil
		}
		return &rowsT{cols: 3, rows: [][]driver.Value{{uint64(7), float64(1), int64(1704888000000)}, {uint64(9), float64(2), int64(1704888015000)}}}, nil
	case curPort != nil && strings.Contains(q, "count() as _count"):
		return &rowsT{cols: 1, rows: [][]driver.Value{{curPort.Complexity}}}, nil
	case curPort != nil && strings.Contains(q, "traces_info"):
		// the search statement of one portion: `limit` (or fewer) traces, newest first, as TracesDataPlanner orders them
		k := 0
		if m := portionRe.FindStringSubmatch(q); m != nil {
			k, _ = strconv.Atoi(m[1])
		}
		res := &rowsT{cols: 8}
		if k < len(curPort.Rows) {
			for i, st := range curPort.Rows[k] {
				id := fmt.Sprintf("%032x", st)
				res.rows = append(res.rows, []driver.Value{id, []string{fmt.Sprintf("%016x", i+1)}, []int64{2000000}, []int64{st}, st, float64(2), "svc", "op"})
			}
		}
		return res, nil
	case bigComplexity && strings.Contains(q, "count() as _count"):
		// TraceQL complexity estimate: 25e6 rows => the request is processed in 3 portions
		return &rowsT{cols: 1, rows: [][]driver.Value{{int64(25000000)}}}, nil
	}
	return &rowsT{cols: 1}, nil
}
func (*conn) ExecContext(ctx context.Context, q string, args []driver.NamedValue) (driver.Result, error) {
	return driver.RowsAffected(0), nil
}
func (r *rowsT) Columns() []string {
	res := make([]string, r.cols)
	for i := range res {
		res[i] = "c" + string(rune('a'+i%26))
	}
	return res
}
func (r *rowsT) Close() error { return nil }
func (r *rowsT) Next(dest []driver.Value) error {
	if r.i >= len(r.rows) {
		return io.EOF
	}
	row := r.rows[r.i]
	r.i++
	for i := range dest {
		if i < len(row) {
			dest[i] = row[i]
		} else {
			dest[i] = nil
		}
	}
	return nil
}

type fakeDB struct {
	db   *sql.DB
	name string
}

func (f *fakeDB) GetName() string { return f.name }
func (f *fakeDB) QueryCtx(ctx context.Context, query string, args ...any) (*sql.Rows, error) {
	if !strings.Contains(query, "type='update'") && !strings.Contains(query, "SHOW TABLES") {
		recorder.add(query)
	}
	return f.db.QueryContext(ctx, query, args...)
}
func (f *fakeDB) ExecCtx(ctx context.Context, query string, args ...any) error {
	recorder.add(query)
	_, err := f.db.ExecContext(ctx, query, args...)
	return err
}
func (f *fakeDB) Conn(ctx context.Context) (*sql.Conn, error) { return f.db.Conn(ctx) }
func (f *fakeDB) Begin() (*sql.Tx, error)                     { return f.db.Begin() }
func (f *fakeDB) Close()                                      {}

type fakeRegistry struct {
	m *model.DataDatabasesMap
}

func (r *fakeRegistry) GetDB(ctx context.Context) (*model.DataDatabasesMap, error) { return r.m, nil }
func (r *fakeRegistry) Run()                                                       {}
func (r *fakeRegistry) Stop()                                                      {}
func (r *fakeRegistry) Ping() error                                                { return nil }

var sqlDB *sql.DB

func newRouter(cluster bool, schemaTag string) *mux.Router {
	cfg := &clcfg.ClokiBaseDataBase{Name: "verif", Node: "n1"}
	name := "verif_" + schemaTag
	if cluster {
		cfg.ClusterName = "c1"
		name += "_c"
	}
	reg := &fakeRegistry{m: &model.DataDatabasesMap{Config: cfg, Session: &fakeDB{db: sqlDB, name: name}}}
	router := mux.NewRouter()
	apirouterv1.RouteQueryRangeApis(router, reg)
	apirouterv1.RouteSelectLabels(router, reg)
	apirouterv1.RouteSelectPrometheusLabels(router, reg)
	apirouterv1.RoutePrometheusQueryRange(router, reg, false)
	apirouterv1.RouteTempo(router, reg)
	apirouterv1.RouteMiscApis(router)
	apirouterv1.RouteProf(router, reg)
	return router
}

// ---------------------------------------------------------------- windows

type Window struct {
	Class  string `json:"class"`
	FromNs int64  `json:"from_ns"`
	ToNs   int64  `json:"to_ns"`
}

func utc(y int, m time.Month, d, hh, mm, ss, ns int) int64 {
	return time.Date(y, m, d, hh, mm, ss, ns, time.UTC).UnixNano()
}

func fixedWindows() []Window {
	return []Window{
		{"plain-noon", utc(2024, 1, 10, 12, 0, 0, 0), utc(2024, 1, 10, 13, 0, 0, 0)},
		{"cross-midnight", utc(2024, 1, 9, 23, 50, 0, 0), utc(2024, 1, 10, 0, 10, 0, 0)},
		{"month-end", utc(2024, 1, 31, 23, 59, 30, 0), utc(2024, 2, 1, 0, 0, 30, 0)},
		{"leap-day", utc(2024, 2, 29, 22, 0, 0, 0), utc(2024, 3, 1, 2, 0, 0, 0)},
		{"year-end", utc(2023, 12, 31, 23, 59, 45, 0), utc(2024, 1, 1, 0, 0, 15, 0)},
		{"first-half-hour", utc(2024, 1, 10, 0, 5, 0, 0), utc(2024, 1, 10, 0, 25, 0, 0)},
		{"early-utc", utc(2024, 1, 10, 3, 0, 0, 0), utc(2024, 1, 10, 4, 0, 0, 0)},
		{"late-utc", utc(2024, 1, 10, 20, 0, 0, 0), utc(2024, 1, 10, 21, 0, 0, 0)},
		{"sub-second", utc(2024, 1, 10, 12, 0, 0, 250000000), utc(2024, 1, 10, 12, 0, 0, 750000000)},
		{"sub-second-midnight", utc(2024, 1, 9, 23, 59, 59, 600000000), utc(2024, 1, 10, 0, 0, 0, 400000000)},
		{"two-days", utc(2024, 3, 30, 6, 0, 0, 0), utc(2024, 4, 1, 18, 0, 0, 0)},
		{"one-second", utc(2024, 1, 10, 12, 0, 0, 0), utc(2024, 1, 10, 12, 0, 1, 0)},
	}
}

// ---------------------------------------------------------------- endpoints

type Endpoint struct {
	Name string
	Api  string // logs | metrics | traces | profiles
	// builds the request for a window; returns the allowed extra widening of the data bounds below from / above to (ns)
	Build func(w Window) (req *http.Request, widenLo int64, widenHi int64)
	// NoWindow: the API has no window parameter at all (or the request leaves it out)
	NoWindow bool
	WS       bool  // websocket endpoint (live tail)
	Gran     int64 // granularity of the API's time parameters in ns (0 = 1): the requested window is what can be asked for
	// a request that reads several windows (PromQL selectors with offsets): Offsets[k] is how far selector k's window
	// lies before the request window; Selector tells which selector a recorded statement belongs to
	Offsets  []int64
	Selector func(sql string) int
	Complex  bool // TraceQL: answer the complexity estimate with a large number
	// Prometheus query / query_range: the EXACT window of every selector (see promHint). When set, each recorded statement
	// is judged against the hint window of its selector with no widening at all (a slot table such as metrics_15s is
	// judged at slot granularity by the oracle itself)
	PromSels []PromSel
	Instant  bool
}

// PromSel: how far selector k reaches back. The engine (promql.Engine.getTimeRangesForSelector of the vendored
// Prometheus) asks the storage for [start - back - offset, end - offset] in milliseconds, both ends included, where back
// is the range of a matrix selector (plus the range of an enclosing subquery and the lookback of its inner selector) or
// the lookback delta of 5 minutes; PromQueryRangeController snaps start down and end up to 15 s first.
type PromSel struct{ BackMs, OffsetMs int64 }

// promHint: hints.Start / hints.End (ms) of selector k for the window w
func promHint(ep *Endpoint, w Window, k int) (int64, int64) {
	ps := ep.PromSels[k]
	if ep.Instant {
		t := w.ToNs / 1e9
		return t*1000 - ps.BackMs - ps.OffsetMs, t*1000 - ps.OffsetMs
	}
	s := w.FromNs / 1e9 / 15 * 15
	e := (w.ToNs/1e9 + 14) / 15 * 15
	return s*1000 - ps.BackMs - ps.OffsetMs, e*1000 - ps.OffsetMs
}

func get(path string, kv ...string) *http.Request {
	q := url.Values{}
	for i := 0; i+1 < len(kv); i += 2 {
		q.Add(kv[i], kv[i+1])
	}
	u := "http://qryn.local" + path
	if len(q) > 0 {
		u += "?" + q.Encode()
	}
	r, err := http.NewRequest("GET", u, nil)
	if err != nil {
		panic(err)
	}
	return r
}

func post(path string, m proto.Message) *http.Request {
	b, err := proto.Marshal(m)
	if err != nil {
		panic(err)
	}
	r, err := http.NewRequest("POST", "http://qryn.local"+path, bytes.NewReader(b))
	if err != nil {
		panic(err)
	}
	r.Header.Set("Content-Type", "application/proto")
	return r
}

func ns(v int64) string  { return fmt.Sprint(v) }
func sec(v int64) string { return fmt.Sprint(v / 1e9) }
func ms(v int64) int64   { return v / 1e6 }

const second = int64(1e9)
const minute = 60 * second

// bucketWiden: a range aggregation over d reads whole range buckets (FixPeriodPlanner: From = from/d*d, To = to/d*d + d):
// the data bounds may be widened exactly to the enclosing bucket boundaries, not by a whole d on either side
func bucketWiden(from, to, d int64) (int64, int64) {
	if d <= 0 {
		return 0, 0
	}
	return from - from/d*d, to/d*d + d - to - 1
}

func lokiRange(name, q string, stepS string, widen int64) Endpoint {
	return Endpoint{Name: name, Api: "logs", Build: func(w Window) (*http.Request, int64, int64) {
		lo, hi := bucketWiden(w.FromNs, w.ToNs, widen)
		// at most 11000 points per series are accepted: long windows get a longer step
		var step int64
		fmt.Sscan(stepS, &step)
		if m := (w.ToNs-w.FromNs)/second/10000 + 1; m > step {
			step = m
		}
		return get("/loki/api/v1/query_range", "query", q, "start", ns(w.FromNs), "end", ns(w.ToNs), "step", fmt.Sprint(step), "limit", "100"), lo, hi
	}}
}

func promRange(name, q string, stepS string, widen int64) Endpoint {
	return Endpoint{Name: name, Api: "metrics", Build: func(w Window) (*http.Request, int64, int64) {
		// the controller snaps start down / end up to 15 s; the engine reads back the lookback delta (5 min) or the range
		// at most 11000 points per series are accepted: long windows get a longer step
		var step int64
		fmt.Sscan(stepS, &step)
		if m := (w.ToNs-w.FromNs)/second/10000 + 1; m > step {
			step = (m + 14) / 15 * 15
		}
		return get("/api/v1/query_range", "query", q, "start", sec(w.FromNs), "end", sec(w.ToNs), "step", fmt.Sprint(step)), widen + 15*second, 30 * second
	}, PromSels: []PromSel{{BackMs: widen / 1e6}}}
}

// which selector of `... {a="b"} ... {a="c"} offset ...` a statement belongs to: the select carries the matcher
// value, the label fetch the fingerprints the scripted database answered for that selector
func promSelector(q string) int {
	if strings.Contains(q, "('c')") || strings.Contains(q, "17") && strings.Contains(q, "19") && strings.Contains(q, "fingerprint IN (1") {
		return 1
	}
	return 0
}

func promMulti(name, q string, stepS string, widen int64, offsets []int64) Endpoint {
	e := promRange(name, q, stepS, widen)
	e.Offsets = offsets
	e.Selector = promSelector
	e.PromSels = nil
	for _, o := range offsets {
		e.PromSels = append(e.PromSels, PromSel{BackMs: widen / 1e6, OffsetMs: o / 1e6})
	}
	return e
}

// GenProm: the parameters of a generated /api/v1/query_range request: one selector up{a="b"} under a function, with a
// range and an offset in MILLISECONDS (sub-second durations move hints.Start off the whole second) and a step in seconds
type GenProm struct {
	Func     string `json:"func"`
	RangeMs  int64  `json:"range_ms"`
	OffsetMs int64  `json:"offset_ms"`
	Step     int64  `json:"step"`
}

var curPGen *GenProm

var promRangeFuncs = map[string]bool{"sum_over_time": true, "avg_over_time": true, "max_over_time": true, "count_over_time": true,
	"last_over_time": true, "quantile_over_time": true, "stddev_over_time": true, "rate": true, "delta": true, "increase": true}

func (g *GenProm) query() string {
	sel := `up{a="b"}`
	if g.RangeMs > 0 {
		sel += fmt.Sprintf("[%dms]", g.RangeMs)
	}
	if g.OffsetMs > 0 {
		sel += fmt.Sprintf(" offset %dms", g.OffsetMs)
	}
	switch {
	case g.Func == "":
		return sel
	case g.Func == "quantile_over_time":
		return "quantile_over_time(0.5, " + sel + ")"
	default:
		return g.Func + "(" + sel + ")"
	}
}

func genProm(r *rand.Rand) *GenProm {
	funcs := []string{"", "", "sum_over_time", "avg_over_time", "max_over_time", "count_over_time", "last_over_time",
		"quantile_over_time", "stddev_over_time", "rate", "delta", "increase", "sum", "avg", "abs", "timestamp"}
	g := &GenProm{Func: funcs[r.Intn(len(funcs))]}
	if promRangeFuncs[g.Func] {
		g.RangeMs = []int64{15000, 14999, 60000, 89500, 90001, 29250, 300000, 1000, 74500, 45001}[r.Intn(10)]
	}
	g.OffsetMs = []int64{0, 0, 0, 500, 1, 999, 14500, 899500, 15000, 86400250, 30500, 599001}[r.Intn(12)]
	g.Step = []int64{5, 14, 15, 15, 16, 30, 60, 60}[r.Intn(8)]
	return g
}

const traceID = "0123456789abcdef0123456789abcdef"

// GenTempo: the parameters of a generated /api/search request (Tempo v1, by tags): tags as (key, condition, value),
// limit / minDuration / maxDuration as sent ("" = parameter absent)
type GenTempo struct {
	Tags   [][3]string `json:"tags"`
	Limit  string      `json:"limit"`
	MinDur string      `json:"min_dur"`
	MaxDur string      `json:"max_dur"`
}

var curGen *GenTempo

// a literal of the tags grammar ([^ !=~"]+) or a quoted string
func tagTok(v string) string {
	if v != "" && !strings.ContainsAny(v, " !=~\"") {
		return v
	}
	return strconv.Quote(v)
}

func (g *GenTempo) tagsParam() string {
	parts := make([]string, len(g.Tags))
	for i, t := range g.Tags {
		parts[i] = tagTok(t[0]) + t[1] + tagTok(t[2])
	}
	return strings.Join(parts, " ")
}

func genTempo(r *rand.Rand) *GenTempo {
	keys := []string{"a", "http.method", "service.name", "k 1", "weird\"key", "x=y", "c"}
	vals := []string{"b", "d.*", "it's", "a b", "200", "^x$", "back\\slash", "\u00fc", "1=1", "d"}
	ops := []string{"=", "!=", "=~", "!~"}
	g := &GenTempo{}
	for i, n := 0, r.Intn(4); i < n; i++ {
		g.Tags = append(g.Tags, [3]string{keys[r.Intn(len(keys))], ops[r.Intn(len(ops))], vals[r.Intn(len(vals))]})
	}
	g.Limit = []string{"", "0", "1", "20", "100"}[r.Intn(5)]
	g.MinDur = []string{"", "", "1ms", "1500us", "250ms"}[r.Intn(5)]
	g.MaxDur = []string{"", "", "2s", "250ms"}[r.Intn(4)]
	return g
}

func endpoints() []Endpoint {
	profType := "process_cpu:cpu:nanoseconds:cpu:nanoseconds"
	eps := []Endpoint{
		lokiRange("loki_range_log", `{a="b"} |= "x"`, "1", 0),
		lokiRange("loki_range_two_matchers", `{a="b", c=~"d.*"} != "y" |~ "z+"`, "1", 0),
		lokiRange("loki_range_simple_label_filter", `{a="b"} | c="d"`, "1", 0),
		lokiRange("loki_range_json_params", `{a="b"} | json x="y" | x="1"`, "1", 0),
		lokiRange("loki_range_json", `{a="b"} | json | x="1"`, "1", 0),
		lokiRange("loki_range_rate", `rate({a="b"}[5m])`, "60", 5*minute),
		lokiRange("loki_range_agg", `sum by (a) (count_over_time({a="b"} |= "x" [1m]))`, "30", 1*minute),
		lokiRange("loki_range_unwrap", `sum_over_time({a="b"} | json x="y" | unwrap x [1m])`, "30", 1*minute),
		lokiRange("loki_range_topk", `topk(2, rate({a="b"}[1m]))`, "60", 1*minute),
		// a range that is no multiple of 15 s: the roll-up shortcut must not be taken (its slots do not tile the range buckets)
		lokiRange("loki_range_rate_20s", `rate({a="b"}[20s])`, "20", 20*second),
		lokiRange("loki_range_count_45s", `sum by (a) (count_over_time({a="b"}[45s]))`, "45", 45*second),
		{Name: "loki_instant_log", Api: "logs", Build: func(w Window) (*http.Request, int64, int64) {
			// the instant endpoint reads the 5 minutes before `time`: its window is [time - 5 min, time]
			return get("/loki/api/v1/query", "query", `{a="b"} |= "x"`, "time", ns(w.ToNs), "limit", "10"), 0, 0
		}},
		{Name: "loki_instant_rate", Api: "logs", Build: func(w Window) (*http.Request, int64, int64) {
			lo, hi := bucketWiden(w.ToNs-5*minute, w.ToNs, 1*minute)
			return get("/loki/api/v1/query", "query", `rate({a="b"}[1m])`, "time", ns(w.ToNs)), lo, hi
		}},
		{Name: "loki_tail", Api: "logs", WS: true, Build: func(w Window) (*http.Request, int64, int64) {
			return get("/loki/api/v1/tail", "query", `{a="b"} |= "x"`), 2 * second, 2 * second
		}},
		{Name: "loki_labels", Api: "logs", Build: func(w Window) (*http.Request, int64, int64) {
			return get("/loki/api/v1/labels", "start", ns(w.FromNs), "end", ns(w.ToNs)), 0, 0
		}},
		{Name: "loki_label_values", Api: "logs", Build: func(w Window) (*http.Request, int64, int64) {
			return get("/loki/api/v1/label/job/values", "start", ns(w.FromNs), "end", ns(w.ToNs)), 0, 0
		}},
		{Name: "loki_label_values_match", Api: "logs", Build: func(w Window) (*http.Request, int64, int64) {
			return get("/loki/api/v1/label/job/values", "start", ns(w.FromNs), "end", ns(w.ToNs), "match[]", `{a="b"}`), 0, 0
		}},
		{Name: "loki_series", Api: "logs", Build: func(w Window) (*http.Request, int64, int64) {
			return get("/loki/api/v1/series", "start", ns(w.FromNs), "end", ns(w.ToNs), "match[]", `{a="b"}`, "match[]", `{c=~"d.*"}`), 0, 0
		}},
		{Name: "prom_labels", Api: "metrics", Build: func(w Window) (*http.Request, int64, int64) {
			return get("/api/v1/labels", "start", sec(w.FromNs), "end", sec(w.ToNs)), 0, 0
		}},
		{Name: "prom_label_values", Api: "metrics", Build: func(w Window) (*http.Request, int64, int64) {
			return get("/api/v1/label/job/values", "start", sec(w.FromNs), "end", sec(w.ToNs)), 0, 0
		}},
		{Name: "prom_label_values_match", Api: "metrics", Build: func(w Window) (*http.Request, int64, int64) {
			return get("/api/v1/label/job/values", "start", sec(w.FromNs), "end", sec(w.ToNs), "match[]", `up{a="b"}`), 0, 0
		}},
		{Name: "prom_series", Api: "metrics", Build: func(w Window) (*http.Request, int64, int64) {
			return get("/api/v1/series", "start", sec(w.FromNs), "end", sec(w.ToNs), "match[]", `up{a="b"}`), 0, 0
		}},
		promRange("prom_range_downsample", `up{a="b"}`, "15", 5*minute),
		promRange("prom_range_raw_step", `up{a="b"}`, "5", 5*minute),
		promRange("prom_range_rate", `rate(up{a="b"}[1m])`, "30", 1*minute),
		promRange("prom_range_sum_over_time", `sum_over_time(up{a="b"}[5m])`, "60", 5*minute),
		promRange("prom_range_quantile_over_time", `quantile_over_time(0.5, up{a="b"}[2m])`, "60", 2*minute),
		promRange("prom_range_sum_by", `sum by (a) (up{a=~"b.*", c!="d"})`, "15", 5*minute),
		promMulti("prom_range_offset_1d", `up{a="b"} or up{a="c"} offset 1d`, "15", 5*minute, []int64{0, 24 * 60 * minute}),
		promMulti("prom_range_offset_36h", `up{a="b"} - up{a="c"} offset 36h`, "60", 5*minute, []int64{0, 36 * 60 * minute}),
		promMulti("prom_range_rate_offset_1w", `rate(up{a="b"}[5m]) / rate(up{a="c"}[5m] offset 1w)`, "60", 5*minute, []int64{0, 7 * 24 * 60 * minute}),
		promRange("prom_range_subquery", `max_over_time(up{a="b"}[30m:5m])`, "60", 35*minute),
		// sub-second durations in the query text: hints.Start = 15-second boundary + 500 ms although start / end / step are whole
		// seconds (the roll-up table must not be chosen: seeded change C13-f)
		promRange("prom_range_subsec_range", `sum_over_time(up{a="b"}[89500ms])`, "60", 89500*1e6),
		promMulti("prom_range_subsec_offset", `up{a="b"} offset 14m59s500ms`, "15", 5*minute, []int64{899500 * 1e6}),
		{Name: "prom_gen", Api: "metrics", PromSels: []PromSel{{}}, Build: func(w Window) (*http.Request, int64, int64) {
			step := curPGen.Step
			if m := (w.ToNs-w.FromNs)/second/10000 + 1; m > step {
				step = (m + 14) / 15 * 15
			}
			return get("/api/v1/query_range", "query", curPGen.query(), "start", sec(w.FromNs), "end", sec(w.ToNs), "step", fmt.Sprint(step)), 0, 0
		}},
		{Name: "prom_instant_offset_1d", Api: "metrics", Offsets: []int64{0, 24 * 60 * minute}, Selector: promSelector, Instant: true,
			PromSels: []PromSel{{BackMs: 300000}, {BackMs: 300000, OffsetMs: 86400000}}, Build: func(w Window) (*http.Request, int64, int64) {
				return get("/api/v1/query", "query", `up{a="b"} or up{a="c"} offset 1d`, "time", sec(w.ToNs)), 5*minute + 15*second, 15 * second
			}},
		{Name: "prom_instant", Api: "metrics", Instant: true, PromSels: []PromSel{{BackMs: 300000}}, Build: func(w Window) (*http.Request, int64, int64) {
			return get("/api/v1/query", "query", `up{a="b"}`, "time", sec(w.ToNs)), 5*minute + 15*second, 15 * second
		}},
		{Name: "tempo_trace", Api: "traces", Build: func(w Window) (*http.Request, int64, int64) {
			return get("/api/traces/"+traceID, "start", sec(w.FromNs), "end", sec(w.ToNs)), 0, 0
		}},
		{Name: "tempo_trace_nowindow", Api: "traces", NoWindow: true, Build: func(w Window) (*http.Request, int64, int64) {
			return get("/api/traces/" + traceID), 0, 0
		}},
		{Name: "tempo_tags", Api: "traces", NoWindow: true, Build: func(w Window) (*http.Request, int64, int64) {
			return get("/api/search/tags"), 0, 0
		}},
		{Name: "tempo_tag_values", Api: "traces", NoWindow: true, Build: func(w Window) (*http.Request, int64, int64) {
			return get("/api/search/tag/service.name/values"), 0, 0
		}},
		{Name: "tempo_tags_v2", Api: "traces", Build: func(w Window) (*http.Request, int64, int64) {
			return get("/api/v2/search/tags", "start", sec(w.FromNs), "end", sec(w.ToNs)), 0, 0
		}},
		{Name: "tempo_tags_v2_q", Api: "traces", Build: func(w Window) (*http.Request, int64, int64) {
			return get("/api/v2/search/tags", "start", sec(w.FromNs), "end", sec(w.ToNs), "q", `{.a="b"}`), 0, 0
		}},
		{Name: "tempo_values_v2", Api: "traces", Build: func(w Window) (*http.Request, int64, int64) {
			return get("/api/v2/search/tag/.service.name/values", "start", sec(w.FromNs), "end", sec(w.ToNs)), 0, 0
		}},
		{Name: "tempo_values_v2_q", Api: "traces", Build: func(w Window) (*http.Request, int64, int64) {
			return get("/api/v2/search/tag/.service.name/values", "start", sec(w.FromNs), "end", sec(w.ToNs), "q", `{.a="b"}`), 0, 0
		}},
		{Name: "tempo_search_tags", Api: "traces", Build: func(w Window) (*http.Request, int64, int64) {
			return get("/api/search", "tags", `a=b c=d`, "start", sec(w.FromNs), "end", sec(w.ToNs), "minDuration", "1ms", "limit", "20"), 0, 0
		}},
		{Name: "tempo_search_gen", Api: "traces", Build: func(w Window) (*http.Request, int64, int64) {
			kv := []string{"start", sec(w.FromNs), "end", sec(w.ToNs)}
			if t := curGen.tagsParam(); t != "" {
				kv = append(kv, "tags", t)
			}
			for _, p := range [][2]string{{"limit", curGen.Limit}, {"minDuration", curGen.MinDur}, {"maxDuration", curGen.MaxDur}} {
				if p[1] != "" {
					kv = append(kv, p[0], p[1])
				}
			}
			return get("/api/search", kv...), 0, 0
		}},
		{Name: "tempo_search_plain", Api: "traces", Build: func(w Window) (*http.Request, int64, int64) {
			return get("/api/search", "start", sec(w.FromNs), "end", sec(w.ToNs), "limit", "20"), 0, 0
		}},
		{Name: "tempo_search_traceql", Api: "traces", Build: func(w Window) (*http.Request, int64, int64) {
			return get("/api/search", "q", `{.a="b" && duration>1ms}`, "start", sec(w.FromNs), "end", sec(w.ToNs), "limit", "20"), 0, 0
		}},
		{Name: "tempo_search_traceql_portions", Api: "traces", Complex: true, Build: func(w Window) (*http.Request, int64, int64) {
			return get("/api/search", "q", `{.a="b" && duration>1ms}`, "start", sec(w.FromNs), "end", sec(w.ToNs), "limit", "20"), 0, 0
		}},
		{Name: "tempo_search_traceql_portions_rows", Api: "traces", Build: func(w Window) (*http.Request, int64, int64) {
			return get("/api/search", "q", `{.a="b" && duration>1ms}`, "start", sec(w.FromNs), "end", sec(w.ToNs), "limit", fmt.Sprint(curPort.Limit)), 0, 0
		}},
		{Name: "tempo_search_traceql_attrless", Api: "traces", Build: func(w Window) (*http.Request, int64, int64) {
			return get("/api/search", "q", `{duration>1ms}`, "start", sec(w.FromNs), "end", sec(w.ToNs), "limit", "20"), 0, 0
		}},
		{Name: "tempo_search_traceql_complex", Api: "traces", Build: func(w Window) (*http.Request, int64, int64) {
			return get("/api/search", "q", `{.a="b"} && {.c=~"d.*"} | count() > 1`, "start", sec(w.FromNs), "end", sec(w.ToNs), "limit", "20"), 0, 0
		}},
		{Name: "prof_types", Api: "profiles", Build: func(w Window) (*http.Request, int64, int64) {
			return post(prof.QuerierService_ProfileTypes_FullMethodName, &prof.ProfileTypesRequest{Start: ms(w.FromNs), End: ms(w.ToNs)}), 0, 0
		}},
		{Name: "prof_label_names", Api: "profiles", Build: func(w Window) (*http.Request, int64, int64) {
			return post(prof.QuerierService_LabelNames_FullMethodName, &v1.LabelNamesRequest{Matchers: []string{`{a="b"}`}, Start: ms(w.FromNs), End: ms(w.ToNs)}), 0, 0
		}},
		{Name: "prof_label_names_nomatch", Api: "profiles", Build: func(w Window) (*http.Request, int64, int64) {
			return post(prof.QuerierService_LabelNames_FullMethodName, &v1.LabelNamesRequest{Start: ms(w.FromNs), End: ms(w.ToNs)}), 0, 0
		}},
		{Name: "prof_label_values", Api: "profiles", Build: func(w Window) (*http.Request, int64, int64) {
			return post(prof.QuerierService_LabelValues_FullMethodName, &v1.LabelValuesRequest{Name: "job", Matchers: []string{`{a="b"}`}, Start: ms(w.FromNs), End: ms(w.ToNs)}), 0, 0
		}},
		{Name: "prof_merge_stacktraces", Api: "profiles", Build: func(w Window) (*http.Request, int64, int64) {
			return post(prof.QuerierService_SelectMergeStacktraces_FullMethodName, &prof.SelectMergeStacktracesRequest{ProfileTypeID: profType, LabelSelector: `{a="b"}`, Start: ms(w.FromNs), End: ms(w.ToNs)}), 0, 0
		}},
		{Name: "prof_select_series", Api: "profiles", Build: func(w Window) (*http.Request, int64, int64) {
			return post(prof.QuerierService_SelectSeries_FullMethodName, &prof.SelectSeriesRequest{ProfileTypeID: profType, LabelSelector: `{a="b"}`, Start: ms(w.FromNs), End: ms(w.ToNs), Step: 15, GroupBy: []string{"a"}}), 15 * second, 15 * second
		}},
		{Name: "prof_merge_profile", Api: "profiles", Build: func(w Window) (*http.Request, int64, int64) {
			return post(prof.QuerierService_SelectMergeProfile_FullMethodName, &prof.SelectMergeProfileRequest{ProfileTypeID: profType, LabelSelector: `{a="b"}`, Start: ms(w.FromNs), End: ms(w.ToNs)}), 0, 0
		}},
		{Name: "prof_series", Api: "profiles", Build: func(w Window) (*http.Request, int64, int64) {
			return post(prof.QuerierService_Series_FullMethodName, &prof.SeriesRequest{Matchers: []string{`{a="b"}`}, LabelNames: []string{"a"}, Start: ms(w.FromNs), End: ms(w.ToNs)}), 0, 0
		}},
		{Name: "prof_series_two", Api: "profiles", Build: func(w Window) (*http.Request, int64, int64) {
			return post(prof.QuerierService_Series_FullMethodName, &prof.SeriesRequest{Matchers: []string{`{a="b"}`, `{job="x2"}`}, Start: ms(w.FromNs), End: ms(w.ToNs)}), 0, 0
		}},
		{Name: "prof_label_names_two", Api: "profiles", Build: func(w Window) (*http.Request, int64, int64) {
			return post(prof.QuerierService_LabelNames_FullMethodName, &v1.LabelNamesRequest{Matchers: []string{`{a="b"}`, `{job="x2"}`}, Start: ms(w.FromNs), End: ms(w.ToNs)}), 0, 0
		}},
		{Name: "prof_series_nomatch", Api: "profiles", Build: func(w Window) (*http.Request, int64, int64) {
			return post(prof.QuerierService_Series_FullMethodName, &prof.SeriesRequest{Start: ms(w.FromNs), End: ms(w.ToNs)}), 0, 0
		}},
		{Name: "prof_stats", Api: "profiles", NoWindow: true, Build: func(w Window) (*http.Request, int64, int64) {
			return post(prof.QuerierService_GetProfileStats_FullMethodName, &v1.GetProfileStatsRequest{}), 0, 0
		}},
		{Name: "prof_analyze", Api: "profiles", Build: func(w Window) (*http.Request, int64, int64) {
			return post(prof.QuerierService_AnalyzeQuery_FullMethodName, &prof.AnalyzeQueryRequest{Query: `{a="b"}`, Start: ms(w.FromNs), End: ms(w.ToNs)}), 0, 0
		}},
		{Name: "prof_render_diff", Api: "profiles", Build: func(w Window) (*http.Request, int64, int64) {
			return get("/pyroscope/render-diff", "leftQuery", profType+`{a="b"}`, "leftFrom", fmt.Sprint(ms(w.FromNs)), "leftUntil", fmt.Sprint(ms(w.ToNs)),
				"rightQuery", profType+`{a="c"}`, "rightFrom", fmt.Sprint(ms(w.FromNs)), "rightUntil", fmt.Sprint(ms(w.ToNs))), 0, 0
		}},
	}
	for i := range eps {
		switch {
		case strings.HasPrefix(eps[i].Name, "prof_"):
			eps[i].Gran = 1e6 // milliseconds
		case strings.HasPrefix(eps[i].Name, "loki_"):
			eps[i].Gran = 1 // nanoseconds
		default:
			eps[i].Gran = 1e9 // seconds
		}
	}
	return eps
}

// ---------------------------------------------------------------- running

type ReqCase struct {
	Ep      string `json:"ep"`
	Zone    int    `json:"zone"` // seconds east of UTC
	Cluster bool   `json:"cluster"`
	Schema  string `json:"schema"` // new | old
	Window
	Gen  *GenTempo    `json:"gen,omitempty"`  // tempo_search_gen: the generated parameters
	PGen *GenProm     `json:"pgen,omitempty"` // prom_gen: the generated parameters
	Port *GenPortions `json:"port,omitempty"` // tempo_search_traceql_portions_rows: the scripted answers
}

type Line struct {
	Kind     string       `json:"kind"` // req | stmt
	ID       int          `json:"id"`
	Req      int          `json:"req"`
	Ep       string       `json:"ep"`
	Api      string       `json:"api"`
	Zone     int          `json:"zone"`
	Cluster  bool         `json:"cluster"`
	Schema   string       `json:"schema"`
	Class    string       `json:"class"`
	FromNs   int64        `json:"from_ns"`
	ToNs     int64        `json:"to_ns"`
	WidenLo  int64        `json:"widen_lo"`
	WidenHi  int64        `json:"widen_hi"`
	NoWindow bool         `json:"no_window"`
	Status   int          `json:"status,omitempty"`
	NStmts   int          `json:"nstmts,omitempty"`
	URL      string       `json:"url,omitempty"`
	Idx      int          `json:"idx,omitempty"`
	Sel      int          `json:"sel,omitempty"` // which selector of a multi-window request the statement belongs to
	SQL      string       `json:"sql,omitempty"`
	ParseErr string       `json:"parse_err,omitempty"`
	TreeCoq  string       `json:"tree_coq,omitempty"` // only for the first statement of every (endpoint, layout) pair
	TreeSx   string       `json:"tree_sx,omitempty"`
	Panic    string       `json:"panic,omitempty"`
	Body     string       `json:"body,omitempty"` // start of the response body of a failed request
	WinFrom  int64        `json:"win_from_ns"`    // the window of the generated case (before the API's granularity)
	WinTo    int64        `json:"win_to_ns"`
	Gen      *GenTempo    `json:"gen,omitempty"`
	PGen     *GenProm     `json:"pgen,omitempty"`
	HintFrom int64        `json:"hint_from_ms,omitempty"` // Prometheus: hints.Start / hints.End of the statement's selector
	HintTo   int64        `json:"hint_to_ms,omitempty"`
	Port     *GenPortions `json:"port,omitempty"`
	Portion  int          `json:"portion,omitempty"` // portioned search with rows: which portion's search statement this is (1-based; 0 = none)
}

var routers = map[string]*mux.Router{}

func routerFor(cluster bool, schema string) *mux.Router {
	k := fmt.Sprintf("%v/%s", cluster, schema)
	if r, ok := routers[k]; ok {
		return r
	}
	r := newRouter(cluster, schema)
	routers[k] = r
	return r
}

var lastBody string

func serve(router *mux.Router, ep *Endpoint, req *http.Request) (status int, pnc string) {
	lastBody = ""
	if ep.WS {
		srv := httptest.NewServer(router)
		defer srv.Close()
		u := "ws" + strings.TrimPrefix(srv.URL, "http") + req.URL.RequestURI()
		c, resp, err := websocket.DefaultDialer.Dial(u, nil)
		if err != nil {
			if resp != nil {
				return resp.StatusCode, ""
			}
			return 0, err.Error()
		}
		// the tail loop plans and runs its statement on a one-second ticker
		deadline := time.Now().Add(2500 * time.Millisecond)
		for time.Now().Before(deadline) {
			recorder.mtx.Lock()
			n := len(recorder.stmts)
			recorder.mtx.Unlock()
			if n > 0 {
				break
			}
			time.Sleep(20 * time.Millisecond)
		}
		c.Close()
		time.Sleep(30 * time.Millisecond)
		return 101, ""
	}
	rec := httptest.NewRecorder()
	pnc = hx.Catch(func() { router.ServeHTTP(rec, req) })
	if rec.Code >= 400 {
		lastBody = rec.Body.String()
		if len(lastBody) > 300 {
			lastBody = lastBody[:300]
		}
	}
	return rec.Code, pnc
}

func main() {
	zonesFlag := flag.String("zones", "-43200,-18000,0,10800,50400", "zone offsets (seconds east of UTC)")
	clusterFlag := flag.String("cluster", "both", "single | cluster | both")
	nrand := flag.Int("random-windows", 0, "additional seeded random windows per endpoint and zone")
	schemas := flag.String("schemas", "new", "new | old | both")
	only := flag.String("only", "", "comma-separated endpoint names (default: all)")
	tails := flag.Int("tails", 2, "how many live-tail requests to run (each waits for the one-second ticker)")
	tempoGen := flag.Int("tempo-gen", 0, "additional generated /api/search requests (random tags, conditions, limit, durations)")
	portGen := flag.Int("port-gen", 0, "additional portioned TraceQL searches whose portions return generated rows")
	promGen := flag.Int("prom-gen", 0, "additional generated /api/v1/query_range requests (function, range / offset in milliseconds, step)")
	fl := hx.ParseFlags()

	config.Cloki = clconfig.New(clconfig.CLOKI_READER, nil, "", "")
	logger.Logger.SetLevel(logrus.PanicLevel)
	logger.Logger.SetOutput(io.Discard)
	// the reader prints some statements with fmt.Println: keep stdout clean
	devnull, _ := os.OpenFile(os.DevNull, os.O_WRONLY, 0)
	realStdout := os.Stdout
	os.Stdout = devnull
	defer func() { os.Stdout = realStdout }()

	sql.Register("verifscan", drv{})
	var err error
	sqlDB, err = sql.Open("verifscan", "")
	if err != nil {
		panic(err)
	}
	sqlDB.SetMaxOpenConns(64)

	eps := endpoints()
	byName := map[string]*Endpoint{}
	for i := range eps {
		byName[eps[i].Name] = &eps[i]
	}
	var cases []ReqCase
	var r *rand.Rand // the one generator of the run
	if fl.Cases != "" {
		hx.ReadLines(fl.Cases, func(line []byte) {
			var c ReqCase
			if err := json.Unmarshal(line, &c); err != nil {
				panic(err)
			}
			if c.Schema == "" {
				c.Schema = "new"
			}
			if _, ok := byName[c.Ep]; ok {
				cases = append(cases, c)
			}
		})
	} else {
		var zones []int
		for _, z := range strings.Split(*zonesFlag, ",") {
			var v int
			fmt.Sscan(z, &v)
			zones = append(zones, v)
		}
		var clusters []bool
		switch *clusterFlag {
		case "single":
			clusters = []bool{false}
		case "cluster":
			clusters = []bool{true}
		default:
			clusters = []bool{false, true}
		}
		var schemaL []string
		switch *schemas {
		case "both":
			schemaL = []string{"new", "old"}
		default:
			schemaL = []string{*schemas}
		}
		onlySet := map[string]bool{}
		for _, n := range strings.Split(*only, ",") {
			if n != "" {
				onlySet[n] = true
			}
		}
		r = hx.Rand(fl.Seed)
		wins := fixedWindows()
		for i := 0; i < *nrand; i++ {
			// random instants over 2021..2027, lengths from 1 ms to 3 days, sometimes aligned to a day boundary
			base := utc(2021, 1, 1, 0, 0, 0, 0) + r.Int63n(6*365*86400)*second
			switch r.Intn(4) {
			case 0:
				base = base / (86400 * second) * (86400 * second) // midnight UTC
				base += int64(r.Intn(3600)-1800) * second
			case 1:
				base += int64(r.Intn(1e9))
			}
			length := []int64{1e6, 500 * 1e6, second, 90 * second, 20 * minute, 3 * 3600 * second, 26 * 3600 * second, 3 * 86400 * second}[r.Intn(8)]
			if r.Intn(3) == 0 {
				length += int64(r.Intn(1e9))
			}
			wins = append(wins, Window{"random", base, base + length})
		}
		ntail := 0
		for _, sc := range schemaL {
			for _, cl := range clusters {
				for _, z := range zones {
					for wi, w := range wins {
						for i := range eps {
							ep := &eps[i]
							if len(onlySet) > 0 && !onlySet[ep.Name] {
								continue
							}
							if ep.Name == "tempo_search_gen" || ep.Name == "prom_gen" || ep.Name == "tempo_search_traceql_portions_rows" {
								continue // only with generated parameters, below
							}
							if ep.WS {
								if ntail >= *tails || wi != 0 {
									continue
								}
								ntail++
							}
							if ep.NoWindow && wi > 1 {
								continue // the request does not depend on the window
							}
							cases = append(cases, ReqCase{Ep: ep.Name, Zone: z, Cluster: cl, Schema: sc, Window: w})
						}
					}
				}
			}
		}
	}

	if fl.Cases == "" {
		gr := r
		wins := fixedWindows()
		for i := 0; i < *tempoGen; i++ {
			cases = append(cases, ReqCase{Ep: "tempo_search_gen", Zone: 0, Cluster: gr.Intn(2) == 0, Schema: "new",
				Window: wins[gr.Intn(len(wins))], Gen: genTempo(gr)})
		}
		for i := 0; i < *portGen; i++ {
			w := wins[gr.Intn(len(wins))]
			if w.ToNs-w.FromNs < 20*second {
				w = wins[0]
			}
			cases = append(cases, ReqCase{Ep: "tempo_search_traceql_portions_rows", Zone: 0, Cluster: gr.Intn(2) == 0, Schema: "new",
				Window: w, Port: genPortions(gr, w)})
		}
		for i := 0; i < *promGen; i++ {
			cases = append(cases, ReqCase{Ep: "prom_gen", Zone: 0, Cluster: gr.Intn(2) == 0, Schema: "new",
				Window: wins[gr.Intn(len(wins))], PGen: genProm(gr)})
		}
	}
	out := hx.OpenOut(fl.Out)
	coqDone := map[string]bool{}
	id := 0
	for ri, c := range cases {
		ep := byName[c.Ep]
		time.Local = time.FixedZone(fmt.Sprintf("verif%+d", c.Zone), c.Zone)
		schemaNew = c.Schema != "old"
		router := routerFor(c.Cluster, c.Schema)
		w := c.Window
		curGen = c.Gen
		if ep.Name == "tempo_search_gen" && curGen == nil {
			curGen = &GenTempo{}
		}
		curPort = nil
		if ep.Name == "tempo_search_traceql_portions_rows" {
			curPort = c.Port
			if curPort == nil {
				curPort = &GenPortions{Complexity: 25000000, Limit: 20}
			}
		}
		curPGen = c.PGen
		if ep.Name == "prom_gen" {
			if curPGen == nil {
				curPGen = &GenProm{Step: 15}
			}
			back := curPGen.RangeMs
			if back == 0 {
				back = 300000
			}
			ep.PromSels = []PromSel{{BackMs: back, OffsetMs: curPGen.OffsetMs}}
		}
		req, wlo, whi := ep.Build(w)
		from, to := w.FromNs/ep.Gran*ep.Gran, w.ToNs/ep.Gran*ep.Gran
		if ep.Name == "loki_instant_log" || ep.Name == "loki_instant_rate" {
			from = to - 5*minute
		}
		if ep.Name == "prom_instant" || ep.Name == "prom_instant_offset_1d" {
			from = to
		}
		bigComplexity = ep.Complex
		recorder.take()
		t0 := time.Now()
		status, pnc := serve(router, ep, req)
		// statements may be issued by goroutines that outlive the handler for a moment
		time.Sleep(time.Millisecond)
		t1 := time.Now()
		stmts := recorder.take()
		if ep.WS {
			// the tail goroutine may be inside one more tick: let it finish and drop what it issues
			time.Sleep(1200 * time.Millisecond)
			recorder.take()
		}
		if ep.WS {
			from, to = t1.Add(-5*time.Minute).UnixNano(), t0.UnixNano()
			wlo, whi = t1.Sub(t0).Nanoseconds()+2*second, t1.Sub(t0).Nanoseconds()+2*second
		}
		base := Line{Req: ri, Ep: ep.Name, Api: ep.Api, Zone: c.Zone, Cluster: c.Cluster, Schema: c.Schema, Class: w.Class,
			FromNs: from, ToNs: to, WidenLo: wlo, WidenHi: whi, NoWindow: ep.NoWindow, WinFrom: w.FromNs, WinTo: w.ToNs, Gen: c.Gen, PGen: c.PGen, Port: c.Port}
		if ep.PromSels != nil {
			// the exact window of the (first) selector: [hints.Start, hints.End] in ms, both ends included
			hs, he := promHint(ep, w, 0)
			base.FromNs, base.ToNs, base.WidenLo, base.WidenHi, base.HintFrom, base.HintTo = hs*1e6, he*1e6+1, 0, 999998, hs, he
		}
		l := base
		l.Kind, l.ID, l.Status, l.NStmts, l.URL, l.Panic, l.Body = "req", id, status, len(stmts), req.URL.RequestURI(), pnc, lastBody
		id++
		out.Put(l)
		portion := 0
		for k, s := range stmts {
			l := base
			l.Kind, l.ID, l.Idx, l.SQL = "stmt", id, k, s
			l.Port = nil
			if curPort != nil && strings.Contains(s, "traces_info") {
				// portion `portion` (0-based) of a search whose portions return rows: what must still be read starts at needFrom
				need := curPort.needFrom(from, portion)
				portion++
				l.Portion = portion
				l.FromNs, l.WidenLo = need, need-from
			}
			if ep.Selector != nil {
				l.Sel = ep.Selector(s)
				if l.Sel >= len(ep.Offsets) {
					l.Sel = len(ep.Offsets) - 1
				}
				l.FromNs, l.ToNs = from-ep.Offsets[l.Sel], to-ep.Offsets[l.Sel]
			}
			if ep.PromSels != nil {
				hs, he := promHint(ep, w, l.Sel)
				l.FromNs, l.ToNs, l.HintFrom, l.HintTo = hs*1e6, he*1e6+1, hs, he
			}
			id++
			node, err := sqlparse.Parse(s)
			if err != nil {
				l.ParseErr = err.Error()
			} else {
				l.TreeSx = node.Sexp()
				key := fmt.Sprintf("%s/%v/%d", ep.Name, c.Cluster, k)
				if !coqDone[key] {
					coqDone[key] = true
					l.TreeCoq = node.Coq()
				}
			}
			out.Put(l)
		}
	}
	out.Close()
}
