// ingestfuzz drives the REAL writer router (apirouterv1.Route*Apis over the real insert services,
// fake ClickHouse client) with generated requests and prints, per request, the outcome class
// {2xx,4xx,5xx,crash,hang,leak,abort}. Property C05.
//
// Two streams, one PRNG:
//
//	struct : structured requests with field-level malformations; every case carries an abstract
//	         descriptor "d" that the Coq model (model/IngestRobust.v) turns into a predicted class;
//	bytes  : byte-level mutations of valid bodies under every content type / encoding. Fuzzing:
//	         only liveness is observed (answer within the deadline, process alive, goroutine census).
//
// Risky code runs in a child process (the same binary with --worker): a crash or a hang is an
// observation of the case in progress, the parent restarts the worker at the next case.
package main

import (
	"bufio"
	"bytes"
	"compress/gzip"
	"compress/zlib"
	"context"
	"encoding/hex"
	"encoding/json"
	"flag"
	"fmt"
	"io"
	"math/rand"
	"mime/multipart"
	"net"
	"net/http"
	"net/http/httptest"
	"net/url"
	"os"
	"os/exec"
	"runtime"
	"strings"
	"sync"
	"sync/atomic"
	"syscall"
	"time"
	"unsafe"

	"github.com/ClickHouse/ch-go"
	"github.com/ClickHouse/clickhouse-go/v2/lib/driver"
	"github.com/golang/snappy"
	pprofile "github.com/google/pprof/profile"
	"github.com/gorilla/mux"
	clconfig "github.com/metrico/cloki-config"
	cfgbase "github.com/metrico/cloki-config/config"
	"github.com/metrico/qryn/writer/ch_wrapper"
	"github.com/metrico/qryn/writer/config"
	controllerv1 "github.com/metrico/qryn/writer/controller"
	"github.com/metrico/qryn/writer/model"
	apirouterv1 "github.com/metrico/qryn/writer/router"
	"github.com/metrico/qryn/writer/service"
	"github.com/metrico/qryn/writer/service/impl"
	"github.com/metrico/qryn/writer/service/registry"
	"github.com/metrico/qryn/writer/utils/helpers"
	"github.com/metrico/qryn/writer/utils/logger"
	"github.com/metrico/qryn/writer/utils/numbercache"
	"github.com/metrico/qryn/writer/utils/proto/logproto"
	"github.com/metrico/qryn/writer/utils/proto/prompb"
	commonv1 "go.opentelemetry.io/proto/otlp/common/v1"
	resourcev1 "go.opentelemetry.io/proto/otlp/resource/v1"
	tracev1 "go.opentelemetry.io/proto/otlp/trace/v1"
	"google.golang.org/protobuf/proto"

	"verif/harness/hx"
)

// ------------------------------------------------------------------ case format

type KV [2]string

type BodyGen struct {
	// "prom_big": snappy(WriteRequest with one label value of Bytes 'a's); "gzip_loki_line", "gzip_fill";
	// "limit_payload": a well-formed payload of Route of exactly Bytes bytes, encoded as the Content-Encoding header says
	Kind  string `json:"kind"`
	Bytes int    `json:"bytes"` // size parameter
	Route string `json:"route,omitempty"`
}

// FrameDesc describes a case of stream "frame" (NDJSON bodies) to the Coq model: the lines, how the body ends.
type FrameLine struct {
	Len  int    `json:"len"`            // bytes before the newline
	OK   bool   `json:"ok"`             // a line the handler accepts
	Rows int    `json:"rows"`           // rows it stores
	Kind string `json:"kind,omitempty"` // elastic bulk: "action" | "doc"
}
type FrameDesc struct {
	Dec     string      `json:"dec"` // datadogCFRequestDec elasticBulkDec zipkinNDDecoderV2
	Lines   []FrameLine `json:"lines"`
	Tail    *FrameLine  `json:"tail,omitempty"` // unterminated rest
	ReadErr bool        `json:"read_err,omitempty"`
}

// MFormDesc describes a case of stream "mform" (the multipart form of /ingest) to the Coq model.
type MPart struct {
	Name    string `json:"name"`
	File    bool   `json:"file"`    // the part has a filename (a form FILE; else a form value)
	Content string `json:"content"` // profile | nested | empty | garbage | notgzip
	Size    int    `json:"size"`    // profile / nested / garbage: bytes the gzip layer inflates to (about; the harness measures Inflated)
	// measured: bytes the (outer) gzip layer of the content inflates to; nested: and what the second layer inflates to
	Inflated  int `json:"inflated"`
	Inflated2 int `json:"inflated2,omitempty"`
}
type MFormDesc struct {
	BoundaryOK bool    `json:"boundary_ok"` // the first line is "--" + a token of [A-Za-z0-9'-]
	Closed     bool    `json:"closed"`      // the body ends with the closing delimiter
	Parts      []MPart `json:"parts"`
}

// LimDesc describes a case of stream "limit" to the Coq model.
type LimDesc struct {
	CE      string `json:"ce"`
	Decoded int    `json:"decoded"` // bytes of the payload before Content-Encoding
	// /ingest: bytes the gzip layer of the pprof body itself inflates to (0: not such a case)
	Inner int `json:"inner,omitempty"`
}

type Req struct {
	Path    string   `json:"path"`
	Query   []KV     `json:"query,omitempty"`
	Headers []KV     `json:"headers,omitempty"`
	BodyHex string   `json:"body_hex,omitempty"`
	BodyGen *BodyGen `json:"body_gen,omitempty"`
	// > 0: the body reader fails after this many bytes (a connection that breaks / a read deadline that passes)
	FailAfter int `json:"fail_after,omitempty"`
	// > 0: the body is followed by this many bytes 'a' that are produced while the server reads (never held by the harness):
	// a plain body far beyond the payload limit
	Fill int `json:"fill,omitempty"`
	// > 0: the payload limit (pbPool.limit) the router runs with for this case instead of --decoded-limit
	Limit int `json:"limit,omitempty"`
}

type ZSpan struct {
	Tid *ZField `json:"tid,omitempty"`
	Sid *ZField `json:"sid,omitempty"`
	Pid *ZField `json:"pid,omitempty"`
	Ts  string  `json:"ts"`  // "", "num", "strnum", "strbad", "other"
	Dur string  `json:"dur"` // same
}

// ZField: a JSON field of a Zipkin span; nil = absent.
type ZField struct {
	Str    string `json:"s"`
	NotStr bool   `json:"notstr,omitempty"` // a JSON number instead of a string
}

type OSpan struct {
	TidLen  int  `json:"tid"`
	SidLen  int  `json:"sid"`
	NilAttr bool `json:"nilattr,omitempty"` // an attribute without a value
}
type ORes struct {
	HasResource bool    `json:"res"`
	Spans       []OSpan `json:"spans"`
}

// Desc is the abstract request handed to the Coq model.
type Desc struct {
	Route string `json:"route"` // ingest zipkin otlp prom lokiproto lokijson influx
	CE    string `json:"ce"`    // Content-Encoding header
	GzOK  bool   `json:"gz_ok"` // CE == gzip: the gzip header is valid
	CT    string `json:"ct"`    // Content-Type header
	// wire_ok: the third-party wire decoder of the route accepts the (decoded) body. Structured
	// cases are wire-valid by construction unless the class says otherwise.
	WireOK bool `json:"wire_ok"`
	// ingest
	From  string `json:"from"`
	Until string `json:"until"`
	Name  string `json:"name"`
	// zipkin
	ND    bool    `json:"nd,omitempty"`
	Spans []ZSpan `json:"spans,omitempty"`
	// otlp
	RS []ORes `json:"rs,omitempty"`
	// prom / lokiproto
	Snappy string `json:"snappy,omitempty"` // ok toolong corrupt
	// the block is not decoded (too long / corrupt) and its COMPRESSED bytes are themselves accepted by the
	// protobuf decoder (verdict of the real decoder; practically never)
	FallbackParses bool `json:"fallback_parses,omitempty"`
	// lokiproto: the stream's label string is `{job="a" <LblTail>}` (empty tail: a well-formed label set)
	LblTail string `json:"lbl_tail,omitempty"`
	// influx
	Precision string `json:"precision"`
	// lokijson
	BadTs bool `json:"bad_ts,omitempty"`
	// generic: the controller constructor serving the path (key of the regenerated route table)
	Handler string `json:"handler,omitempty"`
}

type Obs struct {
	Outcome string `json:"outcome"` // 2xx 4xx 5xx crash hang leak abort
	Status  int    `json:"status"`
	Ms      int64  `json:"ms"`
	AllocKB int64  `json:"alloc_kb"`
	BodyLen int    `json:"body_len"`
	// what the Content-Encoding of the request decodes to (counted by the harness up to Limit+2 bytes; the body itself
	// without an encoding or when it does not decode), and the decoded-size limit the router was configured with
	DecodedLen int `json:"decoded_len"`
	Limit      int `json:"limit"`
	// stream "limit": bytes that can be read from r.Body once the route's first PreRequest (WithOverallContextMiddleware) has run
	// on the same request - what the route's parser is handed (counted up to Limit + 1 MiB; -1: not measured; 0 when refused)
	Handed       int            `json:"handed"`
	HandedDetail string         `json:"handed_detail,omitempty"`
	Rows         map[string]int `json:"rows,omitempty"`   // rows that reached the fake back-end while the request was served, by table
	Canary       string         `json:"canary,omitempty"` // outcome of the follow-up well-formed request on the same route family ("" = not sent)
	Detail       string         `json:"detail,omitempty"`
}

type Case struct {
	ID     int        `json:"id"`
	Stream string     `json:"stream"` // struct | bytes
	Class  string     `json:"class"`
	Req    Req        `json:"req"`
	D      *Desc      `json:"d,omitempty"`
	L      *LimDesc   `json:"l,omitempty"`
	F      *FrameDesc `json:"f,omitempty"`
	M      *MFormDesc `json:"m,omitempty"`
	FModel *FrameDesc `json:"f_model,omitempty"` // what the model is told when the reader fails part-way (else F itself)
	Obs    *Obs       `json:"obs,omitempty"`
}

// decodedLimit: pbPool.limit of writer/utils/helpers the router under test runs with (helpers.SetGlobalLimit(2*decodedLimit))
var decodedLimit = 1 << 20

// ------------------------------------------------------------------ fake ClickHouse client

type fakeClient struct{}

var doCalls int64

func (fakeClient) Ping(ctx context.Context) error { return nil }
func (fakeClient) Do(ctx context.Context, q ch.Query) error {
	atomic.AddInt64(&doCalls, 1)
	// what ch-go's block encoder checks before anything is sent: all columns have the same row count
	rows := -1
	for _, c := range q.Input {
		n := c.Data.Rows()
		if rows >= 0 && n != rows {
			return fmt.Errorf("fake clickhouse: column %s has %d rows, expected %d (batch not rectangular)", c.Name, n, rows)
		}
		rows = n
	}
	if rows > 0 {
		tbl := "?"
		if f := strings.Fields(q.Body); len(f) >= 3 && strings.EqualFold(f[0], "INSERT") {
			tbl = strings.Trim(f[2], "`(")
		}
		rowsMu.Lock()
		rowsByTable[tbl] += rows
		rowsMu.Unlock()
	}
	return nil
}

// rows handed to the fake back-end, by table (Do calls of the insert services)
var rowsMu sync.Mutex
var rowsByTable = map[string]int{}

func rowsSnapshot() map[string]int {
	rowsMu.Lock()
	defer rowsMu.Unlock()
	m := map[string]int{}
	for k, v := range rowsByTable {
		m[k] = v
	}
	return m
}

func (fakeClient) Exec(ctx context.Context, query string, args ...any) error { return nil }
func (fakeClient) Scan(ctx context.Context, req string, args []any, dest ...interface{}) error {
	return nil
}
func (fakeClient) DropIfEmpty(ctx context.Context, name string) error { return nil }
func (fakeClient) TableExists(ctx context.Context, name string) (bool, error) {
	return true, nil
}
func (fakeClient) GetDBExec(env map[string]string) func(ctx context.Context, query string, args ...[]interface{}) error {
	return nil
}
func (fakeClient) GetVersion(ctx context.Context, k uint64) (uint64, error) { return 0, nil }
func (fakeClient) GetSetting(ctx context.Context, tp string, name string) (string, error) {
	return "", nil
}
func (fakeClient) PutSetting(ctx context.Context, tp string, name string, value string) error {
	return nil
}
func (fakeClient) GetFirst(req string, first ...interface{}) error { return nil }
func (fakeClient) GetList(req string) ([]string, error)            { return nil, nil }
func (fakeClient) Query(ctx context.Context, query string, args ...interface{}) (driver.Rows, error) {
	return nil, fmt.Errorf("not implemented")
}
func (fakeClient) QueryRow(ctx context.Context, query string, args ...interface{}) driver.Row {
	return nil
}
func (fakeClient) Close() error { return nil }

// ------------------------------------------------------------------ the router under test

func setup() *mux.Router {
	logger.Logger.SetOutput(io.Discard)
	helpers.SetGlobalLimit(2 * decodedLimit) // what RegisterRoutes does with http_settings.input_buffer_mb
	config.Cloki = clconfig.New(clconfig.CLOKI_WRITER, nil, "", "")
	config.Cloki.Setting.SYSTEM_SETTINGS.RetryAttempts = 1
	config.Cloki.Setting.SYSTEM_SETTINGS.RetryTimeoutS = 0
	service.CreateColPools(8)
	node := &model.DataDatabasesMap{ClokiBaseDataBase: cfgbase.ClokiBaseDataBase{Node: "n1", Name: "qryn", WriteTimeout: 5}}
	factory := ch_wrapper.IChClientFactory(func() (ch_wrapper.IChClient, error) { return fakeClient{}, nil })
	opts := func() model.InsertServiceOpts {
		return model.InsertServiceOpts{Session: factory, Node: node, Interval: 3 * time.Millisecond, ParallelNum: 1}
	}
	mk := func(f func(model.InsertServiceOpts) service.IInsertServiceV2) map[string]service.IInsertServiceV2 {
		s := f(opts())
		s.Init()
		go s.Run()
		return map[string]service.IInsertServiceV2{"n1": s}
	}
	ts := mk(impl.NewTimeSeriesInsertService)
	spl := mk(impl.NewSamplesInsertService)
	mtr := mk(impl.NewMetricsInsertService)
	tsp := mk(impl.NewTempoSamplesInsertService)
	ttg := mk(impl.NewTempoTagsInsertService)
	prf := mk(impl.NewProfileSamplesInsertService)
	controllerv1.Registry = registry.NewStaticServiceRegistry(ts, spl, mtr, tsp, ttg, prf)
	controllerv1.FPCache = numbercache.NewCache[uint64](time.Minute*30, func(val uint64) []byte {
		return unsafe.Slice((*byte)(unsafe.Pointer(&val)), 8)
	}, map[string]*model.DataDatabasesMap{"n1": node})
	r := mux.NewRouter()
	cfg := controllerv1.NewMiddlewareConfig(controllerv1.WithExtraMiddlewareDefault...)
	tcfg := controllerv1.NewMiddlewareConfig(controllerv1.WithExtraMiddlewareTempo...)
	apirouterv1.RouteInsertDataApis(r, cfg)
	apirouterv1.RoutePromDataApis(r, cfg)
	apirouterv1.RouteElasticDataApis(r, cfg)
	apirouterv1.RouteInsertTempoApis(r, tcfg)
	apirouterv1.RouteProfileDataApis(r, cfg)
	apirouterv1.RouteMiscApis(r, cfg)
	return r
}

// ------------------------------------------------------------------ body builders

func validPprof(r *rand.Rand) []byte { return paddedPprof(r, 0) }

// a well-formed pprof profile (gzip-compressed protobuf) with a function name of pad bytes: inflates to about pad bytes
func paddedPprof(r *rand.Rand, pad int) []byte {
	fn := &pprofile.Function{ID: 1, Name: "main.work" + strings.Repeat("a", pad), SystemName: "main.work", Filename: "main.go"}
	fn2 := &pprofile.Function{ID: 2, Name: "main.main", SystemName: "main.main", Filename: "main.go"}
	l1 := &pprofile.Location{ID: 1, Line: []pprofile.Line{{Function: fn, Line: 10}}}
	l2 := &pprofile.Location{ID: 2, Line: []pprofile.Line{{Function: fn2, Line: 20}}}
	p := &pprofile.Profile{
		SampleType: []*pprofile.ValueType{{Type: "samples", Unit: "count"}, {Type: "cpu", Unit: "nanoseconds"}},
		PeriodType: &pprofile.ValueType{Type: "cpu", Unit: "nanoseconds"},
		Period:     10000000,
		Sample: []*pprofile.Sample{
			{Location: []*pprofile.Location{l1, l2}, Value: []int64{int64(1 + r.Intn(9)), int64(10000000 * (1 + r.Intn(9)))}},
			{Location: []*pprofile.Location{l2}, Value: []int64{1, 10000000}},
		},
		Location: []*pprofile.Location{l1, l2},
		Function: []*pprofile.Function{fn, fn2},
	}
	var b bytes.Buffer
	if err := p.Write(&b); err != nil { // gzip-compressed protobuf
		panic(err)
	}
	return b.Bytes()
}

func multipartBody(field string, content []byte, boundary string) []byte {
	var b bytes.Buffer
	w := multipart.NewWriter(&b)
	w.SetBoundary(boundary)
	fw, _ := w.CreateFormFile(field, "profile.pprof")
	fw.Write(content)
	w.Close()
	return b.Bytes()
}

func gz(b []byte) []byte {
	var o bytes.Buffer
	w := gzip.NewWriter(&o)
	w.Write(b)
	w.Close()
	return o.Bytes()
}

func anyStr(s string) *commonv1.AnyValue {
	return &commonv1.AnyValue{Value: &commonv1.AnyValue_StringValue{StringValue: s}}
}

func otlpBody(r *rand.Rand, rs []ORes) []byte {
	td := &tracev1.TracesData{}
	for i, d := range rs {
		x := &tracev1.ResourceSpans{}
		if d.HasResource {
			x.Resource = &resourcev1.Resource{Attributes: []*commonv1.KeyValue{{Key: "service.name", Value: anyStr(fmt.Sprintf("svc%d", i))}}}
		}
		ss := &tracev1.ScopeSpans{}
		for j, s := range d.Spans {
			sp := &tracev1.Span{
				TraceId: randBytes(r, s.TidLen), SpanId: randBytes(r, s.SidLen), Name: fmt.Sprintf("op%d", j),
				StartTimeUnixNano: 1700000000000000000 + uint64(j), EndTimeUnixNano: 1700000000000001000 + uint64(j),
				Attributes: []*commonv1.KeyValue{{Key: "http.method", Value: anyStr("GET")}},
			}
			if s.NilAttr {
				sp.Attributes = append(sp.Attributes, &commonv1.KeyValue{Key: "novalue"})
			}
			ss.Spans = append(ss.Spans, sp)
		}
		x.ScopeSpans = []*tracev1.ScopeSpans{ss}
		td.ResourceSpans = append(td.ResourceSpans, x)
	}
	b, err := proto.Marshal(td)
	if err != nil {
		panic(err)
	}
	return b
}

func randBytes(r *rand.Rand, n int) []byte {
	if n == 0 {
		return nil
	}
	b := make([]byte, n)
	r.Read(b)
	return b
}

func zfieldJSON(f *ZField) string {
	if f.NotStr {
		return "12345"
	}
	b, _ := json.Marshal(f.Str)
	return string(b)
}

func ztimeJSON(k string, v int64) string {
	switch k {
	case "num":
		return fmt.Sprint(v)
	case "strnum":
		return fmt.Sprintf("%q", fmt.Sprint(v))
	case "strbad":
		return `"12x"`
	default:
		return "true"
	}
}

func zspanJSON(s ZSpan, i int) string {
	var f []string
	if s.Tid != nil {
		f = append(f, `"traceId":`+zfieldJSON(s.Tid))
	}
	if s.Sid != nil {
		f = append(f, `"id":`+zfieldJSON(s.Sid))
	}
	if s.Pid != nil {
		f = append(f, `"parentId":`+zfieldJSON(s.Pid))
	}
	f = append(f, fmt.Sprintf(`"name":"op%d"`, i))
	if s.Ts != "" {
		f = append(f, `"timestamp":`+ztimeJSON(s.Ts, 1700000000000000+int64(i)))
	}
	if s.Dur != "" {
		f = append(f, `"duration":`+ztimeJSON(s.Dur, 1500))
	}
	f = append(f, `"localEndpoint":{"serviceName":"svc"}`, `"tags":{"k":"v"}`)
	return "{" + strings.Join(f, ",") + "}"
}

func zipkinBody(spans []ZSpan, nd bool) []byte {
	var ss []string
	for i, s := range spans {
		ss = append(ss, zspanJSON(s, i))
	}
	if nd {
		return []byte(strings.Join(ss, "\n"))
	}
	return []byte("[" + strings.Join(ss, ",") + "]")
}

func promBody(r *rand.Rand, labelBytes int) []byte {
	v := "v"
	if labelBytes > 0 {
		v = strings.Repeat("a", labelBytes)
	}
	wr := &prompb.WriteRequest{Timeseries: []*prompb.TimeSeries{{
		Labels:  []*prompb.Label{{Name: "__name__", Value: "m"}, {Name: "job", Value: v}},
		Samples: []*prompb.Sample{{Value: float64(r.Intn(100)), Timestamp: 1700000000000}, {Value: 2, Timestamp: 1700000015000}},
	}}}
	b, err := proto.Marshal(wr)
	if err != nil {
		panic(err)
	}
	return b
}

func lokiProtoBody(r *rand.Rand, tail string) []byte {
	labels := `{app="a",lvl="info"}`
	if tail != "" {
		labels = `{job="a" ` + tail + `}`
	}
	pr := &logproto.PushRequest{Streams: []*logproto.StreamAdapter{{
		Labels:  labels,
		Entries: []*logproto.EntryAdapter{{Timestamp: &logproto.Timestamp{Seconds: 1700000000, Nanos: int32(r.Intn(1000))}, Line: "hello"}},
	}}}
	b, err := proto.Marshal(pr)
	if err != nil {
		panic(err)
	}
	return b
}

func lokiJSONBody(badTs bool) []byte {
	ts := "1700000000000000000"
	if badTs {
		ts = "17x"
	}
	return []byte(`{"streams":[{"stream":{"app":"a","lvl":"info"},"values":[["` + ts + `","line one"],["1700000000000000001","line two"]]}]}`)
}

// snappy block whose header declares n bytes, followed by a few literal bytes (corrupt for every n > 4)
func snappyDeclares(n uint64) []byte {
	var h []byte
	for n >= 0x80 {
		h = append(h, byte(n)|0x80)
		n >>= 7
	}
	h = append(h, byte(n))
	return append(h, 0x0c, 'a', 'b', 'c', 'd') // literal of length 4
}

func (c *Case) body(r *rand.Rand) []byte {
	if c.Req.BodyGen != nil {
		switch c.Req.BodyGen.Kind {
		case "prom_big":
			return snappy.Encode(nil, promBody(rand.New(rand.NewSource(1)), c.Req.BodyGen.Bytes))
		case "gzip_loki_line":
			// gzip of a well-formed Loki JSON push whose single line is Bytes times 'a' (compresses about 1000:1)
			return gz([]byte(`{"streams":[{"stream":{"app":"a"},"values":[["1700000000000000000","` + strings.Repeat("a", c.Req.BodyGen.Bytes) + `"]]}]}`))
		case "gzip_fill":
			return gz(bytes.Repeat([]byte{'a'}, c.Req.BodyGen.Bytes))
		case "pprof_pad":
			return paddedPprof(rand.New(rand.NewSource(1)), c.Req.BodyGen.Bytes)
		case "mform":
			return mformBody(c.M)
		case "pprof_nested":
			return gz(paddedPprof(rand.New(rand.NewSource(1)), c.Req.BodyGen.Bytes))
		case "frame":
			return frameBody(c.F)
		case "ce_bomb":
			// Bytes times 'a' under the Content-Encoding of the request, compressed as a stream (the harness never holds the decoded bytes)
			return encodeStream(c.header("Content-Encoding"), io.LimitReader(fillReader{}, int64(c.Req.BodyGen.Bytes)))
		case "limit_payload":
			return encodeAs(c.header("Content-Encoding"), limitPayload(c.Req.BodyGen.Route, c.Req.BodyGen.Bytes))
		}
		panic("unknown body_gen")
	}
	b, err := hex.DecodeString(c.Req.BodyHex)
	if err != nil {
		panic(err)
	}
	return b
}

func (c *Case) header(name string) string {
	for _, kv := range c.Req.Headers {
		if kv[0] == name {
			return kv[1]
		}
	}
	return ""
}

func encodeAs(ce string, b []byte) []byte {
	switch ce {
	case "gzip":
		return gz(b)
	case "", "identity":
		return b
	}
	return encodeStream(ce, bytes.NewReader(b))
}

// the Content-Encoding values the harness can produce (the list it SENDS is read from the source: contentEncodings)
var knownEncodings = map[string]bool{"": true, "identity": true, "gzip": true, "x-gzip": true, "deflate": true, "zlib": true, "snappy": true, "x-snappy-framed": true}

func encodeStream(ce string, src io.Reader) []byte {
	var buf bytes.Buffer
	var w io.WriteCloser
	switch ce {
	case "gzip", "x-gzip":
		w, _ = gzip.NewWriterLevel(&buf, gzip.BestSpeed)
	case "deflate", "zlib":
		w, _ = zlib.NewWriterLevel(&buf, zlib.BestSpeed) // RFC 9110: "deflate" is the zlib format
	case "snappy", "x-snappy-framed":
		w = snappy.NewBufferedWriter(&buf)
	default:
		// no encoder for this value: the bytes go out as they are (the check reports the missing encoder)
		io.Copy(&buf, src)
		return buf.Bytes()
	}
	io.Copy(w, src)
	w.Close()
	return buf.Bytes()
}

// decodedLen: how many bytes the Content-Encoding of the request decodes to, counted up to max
func decodedLen(ce string, body []byte, max int) int {
	var rd io.Reader
	switch ce {
	case "gzip", "x-gzip":
		g, err := gzip.NewReader(bytes.NewReader(body))
		if err != nil {
			return len(body)
		}
		rd = g
	case "snappy", "x-snappy-framed":
		rd = snappy.NewReader(bytes.NewReader(body))
	case "deflate", "zlib":
		z, err := zlib.NewReader(bytes.NewReader(body))
		if err != nil {
			return len(body)
		}
		rd = z
	default:
		return len(body)
	}
	n, _ := io.Copy(io.Discard, io.LimitReader(rd, int64(max)))
	return int(n)
}

// ------------------------------------------------------------------ stream "limit": payloads of an exact size

type limitRoute struct {
	name, path, ct string
}

var limitRoutes = []limitRoute{
	{"loki", "/loki/api/v1/push", "application/json"},
	{"elastic", "/logs/_doc", "application/json"},
	{"zipkin", "/tempo/spans", "application/json"},
	{"otlp", "/v1/traces", "application/x-protobuf"},
}

// a well-formed payload of the route, exactly n bytes long (n >= 1024): one long string inside it carries the size
func limitPayload(route string, n int) []byte {
	pad := func(pre, post string) []byte {
		k := n - len(pre) - len(post)
		if k < 0 {
			panic("limit payload too small")
		}
		return []byte(pre + strings.Repeat("a", k) + post)
	}
	switch route {
	case "loki":
		return pad(`{"streams":[{"stream":{"app":"a"},"values":[["1700000000000000000","`, `"]]}]}`)
	case "elastic":
		return pad(`{"level":"info","message":"`, `"}`)
	case "zipkin":
		return pad(`[{"traceId":"d6e9329d67b6146c0000000000000001","id":"1234ef4600000001","name":"`, `","timestamp":1700000000000000,"duration":1000,"localEndpoint":{"serviceName":"limit"}}]`)
	case "otlp":
		k := n - 200
		for tries := 0; tries < 8; tries++ {
			sp := &tracev1.Span{TraceId: bytes.Repeat([]byte{7}, 16), SpanId: bytes.Repeat([]byte{9}, 8), Name: "limit",
				StartTimeUnixNano: 1700000000000000000, EndTimeUnixNano: 1700000000000001000,
				Attributes: []*commonv1.KeyValue{{Key: "pad", Value: anyStr(strings.Repeat("a", k))}}}
			req := &tracev1.TracesData{ResourceSpans: []*tracev1.ResourceSpans{{
				Resource:   &resourcev1.Resource{Attributes: []*commonv1.KeyValue{{Key: "service.name", Value: anyStr("limit")}}},
				ScopeSpans: []*tracev1.ScopeSpans{{Spans: []*tracev1.Span{sp}}}}}}
			b, err := proto.Marshal(req)
			if err != nil {
				panic(err)
			}
			if len(b) == n {
				return b
			}
			k += n - len(b)
		}
		panic("otlp limit payload: size does not converge")
	}
	panic("unknown limit route " + route)
}

// ---- stream "frame": NDJSON bodies for the three bufio.Scanner loops

const frameMaxToken = 16 * 1024 * 1024

func padTo(pre, post string, n int) string {
	k := n - len(pre) - len(post)
	if k < 0 {
		panic(fmt.Sprintf("frame line too short: %d < %d", n, len(pre)+len(post)))
	}
	return pre + strings.Repeat("a", k) + post
}

const bulkAction = `{"index":{"_index":"logs"}}`

func frameLine(dec string, l FrameLine) string {
	if l.Kind == "action" {
		return bulkAction
	}
	if !l.OK {
		// an object that does not end: refused by jx whatever follows
		return padTo(`{"Outcome":"ok","message":"`, ``, l.Len)
	}
	switch dec {
	case "datadogCFRequestDec":
		return padTo(`{"EventTimestampMs":1700000000000,"Outcome":"ok","ScriptName":"s","Pad":"`, `"}`, l.Len)
	case "elasticBulkDec":
		return padTo(`{"level":"info","message":"`, `"}`, l.Len)
	case "zipkinNDDecoderV2":
		return padTo(`{"traceId":"d6e9329d67b6146c0000000000000001","id":"1234ef4600000001","name":"`, `","timestamp":1700000000000000,"duration":1000,"localEndpoint":{"serviceName":"frame"}}`, l.Len)
	}
	panic("unknown frame decoder " + dec)
}

func frameBody(f *FrameDesc) []byte {
	var b bytes.Buffer
	for _, l := range f.Lines {
		b.WriteString(frameLine(f.Dec, l))
		b.WriteByte('\n')
	}
	if f.Tail != nil {
		b.WriteString(frameLine(f.Dec, *f.Tail))
	}
	return b.Bytes()
}

func genFrame(r *rand.Rand, id int) Case {
	decs := []struct{ dec, path, ct string }{
		{"datadogCFRequestDec", "/cf/v1/insert", "application/json"},
		{"elasticBulkDec", "/_bulk", "application/json"},
		{"zipkinNDDecoderV2", "/api/v2/spans", "ndjson"},
	}
	d := decs[r.Intn(len(decs))]
	f := &FrameDesc{Dec: d.dec}
	c := Case{ID: id, Stream: "frame", F: f}
	c.Req.Path = d.path
	c.Req.Headers = []KV{{"Content-Type", d.ct}}
	if d.dec == "datadogCFRequestDec" {
		c.Req.Query = []KV{{"ddsource", "cf"}}
	}
	class := "short"
	lineLen := func() int { return 220 + r.Intn(400) }
	special := -1
	n := 1 + r.Intn(6)
	switch k := r.Intn(100); {
	case k < 4:
		class, special = "16MiB", pick1(r, frameMaxToken-1, frameMaxToken, frameMaxToken+1, frameMaxToken-2)
	case k < 30:
		class, special = "64KiB", pick1(r, 65535, 65536, 65537, 70000, 131072, 1<<20)
	}
	at := r.Intn(n)
	bad := -1
	if r.Intn(5) == 0 {
		bad = r.Intn(n)
		class += "+refused-line"
	}
	for i := 0; i < n; i++ {
		if d.dec == "elasticBulkDec" {
			f.Lines = append(f.Lines, FrameLine{Len: len(bulkAction), OK: true, Rows: 0, Kind: "action"})
		}
		l := FrameLine{Len: lineLen(), OK: i != bad, Rows: 1, Kind: "doc"}
		if i == at && special > 0 {
			l.Len = special
		}
		f.Lines = append(f.Lines, l)
	}
	switch r.Intn(6) {
	case 0: // the last line is not terminated
		last := f.Lines[len(f.Lines)-1]
		f.Lines = f.Lines[:len(f.Lines)-1]
		f.Tail = &last
		class += "+unterminated"
	case 1: // the reader fails in the middle of the last line: what arrived of it is a truncated object
		last := f.Lines[len(f.Lines)-1]
		f.Lines = f.Lines[:len(f.Lines)-1]
		cut := 100 + r.Intn(last.Len-150)
		total := 0
		for _, l := range f.Lines {
			total += l.Len + 1
		}
		c.Req.FailAfter = total + cut
		f.Tail = &FrameLine{Len: cut, OK: false, Rows: 1, Kind: "doc"}
		// the body as generated still has the whole line; the model sees the cut one
		c.Req.BodyGen = &BodyGen{Kind: "frame"}
		full := *f
		full.Tail = nil
		full.Lines = append(append([]FrameLine{}, f.Lines...), last)
		c.F = &full
		c.FModel = f
		f.ReadErr = true
		class += "+read-error"
	}
	c.Req.BodyGen = &BodyGen{Kind: "frame"}
	// the framing loops are about the 16 MiB token limit of the scanner: the payload limit of the router stays out of the way
	c.Req.Limit = 64 << 20
	c.Class = "frame/" + d.dec + "/" + class
	return c
}

// ---- stream "mform": the multipart form of /ingest (findBoundary, multipart ReadForm, form.File["profile"][0], Decompressor(100000), Parse)

func mpartContent(p MPart) []byte {
	switch p.Content {
	case "profile":
		return paddedPprof(rand.New(rand.NewSource(1)), p.Size)
	case "nested":
		return gz(paddedPprof(rand.New(rand.NewSource(1)), p.Size))
	case "empty":
		return gz(nil)
	case "garbage":
		return gz(bytes.Repeat([]byte{'a'}, p.Size))
	}
	return []byte("hello, not a gzip stream")
}

func mformBody(m *MFormDesc) []byte {
	bnd := "vfb0undary-'x9"
	if !m.BoundaryOK {
		bnd = "vf_b0undary.x9" // characters outside the class findBoundary looks for
	}
	var b bytes.Buffer
	for _, p := range m.Parts {
		b.WriteString("--" + bnd + "\r\n")
		if p.File {
			fmt.Fprintf(&b, "Content-Disposition: form-data; name=%q; filename=\"profile.pprof\"\r\nContent-Type: application/octet-stream\r\n\r\n", p.Name)
		} else {
			fmt.Fprintf(&b, "Content-Disposition: form-data; name=%q\r\n\r\n", p.Name)
		}
		b.Write(mpartContent(p))
		b.WriteString("\r\n")
	}
	if len(m.Parts) == 0 {
		b.WriteString("--" + bnd + "\r\n")
	}
	if m.Closed {
		b.WriteString("--" + bnd + "--\r\n")
	}
	return b.Bytes()
}

func genMForm(r *rand.Rand, id int) Case {
	m := &MFormDesc{BoundaryOK: r.Intn(8) != 0, Closed: r.Intn(7) != 0}
	content := func() MPart {
		p := MPart{Name: "profile", File: true, Content: "profile"}
		switch k := r.Intn(12); {
		case k == 0:
			p.Content = "nested"
		case k == 1:
			p.Content = "empty"
		case k == 2:
			p.Content, p.Size = "garbage", pick1(r, 10, 5000, 99000, 100000, 100001, 250000)
		case k == 3:
			p.Content = "notgzip"
		}
		if p.Content == "profile" || p.Content == "nested" {
			p.Size = pick1(r, 0, 0, 2000, 60000, 99000, 99500, 100000, 100500, 140000, 400000)
		}
		if p.Content == "nested" && r.Intn(3) == 0 {
			p.Size = pick1(r, decodedLimit-4096, decodedLimit+4096, 3*decodedLimit) // the second layer around the payload limit
		}
		return p
	}
	n := 1
	if r.Intn(5) == 0 {
		n = r.Intn(4)
	}
	for i := 0; i < n; i++ {
		p := content()
		switch r.Intn(10) {
		case 0:
			p.Name = pick(r, "Profile", "profil", "sample_type_config", "")
		case 1:
			p.File = false
		}
		m.Parts = append(m.Parts, p)
	}
	if r.Intn(4) == 0 && len(m.Parts) > 0 { // a form value or a second file before / after
		extra := MPart{Name: pick(r, "sample_type_config", "format", "profile"), File: r.Intn(2) == 0, Content: "notgzip"}
		if r.Intn(2) == 0 {
			m.Parts = append([]MPart{extra}, m.Parts...)
		} else {
			m.Parts = append(m.Parts, extra)
		}
	}
	for i := range m.Parts {
		c := mpartContent(m.Parts[i])
		if m.Parts[i].Content != "notgzip" {
			m.Parts[i].Inflated = decodedLen("gzip", c, 1<<23)
		}
		if m.Parts[i].Content == "nested" {
			if g, err := gzip.NewReader(bytes.NewReader(c)); err == nil {
				inner, _ := io.ReadAll(g)
				m.Parts[i].Inflated2 = decodedLen("gzip", inner, 1<<23)
			}
		}
	}
	c := Case{ID: id, Stream: "mform", M: m}
	c.Req.Path = "/ingest"
	c.Req.Query = []KV{{"from", "1700000000"}, {"until", "1700000010"}, {"name", "app{a=b}"}}
	c.Req.Headers = []KV{{"Content-Type", "multipart/form-data; boundary=whatever-the-header-says"}}
	c.Req.BodyGen = &BodyGen{Kind: "mform"}
	cls := "wellformed"
	if !m.BoundaryOK {
		cls = "boundary"
	} else if !m.Closed {
		cls = "unclosed"
	} else if len(m.Parts) != 1 || m.Parts[0].Name != "profile" || !m.Parts[0].File || m.Parts[0].Content != "profile" {
		cls = "parts"
	} else if m.Parts[0].Inflated > 100000 {
		cls = "over-100000"
	}
	c.Class = "mform/" + cls
	return c
}

// routes that buffer the whole body (io.ReadAll in withUnsnappyRequest, the OTLP PreRequest, withBufferedBody)
var fillRoutes = []limitRoute{
	{"prom", "/api/v1/prom/remote/write", "application/x-protobuf"},
	{"otlp", "/v1/traces", "application/x-protobuf"},
	{"elastic", "/logs/_doc", "application/json"},
	{"lokiproto", "/loki/api/v1/push", "application/x-protobuf"},
}

// contentEncodings: the case list of the Content-Encoding switch of WithOverallContextMiddleware, read from the source by
// translate/gen_goroutines_writer on every run (side file, --phrases-file): a case ADDED to the switch is driven by the next run
var contentEncodings = []string{"", "gzip", "snappy"}

func ceName(ce string) string {
	if ce == "" {
		return "plain"
	}
	return ce
}

// genLimitCE: the fixed block of stream "limit": for every accepted Content-Encoding a well-formed payload decoding to just over the
// payload limit (k = 0: limit+1, k = 1: 8 x limit) and a bomb (k = 2: 1 GiB of 'a' on a route that buffers its body; the worker
// serves it with its address space capped, see capAddressSpace)
func genLimitCE(r *rand.Rand, id int, ce string, k int) Case {
	L := decodedLimit
	c := Case{ID: id, Stream: "limit"}
	var hdr []KV
	if ce != "" {
		hdr = []KV{{"Content-Encoding", ce}}
	}
	if k == 2 {
		ft := fillRoutes[r.Intn(len(fillRoutes))]
		n := 1 << 30
		c.L = &LimDesc{CE: ce, Decoded: n}
		c.Req.Path = ft.path
		c.Req.Headers = append([]KV{{"Content-Type", ft.ct}}, hdr...)
		if ce == "" {
			c.Req.Fill = n
		} else {
			c.Req.BodyGen = &BodyGen{Kind: "ce_bomb", Bytes: n}
		}
		c.Class = "limit/" + ft.name + "/" + ceName(ce) + "/over/ce-bomb"
		return c
	}
	rt := limitRoutes[r.Intn(len(limitRoutes))]
	d := []int{L + 1, 8 * L}[k]
	c.L = &LimDesc{CE: ce, Decoded: d}
	c.Req.Path = rt.path
	c.Req.Headers = append([]KV{{"Content-Type", rt.ct}}, hdr...)
	c.Req.BodyGen = &BodyGen{Kind: "limit_payload", Bytes: d, Route: rt.name}
	c.Class = "limit/" + rt.name + "/" + ceName(ce) + "/over/just-over"
	return c
}

func genLimit(r *rand.Rand, id int) Case {
	rt := limitRoutes[r.Intn(len(limitRoutes))]
	L := decodedLimit
	if k := r.Intn(20); k == 1 || k == 2 {
		// /ingest, binary route: the pprof body is itself a gzip stream, inflated by the profile parser
		c := Case{ID: id, Stream: "limit"}
		c.Req.Path = "/ingest"
		c.Req.Query = []KV{{"from", "1700000000"}, {"until", "1700000010"}, {"name", "app"}}
		c.Req.Headers = []KV{{"Content-Type", "binary/octet-stream"}}
		nested := false
		if k == 1 {
			pad := []int{L / 2, L - 8192, L + 4096, 2 * L, 4*L + 3, 16 * L}[r.Intn(6)]
			c.Req.BodyGen = &BodyGen{Kind: "pprof_pad", Bytes: pad}
			if nested = r.Intn(4) == 0; nested {
				c.Req.BodyGen.Kind = "pprof_nested" // the profile gzip-compressed once more: refused ("compressed twice")
			}
			body := c.body(r)
			c.L = &LimDesc{CE: "", Decoded: len(body), Inner: decodedLen("gzip", body, 64*L)}
		} else {
			n := (64 + r.Intn(200)) << 20
			c.Req.BodyGen = &BodyGen{Kind: "gzip_fill", Bytes: n}
			c.L = &LimDesc{CE: "", Decoded: n / 1000, Inner: n} // not a profile: refused whatever its size
		}
		rel := "within"
		if c.L.Inner > L {
			rel = "over"
		}
		c.Class = "limit/ingest-binary/pprof-gzip-layer/" + rel + map[bool]string{true: "/bomb", false: ""}[k == 2 || nested]
		return c
	}
	if r.Intn(10) == 0 {
		// a plain body far beyond the payload limit: the server must stop reading at the limit
		ft := fillRoutes[r.Intn(len(fillRoutes))]
		n := (48 + r.Intn(150)) << 20
		c := Case{ID: id, Stream: "limit", L: &LimDesc{CE: "", Decoded: n}}
		c.Req.Path = ft.path
		c.Req.Headers = []KV{{"Content-Type", ft.ct}}
		c.Req.Fill = n
		c.Class = "limit/" + ft.name + "/plain-fill/over"
		return c
	}
	sizes := []int{L - 4096, L - 1, L, L + 1, L + 2, L + 4096, 2 * L, 4*L + 3, 8 * L, 1024 + r.Intn(L), L + 1 + r.Intn(3*L)}
	d := sizes[r.Intn(len(sizes))]
	opts := []string{""} // every accepted encoding twice as often as none (one draw: the stream of a seed is unchanged while the list is)
	for _, e := range contentEncodings {
		if e != "" {
			opts = append(opts, e, e)
		}
	}
	ce := opts[r.Intn(len(opts))]
	c := Case{ID: id, Stream: "limit", L: &LimDesc{CE: ce, Decoded: d}}
	c.Req.Path = rt.path
	c.Req.Headers = []KV{{"Content-Type", rt.ct}}
	if ce != "" {
		c.Req.Headers = append(c.Req.Headers, KV{"Content-Encoding", ce})
	}
	c.Req.BodyGen = &BodyGen{Kind: "limit_payload", Bytes: d, Route: rt.name}
	rel := "within"
	if d > L {
		rel = "over"
	}
	c.Class = "limit/" + rt.name + "/" + ceName(ce) + "/" + rel
	return c
}

// ------------------------------------------------------------------ structured generator

func pick(r *rand.Rand, xs ...string) string { return xs[r.Intn(len(xs))] }

// literal texts that status-deciding code of the repository compares error texts with (scanned from the source
// by translate/gen_goroutines_writer on every run; --phrases-file). Placed at the start / in the middle of every
// client-text field that can end up inside an error.
var phrases = []string{"connection reset by peer"}

func phraseText(r *rand.Rand) string {
	p := phrases[r.Intn(len(phrases))]
	switch r.Intn(4) {
	case 0:
		return p
	case 1:
		return p + " x"
	case 2:
		return "x " + p + " y"
	}
	return "x " + p
}

var goodTimes = []string{"1700000000", "1700000000000", "1700000000000000", "1700000000000000000", "1", "9", "18446744073709551615", "007", "2000000000000000000"}
var badTimes = []string{"abc", "-5", "+5", "18446744073709551616", "1e9", " 12", "12 ", "1.5", "0x10", "99999999999999999999999", "1_000"}
var names = []string{"app", "app.cpu", "app{}", "app{a=b}", "app{a=b,c=d}", "app{a}", "app{", "{", "x{a=b", "app{=}", "app{,}", "a{b=c}d", "app{a=b,c}", "app{a==b}", "{}", "{a=b}", "app{a=b}{c=d}", "app}", "a{b", "a{bc", "a{=,=}"}

func timeParam(r *rand.Rand) (string, string) {
	switch k := r.Intn(20); {
	case k < 11:
		return goodTimes[r.Intn(len(goodTimes))], "good"
	case k < 14:
		return "0", "zero"
	case k < 15:
		return "", "empty"
	case k < 16:
		return "000", "zero"
	case k < 18:
		return phraseText(r), "phrase"
	default:
		return badTimes[r.Intn(len(badTimes))], "bad"
	}
}

func genIngest(r *rand.Rand, c *Case) {
	d := &Desc{Route: "ingest", WireOK: true}
	var cf, cu string
	d.From, cf = timeParam(r)
	d.Until, cu = timeParam(r)
	d.Name = names[r.Intn(len(names))]
	if r.Intn(12) == 0 {
		d.Name = ""
	}
	if r.Intn(12) == 0 {
		t := phraseText(r)
		d.Name = pick(r, t, t+"{", t+"{a=b}", "app{"+t+"}", "app{a="+t+"}", "{"+t)
	}
	pp := validPprof(r)
	var body []byte
	kind := "bin"
	switch r.Intn(10) {
	case 0, 1, 2, 3:
		d.CT = "binary/octet-stream"
		body = pp
	case 4, 5, 6:
		kind = "mp"
		d.CT = "multipart/form-data; boundary=vfb0undary"
		body = multipartBody("profile", pp, "vfb0undary")
	case 7:
		kind = "badct"
		d.CT = pick(r, "application/json", "", "text/plain", "binary/octet", "Multipart/form-data")
		body = pp
	case 8:
		kind = "bin-badbody"
		d.CT = "binary/octet-stream"
		d.WireOK = false
		body = pick3(r, []byte("not a profile"), nil, pp[:len(pp)/2])
	default:
		kind = "mp-badbody"
		d.CT = "multipart/form-data; boundary=vfb0undary"
		d.WireOK = false
		switch r.Intn(4) {
		case 0:
			body = multipartBody("other", pp, "vfb0undary") // no 'profile' field
		case 1:
			body = []byte("no boundary line here")
		case 2:
			body = multipartBody("profile", []byte("not gzip"), "vfb0undary")
		default:
			body = multipartBody("profile", gz([]byte("gzip but not pprof")), "vfb0undary")
		}
	}
	c.Class = fmt.Sprintf("ingest/%s/from-%s/until-%s", kind, cf, cu)
	c.Req.Path = "/ingest"
	if !(d.From == "" && r.Intn(2) == 0) {
		c.Req.Query = append(c.Req.Query, KV{"from", d.From})
	}
	if !(d.Until == "" && r.Intn(2) == 0) {
		c.Req.Query = append(c.Req.Query, KV{"until", d.Until})
	}
	if !(d.Name == "" && r.Intn(2) == 0) {
		c.Req.Query = append(c.Req.Query, KV{"name", d.Name})
	}
	c.Req.Headers = []KV{{"Content-Type", d.CT}}
	c.Req.BodyHex = hex.EncodeToString(body)
	c.D = d
}

func pick3(r *rand.Rand, a, b, c []byte) []byte {
	switch r.Intn(3) {
	case 0:
		return a
	case 1:
		return b
	}
	return c
}

const hexd = "0123456789abcdefABCDEF"

func randHex(r *rand.Rand, n int) string {
	b := make([]byte, n)
	for i := range b {
		b[i] = hexd[r.Intn(len(hexd))]
	}
	return string(b)
}

func zfield(r *rand.Rand, want int, allowAbsent bool) (*ZField, string) {
	switch k := 18 + r.Intn(22); {
	case k < 24:
		return &ZField{Str: randHex(r, want)}, "ok"
	case k < 27:
		return &ZField{Str: randHex(r, 1+r.Intn(want))}, "short"
	case k < 30:
		return &ZField{Str: randHex(r, want+1+r.Intn(20))}, "long"
	case k < 33:
		if allowAbsent {
			return nil, "absent"
		}
		return &ZField{Str: randHex(r, want)}, "ok"
	case k < 35:
		return &ZField{Str: ""}, "empty"
	case k < 37:
		s := []byte(randHex(r, want))
		s[r.Intn(len(s))] = "gz-_ x"[r.Intn(6)]
		return &ZField{Str: string(s)}, "nonhex"
	case k == 37 && r.Intn(2) == 0:
		return &ZField{Str: phraseText(r)}, "phrase"
	case k < 38:
		// non-hex beyond the part that is kept
		return &ZField{Str: randHex(r, want) + "zz"}, "long-nonhex-tail"
	default:
		return &ZField{NotStr: true}, "number"
	}
}

func genZipkin(r *rand.Rand, c *Case) {
	d := &Desc{Route: "zipkin", WireOK: true}
	d.ND = r.Intn(3) == 0
	n := r.Intn(5)
	if d.ND && n == 0 {
		n = 1
	}
	bad := r.Intn(2) == 0 // half of the requests are entirely well-formed
	cls := map[string]bool{}
	for i := 0; i < n; i++ {
		s := ZSpan{Ts: "num", Dur: "num"}
		s.Tid = &ZField{Str: randHex(r, 32)}
		s.Sid = &ZField{Str: randHex(r, 16)}
		if r.Intn(2) == 0 {
			s.Pid = &ZField{Str: randHex(r, 16)}
		}
		// a malformed request: each span carries at most one malformation (so that one kind is not
		// masked by another), about half of the spans stay well-formed
		if bad && r.Intn(2) == 0 {
			var k string
			switch r.Intn(6) {
			case 0, 1:
				s.Tid, k = zfield(r, 32, true)
				cls["tid-"+k] = true
			case 2, 3:
				s.Sid, k = zfield(r, 16, true)
				cls["sid-"+k] = true
			case 4:
				s.Pid, k = zfield(r, 16, false)
				cls["pid-"+k] = true
			default:
				if r.Intn(2) == 0 {
					s.Ts = pick(r, "strnum", "strbad", "other", "")
					cls["ts-"+s.Ts] = true
				} else {
					s.Dur = pick(r, "strnum", "strbad", "other", "")
					cls["ts-"+s.Dur] = true
				}
			}
		}
		d.Spans = append(d.Spans, s)
	}
	c.Req.Path = pick(r, "/tempo/spans", "/tempo/api/push", "/api/v2/spans")
	d.CT = "application/json"
	if d.ND {
		d.CT = pick(r, "application/x-ndjson", "ndjson", "ndjson", "ndjson; charset=utf-8")
		// the parser table is keyed by prefix: only a content type that STARTS with "ndjson" selects the ND decoder
		d.ND = strings.HasPrefix(d.CT, "ndjson")
	}
	body := zipkinBody(d.Spans, strings.Contains(d.CT, "ndjson"))
	if strings.Contains(d.CT, "ndjson") && !d.ND {
		// newline-separated objects sent to the array decoder: wire-level error
		d.WireOK = false
	}
	c.Class = "zipkin/" + map[bool]string{true: "nd", false: "json"}[d.ND]
	if !bad {
		c.Class += "/wellformed"
	} else {
		for _, k := range []string{"tid-absent", "sid-absent", "tid-empty", "tid-nonhex", "tid-number", "ts-strbad"} {
			if cls[k] {
				c.Class += "/" + k
			}
		}
	}
	c.Req.Headers = []KV{{"Content-Type", d.CT}}
	c.Req.BodyHex = hex.EncodeToString(body)
	c.D = d
}

func genOtlp(r *rand.Rand, c *Case) {
	d := &Desc{Route: "otlp", WireOK: true, CT: pick(r, "application/x-protobuf", "application/protobuf", "")}
	nrs := 1 + r.Intn(3)
	bad := r.Intn(2) == 0
	tag := ""
	for i := 0; i < nrs; i++ {
		rs := ORes{HasResource: true}
		if bad && r.Intn(6) == 0 {
			rs.HasResource = false
			tag += "/nores"
		}
		for j := r.Intn(4); j > 0; j-- {
			s := OSpan{TidLen: 16, SidLen: 8}
			if bad {
				switch r.Intn(9) {
				case 0:
					s.TidLen = pick1(r, 0, 1, 3, 8, 15, 17, 32)
					tag += "/tidw"
				case 1:
					s.SidLen = pick1(r, 0, 1, 4, 7, 9, 16)
					tag += "/sidw"
				case 2:
					s.NilAttr = true
					tag += "/nilattr"
				}
			}
			rs.Spans = append(rs.Spans, s)
		}
		d.RS = append(d.RS, rs)
	}
	c.Class = "otlp" + map[bool]string{true: "/malformed", false: "/wellformed"}[bad && tag != ""]
	if strings.Contains(tag, "tidw") || strings.Contains(tag, "sidw") {
		c.Class += "/idwidth"
	}
	c.Req.Path = "/v1/traces"
	c.Req.Headers = []KV{{"Content-Type", d.CT}}
	c.Req.BodyHex = hex.EncodeToString(otlpBody(r, d.RS))
	c.D = d
}

func pick1(r *rand.Rand, xs ...int) int { return xs[r.Intn(len(xs))] }

func genSnappy(r *rand.Rand, c *Case) {
	d := &Desc{WireOK: true}
	var inner []byte
	if r.Intn(2) == 0 {
		d.Route = "lokiproto"
		d.CT = "application/x-protobuf"
		c.Req.Path = "/loki/api/v1/push"
		if r.Intn(2) == 0 {
			d.LblTail = pick(r, phraseText(r), phraseText(r), "oops", "x y", "lvl")
		}
		inner = lokiProtoBody(r, d.LblTail)
	} else {
		d.Route = "prom"
		d.CT = pick(r, "application/x-protobuf", "")
		c.Req.Path = pick(r, "/v1/prom/remote/write", "/api/v1/prom/remote/write", "/prom/remote/write", "/api/prom/remote/write", "/api/prom/push")
		inner = promBody(r, 0)
	}
	switch r.Intn(8) {
	case 0, 1, 2, 3:
		d.Snappy = "ok"
		c.Req.BodyHex = hex.EncodeToString(snappy.Encode(nil, inner))
	case 4:
		d.Snappy = "ok"
		d.WireOK = false // valid snappy around bytes that are not the protobuf message
		c.Req.BodyHex = hex.EncodeToString(snappy.Encode(nil, []byte("\xff\xff\xff\xff not a protobuf message")))
	case 5:
		// declared length over the limit, tiny corrupt block: must not be decoded (nor allocated)
		d.Snappy = "toolong"
		d.WireOK = false
		c.Req.BodyHex = hex.EncodeToString(snappyDeclares(uint64(10*1024*1024 + 1 + r.Intn(1<<30))))
	case 6:
		// a VALID snappy block of a valid message whose decoded size is over the limit
		d.Snappy = "toolong"
		d.WireOK = false
		if d.Route == "lokiproto" {
			d.Route, d.CT, c.Req.Path = "prom", "application/x-protobuf", "/api/v1/prom/remote/write"
		}
		c.Req.BodyGen = &BodyGen{Kind: "prom_big", Bytes: 10*1024*1024 + 4096 + r.Intn(1<<20)}
	default:
		d.Snappy = "corrupt"
		d.WireOK = false
		b := snappy.Encode(nil, inner)
		c.Req.BodyHex = hex.EncodeToString(append([]byte{0x20}, b[1:len(b)/2]...))
	}
	if d.Snappy != "ok" || !d.WireOK {
		d.LblTail = "" // the label string is never reached
	}
	if d.LblTail != "" {
		c.Class += "/labels-garbage"
	}
	if d.Snappy != "ok" {
		raw := (&Case{Req: c.Req}).body(r)
		var msg proto.Message = &prompb.WriteRequest{}
		if d.Route == "lokiproto" {
			msg = &logproto.PushRequest{}
		}
		d.FallbackParses = proto.Unmarshal(raw, msg) == nil
	}
	c.Class = d.Route + "/snappy-" + d.Snappy + map[bool]string{true: "", false: "/inner-bad"}[d.WireOK || d.Snappy != "ok"]
	c.Req.Headers = []KV{{"Content-Type", d.CT}}
	c.D = d
}

func genLokiJSON(r *rand.Rand, c *Case) {
	d := &Desc{Route: "lokijson", WireOK: true, CT: pick(r, "application/json", "", "text/plain")}
	d.BadTs = r.Intn(3) == 0
	c.Class = "lokijson" + map[bool]string{true: "/bad-ts", false: "/wellformed"}[d.BadTs]
	c.Req.Path = "/loki/api/v1/push"
	c.Req.Headers = []KV{{"Content-Type", d.CT}}
	c.Req.BodyHex = hex.EncodeToString(lokiJSONBody(d.BadTs))
	c.D = d
}

func genInflux(r *rand.Rand, c *Case) {
	d := &Desc{Route: "influx", WireOK: true, CT: "text/plain"}
	d.Precision = pick(r, "", "ns", "us", "ms", "s", "zz", "NS", "m", "n s", "1", phraseText(r))
	c.Class = "influx/precision-" + d.Precision
	c.Req.Path = "/influx/api/v2/write"
	if d.Precision != "" || r.Intn(2) == 0 {
		c.Req.Query = []KV{{"precision", d.Precision}}
	}
	c.Req.Headers = []KV{{"Content-Type", d.CT}}
	c.Req.BodyHex = hex.EncodeToString([]byte("logs,tag=a message=\"hello\" 1700000000000000000\n"))
	c.D = d
}

// overlay: a Content-Encoding header on an otherwise generated case
func overlayCE(r *rand.Rand, c *Case) {
	if c.Req.BodyGen != nil {
		return
	}
	body, _ := hex.DecodeString(c.Req.BodyHex)
	switch r.Intn(4) {
	case 0:
		c.D.CE, c.D.GzOK = "gzip", true
		body = gz(body)
	case 1:
		c.D.CE, c.D.GzOK = "gzip", false // body is not gzip at all
		if len(body) >= 2 && body[0] == 0x1f && body[1] == 0x8b {
			body = []byte("plainly not gzip") // (a pprof body is itself a gzip stream)
		}
	case 2:
		c.D.CE = pick(r, "deflate", "br", "zstd", "identity", "GZIP", "gzip, deflate", phraseText(r))
	default:
		c.D.CE, c.D.GzOK = "gzip", false
		body = []byte{0x1f, 0x8b} // truncated header
	}
	c.Req.BodyHex = hex.EncodeToString(body)
	c.Req.Headers = append(c.Req.Headers, KV{"Content-Encoding", c.D.CE})
	c.Class += "+ce-" + map[bool]string{true: "gzip-ok", false: "bad"}[c.D.GzOK]
}

func genStruct(r *rand.Rand, id int) Case {
	c := Case{ID: id, Stream: "struct"}
	switch k := r.Intn(100); {
	case k < 30:
		genIngest(r, &c)
	case k < 55:
		genZipkin(r, &c)
	case k < 77:
		genOtlp(r, &c)
	case k < 87:
		genSnappy(r, &c)
	case k < 94:
		genLokiJSON(r, &c)
	default:
		genInflux(r, &c)
	}
	if r.Intn(10) == 0 {
		overlayCE(r, &c)
	}
	return c
}

// ------------------------------------------------------------------ the routes without a field-level model
// (Datadog logs / metrics, Cloudflare, Elastic doc / bulk, OTLP logs): the model predicts the class from the
// regenerated route table (Content-Type dispatch, success status) and the verdict of the wire decoder.

type genericRoute struct {
	handler string
	paths   []string
	q       []KV
	cts     []string // content types that select a parser
	badCts  []string // content types the route answers 400 to (none: "*" parser)
	good    [][]byte
	bad     [][]byte // bodies the decoder rejects
}

func genericRoutes() []genericRoute {
	ddlog := `{"ddsource":"nginx","ddtags":"env:prod,team:a","hostname":"h1","message":"hello","service":"web","timestamp":1700000000000}`
	series := `{"metric":"system.load.1","type":0,"points":[{"timestamp":1700000000,"value":0.7}],"resources":[{"name":"h1","type":"host"}],"tags":["env:prod"]}`
	cf := `{"DispatchNamespace":"","Event":{"RayID":"1"},"EventTimestampMs":1700000000000,"Logs":[{"Level":"log","Message":["x"],"TimestampMs":1700000000000}],"Outcome":"ok","ScriptName":"s"}`
	return []genericRoute{
		{"PushDatadogV2", []string{"/api/v2/logs"}, []KV{{"ddsource", "nginx"}},
			[]string{"application/json", "application/json; charset=utf-8", "application/jsonx"},
			[]string{"", "text/plain", "Application/json", "application/x-ndjson", " application/json", "json"},
			[][]byte{[]byte("[" + ddlog + "]"), []byte("[" + ddlog + "," + ddlog + "]"), []byte("[]"), []byte(`[{"message":"only"}]`), []byte(`[{"unknown":{"a":[1,2]},"message":"m","timestamp":0}]`)},
			[][]byte{[]byte(`{"message":"not an array"}`), []byte(`[{"message":5}]`), []byte("[" + ddlog), []byte(`[{"timestamp":"x"}]`), []byte(`[{"ddtags":7}]`), []byte(""), []byte("[1]")}},
		{"PushDatadogMetricsV2", []string{"/api/v2/series"}, nil,
			[]string{"application/json", "application/json; charset=utf-8"},
			[]string{"", "text/plain", "APPLICATION/JSON", "application"},
			[][]byte{[]byte(`{"series":[` + series + `]}`), []byte(`{"series":[` + series + `,` + series + `]}`), []byte(`{"series":[]}`), []byte(`{}`),
				[]byte(`{"series":[{"metric":"no.points","tags":["a:b"]}]}`), []byte(`{"other":1,"series":[{"metric":"m","points":[]}]}`)},
			[][]byte{[]byte(`{"series":5}`), []byte(`{"series":[{"points":[{"timestamp":"x"}]}]}`), []byte(`{"series":[` + series), []byte(`[]`), []byte(""), []byte(`{"series":[{"points":5}]}`)}},
		{"PushCfDatadogV2", []string{"/cf/v1/insert"}, []KV{{"ddsource", "cf"}},
			[]string{"application/json", "", "text/plain", "application/x-ndjson"}, nil,
			[][]byte{[]byte(cf + "\n"), []byte(cf + "\n" + cf + "\n"), []byte(cf), []byte(""), []byte(`{"EventTimestampMs":"notnum","When":true,"ActionResult":false}` + "\n")},
			[][]byte{[]byte("not json\n"), []byte(cf + "\n{\"EventType\":5}\n"), []byte(cf[:len(cf)/2]), []byte("[1,2]\n"), []byte(cf + "\n\n"), []byte(`{"ActionResult":5}` + "\n")}},
		{"TargetDocV2", []string{"/logs/_doc", "/logs/_create/7", "/a.b-c/_doc"}, nil,
			[]string{"application/json", "", "text/plain", "application/x-ndjson"}, nil,
			[][]byte{[]byte(`{"message":"hello","level":"info"}`), []byte(""), []byte("not json at all"), []byte{0xff, 0xfe, 0x00}}, nil},
		{"TargetBulkV2", []string{"/_bulk", "/logs/_bulk"}, nil,
			[]string{"application/json", "application/x-ndjson", "", "text/plain"}, nil,
			[][]byte{[]byte("{\"index\":{\"_index\":\"logs\",\"app\":\"a\"}}\n{\"message\":\"hello\"}\n"), []byte("{\"create\":{\"app\":\"a\"}}\n{\"message\":\"hello\"}\n{\"delete\":{\"_index\":\"logs\"}}\n"),
				[]byte(""), []byte("\n\n"), []byte("{\"update\":{}}\n{\"doc\":{}}\n"), []byte("{\"index\":{\"n\":5,\"type\":\"x\"}}\n{}\n")},
			[][]byte{[]byte("not json\n"), []byte("{\"index\":{\"app\":\"a\"}}\n{\"message\":\n"), []byte("{\"index\":5}\n"), []byte("[1]\n")}},
		{"OTLPLogsV2", []string{"/v1/logs"}, nil,
			[]string{"application/x-protobuf", "", "application/json"}, nil,
			[][]byte{otlpLogsSeed(), nil},
			[][]byte{[]byte("\xff\xff\xff\xff not a protobuf message"), otlpLogsSeed()[:len(otlpLogsSeed())-3]}},
	}
}

func genGeneric(r *rand.Rand, id int) Case {
	rs := genericRoutes()
	g := rs[r.Intn(len(rs))]
	c := Case{ID: id, Stream: "generic"}
	d := &Desc{Route: "generic", Handler: g.handler, WireOK: true}
	d.CT = g.cts[r.Intn(len(g.cts))]
	kind := "wellformed"
	body := g.good[r.Intn(len(g.good))]
	switch k := r.Intn(10); {
	case k < 3 && len(g.bad) > 0:
		body = g.bad[r.Intn(len(g.bad))]
		d.WireOK = false
		kind = "badbody"
	case k < 5 && len(g.badCts) > 0:
		d.CT = g.badCts[r.Intn(len(g.badCts))]
		kind = "badct"
		if r.Intn(2) == 0 && len(g.bad) > 0 {
			body = g.bad[r.Intn(len(g.bad))]
			d.WireOK = false
		}
	}
	c.Class = "generic/" + g.handler + "/" + kind
	c.Req.Path = g.paths[r.Intn(len(g.paths))]
	c.Req.Query = append([]KV(nil), g.q...)
	if len(c.Req.Query) > 0 && r.Intn(4) == 0 {
		c.Req.Query[0][1] = pick(r, "", phraseText(r), "x y", "{")
	}
	c.Req.Headers = []KV{{"Content-Type", d.CT}}
	// the other request headers the middleware reads: none of them may change the class
	if r.Intn(3) == 0 {
		for _, h := range []KV{
			{"X-Ttl-Days", pick(r, "7", "0", "-1", "65536", "99999999999999999999", "x", "", "1e3")},
			{"X-Scope-Meta", pick(r, "", "{}", "{\"a\":1}", "not json", phraseText(r), strings.Repeat("m", 5000))},
			{"X-CH-DSN", pick(r, "", "n1", "nope", "n1 ", phraseText(r))},
			{"X-Async-Insert", pick(r, "0", "1", "2", "", "yes")},
		} {
			if r.Intn(2) == 0 {
				c.Req.Headers = append(c.Req.Headers, h)
				c.Class += "+" + strings.ToLower(h[0])
			}
		}
	}
	c.Req.BodyHex = hex.EncodeToString(body)
	c.D = d
	if r.Intn(8) == 0 {
		overlayCE(r, &c)
	}
	return c
}

// ------------------------------------------------------------------ byte-level generator (fuzzing)

type seed struct {
	path string
	q    []KV
	ct   string
	body []byte
}

func seeds(r *rand.Rand) []seed {
	pp := validPprof(r)
	okSpans := []ZSpan{{Tid: &ZField{Str: randHex(r, 32)}, Sid: &ZField{Str: randHex(r, 16)}, Ts: "num", Dur: "num"},
		{Tid: &ZField{Str: randHex(r, 32)}, Sid: &ZField{Str: randHex(r, 16)}, Pid: &ZField{Str: randHex(r, 16)}, Ts: "strnum", Dur: "num"}}
	ing := []KV{{"from", "1700000000"}, {"until", "1700000010"}, {"name", "app{a=b}"}}
	return []seed{
		{"/loki/api/v1/push", nil, "application/json", lokiJSONBody(false)},
		{"/loki/api/v1/push", nil, "application/x-protobuf", snappy.Encode(nil, lokiProtoBody(r, ""))},
		{"/api/v1/prom/remote/write", nil, "application/x-protobuf", snappy.Encode(nil, promBody(r, 0))},
		{"/influx/api/v2/write", []KV{{"precision", "ns"}}, "text/plain", []byte("logs,tag=a message=\"hello\" 1700000000000000000\ncpu,host=b value=1.5 1700000000000000001\n")},
		{"/v1/logs", nil, "application/x-protobuf", otlpLogsSeed()},
		{"/api/v2/logs", []KV{{"ddsource", "nginx"}}, "application/json", []byte(`[{"ddsource":"nginx","ddtags":"env:prod,team:a","hostname":"h1","message":"hello","service":"web","timestamp":1700000000000}]`)},
		{"/api/v2/series", nil, "application/json", []byte(`{"series":[{"metric":"system.load.1","type":0,"points":[{"timestamp":1700000000,"value":0.7}],"resources":[{"name":"h1","type":"host"}],"tags":["env:prod"]}]}`)},
		{"/cf/v1/insert", []KV{{"ddsource", "cf"}}, "application/json", []byte("{\"DispatchNamespace\":\"\",\"Event\":{\"RayID\":\"1\",\"Request\":{\"Method\":\"GET\",\"URL\":\"https://a/b\"}},\"EventTimestampMs\":1700000000000,\"Logs\":[{\"Level\":\"log\",\"Message\":[\"x\"],\"TimestampMs\":1700000000000}],\"Outcome\":\"ok\",\"ScriptName\":\"s\"}\n")},
		{"/tempo/spans", nil, "application/json", zipkinBody(okSpans, false)},
		{"/api/v2/spans", nil, "ndjson", zipkinBody(okSpans, true)},
		{"/tempo/api/push", nil, "application/json", zipkinBody(okSpans, false)},
		{"/v1/traces", nil, "application/x-protobuf", otlpBody(r, []ORes{{HasResource: true, Spans: []OSpan{{TidLen: 16, SidLen: 8}, {TidLen: 16, SidLen: 8}}}})},
		{"/ingest", ing, "binary/octet-stream", pp},
		{"/ingest", ing, "multipart/form-data; boundary=vfb0undary", multipartBody("profile", pp, "vfb0undary")},
		{"/_bulk", nil, "application/json", []byte("{\"index\":{\"_index\":\"logs\",\"app\":\"a\"}}\n{\"message\":\"hello\"}\n{\"delete\":{\"_index\":\"logs\"}}\n")},
		{"/logs/_doc", nil, "application/json", []byte(`{"message":"hello","level":"info"}`)},
		{"/logs/_bulk", nil, "application/x-ndjson", []byte("{\"create\":{\"app\":\"a\"}}\n{\"message\":\"hello\"}\n")},
	}
}

// a minimal OTLP logs request encoded by hand (resource_logs{resource{attr}, scope_logs{log_records{time, body}}})
func otlpLogsSeed() []byte {
	kv := pbBytes(1, []byte("service.name"))
	kv = append(kv, pbBytesF(2, pbBytes(1, []byte("svc")))...)
	res := pbBytesF(1, kv)
	rec := append(pbFixed64(1, 1700000000000000000), pbBytesF(5, pbBytes(1, []byte("hello")))...)
	scopeLogs := append(pbBytesF(1, pbBytes(1, []byte("scope"))), pbBytesF(2, rec)...)
	rl := append(pbBytesF(1, res), pbBytesF(2, scopeLogs)...)
	return pbBytesF(1, rl)
}
func pbBytes(field int, b []byte) []byte {
	o := []byte{byte(field<<3 | 2)}
	n := len(b)
	for n >= 0x80 {
		o = append(o, byte(n)|0x80)
		n >>= 7
	}
	o = append(o, byte(n))
	return append(o, b...)
}
func pbBytesF(field int, b []byte) []byte { return pbBytes(field, b) }
func pbFixed64(field int, v uint64) []byte {
	o := []byte{byte(field<<3 | 1)}
	for i := 0; i < 8; i++ {
		o = append(o, byte(v>>(8*i)))
	}
	return o
}

func mutate(r *rand.Rand, b []byte) ([]byte, string) {
	b = append([]byte(nil), b...)
	switch r.Intn(9) {
	case 0:
		if len(b) > 0 {
			return b[:r.Intn(len(b))], "truncate"
		}
		return b, "truncate"
	case 1, 2:
		for k := 1 + r.Intn(4); k > 0 && len(b) > 0; k-- {
			b[r.Intn(len(b))] ^= 1 << uint(r.Intn(8))
		}
		return b, "bitflip"
	case 3:
		n := r.Intn(200)
		return randBytes(r, n), "random"
	case 4:
		if len(b) > 2 {
			i := r.Intn(len(b))
			j := i + r.Intn(len(b)-i)
			return append(b[:i], b[j:]...), "delete"
		}
		return b, "delete"
	case 5:
		if len(b) > 0 {
			i := r.Intn(len(b))
			ins := randBytes(r, 1+r.Intn(16))
			return append(b[:i], append(ins, b[i:]...)...), "insert"
		}
		return b, "insert"
	case 6:
		if len(b) > 0 {
			i := r.Intn(len(b))
			n := 1 + r.Intn(8)
			for k := 0; k < n && i+k < len(b); k++ {
				b[i+k] = pick1b(r)
			}
		}
		return b, "interesting-bytes"
	case 7:
		return append(b, b...), "duplicate"
	default:
		return b, "unchanged"
	}
}

func pick1b(r *rand.Rand) byte {
	return []byte{0x00, 0xff, 0x7f, 0x80, '{', '}', '[', ']', '"', ',', ':', '\n', '-', '0', 'e'}[r.Intn(15)]
}

func genBytes(r *rand.Rand, id int, sd []seed) Case {
	s := sd[r.Intn(len(sd))]
	c := Case{ID: id, Stream: "bytes"}
	body, how := mutate(r, s.body)
	ct := s.ct
	ce := ""
	switch r.Intn(12) {
	case 0:
		ct = sd[r.Intn(len(sd))].ct // a body under another route's content type
		how += "+other-ct"
	case 1:
		ce = "gzip"
		body = gz(body)
		how += "+gzip"
	case 2:
		ce = "gzip" // mutated gzip stream
		body, _ = mutate(r, gz(s.body))
		how += "+gzip-mutated"
	case 3:
		ce = "snappy"
		var o bytes.Buffer
		w := snappy.NewBufferedWriter(&o)
		w.Write(body)
		w.Close()
		body = o.Bytes()
		how += "+snappy-framed"
	case 4:
		ce = "snappy"
		how += "+snappy-raw"
	}
	q := append([]KV(nil), s.q...)
	if len(q) > 0 && r.Intn(6) == 0 {
		i := r.Intn(len(q))
		q[i][1] = pick(r, "", "0", "-1", "x{", "{", "99999999999999999999", "zz", "a{b=c", strings.Repeat("9", 30), phraseText(r), phraseText(r))
		how += "+param"
	}
	c.Class = s.path + " " + how
	c.Req = Req{Path: s.path, Query: q, Headers: []KV{{"Content-Type", ct}}, BodyHex: hex.EncodeToString(body)}
	if ce != "" {
		c.Req.Headers = append(c.Req.Headers, KV{"Content-Encoding", ce})
	}
	return c
}

// ------------------------------------------------------------------ worker: runs cases against the router

type result struct {
	Begin *int `json:"begin,omitempty"`
	ID    int  `json:"id"`
	Obs   *Obs `json:"obs,omitempty"`
}

func classOf(status int) string {
	switch {
	case status >= 200 && status < 300:
		return "2xx"
	case status >= 400 && status < 500:
		return "4xx"
	case status >= 500 && status < 600:
		return "5xx"
	}
	return fmt.Sprintf("status-%d", status)
}

func newRequest(c *Case, u string, body []byte) *http.Request {
	var rd io.Reader = bytes.NewReader(body)
	if k := c.Req.FailAfter; k > 0 && k <= len(body) {
		rd = io.MultiReader(bytes.NewReader(body[:k]), failingReader{})
	}
	if c.Req.Fill > 0 {
		rd = io.MultiReader(rd, io.LimitReader(fillReader{}, int64(c.Req.Fill)))
	}
	req := httptest.NewRequest("POST", u, rd)
	for _, kv := range c.Req.Headers {
		if kv[1] != "" || kv[0] != "Content-Type" {
			req.Header.Set(kv[0], kv[1])
		}
	}
	return req
}

// handedToTheRoute: the REAL WithOverallContextMiddleware (the first PreRequest of every ingest route) is run on the request, then
// r.Body is read the way a parser reads it: how many decoded bytes does the route get? Counted up to max (the count never holds the bytes).
func handedToTheRoute(c *Case, body []byte, max int) (n int, detail string) {
	defer func() {
		if p := recover(); p != nil {
			n, detail = -1, fmt.Sprint("panic: ", p)
		}
	}()
	pc := controllerv1.WithOverallContextMiddleware(&controllerv1.PusherCtx{})
	if len(pc.PreRequest) != 1 {
		return -1, fmt.Sprintf("WithOverallContextMiddleware registers %d PreRequest functions", len(pc.PreRequest))
	}
	req := newRequest(c, c.Req.Path, body)
	if err := pc.PreRequest[0](httptest.NewRecorder(), req); err != nil {
		return 0, "refused: " + firstN(err.Error(), 120)
	}
	k, err := io.Copy(io.Discard, io.LimitReader(req.Body, int64(max)))
	if err != nil {
		detail = firstN(err.Error(), 120)
	}
	return int(k), detail
}

// capAddressSpace: while a bomb is served the address space of the worker may grow by `room` bytes only (RLIMIT_AS, soft limit): a server
// that inflates the bomb dies with "fatal error: out of memory" - an observation of this case - instead of taking the machine's memory.
// Returns the function that lifts the cap.
func capAddressSpace(room uint64) func() {
	var old syscall.Rlimit
	if syscall.Getrlimit(syscall.RLIMIT_AS, &old) != nil {
		return func() {}
	}
	b, err := os.ReadFile("/proc/self/statm")
	if err != nil {
		return func() {}
	}
	var pages uint64
	fmt.Sscan(string(b), &pages)
	lim := syscall.Rlimit{Cur: pages*uint64(os.Getpagesize()) + room, Max: old.Max}
	if lim.Cur > old.Max || syscall.Setrlimit(syscall.RLIMIT_AS, &lim) != nil {
		return func() {}
	}
	return func() { syscall.Setrlimit(syscall.RLIMIT_AS, &old) }
}

func serve(router *mux.Router, c *Case, body []byte, deadline time.Duration) (outcome string, status int, detail string) {
	q := url.Values{}
	for _, kv := range c.Req.Query {
		q.Add(kv[0], kv[1])
	}
	u := c.Req.Path
	if len(q) > 0 {
		u += "?" + q.Encode()
	}
	req := newRequest(c, u, body)
	rec := httptest.NewRecorder()
	done := make(chan string, 1)
	go func() {
		defer func() {
			// net/http recovers a panic of the handler goroutine and aborts the connection: no response
			if p := recover(); p != nil {
				done <- fmt.Sprint("handler panic: ", p)
			}
		}()
		router.ServeHTTP(rec, req)
		done <- ""
	}()
	select {
	case p := <-done:
		if p != "" {
			return "abort", 0, p
		}
		return classOf(rec.Code), rec.Code, strings.TrimSpace(firstN(rec.Body.String(), 160))
	case <-time.After(deadline):
		return "hang", 0, "no response within " + deadline.String() + "; goroutines of the repository still running:\n" + repoStacks()
	}
}

type fillReader struct{}

func (fillReader) Read(p []byte) (int, error) {
	for i := range p {
		p[i] = 'a'
	}
	return len(p), nil
}

type failingReader struct{}

func (failingReader) Read(p []byte) (int, error) {
	return 0, fmt.Errorf("read tcp 127.0.0.1:3100: i/o deadline reached")
}

func firstN(s string, n int) string {
	if len(s) > n {
		return s[:n]
	}
	return s
}

// stacks of goroutines that are inside github.com/metrico/qryn code
func repoStacks() string {
	buf := make([]byte, 1<<20)
	buf = buf[:runtime.Stack(buf, true)]
	var out []string
	for _, g := range strings.Split(string(buf), "\n\n") {
		if strings.Contains(g, "metrico/qryn/writer/utils/unmarshal") || strings.Contains(g, "metrico/qryn/writer/controller") {
			lines := strings.Split(g, "\n")
			if len(lines) > 7 {
				lines = lines[:7]
			}
			out = append(out, strings.Join(lines, "\n"))
		}
	}
	if len(out) > 4 {
		out = out[:4]
	}
	return strings.Join(out, "\n--\n")
}

func canaryFor(path string) (string, string, []byte) {
	switch {
	case strings.HasPrefix(path, "/tempo") || path == "/api/v2/spans" || path == "/v1/traces":
		return "/tempo/spans", "application/json", []byte(`[{"traceId":"d6e9329d67b6146c0000000000000001","id":"1234ef4600000001","name":"canary","timestamp":1700000000000000,"duration":1000,"localEndpoint":{"serviceName":"canary"}}]`)
	case path == "/ingest":
		return "/ingest", "binary/octet-stream", nil
	}
	return "/loki/api/v1/push", "application/json", []byte(`{"streams":[{"stream":{"app":"canary"},"values":[["1700000000000000000","canary"]]}]}`)
}

func worker(casesPath string, from int, deadline time.Duration) {
	out := os.NewFile(3, "results")
	w := bufio.NewWriter(out)
	emit := func(v result) {
		b, _ := json.Marshal(v)
		w.Write(b)
		w.WriteByte('\n')
		w.Flush()
	}
	// the repository prints to stdout from some decoders; keep it away from the result channel
	devnull, _ := os.OpenFile(os.DevNull, os.O_WRONLY, 0)
	os.Stdout = devnull
	router := setup()
	var cases []Case
	hx.ReadLines(casesPath, func(line []byte) {
		var c Case
		if err := json.Unmarshal(line, &c); err != nil {
			panic(err)
		}
		cases = append(cases, c)
	})
	r := rand.New(rand.NewSource(7))
	canaryPprof := validPprof(r)
	// warm up: one well-formed request per service family, then take the goroutine baseline
	for _, p := range []string{"/loki/api/v1/push", "/tempo/spans", "/ingest"} {
		cp, ct, cb := canaryFor(p)
		cc := &Case{Req: Req{Path: cp, Headers: []KV{{"Content-Type", ct}}}}
		if cp == "/ingest" {
			cc.Req.Query = []KV{{"from", "1700000000"}, {"until", "1700000010"}, {"name", "canary"}}
			cb = canaryPprof
		}
		serve(router, cc, cb, 10*time.Second)
	}
	time.Sleep(30 * time.Millisecond)
	baseline := runtime.NumGoroutine()
	var ms runtime.MemStats
	for i := from; i < len(cases); i++ {
		c := &cases[i]
		id := c.ID
		emit(result{Begin: &id, ID: id})
		body := c.body(r)
		limit := decodedLimit
		if c.Req.Limit > 0 {
			limit = c.Req.Limit
		}
		helpers.SetGlobalLimit(2 * limit)
		runtime.ReadMemStats(&ms)
		a0 := ms.TotalAlloc
		rows0 := rowsSnapshot()
		t0 := time.Now()
		uncap := func() {}
		if strings.HasSuffix(c.Class, "/ce-bomb") {
			uncap = capAddressSpace(768 << 20)
		}
		outcome, status, detail := serve(router, c, body, deadline)
		uncap()
		rows1 := rowsSnapshot()
		o := &Obs{Outcome: outcome, Status: status, Ms: time.Since(t0).Milliseconds(), Detail: detail, BodyLen: len(body) + c.Req.Fill, Limit: limit, Handed: -1}
		runtime.ReadMemStats(&ms)
		o.AllocKB = int64((ms.TotalAlloc - a0) / 1024)
		o.DecodedLen = decodedLen(c.header("Content-Encoding"), body, limit+2)
		if c.header("Content-Encoding") == "" {
			o.DecodedLen += c.Req.Fill
		}
		if c.Stream == "limit" && c.L != nil {
			o.Handed, o.HandedDetail = handedToTheRoute(c, body, limit+(1<<20))
		}
		helpers.SetGlobalLimit(2 * decodedLimit) // the canary and the census run under the default limit
		if c.Stream == "frame" {
			o.Rows = map[string]int{}
			for k, v := range rows1 {
				if v > rows0[k] {
					o.Rows[k] = v - rows0[k]
				}
			}
		}
		if outcome == "hang" {
			emit(result{ID: id, Obs: o})
			w.Flush()
			os.Exit(3) // a goroutine may be spinning: start afresh
		}
		// census: every goroutine started for the request must be gone shortly after the response
		leaked := true
		for k := 0; k < 400; k++ {
			if runtime.NumGoroutine() <= baseline {
				leaked = false
				break
			}
			time.Sleep(time.Millisecond)
		}
		if leaked {
			o.Outcome = "leak"
			o.Detail = fmt.Sprintf("goroutines %d > baseline %d after response %d; %s", runtime.NumGoroutine(), baseline, status, repoStacks())
			emit(result{ID: id, Obs: o})
			os.Exit(3)
		}
		// the server keeps serving: a well-formed request on the same service family is accepted
		if outcome != "2xx" || i%8 == 0 {
			cp, ct, cb := canaryFor(c.Req.Path)
			cc := &Case{Req: Req{Path: cp, Headers: []KV{{"Content-Type", ct}}}}
			if cp == "/ingest" {
				cc.Req.Query = []KV{{"from", "1700000000"}, {"until", "1700000010"}, {"name", "canary"}}
				cb = canaryPprof
			}
			co, cs, cd := serve(router, cc, cb, deadline)
			o.Canary = co
			if co != "2xx" {
				o.Detail += fmt.Sprintf(" | canary %s answered %d %s", cp, cs, cd)
			}
			if co == "hang" {
				emit(result{ID: id, Obs: o})
				os.Exit(3)
			}
		}
		emit(result{ID: id, Obs: o})
	}
	w.Flush()
	os.Exit(0)
}

// ------------------------------------------------------------------ parent: supervises workers

func supervise(casesPath string, cases []Case, deadline time.Duration, maxBad int) {
	bad := 0
	byID := map[int]*Case{}
	for i := range cases {
		byID[cases[i].ID] = &cases[i]
	}
	from := 0
	restarts := 0
	for from < len(cases) {
		cmd := exec.Command(os.Args[0], "--worker", "--cases", casesPath, "--from", fmt.Sprint(from), "--deadline-ms", fmt.Sprint(deadline.Milliseconds()),
			"--decoded-limit", fmt.Sprint(decodedLimit))
		pr, pw, _ := os.Pipe()
		cmd.ExtraFiles = []*os.File{pw}
		var stderr bytes.Buffer
		cmd.Stderr = &stderr
		cmd.Stdout = nil
		if err := cmd.Start(); err != nil {
			panic(err)
		}
		pw.Close()
		lines := make(chan result, 64)
		go func() {
			sc := bufio.NewScanner(pr)
			sc.Buffer(make([]byte, 1<<20), 1<<26)
			for sc.Scan() {
				var v result
				if json.Unmarshal(sc.Bytes(), &v) == nil {
					lines <- v
				}
			}
			close(lines)
		}()
		inProgress := -1
		next := from
		silence := 3*deadline + 20*time.Second
		timer := time.NewTimer(silence)
		killed := false
	loop:
		for {
			select {
			case v, ok := <-lines:
				if !ok {
					break loop
				}
				if !timer.Stop() {
					select {
					case <-timer.C:
					default:
					}
				}
				timer.Reset(silence)
				if v.Begin != nil {
					inProgress = *v.Begin
					continue
				}
				if c := byID[v.ID]; c != nil {
					c.Obs = v.Obs
				}
				if inProgress == v.ID {
					inProgress = -1
				}
				for next < len(cases) && cases[next].Obs != nil {
					next++
				}
			case <-timer.C:
				cmd.Process.Kill()
				killed = true
			}
		}
		err := cmd.Wait()
		pr.Close()
		if inProgress >= 0 {
			c := byID[inProgress]
			tail := stderr.String()
			if i := strings.Index(tail, "panic:"); i >= 0 {
				tail = tail[i:]
			} else if i := strings.Index(tail, "fatal error:"); i >= 0 {
				tail = tail[i:]
			}
			kind := "crash"
			if killed {
				kind = "hang"
				tail = "worker produced no output for " + silence.String() + " and was killed"
			}
			c.Obs = &Obs{Outcome: kind, Handed: -1, Detail: fmt.Sprintf("worker exit: %v; %s", err, firstN(tail, 1500))}
			for next < len(cases) && cases[next].Obs != nil {
				next++
			}
		} else if err != nil && next == from {
			// the worker died before starting any case: machinery failure, not an observation
			fmt.Fprintf(os.Stderr, "ingestfuzz: worker failed before the first case: %v\n%s\n", err, firstN(stderr.String(), 3000))
			os.Exit(4)
		}
		if next == from && inProgress < 0 {
			fmt.Fprintf(os.Stderr, "ingestfuzz: no progress (from=%d): %v\n%s\n", from, err, firstN(stderr.String(), 3000))
			os.Exit(4)
		}
		from = next
		restarts++
		if from > 0 && cases[from-1].Obs != nil {
			switch cases[from-1].Obs.Outcome {
			case "crash", "hang", "leak":
				bad++
			}
		}
		if maxBad > 0 && bad >= maxBad {
			// enough evidence; the rest is not run (each further hang costs a full deadline)
			for i := from; i < len(cases); i++ {
				if cases[i].Obs == nil {
					cases[i].Obs = &Obs{Outcome: "skipped", Detail: fmt.Sprintf("not run: %d crash/hang/leak observations already", bad)}
				}
			}
			break
		}
		if restarts > 200 {
			fmt.Fprintf(os.Stderr, "ingestfuzz: more than 200 worker restarts, giving up at case %d\n", from)
			break
		}
	}
}

// ------------------------------------------------------------------ stalled bodies over a real listener
//
// main.go httpStart serves the router with http.Serve(listener, router): a zero-value http.Server (no ReadTimeout,
// no ReadHeaderTimeout).  stallMode serves the REAL writer router the same way on 127.0.0.1 (or with the timeouts given
// on the command line -- the check passes what the translator reads from main.go) and plays a client that sends the
// request line, the headers with the full Content-Length, the first Sent bytes of a well-formed body -- and then
// nothing.  Observed after the window: was anything answered, is a goroutine still inside the repository's handler
// code, is a second client served meanwhile, and does the goroutine end once the client closes the connection.

type StallCase struct {
	ID    int       `json:"id"`
	Route string    `json:"route"`
	Path  string    `json:"path"`
	CT    string    `json:"ct"`
	Total int       `json:"total"` // Content-Length announced
	Sent  int       `json:"sent"`  // body bytes actually sent
	Obs   *StallObs `json:"obs,omitempty"`
}

type StallObs struct {
	Answered        bool   `json:"answered"` // a response arrived within the window
	Status          int    `json:"status"`
	StuckInHandler  bool   `json:"stuck_in_handler"` // at the end of the window a goroutine is inside controller/unmarshal code
	Where           string `json:"where,omitempty"`  // its innermost repository frame
	CanaryDuring    string `json:"canary_during"`    // a well-formed request on another connection during the stall
	ReleasedMs      int64  `json:"released_ms"`      // after the client closed: time until no goroutine is in handler code (-1: never within 2 s)
	WindowMs        int64  `json:"window_ms"`
	ReadTimeoutMs   int64  `json:"read_timeout_ms"`
	HeaderTimeoutMs int64  `json:"read_header_timeout_ms"`
}

func handlerFrame() string {
	buf := make([]byte, 1<<20)
	buf = buf[:runtime.Stack(buf, true)]
	for _, g := range strings.Split(string(buf), "\n\n") {
		if !strings.Contains(g, "net/http.(*conn).serve") {
			continue
		}
		for _, ln := range strings.Split(g, "\n") {
			if strings.HasPrefix(ln, "github.com/metrico/qryn/writer/controller") || strings.HasPrefix(ln, "github.com/metrico/qryn/writer/utils/unmarshal") {
				if i := strings.Index(ln, "("); i > 0 {
					ln = ln[:i]
				}
				return strings.TrimPrefix(ln, "github.com/metrico/qryn/writer/")
			}
		}
	}
	return ""
}

func stallMode(outPath string, window, readTimeout, headerTimeout time.Duration, all bool) {
	devnull, _ := os.OpenFile(os.DevNull, os.O_WRONLY, 0)
	stdout := os.Stdout
	os.Stdout = devnull
	router := setup()
	ln, err := net.Listen("tcp", "127.0.0.1:0")
	if err != nil {
		panic(err)
	}
	go func() {
		if readTimeout == 0 && headerTimeout == 0 {
			http.Serve(ln, router) // as main.go httpStart
		} else {
			(&http.Server{Handler: router, ReadTimeout: readTimeout, ReadHeaderTimeout: headerTimeout}).Serve(ln)
		}
	}()
	addr := ln.Addr().String()
	r := rand.New(rand.NewSource(11))
	pp := validPprof(r)
	okSpans := []ZSpan{{Tid: &ZField{Str: randHex(r, 32)}, Sid: &ZField{Str: randHex(r, 16)}, Ts: "num", Dur: "num"}}
	routes := []struct {
		name, path, ct string
		body           []byte
	}{
		{"loki-json", "/loki/api/v1/push", "application/json", lokiJSONBody(false)},
		{"remote-write", "/api/v1/prom/remote/write", "application/x-protobuf", snappy.Encode(nil, promBody(r, 0))},
		{"zipkin", "/tempo/spans", "application/json", zipkinBody(okSpans, false)},
		{"otlp", "/v1/traces", "application/x-protobuf", otlpBody(r, []ORes{{HasResource: true, Spans: []OSpan{{TidLen: 16, SidLen: 8}}}})},
		{"ingest-multipart", "/ingest?from=1700000000&until=1700000010&name=app", "multipart/form-data; boundary=vfb0undary", multipartBody("profile", pp, "vfb0undary")},
		{"elastic-bulk", "/_bulk", "application/json", []byte("{\"index\":{\"_index\":\"logs\"}}\n{\"message\":\"hello\"}\n")},
	}
	canary := func() string {
		cp, ct, cb := canaryFor("/loki/api/v1/push")
		// a fresh connection per canary: with the scaled-down ReadTimeout (= idle timeout) the server closes kept-alive ones
		cl := &http.Client{Timeout: 3 * time.Second, Transport: &http.Transport{DisableKeepAlives: true}}
		resp, err := cl.Post("http://"+addr+cp, ct, bytes.NewReader(cb))
		if err != nil {
			return "error: " + err.Error()
		}
		resp.Body.Close()
		return classOf(resp.StatusCode)
	}
	var cases []StallCase
	id := 0
	for _, rt := range routes {
		sents := []int{len(rt.body) / 2, len(rt.body)}
		if all {
			sents = []int{0, len(rt.body) / 2, len(rt.body) - 1, len(rt.body)}
		}
		for _, sent := range sents {
			cases = append(cases, StallCase{ID: id, Route: rt.name, Path: rt.path, CT: rt.ct, Total: len(rt.body), Sent: sent})
			id++
		}
	}
	bodies := map[string][]byte{}
	for _, rt := range routes {
		bodies[rt.name] = rt.body
	}
	out := hx.OpenOut(outPath)
	if outPath == "-" || outPath == "" {
		os.Stdout = stdout
		out = hx.OpenOut("-")
	}
	for i := range cases {
		c := &cases[i]
		conn, err := net.Dial("tcp", addr)
		if err != nil {
			panic(err)
		}
		fmt.Fprintf(conn, "POST %s HTTP/1.1\r\nHost: x\r\nContent-Type: %s\r\nContent-Length: %d\r\n\r\n", c.Path, c.CT, c.Total)
		conn.Write(bodies[c.Route][:c.Sent])
		answered := make(chan int, 1)
		go func() {
			resp, err := http.ReadResponse(bufio.NewReader(conn), nil)
			if err != nil {
				answered <- 0
				return
			}
			answered <- resp.StatusCode
		}()
		o := &StallObs{WindowMs: window.Milliseconds(), ReadTimeoutMs: readTimeout.Milliseconds(), HeaderTimeoutMs: headerTimeout.Milliseconds(), ReleasedMs: -1}
		t1 := time.Now()
		time.Sleep(30 * time.Millisecond)
		o.CanaryDuring = canary()
		select {
		case st := <-answered:
			o.Answered, o.Status = st != 0, st
			if d := window - time.Since(t1); st == 0 && d > 0 {
				time.Sleep(d) // the server closed the connection without a response: still observe at the end of the window
			}
		case <-time.After(window - time.Since(t1)):
		}
		o.Where = handlerFrame()
		o.StuckInHandler = o.Where != ""
		t0 := time.Now()
		conn.Close()
		for k := 0; k < 2000; k++ {
			if handlerFrame() == "" {
				o.ReleasedMs = time.Since(t0).Milliseconds()
				break
			}
			time.Sleep(time.Millisecond)
		}
		c.Obs = o
		out.Put(c)
	}
	out.Close()
	os.Exit(0)
}

func main() {
	workerMode := flag.Bool("worker", false, "run cases in this process (child of the supervisor)")
	from := flag.Int("from", 0, "worker: index of the first case to run")
	nbytes := flag.Int("nbytes", 0, "number of byte-level (fuzz) cases")
	ngeneric := flag.Int("ngeneric", 0, "number of cases on the routes predicted from the route table (datadog, cf, elastic, otlp logs)")
	deadlineMs := flag.Int("deadline-ms", 3000, "per-request deadline")
	phrasesFile := flag.String("phrases-file", "", `JSON {"phrases":[...]}: texts the repository compares error texts with`)
	maxBad := flag.Int("max-bad", 0, "stop after this many crash/hang/leak observations (0 = never)")
	nframe := flag.Int("nframe", 0, "number of cases of stream frame (NDJSON bodies: line lengths around 64 KiB / 16 MiB, refused lines, unterminated rest, failing reader)")
	nmform := flag.Int("nmform", 0, "number of cases of stream mform (the multipart form of /ingest: boundary line, closing delimiter, parts, what the profile file holds)")
	nlimit := flag.Int("nlimit", 0, "number of cases of stream limit (payloads of an exact decoded size around the decoded-size limit, plain / gzip / snappy)")
	flag.IntVar(&decodedLimit, "decoded-limit", decodedLimit, "pbPool.limit the router runs with, bytes (helpers.SetGlobalLimit(2*this))")
	stall := flag.Bool("stall", false, "stalled-body scenarios over a real listener (see stallMode)")
	stallAll := flag.Bool("stall-all", false, "stall: also the cases with 0 and len-1 bytes sent")
	stallWindowMs := flag.Int("stall-window-ms", 1200, "stall: how long the client stays silent before the observation")
	readTimeoutMs := flag.Int("read-timeout-ms", 0, "stall: http.Server.ReadTimeout of the source (0 = not set, as http.Serve)")
	readHeaderTimeoutMs := flag.Int("read-header-timeout-ms", 0, "stall: http.Server.ReadHeaderTimeout of the source (0 = not set)")
	f := hx.ParseFlags()
	if *stall {
		stallMode(f.Out, time.Duration(*stallWindowMs)*time.Millisecond, time.Duration(*readTimeoutMs)*time.Millisecond, time.Duration(*readHeaderTimeoutMs)*time.Millisecond, *stallAll)
		return
	}
	deadline := time.Duration(*deadlineMs) * time.Millisecond
	if *phrasesFile != "" {
		var pf struct {
			Phrases   []string `json:"phrases"`
			Encodings []string `json:"content_encodings"`
		}
		if b, err := os.ReadFile(*phrasesFile); err == nil && json.Unmarshal(b, &pf) == nil && len(pf.Phrases) > 0 {
			phrases = pf.Phrases
			if len(pf.Encodings) > 0 {
				contentEncodings = pf.Encodings
			}
		}
	}
	if *workerMode {
		worker(f.Cases, *from, deadline)
		return
	}
	var cases []Case
	if f.Cases != "" {
		hx.ReadLines(f.Cases, func(line []byte) {
			var c Case
			if err := json.Unmarshal(line, &c); err != nil {
				panic(err)
			}
			c.Obs = nil
			cases = append(cases, c)
		})
	} else {
		r := hx.Rand(f.Seed)
		for i := 0; i < f.N; i++ {
			cases = append(cases, genStruct(r, i))
		}
		sd := seeds(r)
		for i := 0; i < *nbytes; i++ {
			cases = append(cases, genBytes(r, f.N+i, sd))
		}
		for i := 0; i < *ngeneric; i++ {
			cases = append(cases, genGeneric(r, f.N+*nbytes+i))
		}
		for i := 0; i < *nlimit; i++ {
			cases = append(cases, genLimit(r, f.N+*nbytes+*ngeneric+i))
		}
		for i := 0; i < *nmform; i++ {
			cases = append(cases, genMForm(r, 6000000+i))
		}
		for i := 0; i < *nframe; i++ {
			cases = append(cases, genFrame(r, f.N+*nbytes+*ngeneric+*nlimit+i))
		}
		if *nlimit > 0 {
			// after every other draw (the streams of a seed stay what they were): the fixed block of stream "limit"
			for i, ce := range contentEncodings {
				for k := 0; k < 3; k++ {
					cases = append(cases, genLimitCE(r, 7000000+3*i+k, ce, k))
				}
			}
		}
	}
	tmp := f.Out + ".cases"
	if f.Out == "-" || f.Out == "" {
		tmp = fmt.Sprintf("%s/ingestfuzz-%d.cases", os.TempDir(), os.Getpid())
	}
	o := hx.OpenOut(tmp)
	for i := range cases {
		o.Put(&cases[i])
	}
	o.Close()
	supervise(tmp, cases, deadline, *maxBad)
	os.Remove(tmp)
	out := hx.OpenOut(f.Out)
	for i := range cases {
		out.Put(&cases[i])
	}
	out.Close()
}
