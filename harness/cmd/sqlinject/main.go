// sqlinject drives every exported planner entry point of the reader that accepts request strings
// with hostile byte strings in ONE position at a time and prints the SQL text that the real code
// hands to the database session, together with the SQL for a harmless marker in the same position.
// (property C10; the statements are lexed and compared inside Coq, model/SqlCase.v)
package main

import (
	"regexp"
	"context"
	dsql "database/sql"
	"encoding/binary"
	"encoding/json"
	"net/http"
	"net/http/httptest"
	"errors"
	"fmt"
	"go/ast"
	"go/parser"
	"go/token"
	"io"
	"math/rand"
	"os"
	"path/filepath"
	"regexp/syntax"
	"sort"
	"strconv"
	"strings"
	"sync"
	"time"
	"unicode/utf8"

	"github.com/ClickHouse/clickhouse-go/v2"
	"github.com/jmoiron/sqlx"
	"github.com/metrico/cloki-config/config"
	"github.com/metrico/qryn/reader/utils/dsn"
	"github.com/metrico/qryn/reader/logql/logql_parser"
	logql_transpiler_v2 "github.com/metrico/qryn/reader/logql/logql_transpiler_v2"
	"github.com/metrico/qryn/reader/logql/logql_transpiler_v2/clickhouse_planner"
	"github.com/metrico/qryn/reader/logql/logql_transpiler_v2/shared"
	"github.com/metrico/qryn/reader/model"
	promtr "github.com/metrico/qryn/reader/promql/transpiler"
	"github.com/metrico/qryn/reader/service"
	"github.com/metrico/qryn/reader/tempo"
	traceql_parser "github.com/metrico/qryn/reader/traceql/parser"
	"github.com/metrico/qryn/reader/traceql/transpiler/clickhouse_transpiler"
	"github.com/metrico/qryn/reader/utils/dbVersion"
	sql "github.com/metrico/qryn/reader/utils/sql_select"
	"github.com/prometheus/prometheus/model/labels"
	"github.com/prometheus/prometheus/storage"
	"verif/harness/hx"
)

// ------------------------------------------------------------------ recording session

func init() { wire = startWire() }

var errRecorded = errors.New("recorded")

const driverRefused = "driver refused the statement: "

// ------------------------------------------------------------------ the wire (round 6, seeded C10-f)
//
// The statement that reaches ClickHouse is NOT the text handed to ISqlxDB.QueryCtx: once the call has bind arguments, clickhouse-go's
// client-side bind rewrites every `$<digits>` / `?` / `@name` of the text - also inside the string literals written for request values.
// So the session handed to the code under test is the repository's own dsn.StableSqlxDBWrapper over the REAL clickhouse-go driver
// (database/sql, HTTP protocol); only the ClickHouse server is a stand-in: an HTTP endpoint that answers the driver's two handshake
// statements and records the body of every other POST, i.e. the statement as it left the driver.
type wireT struct {
	call  sync.Mutex // one statement at a time: what the endpoint records during a call belongs to that call
	mu    sync.Mutex
	got   []string
	srv   *httptest.Server
	sess  *dsn.StableSqlxDBWrapper
	stats struct{ Sent, WithArgs, Rewritten, Refused int }
}

var wire *wireT

func nativeStringBlock(name string, val string) []byte {
	var b []byte
	uv := func(n int) { b = binary.AppendUvarint(b, uint64(n)) }
	str := func(s string) { uv(len(s)); b = append(b, s...) }
	uv(1) // columns
	uv(1) // rows
	str(name)
	str("String")
	str(val)
	return b
}

func startWire() *wireT {
	w := &wireT{}
	w.srv = httptest.NewServer(http.HandlerFunc(func(rw http.ResponseWriter, req *http.Request) {
		body, _ := io.ReadAll(req.Body)
		stmt := string(body)
		switch stmt {
		case "SELECT timezone()":
			rw.Write(nativeStringBlock("timezone()", "UTC"))
			return
		case "SELECT version()":
			rw.Write(nativeStringBlock("version()", "24.3.1.1"))
			return
		}
		w.mu.Lock()
		w.got = append(w.got, stmt)
		w.mu.Unlock()
		// empty answer: no rows
	}))
	getDB := func() *sqlx.DB {
		conn := clickhouse.OpenDB(&clickhouse.Options{
			Protocol: clickhouse.HTTP,
			Addr:     []string{strings.TrimPrefix(w.srv.URL, "http://")},
			Auth:     clickhouse.Auth{Database: "qryn"},
		})
		conn.SetMaxOpenConns(1)
		return sqlx.NewDb(conn, "clickhouse")
	}
	w.sess = &dsn.StableSqlxDBWrapper{DB: getDB(), GetDB: getDB, Name: "wire"}
	return w
}

// send hands (query, args) to the real session and returns what reached the endpoint (nothing when the driver refused the statement)
func (w *wireT) send(exec bool, query string, args []any) ([]string, *dsql.Rows, error) {
	w.call.Lock()
	defer w.call.Unlock()
	w.mu.Lock()
	w.got = nil
	w.mu.Unlock()
	var rows *dsql.Rows
	var err error
	if exec {
		err = w.sess.ExecCtx(context.Background(), query, args...)
	} else {
		rows, err = w.sess.QueryCtx(context.Background(), query, args...)
	}
	w.mu.Lock()
	got := append([]string(nil), w.got...)
	w.mu.Unlock()
	w.stats.Sent++
	if len(args) > 0 {
		w.stats.WithArgs++
	}
	if len(got) == 0 {
		w.stats.Refused++
	} else if len(got) != 1 || got[0] != query {
		w.stats.Rewritten++
	}
	return got, rows, err
}

// recDB is the model.ISqlxDB handed to the code under test: it records every statement AS IT REACHED THE WIRE
// (q) and, beside it, the text and the number of bind arguments the code handed to the session (pre, nargs).
type recDB struct {
	mu    sync.Mutex
	q     []string
	pre   []string
	nargs []int
	refused []string // statements the driver did not send (its bind found a placeholder without argument, mixed formats, ...)
	fail  bool // answer an error instead of an empty result set
	dbnam string
}

func (r *recDB) GetName() string { return r.dbnam }
func (r *recDB) record(query string, args []any, got []string, err error) {
	r.mu.Lock()
	if len(got) == 0 {
		r.refused = append(r.refused, short(err))
	}
	for _, g := range got {
		r.q = append(r.q, g)
		r.pre = append(r.pre, query)
		r.nargs = append(r.nargs, len(args))
	}
	r.mu.Unlock()
}
func (r *recDB) QueryCtx(ctx context.Context, query string, args ...any) (*dsql.Rows, error) {
	got, rows, err := wire.send(false, query, args)
	// the two statements of dbVersion.GetVersionInfo are constant and cached per time window: not part of the request
	if !strings.HasPrefix(query, "SELECT argMax(name, inserted_at)") && query != "SHOW TABLES" {
		r.record(query, args, got, err)
	}
	if r.fail {
		if rows != nil {
			rows.Close()
		}
		return nil, errRecorded
	}
	return rows, err
}
func (r *recDB) ExecCtx(ctx context.Context, query string, args ...any) error {
	got, _, err := wire.send(true, query, args)
	r.record(query, args, got, err)
	return errRecorded
}
func (r *recDB) Conn(ctx context.Context) (*dsql.Conn, error) { return nil, errRecorded }
func (r *recDB) Begin() (*dsql.Tx, error)                     { return nil, errRecorded }
func (r *recDB) Close()                                       {}
func (r *recDB) take() []string {
	r.mu.Lock()
	defer r.mu.Unlock()
	lastPre = append([]string(nil), r.pre...)
	lastNargs = append([]int(nil), r.nargs...)
	return append([]string(nil), r.q...)
}

// what the code handed to the session for the statements taken last (emitted with the case when it differs from the wire text)
var lastPre []string
var lastNargs []int

type registry struct {
	db      *recDB
	cluster string
}

func (g *registry) GetDB(ctx context.Context) (*model.DataDatabasesMap, error) {
	return &model.DataDatabasesMap{Config: &config.ClokiBaseDataBase{Name: "qryn", ClusterName: g.cluster}, Session: g.db}, nil
}
func (g *registry) Run()        {}
func (g *registry) Stop()       {}
func (g *registry) Ping() error { return nil }

func newReg(cluster bool) (*registry, *recDB) {
	db := &recDB{dbnam: "rec"}
	cl := ""
	if cluster {
		cl = "cl"
		db.dbnam = "rec_cl"
	}
	return &registry{db: db, cluster: cl}, db
}

var (
	tFrom = time.Unix(1700000000, 0)
	tTo   = time.Unix(1700003600, 0)
)

func newCtx(db *recDB, cluster bool) *shared.PlannerContext {
	return &shared.PlannerContext{
		IsCluster: cluster,
		From:      tFrom, To: tTo,
		Limit: 100, Step: 15 * time.Second,
		TimeSeriesGinTableName: "ts_gin", SamplesTableName: "samples", TimeSeriesTableName: "ts",
		TimeSeriesDistTableName: "ts_dist", Metrics15sTableName: "m15",
		TracesAttrsTable: "tattrs", TracesAttrsDistTable: "tattrs_d", TracesTable: "traces",
		TracesDistTable: "traces_d", TracesKVTable: "tkv", TracesKVDistTable: "tkv_d",
		ProfilesSeriesGinTable: "psg", ProfilesSeriesGinDistTable: "psg_d", ProfilesTable: "prof",
		ProfilesDistTable: "prof_d", ProfilesSeriesTable: "ps", ProfilesSeriesDistTable: "ps_d",
		Ctx: context.Background(), CHDb: db, CHFinalize: true,
		CHSqlCtx: &sql.Ctx{Params: map[string]sql.SQLObject{}, Result: map[string]sql.SQLObject{}},
	}
}

// ------------------------------------------------------------------ sites

const marker = "zqxmark"
const reMarker = "zqx.*mark"

// Prometheus / Pyroscope matchers that accept the empty string are planned on another branch (the series lacking the label are
// selected as well: an exclusion sub-select, fixes 26a1399 and its PromQL counterpart).  Which branch is taken depends on the value
// only through "does the anchored regex match the empty string": the baseline of such a value is a harmless regex that matches it too.
const optMarker = "(zqxmark)?"

func matcherMarker(op, v string) string {
	if op == "=~" || op == "!~" {
		if re, err := regexp.Compile("^(?:" + v + ")$"); err == nil && re.MatchString("") {
			return optMarker
		}
	}
	return marker
}

// group openers that add no label to `| regexp` (no capture)
var nonCapturing = strings.NewReplacer("(?:", "", "(?i)", "", "(?i:", "", "(?s)", "")

var tmplOp = regexp.MustCompile(`(=~|!~|!=|=)%s`)

// result of placing one value in one position
type res struct {
	sqls  []string // statements handed to the session
	want  string   // the bytes the request means at the position
	mode  string   // raw | plain | like
	mk    string   // harmless value to place in the same position for the baseline
	mklit string   // the bytes by which that harmless value shows up inside literals
	rej   string   // non-empty: the request was rejected before any statement
}

// A site is one string-valued position of one query shape of one entry point.
type site struct {
	name string
	run  func(v string) res
	re   bool // the position carries a regular expression (set by markRegexSites)
}

func rejected(why string) res { return res{rej: why} }
func plain(sqls []string, want string, rej string) res {
	return res{sqls: sqls, want: want, mode: "plain", mk: marker, mklit: marker, rej: rej}
}

// literal syntaxes: "..." decoded as JSON by LogQL/TraceQL, `...` raw
func dq(v string) string {
	var b strings.Builder
	b.WriteByte('"')
	for i := 0; i < len(v); i++ {
		c := v[i]
		switch {
		case c == '"' || c == '\\':
			b.WriteByte('\\')
			b.WriteByte(c)
		case c < 0x20:
			fmt.Fprintf(&b, "\\u%04x", c)
		default:
			b.WriteByte(c)
		}
	}
	b.WriteByte('"')
	return b.String()
}

// what a "..." literal means: JSON string decoding (invalid UTF-8 becomes U+FFFD)
func dqMeaning(lit string) (string, bool) {
	var s string
	if err := json.Unmarshal([]byte(lit), &s); err != nil {
		return "", false
	}
	return s, true
}

// `...` literal: usable when the value has no backtick, backslash or control byte; means its bytes
// (JSON decoding behind it turns invalid UTF-8 into U+FFFD)
func tick(v string) (string, string, bool) {
	for i := 0; i < len(v); i++ {
		if v[i] == '`' || v[i] == '\\' || v[i] < 0x20 {
			return "", "", false
		}
	}
	// the parser re-quotes the raw text and decodes it as JSON: same meaning as the "..." form of these bytes
	want, ok := dqMeaning(dq(v))
	return "`" + v + "`", want, ok
}

func short(err error) string {
	if err == nil {
		return "nil"
	}
	s := err.Error()
	if len(s) > 40 {
		s = s[:40]
	}
	return s
}

// the LogQL request text of the site run last (emitted with the case: the tree-level tie of checks/c10.py re-plans it
// through harness logqlsql and the extracted planner/renderer model)
var lastLogql struct {
	q       string
	cluster bool
}

func runLogql(q string, cluster bool, direct bool) ([]string, string) {
	lastLogql.q, lastLogql.cluster = q, cluster
	script, err := logql_parser.Parse(q)
	if err != nil {
		return nil, "parse: " + short(err)
	}
	db := &recDB{fail: true, dbnam: "rec"}
	ctx := newCtx(db, cluster)
	if direct {
		// the exported SQL planner itself (reaches planners that the transpiler routes elsewhere, e.g. line_format)
		pl, err := clickhouse_planner.Plan(script, true)
		if err != nil {
			return nil, "plan: " + short(err)
		}
		sel, err := pl.Process(ctx)
		if err != nil {
			return nil, "process: " + short(err)
		}
		str, err := sel.String(ctx.CHSqlCtx)
		if err != nil {
			return nil, "string: " + short(err)
		}
		return []string{str}, ""
	}
	chain, err := logql_transpiler_v2.Plan(script)
	if err != nil {
		return nil, "plan: " + short(err)
	}
	_, err = chain[0].Process(ctx, nil)
	if len(db.refused) > 0 {
		return nil, driverRefused + db.refused[0]
	}
	if len(db.q) == 0 {
		return nil, "process: " + short(err)
	}
	return db.take(), ""
}

type logqlOpt struct{ cluster, direct, ticked bool }

func logqlLit(v string, ticked bool) (string, string, bool) {
	if ticked {
		return tick(v)
	}
	lit := dq(v)
	want, ok := dqMeaning(lit)
	return lit, want, ok
}

// LogQL site: tmpl contains one %s where the literal goes
func logqlSite(name, tmpl string, o logqlOpt) site {
	return site{name: name, run: func(v string) res {
		lit, want, ok := logqlLit(v, o.ticked)
		if !ok {
			return rejected("literal not expressible")
		}
		sqls, rej := runLogql(fmt.Sprintf(tmpl, lit), o.cluster, o.direct)
		return plain(sqls, want, rej)
	}}
}

// |= and != : doLike
func logqlLikeSite(name, tmpl string, o logqlOpt) site {
	return site{name: name, run: func(v string) res {
		lit, want, ok := logqlLit(v, o.ticked)
		if !ok {
			return rejected("literal not expressible")
		}
		sqls, rej := runLogql(fmt.Sprintf(tmpl, lit), o.cluster, o.direct)
		return res{sqls: sqls, want: want, mode: "like", mk: marker, mklit: marker, rej: rej}
	}}
}

// |~ and !~ : a regex that is one literal goes through doLike, anything else through match()
func logqlReSite(name, tmpl string) site {
	return site{name: name, run: func(v string) res {
		lit, want, ok := logqlLit(v, false)
		if !ok {
			return rejected("literal not expressible")
		}
		sqls, rej := runLogql(fmt.Sprintf(tmpl, lit), false, false)
		exp, err := syntax.Parse(want, syntax.PerlX)
		if err == nil && exp.Op == syntax.OpLiteral && exp.Flags&^(syntax.PerlX|syntax.FoldCase) == 0 {
			mk, mklit := marker, marker
			if exp.Flags&syntax.FoldCase != 0 {
				// under (?i) regexp/syntax keeps the folded runes of the literal (`(?i)web` is the literal WEB): the marker shows up folded too
				mk = "(?i)" + marker
				if me, err := syntax.Parse(mk, syntax.PerlX); err == nil && me.Op == syntax.OpLiteral {
					mklit = string(me.Rune)
				}
			}
			return res{sqls: sqls, want: string(exp.Rune), mode: "like", mk: mk, mklit: mklit, rej: rej}
		}
		return res{sqls: sqls, want: want, mode: "plain", mk: reMarker, mklit: reMarker, rej: rej}
	}}
}

// json path parameter: the value is one bracketed field of the path
func logqlJsonPathSite(name, tmpl string) site {
	return site{name: name, run: func(v string) res {
		inner := dq(v)
		want, ok := dqMeaning(inner)
		if !ok {
			return rejected("literal not expressible")
		}
		path := "a[" + inner + "]"
		sqls, rej := runLogql(fmt.Sprintf(tmpl, dq(path)), false, false)
		return plain(sqls, want, rej)
	}}
}

// identifier positions: the bytes are placed raw; the case counts only if the parser read them back
// as exactly that identifier (otherwise the request is rejected or means something else)
func logqlIdentSite(name, tmpl string, get func(*logql_parser.LogQLScript) string, direct bool) site {
	return site{name: name, run: func(v string) res {
		q := fmt.Sprintf(tmpl, v)
		script, err := logql_parser.Parse(q)
		if err != nil {
			return rejected("parse: " + short(err))
		}
		got := ""
		if p := hx.Catch(func() { got = get(script) }); p != "" || got != v {
			return rejected("not read as this identifier")
		}
		sqls, rej := runLogql(q, false, direct)
		return plain(sqls, v, rej)
	}}
}

// the TraceQL request of the site run last (emitted with the case and with its baseline: the TraceQL tree-level tie of
// checks/c10.py re-plans both through C11's harness traceql, which dumps the SQL object tree)
type tqReq struct {
	Q    string `json:"q"` // hex
	Mode string `json:"mode"`
	Key  string `json:"key"` // hex
}

var lastTq *tqReq

// ---- TraceQL: exported planners of clickhouse_transpiler
func runTraceql(q string, which string, key string, cluster bool) ([]string, string) {
	lastTq = &tqReq{Q: hx.Hex(q), Mode: which, Key: hx.Hex(key)}
	script, err := traceql_parser.Parse(q)
	if err != nil {
		return nil, "parse: " + short(err)
	}
	var pl shared.SQLRequestPlanner
	switch which {
	case "plan":
		pl, err = clickhouse_transpiler.Plan(script)
	case "eval":
		pl, err = clickhouse_transpiler.PlanEval(script)
	case "tags":
		pl, err = clickhouse_transpiler.PlanTagsV2(script)
	case "values":
		pl, err = clickhouse_transpiler.PlanValuesV2(script, key)
	}
	if err != nil {
		return nil, "plan: " + short(err)
	}
	db := &recDB{fail: true, dbnam: "rec"}
	ctx := newCtx(db, cluster)
	sel, err := pl.Process(ctx)
	if err != nil {
		return nil, "process: " + short(err)
	}
	var opts []int
	if cluster {
		opts = append(opts, sql.STRING_OPT_INLINE_WITH)
	}
	str, err := sel.String(&sql.Ctx{Params: map[string]sql.SQLObject{}, Result: map[string]sql.SQLObject{}}, opts...)
	if err != nil {
		return nil, "string: " + short(err)
	}
	return []string{str}, ""
}

func traceqlSite(name, tmpl, which string, ticked bool) site {
	return site{name: name, run: func(v string) res {
		lit, want, ok := logqlLit(v, ticked)
		if !ok {
			return rejected("literal not expressible")
		}
		sqls, rej := runTraceql(fmt.Sprintf(tmpl, lit), which, "k", false)
		return plain(sqls, want, rej)
	}}
}

func traceqlClusterSite(name, tmpl, which string) site {
	return site{name: name, run: func(v string) res {
		lit, want, ok := logqlLit(v, false)
		if !ok {
			return rejected("literal not expressible")
		}
		sqls, rej := runTraceql(fmt.Sprintf(tmpl, lit), which, "k", true)
		return plain(sqls, want, rej)
	}}
}

// ---- PromQL matchers
func promSite(name string, tp labels.MatchType, inName bool, down bool, fn string) site {
	return site{name: name, run: func(v string) res {
		// a matcher as the PromQL parser / remote-read decoder builds it (labels.NewMatcher compiles the anchored expression of a
		// regex matcher; round 4: a hand-built struct has no compiled expression and the planner's question "does the matcher accept
		// the empty string" panicked on it: every regex case of these positions was counted as rejected)
		var m *labels.Matcher
		var merr error
		if inName {
			m, merr = labels.NewMatcher(tp, v, "x")
		} else {
			m, merr = labels.NewMatcher(tp, "job", v)
		}
		if merr != nil {
			return rejected("matcher: " + short(merr))
		}
		other := &labels.Matcher{Type: labels.MatchEqual, Name: "__name__", Value: "up"}
		hints := &storage.SelectHints{Start: 1700000000000, End: 1700003600000, Step: 15000, Func: fn, Range: 60000}
		db := &recDB{fail: true, dbnam: "rec"}
		ctx := newCtx(db, false)
		ctx.Type = 2
		var tr *promtr.TranspileResponse
		var err error
		if down {
			tr, err = promtr.TranspileLabelMatchersDownsample(hints, ctx, other, m)
		} else {
			tr, err = promtr.TranspileLabelMatchers(hints, ctx, other, m)
		}
		if err != nil {
			return rejected("transpile: " + short(err))
		}
		str, err := tr.Query.String(&sql.Ctx{Params: map[string]sql.SQLObject{}, Result: map[string]sql.SQLObject{}})
		if err != nil {
			return rejected("string: " + short(err))
		}
		r := plain([]string{str}, v, "")
		if !inName && v != optMarker {
			r.mk = matcherMarker(tp.String(), v)
			r.mklit = r.mk
		}
		return r
	}}
}

// ---- services over the recording registry
func svcSite(name string, cluster bool, call func(reg *registry, v string) (want string, err error)) site {
	return site{name: name, run: func(v string) res {
		reg, db := newReg(cluster)
		want, err := call(reg, v)
		sqls := db.take()
		if len(db.refused) > 0 {
			// round 6: the request string made the DRIVER refuse a statement of the service (a bind placeholder without argument, ...)
			return rejected(driverRefused + db.refused[0])
		}
		if len(sqls) == 0 {
			return rejected("service: " + short(err))
		}
		return plain(sqls, want, "")
	}}
}

func drainS(ch chan string, err error) error {
	if err != nil {
		return err
	}
	for range ch {
	}
	return nil
}

const profType = "process_cpu:cpu:nanoseconds:cpu:nanoseconds"

func sites() []site {
	var s []site
	s = append(s, site{name: "stringval", run: func(v string) res {
		out, err := sql.NewStringVal(v).String(sql.DefaultCtx())
		if err != nil {
			return rejected("err")
		}
		return res{sqls: []string{out}, want: v, mode: "raw"}
	}})
	no := logqlOpt{}
	// ---------------- LogQL: stream selector, label filters before/after a parser
	for _, op := range []string{"=", "!=", "=~", "!~"} {
		s = append(s, logqlSite("logql.sel"+op, `{a`+op+`%s}`, no))
		s = append(s, logqlSite("logql.lblf.ts"+op, `{a="b"} | lbl `+op+` %s`, no))
		s = append(s, logqlSite("logql.lblf.map"+op, `{a="b"} | json x="y" | lbl `+op+` %s`, no))
	}
	s = append(s, logqlSite("logql.sel.cluster", `{a="b", c=~%s}`, logqlOpt{cluster: true}))
	s = append(s, logqlSite("logql.sel.tick", "{a=%s}", logqlOpt{ticked: true}))
	// round 5 (seeded C10-e): on a cluster the WITH sub-queries are inlined (STRING_OPT_INLINE_WITH): the stream selector is repeated
	// inside the JOINed time-series select, so its values are rendered through the JOIN clause of Select.String
	clu := logqlOpt{cluster: true}
	s = append(s, logqlSite("logql.sel.cluster.eq", `{c=%s}`, clu))
	s = append(s, logqlSite("logql.sel.cluster.ne", `{a="b", c!=%s}`, clu))
	s = append(s, logqlSite("logql.lblf.ts.cluster", `{a="b"} | lbl = %s`, clu))
	s = append(s, logqlSite("logql.lblf.map.cluster", `{a=%s} | json x="y" | lbl != "z"`, clu))
	s = append(s, logqlSite("logql.rate.sel.cluster", `sum by (x) (rate({a=%s}[1m]))`, clu))
	s = append(s, logqlSite("logql.unwrap.sel.cluster", `sum_over_time({a=~%s} | json x="y" | unwrap x [1m]) by (a)`, clu))
	s = append(s, logqlLikeSite("logql.line|=.cluster", `{a="b"} |= %s`, clu))
	s = append(s, logqlSite("logql.lblf.or", `{a="b"} | json x="y" | (lbl = %s or z != "q") and w =~ "r"`, no))
	// line filters
	s = append(s, logqlLikeSite("logql.line|=", `{a="b"} |= %s`, no))
	s = append(s, logqlLikeSite("logql.line!=", `{a="b"} != %s`, no))
	s = append(s, logqlLikeSite("logql.line|=.tick", "{a=\"b\"} |= %s", logqlOpt{ticked: true}))
	s = append(s, logqlLikeSite("logql.line|=.2nd", `{a="b"} |= "first" |= %s`, no))
	s = append(s, logqlReSite("logql.line|~", `{a="b"} |~ %s`))
	s = append(s, logqlReSite("logql.line!~", `{a="b"} !~ %s`))
	// metric queries
	s = append(s, logqlSite("logql.rate.sel", `rate({a=%s}[1m])`, no))
	s = append(s, logqlLikeSite("logql.sumby.line", `sum by (x) (count_over_time({a="b"} |= %s [5m]))`, no))
	s = append(s, logqlSite("logql.unwrap.sel", `sum_over_time({a=%s} | json x="y" | unwrap x [1m]) by (a)`, no))
	s = append(s, logqlSite("logql.topk.sel", `topk(3, rate({a=~%s}[1m]))`, no))
	s = append(s, logqlSite("logql.quantile.sel", `quantile_over_time(0.5, {a=%s} | json x="y" | unwrap x [1m]) by (a)`, no))
	// parsers, drop
	s = append(s, logqlJsonPathSite("logql.json.path", `{a="b"} | json lbl=%s`))
	{
		// every capture group of the expression adds a label to the generated map (by design): values
		// with a group are compared with nothing here, the group-free ones with the marker
		inner := logqlSite("logql.regexp", `{a="b"} | regexp %s`, no)
		s = append(s, site{name: inner.name, run: func(v string) res {
			if strings.Contains(nonCapturing.Replace(v), "(") {
				return rejected("capture group changes the label list by design")
			}
			return inner.run(v)
		}})
	}
	{
		// round 7 (seeded C10-g): the expression of a `| regexp` stage WITH named groups: the value sits between two constant groups
		// (their names are rendered as a quoted list beside the expression; the stage prints the expression without the names)
		s = append(s, site{name: "logql.regexp.groups", run: func(v string) res {
			if strings.Contains(nonCapturing.Replace(v), "(") {
				return rejected("capture group changes the label list by design")
			}
			lit, want, ok := logqlLit(`(?P<or>\d+)`+v+`(?P<Or>\w+)`, false)
			if !ok || !strings.HasPrefix(want, `(?P<or>\d+)`) || !strings.HasSuffix(want, `(?P<Or>\w+)`) {
				return rejected("literal not expressible")
			}
			sqls, rej := runLogql(fmt.Sprintf(`{a="b"} | regexp %s`, lit), false, false)
			return plain(sqls, want[len(`(?P<or>\d+)`):len(want)-len(`(?P<Or>\w+)`)], rej)
		}})
	}
	s = append(s, logqlSite("logql.drop.val", `{a="b"} | json x="y" | drop lbl=%s`, no))
	s = append(s, logqlSite("logql.drop.ts", `rate({a="b"} | drop lbl=%s [1m])`, no))
	{
		// a template action ({{.x}}) adds an argument to format() by design
		inner := logqlSite("logql.lineformat.direct", `{a="b"} | json x="y" | line_format %s`, logqlOpt{direct: true})
		s = append(s, site{name: inner.name, run: func(v string) res {
			if strings.Contains(v, "{{") {
				return rejected("template action changes the argument list by design")
			}
			return inner.run(v)
		}})
	}
	// templates through the request path (logql_transpiler_v2.Plan): after `| json` (no parameters: decoded in Go) the
	// label_format / line_format stages run in process, so the template must not reach any statement (the statement
	// is the one for the marker)
	for _, t := range []struct{ name, tmpl string }{
		{"logql.labelformat.tmpl", `{a="b"} | json | label_format x=%s`},
		{"logql.lineformat.tmpl", `{a="b"} | json | line_format %s`},
	} {
		// round 5: as at logql.lineformat.direct, a template ACTION is not a value (the atoms `{{`, `{{.}}` are new this round)
		inner := logqlSite(t.name, t.tmpl, no)
		s = append(s, site{name: inner.name, run: func(v string) res {
			if strings.Contains(v, "{{") {
				return rejected("template action changes the plan by design")
			}
			return inner.run(v)
		}})
	}
	s = append(s, logqlSite("logql.sel.direct", `{a=%s} | json x="y"`, logqlOpt{direct: true}))
	// identifiers
	s = append(s, logqlIdentSite("logql.ident.sel", `{%s="b"}`, func(x *logql_parser.LogQLScript) string {
		if len(x.StrSelector.StrSelCmds) != 1 || x.StrSelector.StrSelCmds[0].Val.Str != `"b"` || len(x.StrSelector.Pipelines) != 0 {
			return "\x00"
		}
		return x.StrSelector.StrSelCmds[0].Label.Name
	}, false))
	s = append(s, logqlIdentSite("logql.ident.lblf", `{a="b"} | %s = "c"`, func(x *logql_parser.LogQLScript) string {
		p := x.StrSelector.Pipelines
		if len(p) != 1 || p[0].LabelFilter == nil || p[0].LabelFilter.Tail != nil || p[0].LabelFilter.Head.SimpleHead == nil ||
			p[0].LabelFilter.Head.SimpleHead.StrVal == nil || p[0].LabelFilter.Head.SimpleHead.StrVal.Str != `"c"` {
			return "\x00"
		}
		return p[0].LabelFilter.Head.SimpleHead.Label.Name
	}, false))
	s = append(s, logqlIdentSite("logql.ident.lblf.map", `{a="b"} | json x="y" | %s = "c"`, func(x *logql_parser.LogQLScript) string {
		p := x.StrSelector.Pipelines
		if len(p) != 2 || p[1].LabelFilter == nil || p[1].LabelFilter.Tail != nil || p[1].LabelFilter.Head.SimpleHead == nil ||
			p[1].LabelFilter.Head.SimpleHead.StrVal == nil || p[1].LabelFilter.Head.SimpleHead.StrVal.Str != `"c"` {
			return "\x00"
		}
		return p[1].LabelFilter.Head.SimpleHead.Label.Name
	}, false))
	s = append(s, logqlIdentSite("logql.ident.by", `sum by (%s) (rate({a="b"}[1m]))`, func(x *logql_parser.LogQLScript) string {
		l := x.AggOperator.ByOrWithoutPrefix.Labels
		if len(l) != 1 {
			return "\x00"
		}
		return l[0].Name
	}, false))
	s = append(s, logqlIdentSite("logql.ident.unwrap", `sum_over_time({a="b"} | json x="y" | unwrap %s [1m]) by (a)`, func(x *logql_parser.LogQLScript) string {
		p := x.LRAOrUnwrap.StrSel.Pipelines
		if len(p) != 2 || p[1].Unwrap == nil {
			return "\x00"
		}
		return p[1].Unwrap.Label.Name
	}, false))
	s = append(s, logqlIdentSite("logql.ident.drop", `{a="b"} | json x="y" | drop %s`, func(x *logql_parser.LogQLScript) string {
		p := x.StrSelector.Pipelines
		if len(p) != 2 || p[1].Drop == nil || len(p[1].Drop.Params) != 1 || p[1].Drop.Params[0].Val != nil {
			return "\x00"
		}
		return p[1].Drop.Params[0].Label.Name
	}, false))
	s = append(s, logqlIdentSite("logql.ident.json", `{a="b"} | json %s="y"`, func(x *logql_parser.LogQLScript) string {
		p := x.StrSelector.Pipelines
		if len(p) != 1 || p[0].Parser == nil || len(p[0].Parser.ParserParams) != 1 || p[0].Parser.ParserParams[0].Label == nil {
			return "\x00"
		}
		return p[0].Parser.ParserParams[0].Label.Name
	}, false))

	// ---------------- TraceQL
	for _, op := range []string{"=", "!=", "=~", "!~"} {
		s = append(s, traceqlSite("traceql.attr"+op, `{.foo`+op+`%s}`, "plan", false))
	}
	s = append(s, traceqlSite("traceql.name", `{name=%s}`, "plan", false))
	s = append(s, traceqlSite("traceql.span.tick", "{span.http.method=%s}", "plan", true))
	s = append(s, traceqlSite("traceql.and", `{resource.svc=%s && .bar="x"} | count() > 1`, "plan", false))
	s = append(s, traceqlSite("traceql.complex", `{.foo=%s} && {.bar=~"y"}`, "plan", false))
	s = append(s, traceqlSite("traceql.eval", `{.foo=%s}`, "eval", false))
	// round 4: more shapes of the evaluation planner (PlanEval: attr_condition_eval, attrless_eval, complex_eval_or, eval_finalizer)
	s = append(s, traceqlSite("traceql.eval=~", `{.foo=~%s}`, "eval", false))
	s = append(s, traceqlSite("traceql.eval.and!~", `{resource.a="x" && span.b!~%s}`, "eval", false))
	s = append(s, traceqlSite("traceql.eval.or", `{.foo=%s} || {.bar="x"}`, "eval", false))
	s = append(s, traceqlSite("traceql.eval.name.agg", `{name=%s && .n > 1} | count() > 2`, "eval", false))
	s = append(s, traceqlSite("traceql.tagsv2", `{.foo=%s}`, "tags", false))
	s = append(s, traceqlSite("traceql.valuesv2.q", `{.foo=~%s}`, "values", false))
	// round 3: more shapes (or, nested parentheses, chains of selectors, aggregators, tags/values planners)
	s = append(s, traceqlSite("traceql.or", `{.foo=%s || .bar="x"}`, "plan", false))
	s = append(s, traceqlSite("traceql.nested", `{(.a="1" || .foo!=%s) && resource.b=~"z.*"}`, "plan", false))
	s = append(s, traceqlSite("traceql.re.agg", `{span.foo=~%s && .n > 5} | avg(.lat) > 1`, "plan", false))
	s = append(s, traceqlSite("traceql.chain", `{.a=%s} || {.b="y"} && {.c=~"z"}`, "plan", false))
	s = append(s, traceqlSite("traceql.agg.dur", `{name=%s} | max(duration) > 1s`, "plan", false))
	s = append(s, traceqlSite("traceql.tags.re", `{.foo!~%s}`, "tags", false))
	s = append(s, traceqlSite("traceql.values.eq", `{resource.foo=%s && .bar!="y"}`, "values", false))
	// round 5: the value in the SECOND selector (the later operands of && / || are joined), single node and cluster (inlined WITHs)
	s = append(s, traceqlSite("traceql.complex.2nd", `{.bar=~"y"} && {.foo=%s}`, "plan", false))
	s = append(s, traceqlSite("traceql.complex.or.3rd", `{.a="x"} || {.b="y"} || {.foo!=%s}`, "plan", false))
	s = append(s, traceqlClusterSite("traceql.attr.cluster", `{.foo=%s}`, "plan"))
	s = append(s, traceqlClusterSite("traceql.complex.2nd.cluster", `{.bar="y"} && {span.foo=~%s}`, "plan"))
	s = append(s, traceqlClusterSite("traceql.eval.or.cluster", `{.bar="x"} || {.foo=%s}`, "eval"))
	for _, t := range []struct{ name, tmpl, which string }{
		{"traceql.ident.agg", `{.foo="x"} | avg(.%s) > 1`, "plan"},
		{"traceql.ident.span", `{span.%s="x"}`, "plan"},
		{"traceql.ident.resource.re", `{resource.%s=~"x"}`, "values"},
	} {
		t := t
		s = append(s, site{name: t.name, run: func(v string) res {
			q := fmt.Sprintf(t.tmpl, v)
			script, err := traceql_parser.Parse(q)
			if err != nil {
				return rejected("parse: " + short(err))
			}
			ok := false
			hx.Catch(func() {
				h := script.Head.AttrSelector
				lbl := h.Head.Label
				if script.Head.Aggregator != nil {
					lbl = script.Head.Aggregator.Attr
				}
				k := strings.Index(lbl, ".")
				ok = script.Tail == nil && h.Tail == nil && k >= 0 && lbl[k+1:] == v && h.Head.Val.StrVal != nil && h.Head.Val.StrVal.Str == `"x"`
			})
			if !ok {
				return rejected("not read as this identifier")
			}
			sqls, rej := runTraceql(q, t.which, "k", false)
			return plain(sqls, v, rej)
		}})
	}
	s = append(s, site{name: "traceql.valuesv2.key", run: func(v string) res {
		sqls, rej := runTraceql(`{.foo="x"}`, "values", v, false)
		return plain(sqls, v, rej)
	}})
	s = append(s, site{name: "traceql.ident.attr", run: func(v string) res {
		q := "{." + v + `="x"}`
		script, err := traceql_parser.Parse(q)
		if err != nil {
			return rejected("parse: " + short(err))
		}
		ok := false
		hx.Catch(func() {
			h := script.Head.AttrSelector
			ok = script.Tail == nil && h.Tail == nil && h.Head != nil && h.Head.Label == "."+v && h.Head.Val.StrVal != nil && h.Head.Val.StrVal.Str == `"x"`
		})
		if !ok {
			return rejected("not read as this identifier")
		}
		sqls, rej := runTraceql(q, "plan", "", false)
		return plain(sqls, v, rej)
	}})

	// ---------------- PromQL label matchers
	for _, tp := range []labels.MatchType{labels.MatchEqual, labels.MatchNotEqual, labels.MatchRegexp, labels.MatchNotRegexp} {
		s = append(s, promSite("promql.val."+tp.String(), tp, false, false, ""))
	}
	s = append(s, promSite("promql.name", labels.MatchEqual, true, false, "rate"))
	s = append(s, promSite("promql.down.val", labels.MatchRegexp, false, true, "rate"))
	s = append(s, promSite("promql.down.name", labels.MatchEqual, true, true, "sum_over_time"))

	// ---------------- label / tag value services (URL parameters)
	s = append(s, svcSite("labels.values.label", false, func(reg *registry, v string) (string, error) {
		q := service.NewQueryLabelsService(&model.ServiceData{Session: reg})
		return v, drainS(q.Values(context.Background(), v, nil, 1700000000000, 1700003600000, 1))
	}))
	s = append(s, svcSite("labels.values.label.cluster", true, func(reg *registry, v string) (string, error) {
		q := service.NewQueryLabelsService(&model.ServiceData{Session: reg})
		return v, drainS(q.Values(context.Background(), v, []string{`{a="b"}`}, 1700000000000, 1700003600000, 1))
	}))
	s = append(s, svcSite("labels.values.match", false, func(reg *registry, v string) (string, error) {
		lit := dq(v)
		want, ok := dqMeaning(lit)
		if !ok {
			return "", errors.New("literal")
		}
		q := service.NewQueryLabelsService(&model.ServiceData{Session: reg})
		return want, drainS(q.Values(context.Background(), "lbl", []string{`{a=` + lit + `}`, `{c=~"d"}`}, 1700000000000, 1700003600000, 1))
	}))
	s = append(s, svcSite("labels.promvalues.match", false, func(reg *registry, v string) (string, error) {
		q := service.NewQueryLabelsService(&model.ServiceData{Session: reg})
		var err error
		// Prom2LogqlMatch panics on a selector the PromQL parser rejects
		if p := hx.Catch(func() {
			err = drainS(q.PromValues(context.Background(), "lbl", []string{`up{job=` + strconv.Quote(v) + `}`}, 1700000000000, 1700003600000, 2))
		}); p != "" {
			return "", errors.New("panic " + p)
		}
		return v, err
	}))
	// round 6 (seeded C10-f): the label name of the URL beside selectors that hold the driver's bind placeholders: were the name (or
	// anything else) handed to the session as a bind argument, the driver would write it INTO the selectors' literals
	s = append(s, svcSite("labels.values.label.placeholders", false, func(reg *registry, v string) (string, error) {
		q := service.NewQueryLabelsService(&model.ServiceData{Session: reg})
		return v, drainS(q.Values(context.Background(), v, []string{`{a="x$1y", b=~"$1|z"}`}, 1700000000000, 1700003600000, 1))
	}))
	s = append(s, svcSite("labels.promvalues.label.placeholders", false, func(reg *registry, v string) (string, error) {
		q := service.NewQueryLabelsService(&model.ServiceData{Session: reg})
		var err error
		if p := hx.Catch(func() {
			err = drainS(q.PromValues(context.Background(), v, []string{`up{job="x$1y"}`}, 1700000000000, 1700003600000, 2))
		}); p != "" {
			return "", errors.New("panic " + p)
		}
		return v, err
	}))
	// round 4: regex matchers inside the match[] parameters of the label-values endpoints
	s = append(s, svcSite("labels.values.match.re", false, func(reg *registry, v string) (string, error) {
		lit := dq(v)
		want, ok := dqMeaning(lit)
		if !ok {
			return "", errors.New("literal")
		}
		q := service.NewQueryLabelsService(&model.ServiceData{Session: reg})
		return want, drainS(q.Values(context.Background(), "lbl", []string{`{a=~` + lit + `}`}, 1700000000000, 1700003600000, 1))
	}))
	for _, op := range []string{"=~", "!~"} {
		op := op
		s = append(s, svcSite("labels.promvalues.match.re"+op, false, func(reg *registry, v string) (string, error) {
			q := service.NewQueryLabelsService(&model.ServiceData{Session: reg})
			var err error
			if p := hx.Catch(func() {
				err = drainS(q.PromValues(context.Background(), "lbl", []string{`up{job` + op + strconv.Quote(v) + `}`}, 1700000000000, 1700003600000, 2))
			}); p != "" {
				return "", errors.New("panic " + p)
			}
			return v, err
		}))
	}
	s = append(s, svcSite("labels.series.match", false, func(reg *registry, v string) (string, error) {
		lit := dq(v)
		want, ok := dqMeaning(lit)
		if !ok {
			return "", errors.New("literal")
		}
		q := service.NewQueryLabelsService(&model.ServiceData{Session: reg})
		return want, drainS(q.Series(context.Background(), []string{`{a=~` + lit + `}`}, 1700000000000, 1700003600000, 1))
	}))

	// ---------------- Tempo
	s = append(s, svcSite("tempo.values.tag", false, func(reg *registry, v string) (string, error) {
		t := service.NewTempoService(model.ServiceData{Session: reg})
		want := v
		// the service strips these prefixes from the tag name before using it
		if strings.HasPrefix(want, "span.") || strings.HasPrefix(want, ".") || strings.HasPrefix(want, "resource.") {
			return "", errors.New("prefix handled by the service")
		}
		return want, drainS(t.Values(context.Background(), v))
	}))
	s = append(s, svcSite("tempo.query.traceid", false, func(reg *registry, v string) (string, error) {
		t := service.NewTempoService(model.ServiceData{Session: reg})
		ch, err := t.Query(context.Background(), 1, 2, []byte(v), false)
		if err == nil {
			for range ch {
			}
		}
		return v, err
	}))
	tempoSearch := func(name string, mkTags func(v string) (string, bool)) site {
		return svcSite(name, false, func(reg *registry, v string) (string, error) {
			tags, ok := mkTags(v)
			if !ok {
				return "", errors.New("not expressible")
			}
			t := service.NewTempoService(model.ServiceData{Session: reg})
			var err error
			if p := hx.Catch(func() {
				var ch chan *model.TraceResponse
				ch, err = t.Search(context.Background(), tags, 0, 0, 20, 1700000000000000000, 1700003600000000000)
				if err == nil {
					for range ch {
					}
				}
			}); p != "" {
				return "", errors.New("panic " + p)
			}
			return v, err
		})
	}
	s = append(s, tempoSearch("tempo.search.val.quoted", func(v string) (string, bool) { return "svc=" + strconv.Quote(v) + ` x!="y"`, true }))
	s = append(s, tempoSearch("tempo.search.val.re", func(v string) (string, bool) { return "svc=~" + strconv.Quote(v), true }))
	s = append(s, tempoSearch("tempo.search.name.quoted", func(v string) (string, bool) { return strconv.Quote(v) + `="y"`, true }))
	// round 5 (seeded C10-e): the first tag is the FROM of the index query, every later tag is rendered inside a JOIN
	s = append(s, tempoSearch("tempo.search.val.2nd", func(v string) (string, bool) { return `x!="y" svc=` + strconv.Quote(v), true }))
	s = append(s, tempoSearch("tempo.search.val.re.3rd", func(v string) (string, bool) { return `x="y" w!="z" svc=~` + strconv.Quote(v), true }))
	s = append(s, tempoSearch("tempo.search.name.2nd", func(v string) (string, bool) { return `x="y" ` + strconv.Quote(v) + `!="z"`, true }))
	s = append(s, tempoSearch("tempo.search.val.bare", func(v string) (string, bool) {
		if v == "" || strings.ContainsAny(v, " !=~\"\t\n\r\f\v") || !utf8.ValidString(v) {
			return "", false
		}
		return "svc=" + v, true
	}))
	s = append(s, site{name: "tempo.sqlindexquery", run: func(v string) res {
		q := &tempo.SQLIndexQuery{Tags: "k!~" + strconv.Quote(v), FromNS: 1700000000000000000, ToNS: 1700003600000000000,
			MinDurationNS: 5, MaxDurationNS: 500, Limit: 10, Distributed: true, Database: "qryn",
			Ver: dbVersion.VersionInfo{"tempo_v2": 1}, Ctx: context.Background()}
		str, err := q.String(sql.DefaultCtx())
		if err != nil {
			return rejected("string: " + short(err))
		}
		return plain([]string{str}, v, "")
	}})
	s = append(s, site{name: "tempo.sqlindexquery.2nd", run: func(v string) res {
		q := &tempo.SQLIndexQuery{Tags: `a="b" k=~` + strconv.Quote(v) + ` c!="d"`, FromNS: 1700000000000000000, ToNS: 1700003600000000000,
			Limit: 10, Distributed: false, Database: "qryn",
			Ver: dbVersion.VersionInfo{"tempo_v2": 1}, Ctx: context.Background()}
		str, err := q.String(sql.DefaultCtx())
		if err != nil {
			return rejected("string: " + short(err))
		}
		return plain([]string{str}, v, "")
	}})
	s = append(s, svcSite("tempo.tagsv2.q", true, func(reg *registry, v string) (string, error) {
		lit := dq(v)
		want, ok := dqMeaning(lit)
		if !ok {
			return "", errors.New("literal")
		}
		t := service.NewTempoService(model.ServiceData{Session: reg}).(*service.TempoService)
		return want, drainS(t.TagsV2(context.Background(), `{.foo=`+lit+`}`, tFrom, tTo, 10))
	}))
	s = append(s, svcSite("tempo.valuesv2.key", false, func(reg *registry, v string) (string, error) {
		t := service.NewTempoService(model.ServiceData{Session: reg}).(*service.TempoService)
		return v, drainS(t.ValuesV2(context.Background(), v, `{.foo="x"}`, tFrom, tTo, 10))
	}))

	// ---------------- Pyroscope selectors
	profSel := func(name string, tmpl string, call func(ps *service.ProfService, q string) error) site {
		st := svcSite(name, false, func(reg *registry, v string) (string, error) {
			ps := &service.ProfService{DataSession: reg}
			return v, call(ps, fmt.Sprintf(tmpl, strconv.Quote(v)))
		})
		op := ""
		if m := tmplOp.FindStringSubmatch(tmpl); m != nil {
			op = m[1]
		}
		run := st.run
		st.run = func(v string) res {
			r := run(v)
			if v != optMarker {
				r.mk = matcherMarker(op, v)
				r.mklit = r.mk
			}
			return r
		}
		return st
	}
	s = append(s, profSel("prof.labelnames.sel", `{service_name=%s, foo=~"bar"}`, func(ps *service.ProfService, q string) error {
		_, err := ps.LabelNames(context.Background(), []string{q}, tFrom, tTo)
		return err
	}))
	s = append(s, profSel("prof.selectseries.sel", `{foo!~%s}`, func(ps *service.ProfService, q string) error {
		_, err := ps.SelectSeries(context.Background(), q, profType, []string{"g"}, 0, 15, tFrom, tTo)
		return err
	}))
	s = append(s, profSel("prof.mergestack.sel", `{__profile_type__=%s, foo="x"}`, func(ps *service.ProfService, q string) error {
		_, err := ps.MergeStackTraces(context.Background(), q, profType, tFrom, tTo)
		return err
	}))
	s = append(s, profSel("prof.mergeprofiles.sel", `{foo=%s}`, func(ps *service.ProfService, q string) error {
		_, err := ps.MergeProfiles(context.Background(), q, profType, tFrom, tTo)
		return err
	}))
	s = append(s, profSel("prof.timeseries.sel", `{__sample_type__=~%s}`, func(ps *service.ProfService, q string) error {
		_, err := ps.TimeSeries(context.Background(), []string{q, `{a="b"}`}, []string{"l1"}, tFrom, tTo)
		return err
	}))
	s = append(s, profSel("prof.analyze.sel", `{foo!=%s}`, func(ps *service.ProfService, q string) error {
		_, err := ps.AnalyzeQuery(context.Background(), q, tFrom, tTo)
		return err
	}))
	// round 5: the Pyroscope planners join their series selects; on a cluster the WITHs are inlined into the joined selects
	profSelC := func(name string, tmpl string, call func(ps *service.ProfService, q string) error) site {
		st := svcSite(name, true, func(reg *registry, v string) (string, error) {
			ps := &service.ProfService{DataSession: reg}
			return v, call(ps, fmt.Sprintf(tmpl, strconv.Quote(v)))
		})
		op := ""
		if m := tmplOp.FindStringSubmatch(tmpl); m != nil {
			op = m[1]
		}
		run := st.run
		st.run = func(v string) res {
			r := run(v)
			if v != optMarker {
				r.mk = matcherMarker(op, v)
				r.mklit = r.mk
			}
			return r
		}
		return st
	}
	s = append(s, profSelC("prof.selectseries.sel.cluster", `{foo=%s}`, func(ps *service.ProfService, q string) error {
		_, err := ps.SelectSeries(context.Background(), q, profType, []string{"g"}, 0, 15, tFrom, tTo)
		return err
	}))
	s = append(s, profSelC("prof.mergestack.sel.cluster", `{foo=~%s, bar="x"}`, func(ps *service.ProfService, q string) error {
		_, err := ps.MergeStackTraces(context.Background(), q, profType, tFrom, tTo)
		return err
	}))
	s = append(s, profSelC("prof.timeseries.sel.cluster", `{foo!=%s}`, func(ps *service.ProfService, q string) error {
		_, err := ps.TimeSeries(context.Background(), []string{`{a="b"}`, q}, []string{"l1"}, tFrom, tTo)
		return err
	}))
	// round 3: the remaining pseudo labels of planner_selector.go (each has its own clause builder)
	for _, t := range []struct{ name, tmpl string }{
		{"prof.pseudo.name", `{__name__=%s}`},
		{"prof.pseudo.period_type", `{__period_type__!=%s, foo="x"}`},
		{"prof.pseudo.period_unit.re", `{__period_unit__=~%s}`},
		{"prof.pseudo.sample_unit.nre", `{__sample_unit__!~%s, service_name="svc"}`},
		{"prof.pseudo.profile_type.re", `{__profile_type__=~%s}`},
	} {
		s = append(s, profSel(t.name, t.tmpl, func(ps *service.ProfService, q string) error {
			_, err := ps.LabelNames(context.Background(), []string{q}, tFrom, tTo)
			return err
		}))
	}
	s = append(s, svcSite("prof.labelvalues.name", false, func(reg *registry, v string) (string, error) {
		ps := &service.ProfService{DataSession: reg}
		_, err := ps.LabelValues(context.Background(), []string{`{a="b"}`}, v, tFrom, tTo)
		return v, err
	}))
	s = append(s, svcSite("prof.selectseries.groupby", false, func(reg *registry, v string) (string, error) {
		ps := &service.ProfService{DataSession: reg}
		_, err := ps.SelectSeries(context.Background(), `{a="b"}`, profType, []string{v}, 0, 15, tFrom, tTo)
		return v, err
	}))
	s = append(s, svcSite("prof.timeseries.labels", false, func(reg *registry, v string) (string, error) {
		ps := &service.ProfService{DataSession: reg}
		_, err := ps.TimeSeries(context.Background(), []string{`{a="b"}`}, []string{v}, tFrom, tTo)
		return v, err
	}))
	s = append(s, svcSite("prof.typeid.field", false, func(reg *registry, v string) (string, error) {
		// the type id is split at ':' and each field is wrapped in back-ticks that Unquote trims again
		if strings.ContainsAny(v, ":`") {
			return "", errors.New("field separator in value")
		}
		ps := &service.ProfService{DataSession: reg}
		_, err := ps.MergeProfiles(context.Background(), `{a="b"}`, "process_cpu:"+v+":nanoseconds:cpu:nanoseconds", tFrom, tTo)
		return v, err
	}))
	markRegexSites(s)
	return s
}

// the positions that carry a regular expression
func markRegexSites(s []site) {
	extra := map[string]bool{"logql.sel.cluster": true, "logql.topk.sel": true, "logql.regexp": true, "labels.series.match": true,
		"labels.values.match.re": true, "promql.down.val": true, "traceql.valuesv2.q": true, "traceql.re.agg": true, "traceql.tags.re": true,
		"tempo.search.val.re": true, "tempo.sqlindexquery": true, "prof.selectseries.sel": true, "prof.timeseries.sel": true,
		"logql.unwrap.sel.cluster": true, "prof.mergestack.sel.cluster": true, "tempo.search.val.re.3rd": true, "tempo.sqlindexquery.2nd": true,
		"prof.pseudo.period_unit.re": true, "prof.pseudo.sample_unit.nre": true, "prof.pseudo.profile_type.re": true}
	for i := range s {
		n := s[i].name
		if extra[n] || strings.Contains(n, "=~") || strings.Contains(n, "!~") || strings.Contains(n, "|~") {
			s[i].re = true
		}
	}
}

// ------------------------------------------------------------------ hostile strings

// round 5: long values (a precision such as %.40s, a fixed-size buffer or a "first n bytes" shortcut cuts an escaped literal open)
var longQuote = strings.Repeat("x", 70) + "'"
var longEsc = strings.Repeat("\\'", 45)

var atoms = []string{
	longQuote, longEsc,
	"'", "''", "\\", "\\\\", "\\'", "'\\", "\x00", "\n", "\r", "\b", "\t", "\x1a", "--", "/*", "*/", "#", "# ",
	"%", "_", "\\%", "\\_", "\"", "`", ";", ")", "(", ",", " ", "$$", "\\x27", "\\N", "\\0",
	"\xff", "\xc0'", "\xe2\x80", "\xc3", "é", "漢", "’", "ʼ", "😀", "\xef\xbc\x87",
	// round 5 (seeded C10-e): text that a LATER interpretation of the rendered statement would read as directives - fmt verbs (a
	// rendered statement used as a format string: `%'` is escaped to `%\'` and printed as `%!\(MISSING)'`, the backslash is gone),
	// regexp / os.Expand / text/template / driver placeholders
	"%s", "%d", "%v", "%q", "%'", "%%", "%[1]s", "%!", "%!(", "%x'", "%+v", "%5.2f", "%c'", "%U", "%\\", "%*d",
	"$1", "${1}", "$$1'", "{{.}}", "{{", "?", ":p", "@p1", "{0}", "{}",
	// round 6 (seeded C10-f): the placeholders of clickhouse-go's client-side bind (numeric, positional with its escape, named) and of
	// its native query parameters; they are rewritten INSIDE literals as soon as the call of the session has an argument
	"x$1y", "$2", "$0", "$10", "$1'", "'$1", "\\?", "a?b", "??", "@name", "@p1'", "{a:String}", "{p1:Identifier}",
	// round 7 (seeded C10-g): NAMED placeholders of a home-made template (strings.ReplaceAll / Replacer / os.Expand over text that
	// already holds the rendered request string: the later substitutions also run over the request's own bytes)
	"{labels}", "{id}", "{col}", "{re}", "{name}", "{val}'", "a{id}b", "$name", "${name}", "$id'", "%(name)s", "<id>", "{0}'", "{1}", "{{id}}", ":id",
	"' OR 1=1 --", "'; DROP TABLE samples; --", "\\') UNION ALL SELECT 1 --", "') /*", "x", "a", "0", "1=1",
}

// round 7: the placeholder words the code under test itself uses: every `{word}`, `$word`, `${word}` that occurs in a string constant of
// a non-test Go file under reader/ of the repository the harness is built against (VERIF_REPO, default /repo).  A template filled by
// successive replacements is only dangerous for the words IT knows; they cannot be guessed, they can be read.  Each harvested word is
// tried at every position in every run (class grid:placeholder), bare and between quotes' neighbours (`a'` + word).
var placeholderWord = regexp.MustCompile(`\{[A-Za-z_][A-Za-z0-9_.]*\}|\$\{[A-Za-z_][A-Za-z0-9_]*\}|\$[A-Za-z_][A-Za-z0-9_]*`)

func harvestPlaceholders() []string {
	root := os.Getenv("VERIF_REPO")
	if root == "" {
		root = "/repo"
	}
	seen := map[string]bool{}
	filepath.Walk(filepath.Join(root, "reader"), func(p string, info os.FileInfo, err error) error {
		if err != nil || info.IsDir() || !strings.HasSuffix(p, ".go") || strings.HasSuffix(p, "_test.go") {
			return nil
		}
		f, err := parser.ParseFile(token.NewFileSet(), p, nil, 0)
		if err != nil {
			return nil
		}
		ast.Inspect(f, func(n ast.Node) bool {
			if bl, ok := n.(*ast.BasicLit); ok && bl.Kind == token.STRING {
				if s, err := strconv.Unquote(bl.Value); err == nil {
					for _, w := range placeholderWord.FindAllString(s, -1) {
						seen[w] = true
					}
				}
			}
			// whatever its spelling (__RE__, <re>, @re@): a constant SEARCH string of strings.Replace / ReplaceAll / NewReplacer of two
			// bytes or more is a word some replacement looks for (the one-byte ones - quote, backslash, %, _ - are atoms already)
			if call, ok := n.(*ast.CallExpr); ok {
				if sel, ok := call.Fun.(*ast.SelectorExpr); ok && (sel.Sel.Name == "Replace" || sel.Sel.Name == "ReplaceAll" || sel.Sel.Name == "NewReplacer") {
					for i, a := range call.Args {
						bl, ok := a.(*ast.BasicLit)
						if !ok || bl.Kind != token.STRING || (sel.Sel.Name == "NewReplacer" && i%2 == 1) || (sel.Sel.Name != "NewReplacer" && i != 1) {
							continue
						}
						if s, err := strconv.Unquote(bl.Value); err == nil && len(s) >= 2 && len(s) <= 24 {
							seen[s] = true
						}
					}
				}
			}
			return true
		})
		return nil
	})
	var ws []string
	for w := range seen {
		ws = append(ws, w)
	}
	sort.Strings(ws)
	if len(ws) > 24 {
		ws = ws[:24]
	}
	return ws
}

// tried at every position in every run: `%'` (the escaped quote behind a percent sign), a plain verb, the escaped percent sign,
// an indexed verb next to a bad verb
// round 6: a numeric and a positional bind placeholder (the statement is observed behind the driver)
var directiveGrid = []string{"%'", "a%sb", "%%'", "%[1]s%!d", "x$1y", "a?b"}

func genString(r *rand.Rand) (string, string) {
	switch r.Intn(11) {
	case 10:
		// a string that starts like a number (a path part or a value a planner might print bare when it "looks numeric")
		d := []string{"0", "1", "12", "007", "1.5", "-1", "1e3", "0x1f"}[r.Intn(8)]
		return d + atoms[r.Intn(len(atoms))], "digits+atom"
	case 0:
		return atoms[r.Intn(len(atoms))], "atom"
	case 1, 2:
		// harmless-looking word with one hostile atom at the start, in the middle or at the end
		a := atoms[r.Intn(len(atoms))]
		switch r.Intn(3) {
		case 0:
			return a + "abc", "atom+word"
		case 1:
			return "ab" + a + "cd", "atom+word"
		}
		return "abc" + a, "atom+word"
	case 3:
		n := r.Intn(9)
		b := make([]byte, n)
		for i := range b {
			b[i] = byte(r.Intn(256))
		}
		return string(b), "random-bytes"
	default:
		n := 1 + r.Intn(5)
		var b strings.Builder
		for i := 0; i < n; i++ {
			b.WriteString(atoms[r.Intn(len(atoms))])
		}
		return b.String(), "atoms"
	}
}

// identifier positions: mostly identifier-shaped strings, sometimes with one hostile atom inside
func genIdent(r *rand.Rand, traceql bool) (string, string) {
	const first = "abcxyzABC_"
	rest := "abcxyz019_"
	if traceql {
		rest += ".-"
	}
	n := 1 + r.Intn(7)
	b := []byte{first[r.Intn(len(first))]}
	for i := 1; i < n; i++ {
		b = append(b, rest[r.Intn(len(rest))])
	}
	s := string(b)
	if r.Intn(3) == 0 {
		a := atoms[r.Intn(len(atoms))]
		if r.Intn(2) == 0 {
			a = []string{"'", "\\", "''", "\\'", "`", "\"", "--", "-", "."}[r.Intn(9)]
		}
		k := r.Intn(len(s) + 1)
		return s[:k] + a + s[k:], "ident+atom"
	}
	return s, "ident"
}

// ------------------------------------------------------------------ hostile strings inside a regex of a recognisable shape
//
// A planner may special-case regular expressions of a simple shape (an anchored alternation of plain literals becomes an IN list, a
// literal becomes an equality or a LIKE, `foo.*` a prefix test, ...).  Such a fast path builds its statement from PARTS of the value,
// so a hostile string must also be tried INSIDE such a shape: the value is pre ++ atom ++ post, the baseline is the same shape around
// the harmless marker (pre ++ marker ++ post), the intended bytes at the marker are the atom's.

type shape struct{ class, pre, post string }

var shapes = []shape{
	{"alternation", "api|web", ""}, {"alternation", "", "web|api"}, {"alternation", "api|we", "b|db"}, {"alternation", "a|", "|c"},
	{"anchored-alternation", "^(?:api|web", ")$"}, {"anchored-alternation", "^(?:", "|api)$"}, {"anchored-alternation", "^(api|web", ")$"},
	{"anchored-alternation", "^api|web", "$"}, {"anchored-alternation", "^(?:api|we", "b|db)$"},
	{"anchored-literal", "^web", "$"}, {"anchored-literal", "^(?:web", ")$"}, {"anchored-literal", "^", "$"}, {"anchored-literal", "^(?:", ")$"},
	{"prefix-suffix", "web", ".*"}, {"prefix-suffix", ".*web", ""}, {"prefix-suffix", ".*", ".*"}, {"prefix-suffix", "^web", ".*$"},
	{"prefix-suffix", "web", ".+"}, {"prefix-suffix", "(?s).*", ".*"}, {"prefix-suffix", "^.*", "$"},
	{"case-insensitive", "(?i)web", ""}, {"case-insensitive", "(?i)api|web", ""}, {"case-insensitive", "(?i:web", ")"},
	{"case-insensitive", "(?i)^web", "$"}, {"case-insensitive", "(?i)", ""}, {"case-insensitive", "(?i)^(?:api|", ")$"},
	{"empty-alternative", "|web", ""}, {"empty-alternative", "web", "|"}, {"empty-alternative", "api||web", ""},
	{"empty-alternative", "^(?:|web", ")$"}, {"empty-alternative", "(?:web", ")?"}, {"empty-alternative", "^(?:api|", "|)$"},
	{"quoted-meta", "api\\.web", ""}, {"quoted-meta", "\\Qweb", "\\E"}, {"quoted-meta", "[w]eb", ""}, {"quoted-meta", "web", "[0-9]+"},
	{"quoted-meta", "we(?:b", "){2}"}, {"quoted-meta", "web\\|", ""},
}

// one or two shapes per class: tried at every regex-carrying position in every run
var coreShapes = []shape{
	{"alternation", "api|web", ""}, {"anchored-alternation", "^(?:api|web", ")$"}, {"anchored-literal", "^web", "$"},
	{"anchored-literal", "^(?:web", ")$"}, {"prefix-suffix", "web", ".*"}, {"prefix-suffix", ".*web", ""}, {"prefix-suffix", ".*web", ".*"},
	{"case-insensitive", "(?i)web", ""}, {"case-insensitive", "(?i)api|web", ""}, {"empty-alternative", "web", "|"},
	{"empty-alternative", "^(?:|web", ")$"}, {"empty-alternative", "(?:web", ")?"}, {"quoted-meta", "api\\.web", ""},
}

// atoms that are regex literals themselves (the shape of the expression stays the marker's): quotes, backslashes, comment openers,
// and the quote written as a regex escape (a fast path that parses the expression gets the decoded byte)
var shapeAtoms = []string{
	"'", "'", "''", "\\'", "\\\\", "\\\\'", "'\\\\", "--", "-- ", "/*", "#", "# ", "#!", "\"", "`", ";",
	"' OR '1'='1", "','db", "' --", "'/*", "\\x27", "\\x{27}", "\\047", "\\x5c", "\\x5c'", "’", "ʼ", "\xef\xbc\x87", "\n'", "\x00'", "\\n'",
	"x' OR 'a'='a", "'; DROP TABLE samples; --",
}

func genShaped(r *rand.Rand) (shape, string) {
	sh := shapes[r.Intn(len(shapes))]
	var a string
	if r.Intn(6) == 0 {
		a = atoms[r.Intn(len(atoms))]
	} else {
		a = shapeAtoms[r.Intn(len(shapeAtoms))]
	}
	switch r.Intn(4) {
	case 0:
		a = "x" + a
	case 1:
		a = a + "y"
	}
	return sh, a
}

// the structure of a regular expression with the literals' contents erased, and whether it accepts the empty string when anchored
func reStructure(x string) (string, bool) {
	re, err := syntax.Parse(x, syntax.Perl)
	if err != nil {
		return "", false
	}
	var b strings.Builder
	var walk func(e *syntax.Regexp)
	walk = func(e *syntax.Regexp) {
		fmt.Fprintf(&b, "(%d/%d", e.Op, e.Flags&(syntax.FoldCase|syntax.NonGreedy|syntax.DotNL|syntax.OneLine))
		switch e.Op {
		case syntax.OpLiteral:
		case syntax.OpCharClass:
			fmt.Fprintf(&b, " %v", e.Rune)
		case syntax.OpRepeat:
			fmt.Fprintf(&b, " %d,%d", e.Min, e.Max)
		}
		for _, s := range e.Sub {
			walk(s)
		}
		b.WriteByte(')')
	}
	walk(re)
	return b.String(), true
}

func acceptsEmpty(x string) (bool, bool) {
	re, err := regexp.Compile("^(?:" + x + ")$")
	if err != nil {
		return false, false
	}
	return re.MatchString(""), true
}

// the shaped baseline applies when the hostile expression and the marker's have the same structure and give the same answer to
// "accepts the empty string" (the one question the PromQL / Pyroscope planners ask about a value)
func sameShape(hostile, harmless string) bool {
	a, ok1 := reStructure(hostile)
	b, ok2 := reStructure(harmless)
	if !ok1 || !ok2 || a != b {
		return false
	}
	ea, ok1 := acceptsEmpty(hostile)
	eb, ok2 := acceptsEmpty(harmless)
	return ok1 && ok2 && ea == eb
}

// ------------------------------------------------------------------ output

type baseRec struct {
	Kind   string `json:"kind"`
	Bid    int    `json:"bid"`
	Site   string `json:"site"`
	Marker string `json:"marker"` // hex
	Sql    string `json:"sql"`    // hex
	Mode   string `json:"mode"`
	Tq     *tqReq `json:"tq,omitempty"`
	Logql  string `json:"logql,omitempty"` // hex: the LogQL request text of the baseline (LogQL sites)
	Clu    bool   `json:"cluster,omitempty"`
}
type caseRec struct {
	Kind  string `json:"kind"`
	ID    int    `json:"id"`
	Site  string `json:"site"`
	Class string `json:"class"`
	Mode  string `json:"mode"`
	Val   string `json:"val"`  // hex: the bytes placed in the request
	Want  string `json:"want"` // hex: the bytes the request means
	Base  int    `json:"base"`
	Sql   string `json:"sql"` // hex
	Stmt  int    `json:"stmt"`
	Rej   string `json:"rej,omitempty"`
	Logql string `json:"logql,omitempty"` // hex: the LogQL request text (first statement of a LogQL site only)
	Clu   bool   `json:"cluster,omitempty"`
	Tq    *tqReq `json:"tq,omitempty"` // the TraceQL request (TraceQL planner sites only)
	// round 4: the value is pre ++ atom ++ post (lengths of pre and post); Shaped = the baseline is pre ++ marker ++ post and
	// `want` is what the atom means (otherwise the whole value is compared with the marker alone)
	Shape  []int  `json:"shape,omitempty"`
	Nargs  int    `json:"nargs,omitempty"` // site "gofmt" (round 5): number of string operands handed to fmt.Sprintf with Val as the format
	Shaped bool   `json:"shaped,omitempty"`
	ShCls  string `json:"shape_class,omitempty"`
	// round 6: the statement was handed to a session and recorded at the wire (behind the real clickhouse-go driver); BindArgs = number
	// of bind arguments of the call; Pre = the text handed to the session when the driver changed it
	Args     []string `json:"args,omitempty"` // site "chbind": hex bind arguments
	Ops      []string `json:"ops,omitempty"`  // site "gofmt" (round 8): typed operands "s:<hex>" string, "i:<decimal>" int, "l:<decimal>" int64
	Wire     bool   `json:"wire,omitempty"`
	BindArgs int    `json:"bind_args,omitempty"`
	Pre      string `json:"pre,omitempty"`
}

type runner struct {
	out   *hx.Out
	bases map[string]int // site|marker|stmt -> bid
	nbase int
	id    int
}

func (rn *runner) baseFor(st site, mk, mklit string, stmt int, nstmts int) int {
	key := fmt.Sprintf("%s|%s|%d", st.name, mk, stmt)
	if b, ok := rn.bases[key]; ok {
		return b
	}
	var r res
	lastTq = nil
	lastLogql.q = ""
	lastPre, lastNargs = nil, nil
	if p := hx.Catch(func() { r = st.run(mk) }); p != "" {
		r.rej = "panic: " + p
	}
	btq := lastTq
	blq, bclu := "", false
	if lastLogql.q != "" {
		blq, bclu = hx.Hex(lastLogql.q), lastLogql.cluster
	}
	if r.rej != "" || len(r.sqls) != nstmts {
		rn.bases[key] = -1
		return -1
	}
	for i, q := range r.sqls {
		k := fmt.Sprintf("%s|%s|%d", st.name, mk, i)
		rn.bases[k] = rn.nbase
		rn.out.Put(baseRec{Kind: "base", Bid: rn.nbase, Site: st.name, Marker: hx.Hex(mklit), Sql: hx.Hex(q), Mode: r.mode, Tq: btq, Logql: blq, Clu: bclu})
		rn.nbase++
	}
	return rn.bases[key]
}

func (rn *runner) one(st site, v, class string) { rn.oneShaped(st, v, class, 0, 0) }

// v = pre ++ atom ++ post with len(pre) = npre, len(post) = npost (0, 0: no shape)
func (rn *runner) oneShaped(st site, v, class string, npre, npost int) {
	var r res
	lastLogql.q = ""
	lastTq = nil
	lastPre, lastNargs = nil, nil
	p := hx.Catch(func() { r = st.run(v) })
	pre, nargs := lastPre, lastNargs
	if p != "" {
		r.rej = "panic: " + p
	}
	req, reqCluster := lastLogql.q, lastLogql.cluster
	ctq := lastTq
	if r.rej != "" || len(r.sqls) == 0 {
		rn.id++
		rn.out.Put(caseRec{Kind: "rej", ID: rn.id, Site: st.name, Class: class, Val: hx.Hex(v), Rej: r.rej})
		return
	}
	if v == "" && r.mode != "raw" {
		// the empty string is its own harmless baseline (planners may legitimately treat "no value" differently)
		r.mk, r.mklit = "", ""
	}
	shaped := false
	var shp []int
	if npre+npost > 0 && npre+npost <= len(v) {
		shp = []int{npre, npost}
		pre, post := v[:npre], v[len(v)-npost:]
		harmless := pre + marker + post
		if r.mode == "plain" && len(r.want) >= npre+npost && strings.HasPrefix(r.want, pre) && strings.HasSuffix(r.want, post) && sameShape(v, harmless) {
			// the position is compared with the same expression around the marker; the intended bytes at the marker are the atom's
			r.mk, r.mklit = harmless, marker
			r.want = r.want[npre : len(r.want)-npost]
			shaped = true
		}
	}
	for i, q := range r.sqls {
		rn.id++
		c := caseRec{Kind: "case", ID: rn.id, Site: st.name, Class: class, Mode: r.mode, Val: hx.Hex(v),
			Want: hx.Hex(r.want), Sql: hx.Hex(q), Stmt: i, Base: -1, Shape: shp, Shaped: shaped}
		if r.mode != "raw" {
			c.Base = rn.baseFor(st, r.mk, r.mklit, i, len(r.sqls))
		}
		if i == 0 && req != "" {
			c.Logql, c.Clu = hx.Hex(req), reqCluster
		}
		if i == 0 {
			c.Tq = ctq
		}
		if len(pre) == len(r.sqls) {
			// the statement went through a session: q is what reached the wire
			c.Wire = true
			c.BindArgs = nargs[i]
			if pre[i] != q {
				c.Pre = hx.Hex(pre[i])
			}
		}
		rn.out.Put(c)
	}
}

func main() {
	f := hx.ParseFlags()
	out := hx.OpenOut(f.Out)
	defer out.Close()
	rn := &runner{out: out, bases: map[string]int{}}
	ss := sites()
	byName := map[string]site{}
	for _, s := range ss {
		byName[s.name] = s
	}
	if f.Cases != "" {
		// replay: lines {"site":..., "val":hex}
		hx.ReadLines(f.Cases, func(line []byte) {
			var c caseRec
			if json.Unmarshal(line, &c) != nil {
				return
			}
			if c.Site == "gofmt" {
				// round 5: what package fmt itself prints for a format over string operands (tie of model/GoFmt.v)
				if c.Ops != nil {
					// round 8: string and integer operands (tie of model/GoFmtInt.v)
					var mixed []any
					for _, o := range c.Ops {
						switch {
						case strings.HasPrefix(o, "s:"):
							mixed = append(mixed, hx.UnHex(o[2:]))
						case strings.HasPrefix(o, "i:"):
							n, err := strconv.Atoi(o[2:])
							if err != nil {
								return
							}
							mixed = append(mixed, n)
						case strings.HasPrefix(o, "l:"):
							n, err := strconv.ParseInt(o[2:], 10, 64)
							if err != nil {
								return
							}
							mixed = append(mixed, n)
						default:
							return
						}
					}
					rn.id++
					out.Put(map[string]any{"kind": "fmt2", "id": rn.id, "format": c.Val, "ops": c.Ops,
						"out": hx.Hex(fmt.Sprintf(hx.UnHex(c.Val), mixed...))})
					return
				}
				ops := []any{"INNER ANY", "zq'x", "third"}
				if c.Nargs < 0 || c.Nargs > len(ops) {
					return
				}
				rn.id++
				out.Put(map[string]any{"kind": "fmt", "id": rn.id, "format": c.Val, "nargs": c.Nargs,
					"out": hx.Hex(fmt.Sprintf(hx.UnHex(c.Val), ops[:c.Nargs]...))})
				return
			}
			if c.Site == "chbind" {
				// round 6: what the real session + driver send for (statement text, string bind arguments) (tie of model/ChBind.v)
				var args []any
				for _, a := range c.Args {
					args = append(args, hx.UnHex(a))
				}
				got, rows, err := wire.send(false, hx.UnHex(c.Val), args)
				if rows != nil {
					rows.Close()
				}
				rn.id++
				o := map[string]any{"kind": "bind", "id": rn.id, "text": c.Val, "args": c.Args, "sent": len(got)}
				if len(got) == 1 {
					o["out"] = hx.Hex(got[0])
				}
				if err != nil {
					o["err"] = short(err)
				}
				out.Put(o)
				return
			}
			if s, ok := byName[c.Site]; ok {
				if len(c.Shape) == 2 {
					rn.oneShaped(s, hx.UnHex(c.Val), "corpus", c.Shape[0], c.Shape[1])
				} else {
					rn.one(s, hx.UnHex(c.Val), "corpus")
				}
			} else {
				fmt.Fprintln(os.Stderr, "unknown site", c.Site)
			}
		})
		return
	}
	r := hx.Rand(f.Seed)
	// the grid: every regex-carrying position x every core shape, with a single quote at the marked place (deterministic, each run)
	for _, st := range ss {
		if !st.re {
			continue
		}
		for _, sh := range coreShapes {
			rn.oneShaped(st, sh.pre+"'"+sh.post, "grid:"+sh.class, len(sh.pre), len(sh.post))
		}
	}
	// round 5: the directive grid: every position x a few strings a later interpretation of the rendered text would read as directives
	// (deterministic, each run; identifier positions reject them in the parser, which is counted)
	for _, st := range ss {
		for _, v := range directiveGrid {
			rn.one(st, v, "grid:directive")
		}
	}
	// round 7: the placeholder words harvested from the repository's own string constants, at every position
	words := harvestPlaceholders()
	out.Put(map[string]any{"kind": "placeholders", "words": words})
	for _, st := range ss {
		for _, w := range words {
			rn.one(st, w, "grid:placeholder")
		}
		// fixed words: two generic ones everywhere, the usual names of a statement template at the `| regexp` stage (the seed's position)
		fixed := []string{"{id}", "$name"}
		if strings.HasPrefix(st.name, "logql.regexp") {
			fixed = []string{"{id}", "$name", "{labels}", "{col}", "{re}", "{0}", "${1}", "${name}", "x{labels}'y"}
		}
		for _, w := range fixed {
			rn.one(st, w, "grid:placeholder-fixed")
		}
	}
	for i := 0; i < f.N; i++ {
		st := ss[i%len(ss)]
		var v, class string
		if st.re && r.Intn(100) < 45 {
			sh, a := genShaped(r)
			rn.oneShaped(st, sh.pre+a+sh.post, "shape:"+sh.class, len(sh.pre), len(sh.post))
			continue
		}
		if strings.Contains(st.name, ".ident.") {
			v, class = genIdent(r, strings.HasPrefix(st.name, "traceql"))
		} else {
			v, class = genString(r)
		}
		rn.one(st, v, class)
	}
}
