// The compression wrapper alone, call by call: scripted next handlers (sequences of WriteHeader / Write on the
// ResponseWriter they are given) behind the REAL AcceptEncodingMiddleware, over a ResponseWriter that records every call
// reaching it together with the Content-Encoding header at that moment. model/GzipWriter.v predicts the recorded
// sequence; its oracle says a refusal (non-2xx status first, as BasicAuth answers) reaches the wire unchanged.
package main

import (
	"bytes"
	"math/rand"
	"net/http"
	"net/http/httptest"

	"github.com/metrico/qryn/reader/utils/middleware"
	"verif/harness/hx"
)

type gzAct struct {
	H   bool `json:"h"`   // WriteHeader(Code) when true, Write(Len bytes) otherwise
	Code int `json:"code"`
	Len int  `json:"len"`
}
type gzEv struct {
	Kind string `json:"kind"` // "header" | "raw" (the bytes next wrote in one call) | "gzip" (anything else)
	Code int    `json:"code"`
	Len  int    `json:"len"`
	CE   bool   `json:"ce"` // Content-Encoding: gzip set when the call arrived
}
type gzCase struct {
	ID   int     `json:"id"`
	Gzip bool    `json:"gzip"`
	AE   string  `json:"accept_encoding"`
	Next []gzAct `json:"next"`
	Obs  []gzEv  `json:"obs"`
	Panic string `json:"panic,omitempty"`
}

type recWriter struct {
	h       http.Header
	evs     []gzEv
	pending [][]byte // the byte slices next has written so far and that have not been seen forwarded
}

func (w *recWriter) Header() http.Header { return w.h }
func (w *recWriter) ce() bool            { return w.h.Get("Content-Encoding") == "gzip" }
func (w *recWriter) WriteHeader(code int) {
	w.evs = append(w.evs, gzEv{Kind: "header", Code: code, CE: w.ce()})
}
func (w *recWriter) Write(b []byte) (int, error) {
	if len(w.pending) > 0 && bytes.Equal(w.pending[0], b) && (len(b) > 0 || !w.ce()) {
		w.pending = w.pending[1:]
		w.evs = append(w.evs, gzEv{Kind: "raw", Len: len(b), CE: w.ce()})
		return len(b), nil
	}
	n := 0
	if len(b) > 0 {
		n = 1
	}
	w.evs = append(w.evs, gzEv{Kind: "gzip", Len: n, CE: w.ce()})
	return len(b), nil
}

var gzCodes = []int{200, 201, 204, 299, 199, 300, 301, 400, 401, 403, 404, 500}

func gzProbe(r *rand.Rand, n int) map[string]interface{} {
	cases := []gzCase{}
	aes := []string{"gzip", "gzip, deflate", "br;q=1.0, gzip;q=0.8", "", "deflate", "identity"}
	for i := 0; i < n; i++ {
		c := gzCase{ID: i, AE: aes[r.Intn(len(aes))]}
		if i%5 == 0 { // BasicAuth refusing: http.Error = WriteHeader(401), one Write
			c.Next = []gzAct{{H: true, Code: []int{401, 400}[r.Intn(2)]}, {Len: 13}}
		}
		for k, m := 0, r.Intn(5); k < m; k++ {
			if r.Intn(2) == 0 {
				c.Next = append(c.Next, gzAct{H: true, Code: gzCodes[r.Intn(len(gzCodes))]})
			} else {
				c.Next = append(c.Next, gzAct{Len: []int{0, 1, 2, 13, 700}[r.Intn(5)]})
			}
		}
		if c.Next == nil {
			c.Next = []gzAct{}
		}
		rec := &recWriter{h: http.Header{}}
		seq := 0
		h := middleware.AcceptEncodingMiddleware(http.HandlerFunc(func(w http.ResponseWriter, _ *http.Request) {
			for _, a := range c.Next {
				if a.H {
					w.WriteHeader(a.Code)
					continue
				}
				seq++
				b := bytes.Repeat([]byte{byte('a' + seq%20)}, a.Len)
				rec.pending = append(rec.pending, b)
				w.Write(b)
			}
		}))
		req := httptest.NewRequest("GET", "http://qryn.test/ready", nil)
		if c.AE != "" {
			req.Header.Set("Accept-Encoding", c.AE)
		}
		c.Panic = hx.Catch(func() { h.ServeHTTP(rec, req) })
		c.Gzip = bytes.Contains([]byte(c.AE), []byte("gzip"))
		c.Obs = rec.evs
		if c.Obs == nil {
			c.Obs = []gzEv{}
		}
		cases = append(cases, c)
	}
	return map[string]interface{}{"kind": "gzprobe", "cases": cases}
}
