// authroutes (C20): builds the real HTTP router the way main() does -- by INTERPRETING the assembly that
// translate/gen_routes read from the sources (package main cannot be linked): real gorilla/mux, the real
// middlewares of reader/utils/middleware, the real route registration functions of shared/commonroutes,
// writer/plugin + writer/router, reader/router and view, over fake back-ends that count every call.
// It then prints
//   - kind "walk":    the routes router.Walk lists vs the routes of the assembly (per configuration),
//   - kind "case":    for every route x method x Authorization class x Accept-Encoding x Origin the status, whether
//                     the (instrumented) handler ran, the back-end call count and the headers set,
//   - kind "auth":    BasicAuthMiddleware alone over a recording handler, on header byte strings, with the result
//                     of base64.StdEncoding.DecodeString on the credentials part,
//   - kind "muxprobe": the gorilla/mux facts model/Router.v relies on, measured.
package main

import (
	"bufio"
	"context"
	"encoding/base64"
	"encoding/json"
	"errors"
	"flag"
	"fmt"
	"io"
	"log"
	"math/rand"
	"net"
	"net/http"
	"net/http/httptest"
	"os"
	"sort"
	"strconv"
	"strings"
	"sync"
	"time"

	"github.com/gorilla/mux"
	clconfig "github.com/metrico/cloki-config"
	_ "github.com/metrico/qryn/ctrl"
	_ "github.com/metrico/qryn/reader"
	rconfig "github.com/metrico/qryn/reader/config"
	rmodel "github.com/metrico/qryn/reader/model"
	rrouter "github.com/metrico/qryn/reader/router"
	rlogger "github.com/metrico/qryn/reader/utils/logger"
	"github.com/metrico/qryn/reader/utils/middleware"
	"github.com/metrico/qryn/shared/commonroutes"
	"github.com/metrico/qryn/view"
	_ "github.com/metrico/qryn/writer"
	wconfig "github.com/metrico/qryn/writer/config"
	wctrl "github.com/metrico/qryn/writer/controller"
	wplugin "github.com/metrico/qryn/writer/plugin"
	wrouter "github.com/metrico/qryn/writer/router"
	wservice "github.com/metrico/qryn/writer/service"
	wlogger "github.com/metrico/qryn/writer/utils/logger"

	"verif/harness/hx"
)

// ---------------------------------------------------------------- the assembly (.build/gen/GenRoutes.json)
type Cond struct {
	K string `json:"k"`
	A int    `json:"a"`
	X *Cond  `json:"x"`
	Y *Cond  `json:"y"`
}

func (c *Cond) eval(env []bool) bool {
	switch c.K {
	case "true":
		return true
	case "false":
		return false
	case "atom":
		return c.A < len(env) && env[c.A]
	case "not":
		return !c.X.eval(env)
	case "and":
		return c.X.eval(env) && c.Y.eval(env)
	case "or":
		return c.X.eval(env) || c.Y.eval(env)
	}
	panic("cond kind " + c.K)
}

type Frame struct {
	Fn   string `json:"fn"`
	Call int    `json:"call"`
}
type Op struct {
	Cond    *Cond    `json:"cond"`
	Op      string   `json:"op"`
	Router  int      `json:"router"`
	Parent  int      `json:"parent"`
	Mw      string   `json:"mw"`
	MwArgs  []string `json:"mw_args"`
	Opaque  string   `json:"opaque"` // why the translator does not accept the middleware's source as a pass-through wrapper
	Prefix  bool     `json:"prefix"`
	Tpl     string   `json:"tpl"`
	Methods []string `json:"methods"`
	Exact   bool     `json:"exact"`
	Handler bool     `json:"handler"`
	What    string   `json:"what"`
	Pos     string   `json:"pos"`
	Stack   []Frame  `json:"stack"`
}
type Atom struct {
	ID   int    `json:"id"`
	Kind string `json:"kind"`
	Src  string `json:"src"`
}
type Assembly struct {
	Atoms []Atom `json:"atoms"`
	Must  []int  `json:"must"`
	Ops   []Op   `json:"ops"`
	// patterns registered on http.DefaultServeMux somewhere in the sources (census of the translator)
	DefaultMuxPatterns []string `json:"default_mux_patterns"`
}

// ---------------------------------------------------------------- fake back-ends
var backendCalls int

type fakeDBRegistry struct{}

func (fakeDBRegistry) GetDB(ctx context.Context) (*rmodel.DataDatabasesMap, error) {
	backendCalls++
	return nil, errors.New("verif: fake database registry")
}
func (fakeDBRegistry) Run()        {}
func (fakeDBRegistry) Stop()       {}
func (fakeDBRegistry) Ping() error { backendCalls++; return nil }

type fakeSvcRegistry struct{}

func (fakeSvcRegistry) get() (wservice.IInsertServiceV2, error) {
	backendCalls++
	return nil, errors.New("verif: fake service registry")
}
func (f fakeSvcRegistry) GetTimeSeriesService(id string) (wservice.IInsertServiceV2, error) { return f.get() }
func (f fakeSvcRegistry) GetSamplesService(id string) (wservice.IInsertServiceV2, error)    { return f.get() }
func (f fakeSvcRegistry) GetMetricsService(id string) (wservice.IInsertServiceV2, error)    { return f.get() }
func (f fakeSvcRegistry) GetSpansService(id string) (wservice.IInsertServiceV2, error)      { return f.get() }
func (f fakeSvcRegistry) GetSpansSeriesService(id string) (wservice.IInsertServiceV2, error) {
	return f.get()
}
func (f fakeSvcRegistry) GetProfileInsertService(id string) (wservice.IInsertServiceV2, error) {
	return f.get()
}
func (fakeSvcRegistry) Run()  {}
func (fakeSvcRegistry) Stop() {}

// ---------------------------------------------------------------- configuration of one run
type Config struct {
	Name   string `json:"name"`
	Login  string `json:"login"`
	Pass   string `json:"pass"`
	Cors   bool   `json:"cors"`
	Origin string `json:"origin"`
	Mode   string `json:"mode"`
	// value given to condition atoms the harness cannot relate to the configuration (they are not under its
	// control in the real main() either); one extra configuration sets them all to true
	Unknown bool `json:"unknown"`
	// reader.ownHttpServer: true only when reader.Init is handed a nil router, which main() never does; the valuation is
	// interpreted anyway (the theorem covers it)
	OwnHTTP bool `json:"own_http"`
	// rich: the full request product; enum: one of the enumerated valuations (walk + a reduced request set);
	// open: login and password are not both configured (the property's premise is not met: model = router only)
	Tier string `json:"tier"`
}

func envOf(a *Assembly, c Config) ([]bool, []string) {
	env := make([]bool, len(a.Atoms))
	var unknown []string
	for _, at := range a.Atoms {
		switch {
		case at.Kind == "login_set":
			env[at.ID] = c.Login != ""
		case at.Kind == "pass_set":
			env[at.ID] = c.Pass != ""
		case at.Kind == "cors_enable":
			env[at.ID] = c.Cors
		case strings.HasPrefix(at.Kind, "mode_eq:"):
			env[at.ID] = c.Mode == strings.TrimPrefix(at.Kind, "mode_eq:")
		case at.Kind == "var:reader.ownHttpServer":
			env[at.ID] = c.OwnHTTP // set only when reader.Init is handed a nil router; main hands it the router
		case at.Kind == "var:view.HaveStatic":
			env[at.ID] = view.HaveStatic
		default:
			env[at.ID] = c.Unknown
			unknown = append(unknown, at.Kind+" "+at.Src)
		}
	}
	return env, unknown
}

// ---------------------------------------------------------------- building the router
type built struct {
	routers map[int]*mux.Router
	served  []int
	problems []string
	expected []RouteDesc // active route operations, in order
	fallback []string   // registration functions the harness does not know (their routes were registered from the translator's reading)
}
type RouteDesc struct {
	Router  int      `json:"router"`
	Tpl     string   `json:"tpl"`
	Prefix  bool     `json:"prefix"`
	Methods []string `json:"methods"`
}

type regFn func(r *mux.Router)

func registrars(cfg *clconfig.ClokiConfig) map[string]regFn {
	wcfg := wctrl.NewMiddlewareConfig(wctrl.WithExtraMiddlewareDefault...)
	tcfg := wctrl.NewMiddlewareConfig(wctrl.WithExtraMiddlewareTempo...)
	reg := fakeDBRegistry{}
	return map[string]regFn{
		"shared/commonroutes.RegisterCommonRoutes": func(r *mux.Router) { commonroutes.RegisterCommonRoutes(r) },
		"writer/plugin.QrynWriterPlugin.RegisterRoutes": func(r *mux.Router) {
			(&wplugin.QrynWriterPlugin{}).RegisterRoutes(*cfg.Setting, wcfg, tcfg, r)
		},
		"writer/router.RouteInsertDataApis":  func(r *mux.Router) { wrouter.RouteInsertDataApis(r, wcfg) },
		"writer/router.RoutePromDataApis":    func(r *mux.Router) { wrouter.RoutePromDataApis(r, wcfg) },
		"writer/router.RouteElasticDataApis": func(r *mux.Router) { wrouter.RouteElasticDataApis(r, wcfg) },
		"writer/router.RouteInsertTempoApis": func(r *mux.Router) { wrouter.RouteInsertTempoApis(r, tcfg) },
		"writer/router.RouteProfileDataApis": func(r *mux.Router) { wrouter.RouteProfileDataApis(r, wcfg) },
		"writer/router.RouteMiscApis":        func(r *mux.Router) { wrouter.RouteMiscApis(r, wcfg) },
		"reader/router.RouteQueryRangeApis":         func(r *mux.Router) { rrouter.RouteQueryRangeApis(r, reg) },
		"reader/router.RouteSelectLabels":           func(r *mux.Router) { rrouter.RouteSelectLabels(r, reg) },
		"reader/router.RouteSelectPrometheusLabels": func(r *mux.Router) { rrouter.RouteSelectPrometheusLabels(r, reg) },
		"reader/router.RoutePrometheusQueryRange":   func(r *mux.Router) { rrouter.RoutePrometheusQueryRange(r, reg, false) },
		"reader/router.RouteTempo":                  func(r *mux.Router) { rrouter.RouteTempo(r, reg) },
		"reader/router.RouteMiscApis":               func(r *mux.Router) { rrouter.RouteMiscApis(r) },
		"reader/router.RouteProf":                   func(r *mux.Router) { rrouter.RouteProf(r, reg) },
		"reader/router.PluggableRoutes":             func(r *mux.Router) { rrouter.PluggableRoutes(r, reg) },
		"view.Init":                                 func(r *mux.Router) { view.Init(cfg, r) },
	}
}

func fakeHandler(w http.ResponseWriter, r *http.Request) { w.WriteHeader(200); w.Write([]byte("fake")) }

func build(a *Assembly, c Config, env []bool, cfg *clconfig.ClokiConfig) *built {
	b := &built{routers: map[int]*mux.Router{}}
	regs := registrars(cfg)
	done := map[int]bool{} // call ids of registration functions already executed
	for _, op := range a.Ops {
		if !op.Cond.eval(env) {
			continue
		}
		switch op.Op {
		case "newrouter":
			b.routers[op.Router] = mux.NewRouter()
		case "subrouter":
			p := b.routers[op.Parent]
			if p == nil {
				b.problems = append(b.problems, "sub-router of an unknown router at "+op.Pos)
				continue
			}
			b.routers[op.Router] = p.PathPrefix(op.Tpl).Subrouter()
		case "serve":
			b.served = append(b.served, op.Router)
		case "serveother", "unknown":
			b.problems = append(b.problems, op.Op+": "+op.What+" at "+op.Pos)
		case "use", "route":
			r := b.routers[op.Router]
			if r == nil {
				b.problems = append(b.problems, op.Op+" on an unknown router at "+op.Pos)
				continue
			}
			if op.Op == "route" {
				b.expected = append(b.expected, RouteDesc{Router: op.Router, Tpl: op.Tpl, Prefix: op.Prefix, Methods: op.Methods})
			}
			// executed by a real registration function?
			var fr *Frame
			for i := range op.Stack {
				if _, ok := regs[op.Stack[i].Fn]; ok {
					fr = &op.Stack[i]
					break
				}
			}
			if fr != nil {
				if !done[fr.Call] {
					done[fr.Call] = true
					regs[fr.Fn](r)
				}
				continue
			}
			if op.Op == "use" {
				switch op.Mw {
				case "BasicAuth":
					login, pass := "<unresolved>", "<unresolved>"
					if len(op.MwArgs) == 2 {
						login, pass = credArg(op.MwArgs[0], c), credArg(op.MwArgs[1], c)
					}
					r.Use(middleware.BasicAuthMiddleware(login, pass))
				case "AcceptEncoding":
					r.Use(middleware.AcceptEncodingMiddleware)
				case "Cors":
					r.Use(middleware.CorsMiddleware(c.Origin))
				case "Logging":
					tpl := "[{{.status}}] {{.method}} {{.url}} - LAT:{{.latency}}"
					if len(op.MwArgs) == 1 {
						if s, err := strconv.Unquote(op.MwArgs[0]); err == nil {
							tpl = s
						}
					}
					r.Use(middleware.LoggingMiddleware(tpl))
				default:
					b.problems = append(b.problems, "middleware the harness cannot construct: "+op.Mw+" at "+op.Pos)
				}
				continue
			}
			// a route registered outside every registration function the harness can call: register what the
			// translator read, with a fake handler
			if len(op.Stack) > 1 {
				b.fallback = append(b.fallback, op.Stack[len(op.Stack)-1].Fn)
			}
			var rt *mux.Route
			if op.Prefix {
				rt = r.PathPrefix(op.Tpl)
			} else {
				rt = r.Path(op.Tpl)
			}
			if len(op.Methods) > 0 {
				rt = rt.Methods(op.Methods...)
			}
			rt.HandlerFunc(fakeHandler)
		}
	}
	return b
}

func credArg(src string, c Config) string {
	switch {
	case strings.HasSuffix(src, "AUTH_SETTINGS.BASIC.Username"):
		return c.Login
	case strings.HasSuffix(src, "AUTH_SETTINGS.BASIC.Password"):
		return c.Pass
	}
	if s, err := strconv.Unquote(src); err == nil {
		return s
	}
	return "<unresolved:" + src + ">"
}

// ---------------------------------------------------------------- instrumentation
type record struct {
	ran      int
	tpls     []string
	hijacked bool
}

var cur *record
var curMu sync.Mutex

func instrument(root *mux.Router) []RouteDesc {
	var walked []RouteDesc
	root.Walk(func(route *mux.Route, router *mux.Router, ancestors []*mux.Route) error {
		h := route.GetHandler()
		if h == nil {
			return nil // a sub-router's own prefix route
		}
		tpl, _ := route.GetPathTemplate()
		ms, _ := route.GetMethods()
		d := RouteDesc{Tpl: tpl, Methods: ms}
		walked = append(walked, d)
		orig := h
		route.Handler(http.HandlerFunc(func(w http.ResponseWriter, r *http.Request) {
			curMu.Lock()
			if cur != nil {
				cur.ran++
				cur.tpls = append(cur.tpls, tpl)
			}
			curMu.Unlock()
			if r.Header.Get("X-Verif-Exec") == "1" {
				orig.ServeHTTP(w, r)
				return
			}
			if r.Header.Get("X-Verif-Hijack") == "1" {
				// what websocket.Upgrader.Upgrade does: take the connection over through whatever wrappers the
				// middlewares put around the ResponseWriter, and answer 101 on the raw connection
				hj, ok := w.(http.Hijacker)
				if !ok {
					w.WriteHeader(500)
					return
				}
				conn, rw, err := hj.Hijack()
				if err != nil {
					w.WriteHeader(500)
					return
				}
				curMu.Lock()
				if cur != nil {
					cur.hijacked = true
				}
				curMu.Unlock()
				rw.WriteString("HTTP/1.1 101 Switching Protocols\r\nUpgrade: websocket\r\nConnection: Upgrade\r\n\r\n")
				rw.Flush()
				conn.Close()
				return
			}
			st, _ := strconv.Atoi(r.Header.Get("X-Verif-Status"))
			if st == 0 {
				st = 200
			}
			w.WriteHeader(st)
			if st != 204 && st != 304 {
				w.Write([]byte("handler body"))
			}
		}))
		return nil
	})
	return walked
}

// ---------------------------------------------------------------- requests and observations
type Req struct {
	Method string `json:"method"`
	Path   string `json:"path"`
	HasAuth bool  `json:"has_auth"`
	Auth   string `json:"auth"` // hex
	Gzip   bool   `json:"gzip"`
	Origin bool   `json:"origin"`
	HStatus int   `json:"hstatus"`
	Exec   bool   `json:"exec,omitempty"`
	// CORS pre-flight headers: Origin, Access-Control-Request-Method: <this>, Access-Control-Request-Headers: authorization
	Preflight string `json:"preflight,omitempty"`
	// websocket handshake (Connection: Upgrade, Upgrade: websocket, Sec-WebSocket-Key/Version) sent over a real TCP
	// connection to an httptest.Server; the instrumented handler hijacks the connection and answers 101 itself
	Upgrade bool `json:"upgrade,omitempty"`
	Query   string `json:"query,omitempty"` // raw query string (exec controls only)
	// a SECOND Authorization header line after the first (Header.Get reads the first one only); hex
	Auth2 string `json:"auth2,omitempty"`
}
type Obs struct {
	Status  int    `json:"status"`
	Ran     int    `json:"ran"`
	Backend int    `json:"backend"`
	WWW     bool   `json:"www"`
	Gzip    bool   `json:"gzip"`
	Cors    bool   `json:"cors"`
	Panic   string `json:"panic,omitempty"`
	Hijacked bool  `json:"hijacked,omitempty"` // the (instrumented) handler took over the connection
}
type Case struct {
	Kind  string `json:"kind"`
	ID    int    `json:"id"`
	Cfg   string `json:"cfg"`
	Root  int    `json:"root"`
	Class string `json:"class"`
	RClass string `json:"rclass"`
	Req   Req    `json:"req"`
	Obs   Obs    `json:"obs"`
}

func do(root *mux.Router, q Req) Obs {
	if q.Upgrade {
		return doServer(root, q)
	}
	url := "http://qryn.test" + q.Path
	if q.Query != "" {
		url += "?" + q.Query
	}
	req := httptest.NewRequest(q.Method, url, strings.NewReader("{}"))
	if q.HasAuth {
		req.Header["Authorization"] = []string{hx.UnHex(q.Auth)}
		if q.Auth2 != "" {
			req.Header["Authorization"] = append(req.Header["Authorization"], hx.UnHex(q.Auth2))
		}
	}
	if q.Gzip {
		req.Header.Set("Accept-Encoding", "gzip")
	}
	if q.Origin || q.Preflight != "" {
		req.Header.Set("Origin", "http://elsewhere.example")
	}
	if q.Preflight != "" {
		req.Header.Set("Access-Control-Request-Method", q.Preflight)
		req.Header.Set("Access-Control-Request-Headers", "authorization")
	}
	req.Header.Set("X-Verif-Status", strconv.Itoa(q.HStatus))
	if q.Exec {
		req.Header.Set("X-Verif-Exec", "1")
	}
	rec := httptest.NewRecorder()
	curMu.Lock()
	cur = &record{}
	backendCalls = 0
	curMu.Unlock()
	p := hx.Catch(func() { root.ServeHTTP(rec, req) })
	curMu.Lock()
	o := Obs{Status: rec.Code, Ran: cur.ran, Backend: backendCalls, Panic: p,
		WWW:  rec.Header().Get("WWW-Authenticate") != "",
		Gzip: rec.Header().Get("Content-Encoding") == "gzip",
		Cors: rec.Header().Get("Access-Control-Allow-Origin") != ""}
	cur = nil
	curMu.Unlock()
	return o
}

// a websocket handshake over a real connection (so that the ResponseWriter is hijackable, as under net/http)
func doServer(root *mux.Router, q Req) Obs {
	curMu.Lock()
	cur = &record{}
	backendCalls = 0
	curMu.Unlock()
	srv := httptest.NewUnstartedServer(root)
	srv.Config.ErrorLog = log.New(io.Discard, "", 0) // "WriteHeader on hijacked connection" from gzipResponseWriter.Close after an upgrade
	srv.Start()
	var o Obs
	func() {
		conn, err := net.Dial("tcp", srv.Listener.Addr().String())
		if err != nil {
			o.Panic = "dial: " + err.Error()
			return
		}
		defer conn.Close()
		conn.SetDeadline(time.Now().Add(5 * time.Second))
		var b strings.Builder
		path := q.Path
		if q.Query != "" {
			path += "?" + q.Query
		}
		fmt.Fprintf(&b, "%s %s HTTP/1.1\r\nHost: qryn.test\r\n", q.Method, path)
		if q.HasAuth {
			fmt.Fprintf(&b, "Authorization: %s\r\n", hx.UnHex(q.Auth))
		}
		b.WriteString("Connection: Upgrade\r\nUpgrade: websocket\r\nSec-WebSocket-Version: 13\r\nSec-WebSocket-Key: dGhlIHNhbXBsZSBub25jZQ==\r\n")
		if q.Gzip {
			b.WriteString("Accept-Encoding: gzip\r\n")
		}
		if q.Origin {
			b.WriteString("Origin: http://elsewhere.example\r\n")
		}
		fmt.Fprintf(&b, "X-Verif-Status: %d\r\n", q.HStatus)
		if q.Exec {
			b.WriteString("X-Verif-Exec: 1\r\n")
		} else {
			b.WriteString("X-Verif-Hijack: 1\r\n")
		}
		b.WriteString("\r\n")
		if _, err := conn.Write([]byte(b.String())); err != nil {
			o.Panic = "write: " + err.Error()
			return
		}
		resp, err := http.ReadResponse(bufio.NewReader(conn), nil)
		if err != nil {
			o.Panic = "read: " + err.Error()
			return
		}
		o.Status = resp.StatusCode
		o.WWW = resp.Header.Get("WWW-Authenticate") != ""
		o.Gzip = resp.Header.Get("Content-Encoding") == "gzip"
		o.Cors = resp.Header.Get("Access-Control-Allow-Origin") != ""
		resp.Body.Close()
	}()
	srv.Close() // waits for the outstanding request
	curMu.Lock()
	o.Ran, o.Backend, o.Hijacked = cur.ran, backendCalls, cur.hijacked
	cur = nil
	curMu.Unlock()
	return o
}

type hclass struct {
	name string
	has  bool
	val  string
}

func b64(s string) string { return base64.StdEncoding.EncodeToString([]byte(s)) }

func headerClasses(login, pass string) []hclass {
	right := b64(login + ":" + pass)
	unpadded := strings.TrimRight(right, "=")
	// non-canonical final group: same decoding in the non-strict StdEncoding
	noncanon := right
	if n := len(unpadded); n < len(right) {
		const alpha = "ABCDEFGHIJKLMNOPQRSTUVWXYZabcdefghijklmnopqrstuvwxyz0123456789+/"
		i := strings.IndexByte(alpha, unpadded[n-1])
		noncanon = unpadded[:n-1] + string(alpha[i|1]) + right[n:]
	}
	cs := []hclass{
		{"absent", false, ""},
		{"present-empty", true, ""},
		{"scheme-only", true, "Basic"},
		{"scheme-space", true, "Basic "},
		{"bearer", true, "Bearer " + right},
		{"digest", true, `Digest username="` + login + `"`},
		{"lowercase-scheme", true, "basic " + right},
		{"uppercase-scheme", true, "BASIC " + right},
		{"two-spaces", true, "Basic  " + right},
		{"tab-separator", true, "Basic\t" + right},
		{"leading-space", true, " Basic " + right},
		{"no-scheme", true, right},
		{"malformed-b64", true, "Basic !!!!"},
		{"malformed-b64-2", true, "Basic " + right[:1]},
		{"not-b64-plain", true, "Basic " + login + ":" + pass},
		{"wrong-user", true, "Basic " + b64(login+"x:"+pass)},
		{"wrong-user-2", true, "Basic " + b64("x"+login+":"+pass)},
		{"wrong-pass", true, "Basic " + b64(login+":"+pass+"x")},
		{"wrong-pass-2", true, "Basic " + b64(login+":x"+pass)},
		{"empty-user", true, "Basic " + b64(":"+pass)},
		{"empty-pass", true, "Basic " + b64(login+":")},
		{"empty-both", true, "Basic " + b64(":")},
		{"no-colon", true, "Basic " + b64(login+pass)},
		{"user-only", true, "Basic " + b64(login)},
		{"prefix-of-right", true, "Basic " + b64((login + ":" + pass)[:len(login)+len(pass)])},
		{"suffix-of-right", true, "Basic " + b64((login + ":" + pass)[1:])},
		{"b64-text-prefix", true, "Basic " + right[:len(right)-4]},
		{"b64-text-truncated", true, "Basic " + right[:len(right)-1]},
		{"extra-colon-field", true, "Basic " + b64(login+":"+pass+":extra")},
		{"double-colon", true, "Basic " + b64(login+"::"+pass)},
		{"swapped", true, "Basic " + b64(pass+":"+login)},
		{"case-changed", true, "Basic " + b64(strings.ToUpper(login)+":"+pass)},
		{"pass-case-changed", true, "Basic " + b64(login+":"+swapCase(pass))},
		{"pass-trailing-space", true, "Basic " + b64(login+":"+pass+" ")},
		{"pass-leading-space", true, "Basic " + b64(login+": "+pass)},
		{"pass-trailing-newline", true, "Basic " + b64(login+":"+pass+"\n")},
		{"pass-trailing-nul", true, "Basic " + b64(login+":"+pass+"\x00")},
		{"user-leading-space", true, "Basic " + b64(" "+login+":"+pass)},
		{"user-trailing-space", true, "Basic " + b64(login+" :"+pass)},
		{"user-trailing-tab", true, "Basic " + b64(login+"\t:"+pass)},
		{"payload-trailing-crlf", true, "Basic " + b64(login+":"+pass+"\r\n")},
		{"scheme-trailing-spaces", true, "Basic " + right + "   "},
		{"trailing-garbage", true, "Basic " + right + "!"},
		{"trailing-garbage-2", true, "Basic " + right + "@@@@"},
		{"trailing-valid-b64", true, "Basic " + right + "AAAA"},
		{"trailing-pad", true, "Basic " + right + "="},
		{"trailing-space", true, "Basic " + right + " "},
		{"trailing-nul", true, "Basic " + right + "\x00"},
		{"padding-stripped", true, "Basic " + unpadded},
		{"urlsafe-alphabet", true, "Basic " + base64.URLEncoding.EncodeToString([]byte(login+":"+pass+"\xfb\xff"))},
		{"double-encoded", true, "Basic " + b64(right)},
		{"right-then-newline", true, "Basic " + right + "\n"},
		{"right-with-crlf-inside", true, "Basic " + right[:4] + "\r\n" + right[4:]},
		{"right-noncanonical-bits", true, "Basic " + noncanon},
		{"right", true, "Basic " + right},
	}
	return cs
}

func swapCase(s string) string {
	b := []byte(s)
	for i, c := range b {
		switch {
		case c >= 'a' && c <= 'z':
			b[i] = c - 32
		case c >= 'A' && c <= 'Z':
			b[i] = c + 32
		}
	}
	if string(b) == s {
		return s + "X"
	}
	return string(b)
}

func randomHeader(r *rand.Rand, login, pass string) hclass {
	right := "Basic " + b64(login+":"+pass)
	switch r.Intn(6) {
	case 0: // random bytes
		n := r.Intn(24)
		b := make([]byte, n)
		for i := range b {
			b[i] = byte(r.Intn(256))
		}
		return hclass{"random-bytes", true, string(b)}
	case 1: // Basic + random base64 alphabet text
		const alpha = "ABCDEFGHIJKLMNOPQRSTUVWXYZabcdefghijklmnopqrstuvwxyz0123456789+/=\r\n !"
		n := r.Intn(28)
		b := make([]byte, n)
		for i := range b {
			b[i] = alpha[r.Intn(len(alpha))]
		}
		return hclass{"random-b64ish", true, "Basic " + string(b)}
	case 2: // mutate one byte of the right header
		b := []byte(right)
		b[r.Intn(len(b))] = byte(r.Intn(256))
		return hclass{"right-mutated-byte", true, string(b)}
	case 3: // delete / insert a byte
		b := []byte(right)
		i := r.Intn(len(b))
		if r.Intn(2) == 0 {
			b = append(b[:i], b[i+1:]...)
		} else {
			b = append(b[:i], append([]byte{"=\n\r A:!"[r.Intn(7)]}, b[i:]...)...)
		}
		return hclass{"right-indel", true, string(b)}
	case 4: // encode a random near-miss of the credentials
		s := []byte(login + ":" + pass)
		switch r.Intn(3) {
		case 0:
			s[r.Intn(len(s))] ^= byte(1 << uint(r.Intn(8)))
		case 1:
			s = s[:r.Intn(len(s))]
		default:
			s = append(s, byte(r.Intn(256)))
		}
		return hclass{"near-miss-encoded", true, "Basic " + b64(string(s))}
	default: // right header plus a random tail
		const tail = "=!\n\r AZ09+/"
		n := 1 + r.Intn(4)
		b := make([]byte, n)
		for i := range b {
			b[i] = tail[r.Intn(len(tail))]
		}
		return hclass{"right-plus-tail", true, right + string(b)}
	}
}

func concrete(tpl string) string {
	var b strings.Builder
	depth := 0
	for i := 0; i < len(tpl); i++ {
		switch {
		case tpl[i] == '{':
			if depth == 0 {
				b.WriteString("v1")
			}
			depth++
		case tpl[i] == '}':
			depth--
		case depth == 0:
			b.WriteByte(tpl[i])
		}
	}
	return b.String()
}

// ---------------------------------------------------------------- gorilla/mux facts used by model/Router.v
func muxProbe() map[string]interface{} {
	mark := func(name string, log *[]string) mux.MiddlewareFunc {
		return func(next http.Handler) http.Handler {
			return http.HandlerFunc(func(w http.ResponseWriter, r *http.Request) { *log = append(*log, name); next.ServeHTTP(w, r) })
		}
	}
	var log []string
	h := func(w http.ResponseWriter, r *http.Request) { log = append(log, "handler"); w.WriteHeader(200) }
	root := mux.NewRouter()
	root.HandleFunc("/early", h).Methods("GET") // registered BEFORE any Use
	root.Use(mark("A", &log))
	root.Use(mark("B", &log))
	sub := root.PathPrefix("/sub").Subrouter()
	sub.Use(mark("S", &log))
	sub.HandleFunc("/x", h).Methods("GET")
	root.HandleFunc("/late", h).Methods("GET")
	fresh := mux.NewRouter()
	fresh.HandleFunc("/early", h).Methods("GET")
	run := func(r *mux.Router, method, path string) (int, string) {
		log = nil
		rec := httptest.NewRecorder()
		r.ServeHTTP(rec, httptest.NewRequest(method, path, nil))
		return rec.Code, strings.Join(log, ",")
	}
	out := map[string]interface{}{"kind": "muxprobe"}
	c, l := run(root, "GET", "/early")
	out["use_after_route"] = fmt.Sprintf("%d %s", c, l)
	c, l = run(root, "GET", "/late")
	out["use_before_route"] = fmt.Sprintf("%d %s", c, l)
	c, l = run(root, "GET", "/sub/x")
	out["subrouter"] = fmt.Sprintf("%d %s", c, l)
	c, l = run(root, "POST", "/early")
	out["method_mismatch"] = fmt.Sprintf("%d %s", c, l)
	c, l = run(root, "GET", "/nowhere")
	out["not_found"] = fmt.Sprintf("%d %s", c, l)
	c, l = run(fresh, "GET", "/early")
	out["fresh_router"] = fmt.Sprintf("%d %s", c, l)
	return out
}

// ---------------------------------------------------------------- the pass-through wrappers, alone
// model/Router.v treats AcceptEncoding, Cors and Logging as middlewares that call next exactly once whatever the request
// looks like (so that standing before BasicAuth they cannot answer in its place): measured here on the real functions.
func mwProbe() map[string]interface{} {
	type row struct {
		Mw      string `json:"mw"`
		Method  string `json:"method"`
		Headers string `json:"headers"`
		Status  int    `json:"status"`
		Want    int    `json:"want"`
		Next    int    `json:"next"`
	}
	mws := []struct {
		name string
		f    func(http.Handler) http.Handler
	}{
		{"AcceptEncoding", middleware.AcceptEncodingMiddleware},
		{"Cors(\"\")", middleware.CorsMiddleware("")},
		{"Cors(origin)", middleware.CorsMiddleware("https://grafana.example")},
		{"Logging", middleware.LoggingMiddleware("[{{.status}}] {{.method}} {{.url}} - LAT:{{.latency}}")},
	}
	hsets := []struct {
		name string
		h    map[string]string
	}{
		{"none", nil},
		{"gzip", map[string]string{"Accept-Encoding": "gzip"}},
		{"origin", map[string]string{"Origin": "http://elsewhere.example"}},
		{"preflight", map[string]string{"Origin": "http://elsewhere.example", "Access-Control-Request-Method": "POST", "Access-Control-Request-Headers": "authorization"}},
		{"preflight+gzip", map[string]string{"Origin": "http://elsewhere.example", "Access-Control-Request-Method": "GET", "Accept-Encoding": "gzip, deflate"}},
		{"acrm-only", map[string]string{"Access-Control-Request-Method": "GET"}},
		{"upgrade", map[string]string{"Connection": "Upgrade", "Upgrade": "websocket", "Sec-WebSocket-Version": "13", "Sec-WebSocket-Key": "dGhlIHNhbXBsZSBub25jZQ=="}},
	}
	var rows []row
	bad := 0
	n := 0
	for _, m := range mws {
		for _, method := range []string{"GET", "POST", "OPTIONS", "HEAD", "DELETE", "PUT", "PATCH", "CONNECT", "TRACE"} {
			for _, hs := range hsets {
				for _, st := range []int{200, 204, 401, 404, 500} {
					next := 0
					h := m.f(http.HandlerFunc(func(w http.ResponseWriter, r *http.Request) {
						next++
						w.WriteHeader(st)
						if st != 204 {
							w.Write([]byte("x"))
						}
					}))
					req := httptest.NewRequest(method, "http://qryn.test/ready", nil)
					for k, v := range hs.h {
						req.Header.Set(k, v)
					}
					rec := httptest.NewRecorder()
					hx.Catch(func() { h.ServeHTTP(rec, req) })
					n++
					if next != 1 || rec.Code != st {
						bad++
						if len(rows) < 12 {
							rows = append(rows, row{m.name, method, hs.name, rec.Code, st, next})
						}
					}
				}
			}
		}
	}
	return map[string]interface{}{"kind": "mwprobe", "n": n, "bad": bad, "rows": rows}
}

// BasicAuthMiddleware alone, across everything of a request that is NOT the Authorization header: method, path, other
// headers, query, remote address.  model/Auth.v decides on the Authorization value only; an exemption by path / method /
// address, or a second way to present credentials, shows up here as a request without the credentials reaching next.
func authProbe() map[string]interface{} {
	type row struct {
		Method  string `json:"method"`
		Path    string `json:"path"`
		Headers string `json:"headers"`
		Remote  string `json:"remote"`
		Class   string `json:"class"`
		Auth    string `json:"authorization"`
		Status  int    `json:"status"`
		Next    bool   `json:"next"`
	}
	login, pass := "admin", "s3cr:et"
	right := "Basic " + b64(login+":"+pass)
	hsets := []struct {
		name string
		h    map[string]string
	}{
		{"none", nil},
		{"preflight", map[string]string{"Origin": "http://elsewhere.example", "Access-Control-Request-Method": "POST", "Access-Control-Request-Headers": "authorization"}},
		{"upgrade", map[string]string{"Connection": "Upgrade", "Upgrade": "websocket", "Sec-WebSocket-Version": "13", "Sec-WebSocket-Key": "dGhlIHNhbXBsZSBub25jZQ=="}},
		{"forwarded-local", map[string]string{"X-Forwarded-For": "127.0.0.1", "X-Real-Ip": "127.0.0.1", "Forwarded": "for=127.0.0.1"}},
		{"proxy-authorization", map[string]string{"Proxy-Authorization": right, "X-Authorization": right, "X-Api-Key": pass, "X-Scope-Orgid": "1"}},
		{"cookie", map[string]string{"Cookie": "Authorization=" + b64(login+":"+pass) + "; token=" + pass + "; session=" + pass}},
		{"internal-agent", map[string]string{"User-Agent": "kube-probe/1.27", "X-Internal": "1", "X-Health-Check": "1"}},
	}
	paths := []string{"/ready", "/metrics", "/config", "/health", "/healthz", "/", "/favicon.ico", "/debug/pprof/", "/loki/api/v1/push", "/loki/api/v1/tail",
		"/api/status/buildinfo", "/ready?token=s3cr:et&password=s3cr:et&login=admin&access_token=" + b64(login+":"+pass), "/" + login + ":" + pass + "@/ready"}
	remotes := []string{"192.0.2.1:1234", "127.0.0.1:5555", "[::1]:4040"}
	auths := []struct {
		class string
		has   bool
		val   string
	}{{"absent", false, ""}, {"wrong-pass", true, "Basic " + b64(login+":"+pass+"x")}, {"right", true, right}}
	n, bad := 0, 0
	var rows []row
	for _, method := range []string{"GET", "POST", "OPTIONS", "HEAD", "DELETE", "PUT", "PATCH", "CONNECT", "TRACE", "PROPFIND"} {
		for _, p := range paths {
			for hi, hs := range hsets {
				for ri, rem := range remotes {
					if hi != 0 && ri != 0 && (hi+ri)%2 == 0 {
						continue
					}
					for _, au := range auths {
						next := false
						h := middleware.BasicAuthMiddleware(login, pass)(http.HandlerFunc(func(w http.ResponseWriter, r *http.Request) {
							next = true
							w.WriteHeader(299)
						}))
						req := httptest.NewRequest(method, "http://qryn.test"+p, nil)
						req.RemoteAddr = rem
						for k, v := range hs.h {
							req.Header.Set(k, v)
						}
						if au.has {
							req.Header.Set("Authorization", au.val)
						}
						rec := httptest.NewRecorder()
						hx.Catch(func() { h.ServeHTTP(rec, req) })
						n++
						want := au.class == "right"
						okStatus := want || rec.Code == 401
						if next != want || !okStatus {
							bad++
							if len(rows) < 8 {
								rows = append(rows, row{method, p, hs.name, rem, au.class, au.val, rec.Code, next})
							}
						}
					}
				}
			}
		}
	}
	return map[string]interface{}{"kind": "authprobe", "n": n, "bad": bad, "rows": rows, "login": login, "pass": pass}
}

// gorilla/mux path cleaning alone: an empty router answers 301 exactly when cleanPath(path) != path, otherwise 404.
// model/Router.v transcribes "cleanPath(p) == p" as path_clean; compared inside Coq on these strings.
func pathProbe(seed int64) map[string]interface{} {
	type row struct {
		Path     string `json:"path"` // hex
		Redirect bool   `json:"redirect"`
		Location string `json:"location,omitempty"`
	}
	r := mux.NewRouter()
	rq := hx.Rand(seed + 4242)
	const alpha = "//..ab-"
	seen := map[string]bool{}
	var rows []row
	try := func(p string) {
		if seen[p] {
			return
		}
		seen[p] = true
		req := httptest.NewRequest("GET", "http://qryn.test"+p, nil)
		rec := httptest.NewRecorder()
		r.ServeHTTP(rec, req)
		rows = append(rows, row{hx.Hex(p), rec.Code == 301, rec.Header().Get("Location")})
	}
	for _, p := range []string{"", "/", "//", "/.", "/..", "/a", "/a/", "/a//", "/a/.", "/a/..", "/a/./b", "/a/../b", "/.a", "/a.", "/..a", "/a..", "/...", "/a/...", "/./", "/../", "/a/b/", "/a/b/../", "/-"} {
		try(p)
	}
	for i := 0; i < 1500; i++ {
		n := 1 + rq.Intn(11)
		b := make([]byte, n)
		for j := range b {
			b[j] = alpha[rq.Intn(len(alpha))]
		}
		b[0] = '/'
		try(string(b))
	}
	return map[string]interface{}{"kind": "pathprobe", "rows": rows}
}

// http.DefaultServeMux of THIS process: the harness links the repository's packages (ctrl, reader, writer, view, shared), so
// whatever their imports register on the default mux (net/http/pprof, expvar, http.Handle in an init) is registered here too.
// The translator's census proves that nothing serves the default mux; if something does, these are the paths it exposes.
func defaultMuxProbe(patterns []string) map[string]interface{} {
	paths := []string{"/debug/pprof/", "/debug/pprof/cmdline", "/debug/vars", "/metrics", "/ready"}
	for _, p := range patterns {
		if p != "" && p != "/" {
			paths = append(paths, concrete(p))
		}
	}
	res := map[string]int{}
	for _, p := range paths {
		rec := httptest.NewRecorder()
		req := httptest.NewRequest("GET", "http://qryn.test"+p, nil)
		hx.Catch(func() { http.DefaultServeMux.ServeHTTP(rec, req) })
		res[p] = rec.Code
	}
	return map[string]interface{}{"kind": "defaultmux", "status": res}
}

// ---------------------------------------------------------------- main
func main() {
	asmPath := flag.String("assembly", "", ".build/gen/GenRoutes.json")
	replay := flag.String("replay", "", "re-run the case lines of this file (kind case / auth) against the real code")
	fullProduct := flag.Bool("full", false, "every Authorization class x all four Accept-Encoding/Origin combinations on every route (default: all four for the key classes, one rotating combination for the others)")
	f := hx.ParseFlags()
	out := hx.OpenOut(f.Out)
	defer out.Close()
	rlogger.Logger.SetOutput(io.Discard)
	wlogger.Logger.SetOutput(io.Discard)

	raw, err := os.ReadFile(*asmPath)
	if err != nil {
		fmt.Fprintln(os.Stderr, "assembly:", err)
		os.Exit(2)
	}
	var asm Assembly
	if err := json.Unmarshal(raw, &asm); err != nil {
		fmt.Fprintln(os.Stderr, "assembly:", err)
		os.Exit(2)
	}
	cfg := clconfig.New(clconfig.CLOKI_READER, nil, "", "")
	rconfig.Cloki = cfg
	wconfig.Cloki = cfg
	wctrl.Registry = fakeSvcRegistry{}

	configs := []Config{
		{Name: "all+cors/A", Login: "admin", Pass: "s3cr:et", Cors: true, Origin: "https://grafana.example", Mode: "all", Tier: "rich"},
		{Name: "all/B", Login: "user", Pass: "pass", Cors: false, Mode: "all", Tier: "rich"},
		{Name: "writer/B", Login: "user", Pass: "pass", Cors: false, Mode: "writer", Tier: "rich"},
		{Name: "reader+cors/A", Login: "admin", Pass: "s3cr:et", Cors: true, Origin: "", Mode: "reader", Tier: "rich"},
	}
	if _, unknown := envOf(&asm, configs[0]); len(unknown) > 0 {
		configs = append(configs, Config{Name: "all/B+unknown-atoms-true", Login: "user", Pass: "pass", Mode: "all", Unknown: true, Tier: "rich"})
	}
	// every valuation of the condition atoms that a configuration can realise: every Mode literal of the sources plus ""
	// and a mode no literal mentions, CORS off / on with an empty origin / on with an origin
	modes := map[string]bool{"": true, "no-such-mode": true}
	for _, at := range asm.Atoms {
		if strings.HasPrefix(at.Kind, "mode_eq:") {
			modes[strings.TrimPrefix(at.Kind, "mode_eq:")] = true
		}
	}
	var modeList []string
	for m := range modes {
		modeList = append(modeList, m)
	}
	sort.Strings(modeList)
	for _, m := range modeList {
		for ck := 0; ck < 3; ck++ {
			c := Config{Name: fmt.Sprintf("enum/mode=%q/cors=%s", m, []string{"off", "on-empty-origin", "on-origin"}[ck]), Login: "user", Pass: "pass",
				Mode: m, Cors: ck > 0, Tier: "enum"}
			if ck == 2 {
				c.Origin = "https://grafana.example"
			}
			configs = append(configs, c)
		}
	}
	// a valuation main() cannot realise (reader.Init is always handed the router), interpreted all the same
	configs = append(configs, Config{Name: "enum/mode=\"all\"/cors=on-origin/ownHttpServer", Login: "user", Pass: "pass", Mode: "all", Cors: true,
		Origin: "https://grafana.example", OwnHTTP: true, Tier: "enum"})
	// credential edge cases: a login containing ':' (locks everybody out), and the configurations in which main() does
	// NOT install BasicAuth because one of the two is empty (the property's premise is not met)
	configs = append(configs,
		Config{Name: "colon-login", Login: "us:er", Pass: "pass", Mode: "all", Tier: "enum"},
		Config{Name: "open/login-without-password", Login: "user", Pass: "", Mode: "all", Tier: "open"},
		Config{Name: "open/password-without-login", Login: "", Pass: "pass", Mode: "all", Cors: true, Tier: "open"},
		Config{Name: "open/neither", Login: "", Pass: "", Mode: "all", Tier: "open"})
	rnd := hx.Rand(f.Seed)
	id := 0

	if *replay != "" {
		runReplay(*replay, &asm, configs, cfg, out)
		return
	}
	out.Put(muxProbe())
	out.Put(mwProbe())
	out.Put(gzProbe(hx.Rand(f.Seed+78), 600))
	out.Put(authProbe())
	out.Put(pathProbe(f.Seed))
	out.Put(defaultMuxProbe(asm.DefaultMuxPatterns))

	for ci, c := range configs {
		env, unknown := envOf(&asm, c)
		b := build(&asm, c, env, cfg)
		served := map[int]bool{}
		for _, s := range b.served {
			served[s] = true
		}
		var roots []int
		for s := range served {
			roots = append(roots, s)
		}
		sort.Ints(roots)
		// Walk
		var walkedAll []RouteDesc
		walkedBy := map[int][]RouteDesc{}
		var rids []int
		for rid := range b.routers {
			rids = append(rids, rid)
		}
		sort.Ints(rids)
		for _, rid := range rids {
			// only root routers are walked (Walk descends into sub-routers)
			isSub := false
			for _, op := range asm.Ops {
				if op.Op == "subrouter" && op.Router == rid && op.Cond.eval(env) {
					isSub = true
				}
			}
			if isSub {
				continue
			}
			w := instrument(b.routers[rid])
			for i := range w {
				w[i].Router = rid
			}
			walkedBy[rid] = w
			walkedAll = append(walkedAll, w...)
		}
		envInts := make([]bool, len(env))
		copy(envInts, env)
		out.Put(map[string]interface{}{"kind": "walk", "cfg": c.Name, "config": c, "env": envInts, "unknown_atoms": unknown,
			"expected": b.expected, "walked": walkedAll, "served": roots, "problems": b.problems, "fallback": b.fallback,
			"have_static": view.HaveStatic})

		classes := headerClasses(c.Login, c.Pass)
		byName := map[string]hclass{}
		for _, hc := range classes {
			byName[hc.name] = hc
		}
		light := []string{"absent", "bearer", "malformed-b64", "wrong-pass", "trailing-garbage", "right"}
		if c.Tier != "rich" {
			light = []string{"absent", "wrong-pass", "right"}
		}
		isLight := map[string]bool{}
		for _, l := range light {
			isLight[l] = true
		}
		isKey := map[string]bool{}
		for _, l := range []string{"absent", "bearer", "malformed-b64", "wrong-user", "wrong-pass", "prefix-of-right", "extra-colon-field",
			"trailing-garbage", "right-then-newline", "right"} {
			isKey[l] = true
		}
		statuses := []int{200, 204, 201, 404, 500, 302}
		for _, root := range roots {
			r := b.routers[root]
			if r == nil {
				continue
			}
			type target struct {
				method, path, rclass string
			}
			var targets []target
			seen := map[string]bool{}
			add := func(m, p, rc string) {
				k := m + " " + p
				if !seen[k] {
					seen[k] = true
					targets = append(targets, target{m, p, rc})
				}
			}
			for _, d := range walkedBy[root] {
				p := concrete(d.Tpl)
				ms := d.Methods
				if len(ms) == 0 {
					ms = []string{"GET"}
				}
				for _, m := range ms {
					add(m, p, "route")
				}
			}
			nRoute := len(targets)
			for _, d := range walkedBy[root] {
				p := concrete(d.Tpl)
				add("DELETE", p, "other-method")
				if ci == 0 {
					// HEAD is not implied by GET in gorilla/mux; method names are compared exactly (case-sensitive)
					add("HEAD", p, "other-method")
					add("get", p, "other-method")
					add("PROPFIND", p, "other-method")
				}
				if c.Tier == "rich" {
					add("GET", p+"/", "trailing-slash")
				}
			}
			add("GET", "/", "unrouted")
			add("GET", "/no/such/route", "unrouted")
			add("POST", "/no/such/route", "unrouted")
			add("GET", "/ready/extra", "unrouted")
			add("GET", "/loki", "unrouted")
			// paths that are not in canonical form: gorilla/mux answers 301 (cleanPath) before matching anything
			for _, up := range []string{"//ready", "/ready/../ready", "/./ready", "/ready/.", "/..", "/ready//", "/loki/api/v1/../v1/labels", "/metrics/../ready", "//"} {
				add("GET", up, "unclean-path")
			}
			add("POST", "/loki//api/v1/push", "unclean-path")
			add("OPTIONS", "//ready", "unclean-path")
			k := 0
			emit := func(kind, class, rclass string, q Req) {
				id++
				out.Put(Case{Kind: kind, ID: id, Cfg: c.Name, Root: root, Class: class, RClass: rclass, Req: q, Obs: do(r, q)})
			}
			for _, t := range targets {
				for _, hc := range classes {
					main := ci == 0 && t.rclass == "route"
					if !main && !isLight[hc.name] {
						continue
					}
					if c.Tier != "rich" && t.rclass != "route" && hc.name != "absent" {
						continue
					}
					all4 := main && (*fullProduct || isKey[hc.name])
					one := k % 4
					for combo := 0; combo < 4; combo++ {
						if !all4 && combo != one {
							continue
						}
						q := Req{Method: t.method, Path: t.path, HasAuth: hc.has, Auth: hx.Hex(hc.val), Gzip: combo&1 == 1, Origin: combo&2 == 2,
							HStatus: statuses[k%len(statuses)]}
						k++
						emit("case", hc.name, t.rclass, q)
					}
				}
			}
			// CORS pre-flight: (1) OPTIONS + Origin + Access-Control-Request-Method on every walked route, without and with
			// credentials; (2) the pre-flight headers on the route's own method (a CORS layer that recognises a pre-flight
			// by the header alone must not answer before BasicAuth either); (3) OPTIONS on unrouted paths
			for ti, t := range targets {
				if ti >= nRoute && t.rclass != "unrouted" {
					continue
				}
				pf := []struct{ method, hn, rc string }{
					{"OPTIONS", "absent", "preflight-options"},
					{t.method, "absent", "preflight-header"},
				}
				if c.Tier == "rich" {
					pf = append(pf, []struct{ method, hn, rc string }{
						{"OPTIONS", "right", "preflight-options"}, {"OPTIONS", "wrong-pass", "preflight-options"},
						{t.method, "wrong-pass", "preflight-header"}, {t.method, "right", "preflight-header"}}...)
				}
				for _, x := range pf {
					hc := byName[x.hn]
					q := Req{Method: x.method, Path: t.path, HasAuth: hc.has, Auth: hx.Hex(hc.val), Gzip: k%2 == 1, Preflight: t.method,
						HStatus: statuses[k%len(statuses)]}
					k++
					emit("case", hc.name, x.rc, q)
				}
			}
			// random paths over a small alphabet (segments "", ".", "..", route words): is the path in canonical form (301 or not)?
			if c.Name == "all/B" {
				words := []string{"", "", ".", "..", "ready", "loki", "api", "v1", "labels", "a", "...", ".a", "push"}
				rq := hx.Rand(f.Seed + 77)
				seenP := map[string]bool{}
				for i := 0; i < 400; i++ {
					var sb strings.Builder
					for j, n := 0, 1+rq.Intn(5); j < n; j++ {
						sb.WriteString("/")
						sb.WriteString(words[rq.Intn(len(words))])
					}
					p := sb.String()
					if seenP[p] {
						continue
					}
					seenP[p] = true
					hc := byName[[]string{"absent", "absent", "wrong-pass", "right"}[rq.Intn(4)]]
					q := Req{Method: []string{"GET", "GET", "POST", "OPTIONS"}[rq.Intn(4)], Path: p, HasAuth: hc.has, Auth: hx.Hex(hc.val), Gzip: rq.Intn(2) == 0, HStatus: statuses[k%len(statuses)]}
					k++
					emit("case", hc.name, "random-path", q)
				}
			}
			// two Authorization header lines: the decision is taken on the FIRST (Header.Get); a right second line does not help
			if c.Tier == "rich" {
				for ti, t := range targets {
					if ti >= nRoute || ti%7 != 0 {
						continue
					}
					for _, pr := range [][2]string{{"wrong-pass", "right"}, {"right", "wrong-pass"}, {"bearer", "right"}, {"present-empty", "right"}} {
						h1, h2 := byName[pr[0]], byName[pr[1]]
						q := Req{Method: t.method, Path: t.path, HasAuth: true, Auth: hx.Hex(h1.val), Auth2: hx.Hex(h2.val), Gzip: k%2 == 0, HStatus: statuses[k%len(statuses)]}
						k++
						emit("case", pr[0], "two-authorization-headers:"+pr[0]+"+"+pr[1], q)
					}
				}
			}
			// websocket handshakes on the tail routes (real TCP connection; the instrumented handler hijacks and answers 101)
			if c.Tier == "rich" || c.Tier == "open" {
				for ti, t := range targets {
					if ti >= nRoute || t.method != "GET" || !strings.HasSuffix(t.path, "/tail") {
						continue
					}
					for _, hn := range []string{"absent", "wrong-pass", "trailing-garbage", "bearer", "right"} {
						hc := byName[hn]
						for gz := 0; gz < 2; gz++ {
							q := Req{Method: "GET", Path: t.path, HasAuth: hc.has, Auth: hx.Hex(hc.val), Gzip: gz == 1, Origin: gz == 1, Upgrade: true, HStatus: 101}
							emit("case", hc.name, "ws-handshake", q)
						}
					}
					if ci == 0 {
						for _, hn := range []string{"absent", "wrong-pass", "trailing-garbage", "right"} {
							hc := byName[hn]
							q := Req{Method: "GET", Path: t.path, Query: "query=%7Bjob%3D%22x%22%7D", HasAuth: hc.has, Auth: hx.Hex(hc.val), Upgrade: true, Exec: true}
							emit("exec", hc.name, "exec-ws", q)
						}
					}
				}
			}
			if c.Tier != "rich" {
				continue
			}
			// random header byte strings on a rotating route
			var routeTargets []target
			for _, t := range targets {
				if t.rclass == "route" {
					routeTargets = append(routeTargets, t)
				}
			}
			nr := f.N
			if ci != 0 {
				nr = f.N / 10
			}
			for i := 0; i < nr && len(routeTargets) > 0; i++ {
				t := routeTargets[rnd.Intn(len(routeTargets))]
				hc := randomHeader(rnd, c.Login, c.Pass)
				q := Req{Method: t.method, Path: t.path, HasAuth: true, Auth: hx.Hex(hc.val), Gzip: rnd.Intn(2) == 0, Origin: rnd.Intn(2) == 0,
					HStatus: statuses[rnd.Intn(len(statuses))]}
				if rnd.Intn(8) == 0 {
					q.Preflight = t.method
				}
				emit("case", hc.name, "route", q)
			}
			// positive control of the back-end log: the REAL handlers, reached with and without the credentials
			if ci == 0 {
				for _, t := range []target{{"GET", "/loki/api/v1/labels", "exec"}, {"POST", "/loki/api/v1/push", "exec"}, {"GET", "/ready", "exec"},
					{"GET", "/api/v1/labels", "exec"}, {"POST", "/v1/traces", "exec"}} {
					for _, hn := range []string{"absent", "wrong-pass", "trailing-garbage", "right"} {
						hc := byName[hn]
						q := Req{Method: t.method, Path: t.path, HasAuth: hc.has, Auth: hx.Hex(hc.val), HStatus: 0, Exec: true}
						emit("exec", hc.name, "exec", q)
					}
				}
			}
		}
	}

	// the middleware alone
	for ci, cr := range [][2]string{{"admin", "s3cr:et"}, {"user", "pass"}, {"a", "b"}, {"us:er", "pass"}, {"user", ""}, {"", "pass"}, {"", ""}} {
		login, pass := cr[0], cr[1]
		hs := headerClasses(login, pass)
		nr := f.N
		if ci >= 4 {
			nr = f.N / 3
		}
		for i := 0; i < nr; i++ {
			hs = append(hs, randomHeader(rnd, login, pass))
		}
		for _, hc := range hs {
			id++
			out.Put(authCase(id, login, pass, hc))
		}
	}
}

type AuthCase struct {
	Kind    string `json:"kind"`
	ID      int    `json:"id"`
	Login   string `json:"login"`
	Pass    string `json:"pass"`
	Class   string `json:"class"`
	HasAuth bool   `json:"has_auth"`
	Auth    string `json:"auth"` // hex
	Status  int    `json:"status"`
	Next    bool   `json:"next"`
	WWW     bool   `json:"www"`
	Payload string `json:"payload"` // hex: DecodeString of what follows the first space (its returned bytes)
	DecOK   bool   `json:"dec_ok"`
}

func authCase(id int, login, pass string, hc hclass) AuthCase {
	next := false
	h := middleware.BasicAuthMiddleware(login, pass)(http.HandlerFunc(func(w http.ResponseWriter, r *http.Request) {
		next = true
		w.WriteHeader(299)
	}))
	req := httptest.NewRequest("GET", "http://qryn.test/x", nil)
	if hc.has {
		req.Header["Authorization"] = []string{hc.val}
	}
	rec := httptest.NewRecorder()
	h.ServeHTTP(rec, req)
	ac := AuthCase{Kind: "auth", ID: id, Login: login, Pass: pass, Class: hc.name, HasAuth: hc.has, Auth: hx.Hex(hc.val),
		Status: rec.Code, Next: next, WWW: rec.Header().Get("WWW-Authenticate") != ""}
	if i := strings.IndexByte(hc.val, ' '); i >= 0 {
		p, err := base64.StdEncoding.DecodeString(hc.val[i+1:])
		ac.Payload = hx.Hex(string(p))
		ac.DecOK = err == nil
	}
	return ac
}

func runReplay(path string, asm *Assembly, configs []Config, cfg *clconfig.ClokiConfig, out *hx.Out) {
	routers := map[string]*mux.Router{}
	hx.ReadLines(path, func(line []byte) {
		var k struct {
			Kind string `json:"kind"`
		}
		json.Unmarshal(line, &k)
		switch k.Kind {
		case "auth":
			var a AuthCase
			json.Unmarshal(line, &a)
			out.Put(authCase(a.ID, a.Login, a.Pass, hclass{a.Class, a.HasAuth, hx.UnHex(a.Auth)}))
		case "case", "exec":
			var c Case
			json.Unmarshal(line, &c)
			key := fmt.Sprintf("%s#%d", c.Cfg, c.Root)
			r := routers[key]
			if r == nil {
				for _, cf := range configs {
					if cf.Name == c.Cfg {
						env, _ := envOf(asm, cf)
						b := build(asm, cf, env, cfg)
						if rr := b.routers[c.Root]; rr != nil {
							r = rr
							instrument(r)
							routers[key] = r
						}
					}
				}
			}
			if r != nil {
				c.Obs = do(r, c.Req)
				out.Put(c)
			}
		}
	})
}
